#!/bin/bash
# Offline setup: warm the Go build cache for the harness (everything is rebuilt from /repo by ./check anyway).
export GOFLAGS=-mod=mod GOPROXY=off GOSUMDB=off GOTOOLCHAIN=local CGO_ENABLED=1
cd "$(dirname "$0")/h" || exit 1

go build -tags verif -o /dev/null ./checks/... 2>&1 | tail -5
exit 0
