// Package refrlp is a deliberately boring, strict reference implementation of
// RLP used as the oracle of check C08.  It knows nothing about the repository's
// rlp package.  Three parts:
//
//   - Item: the value AST (byte string | list of items), canonical encoder,
//     strict parser (exactly one canonical item, nothing else);
//   - Schema: a tiny description of typed decode targets (uint of n bits, big
//     integer, bool, byte string, fixed byte array, list-of, array-of, struct with
//     optional "nil"-tagged pointer fields and an optional tail) with a strict
//     acceptor over raw bytes which reports a *reason* for every rejection;
//   - FromGo: Go value -> Item by plain reflection (the encoding rules of the
//     property statement), used to cross-check the encoder.
package refrlp

import (
	"bytes"
	"fmt"
	"math/big"
	"reflect"
	"strings"
)

// ---------------------------------------------------------------- items

type Item struct {
	IsList bool
	Str    []byte
	Elems  []*Item
}

func S(b []byte) *Item       { return &Item{Str: append([]byte{}, b...)} }
func L(e ...*Item) *Item     { return &Item{IsList: true, Elems: e} }
func U(v uint64) *Item       { return S(minBE(v)) }
func B(v *big.Int) *Item     { return S(v.Bytes()) }
func (it *Item) Len() int    { return len(it.Elems) }
func (it *Item) IsStr() bool { return !it.IsList }

func minBE(v uint64) []byte {
	var out []byte
	for v > 0 {
		out = append([]byte{byte(v)}, out...)
		v >>= 8
	}
	return out
}

// Head returns the canonical header for a payload of n bytes.
func Head(list bool, n uint64) []byte {
	base := byte(0x80)
	if list {
		base = 0xC0
	}
	if n < 56 {
		return []byte{base + byte(n)}
	}
	be := minBE(n)
	return append([]byte{base + 55 + byte(len(be))}, be...)
}

// Encode returns the canonical encoding.
func (it *Item) Encode() []byte {
	if !it.IsList {
		if len(it.Str) == 1 && it.Str[0] < 0x80 {
			return []byte{it.Str[0]}
		}
		return append(Head(false, uint64(len(it.Str))), it.Str...)
	}
	var body []byte
	for _, e := range it.Elems {
		body = append(body, e.Encode()...)
	}
	return append(Head(true, uint64(len(body))), body...)
}

func (it *Item) Equal(o *Item) bool {
	if it == nil || o == nil {
		return it == o
	}
	if it.IsList != o.IsList {
		return false
	}
	if !it.IsList {
		return bytes.Equal(it.Str, o.Str)
	}
	if len(it.Elems) != len(o.Elems) {
		return false
	}
	for i := range it.Elems {
		if !it.Elems[i].Equal(o.Elems[i]) {
			return false
		}
	}
	return true
}

func (it *Item) String() string {
	if it == nil {
		return "<nil>"
	}
	if !it.IsList {
		return fmt.Sprintf("%x", it.Str) + "'"
	}
	var p []string
	for _, e := range it.Elems {
		p = append(p, e.String())
	}
	return "[" + strings.Join(p, " ") + "]"
}

// ---------------------------------------------------------------- strict header

// Rejection reasons (also used as signature suffixes by the check).
const (
	RTruncated      = "truncated"         // header or content longer than what is there
	RTrailing       = "trailing-bytes"    // bytes after the single top-level value
	RSizeLeadZero   = "size-leading-zero" // long-form length with a leading zero byte
	RSizeSmall      = "long-form-size-below-56"
	RSingleByte     = "single-byte-prefixed" // 0x81 xx with xx < 0x80
	RElemTooLarge   = "element-exceeds-list"
	RExpectedString = "expected-string"
	RExpectedList   = "expected-list"
	RIntLeadZero    = "integer-leading-zero"
	RUintOverflow   = "uint-overflow"
	RBoolValue      = "bool-value"
	RArrayLen       = "byte-array-length"
	RTooFew         = "too-few-elements"
	RTooMany        = "too-many-elements"
	RNilWrongKind   = "nil-tag-wrong-kind"
)

// Header strictly parses the header of the first value in b.
// For a single byte < 0x80: hdr=0, size=1, single=true.
// outer=true reports "does not fit" as truncated, otherwise as element-exceeds-list.
// checkSingle enforces the 0x81 xx (xx<0x80) rule (needs the content byte to be present).
func Header(b []byte, outer, checkSingle bool) (list bool, hdr, size uint64, single bool, reason string) {
	tooBig := RElemTooLarge
	if outer {
		tooBig = RTruncated
	}
	if len(b) == 0 {
		return false, 0, 0, false, tooBig
	}
	t := b[0]
	switch {
	case t < 0x80:
		return false, 0, 1, true, ""
	case t < 0xB8:
		hdr, size = 1, uint64(t-0x80)
	case t < 0xC0:
		hdr = 1 + uint64(t-0xB7)
	case t < 0xF8:
		list, hdr, size = true, 1, uint64(t-0xC0)
	default:
		list, hdr = true, 1+uint64(t-0xF7)
	}
	if hdr > 1 {
		if uint64(len(b)) < hdr {
			return list, 0, 0, false, tooBig
		}
		if b[1] == 0 {
			return list, 0, 0, false, RSizeLeadZero
		}
		for _, x := range b[1:hdr] {
			size = size<<8 | uint64(x)
		}
		if size < 56 {
			return list, 0, 0, false, RSizeSmall
		}
	}
	if size > uint64(len(b))-hdr {
		return list, 0, 0, false, tooBig
	}
	if checkSingle && !list && size == 1 && b[hdr] < 0x80 {
		return list, 0, 0, false, RSingleByte
	}
	return list, hdr, size, false, ""
}

// Parse strictly parses b as exactly one canonical item.
func Parse(b []byte) (*Item, string) {
	it, rest, r := parseOne(b, true)
	if r != "" {
		return nil, r
	}
	if len(rest) > 0 {
		return nil, RTrailing
	}
	return it, ""
}

func parseOne(b []byte, outer bool) (*Item, []byte, string) {
	list, hdr, size, _, r := Header(b, outer, true)
	if r != "" {
		return nil, nil, r
	}
	content, rest := b[hdr:hdr+size], b[hdr+size:]
	if !list {
		return S(content), rest, ""
	}
	it := L()
	for len(content) > 0 {
		e, c2, r := parseOne(content, false)
		if r != "" {
			return nil, nil, r
		}
		it.Elems = append(it.Elems, e)
		content = c2
	}
	return it, rest, ""
}

// CountValues counts the header-wise well-formed values laid end to end in b
// (contents of lists are not inspected).
func CountValues(b []byte) (int, string) {
	n := 0
	for len(b) > 0 {
		_, hdr, size, _, r := Header(b, true, true)
		if r != "" {
			return 0, r
		}
		b = b[hdr+size:]
		n++
	}
	return n, ""
}

// ---------------------------------------------------------------- schemas

type SKind int

const (
	KUint SKind = iota
	KBigInt
	KBool
	KBytes // []byte and string
	KByteArray
	KList   // slice of Elem
	KArray  // [N]Elem, Elem not byte
	KStruct // Fields (+ Tail element schema)
	KOptPtr // "nil"-tagged pointer to Elem
	KPtr    // plain pointer to Elem
	KRaw    // RawValue: header well-formed, content not inspected
	KAny    // interface{}: any canonical item
)

type Schema struct {
	Kind   SKind
	Bits   int
	N      int
	Elem   *Schema
	Fields []*Schema
	Tail   *Schema
}

func Uint(bits int) *Schema            { return &Schema{Kind: KUint, Bits: bits} }
func BigInt() *Schema                  { return &Schema{Kind: KBigInt} }
func Bool() *Schema                    { return &Schema{Kind: KBool} }
func Bytes() *Schema                   { return &Schema{Kind: KBytes} }
func ByteArray(n int) *Schema          { return &Schema{Kind: KByteArray, N: n} }
func ListOf(e *Schema) *Schema         { return &Schema{Kind: KList, Elem: e} }
func ArrayOf(n int, e *Schema) *Schema { return &Schema{Kind: KArray, N: n, Elem: e} }
func Struct(f ...*Schema) *Schema      { return &Schema{Kind: KStruct, Fields: f} }
func StructTail(tail *Schema, f ...*Schema) *Schema {
	return &Schema{Kind: KStruct, Fields: f, Tail: tail}
}
func OptPtr(e *Schema) *Schema { return &Schema{Kind: KOptPtr, Elem: e} }
func Ptr(e *Schema) *Schema    { return &Schema{Kind: KPtr, Elem: e} }
func Raw() *Schema             { return &Schema{Kind: KRaw} }
func Any() *Schema             { return &Schema{Kind: KAny} }

func (s *Schema) listKind() bool {
	switch s.Kind {
	case KList, KArray, KStruct:
		return true
	case KPtr:
		return s.Elem.listKind()
	}
	return false
}

// Accept strictly decides whether b is THE encoding of some value of the
// schema; "" = accepted, otherwise the reason of the (first) rejection.
func (s *Schema) Accept(b []byte) string {
	rest, r := s.match(b, true)
	if r != "" {
		return r
	}
	if len(rest) > 0 {
		return RTrailing
	}
	return ""
}

func (s *Schema) match(b []byte, outer bool) (rest []byte, reason string) {
	switch s.Kind {
	case KPtr:
		return s.Elem.match(b, outer)
	case KOptPtr:
		list, hdr, size, single, r := Header(b, outer, false)
		if r != "" {
			return nil, r
		}
		if size == 0 && !single {
			if list != s.Elem.listKind() {
				return nil, RNilWrongKind
			}
			return b[hdr:], ""
		}
		return s.Elem.match(b, outer)
	case KRaw:
		_, hdr, size, _, r := Header(b, outer, false)
		if r != "" {
			return nil, r
		}
		return b[hdr+size:], ""
	case KAny:
		_, rest, r := parseOne(b, outer)
		return rest, r
	}
	list, hdr, size, _, r := Header(b, outer, true)
	if r != "" {
		return nil, r
	}
	content, rest := b[hdr:hdr+size], b[hdr+size:]
	switch s.Kind {
	case KUint, KBigInt, KBool, KBytes, KByteArray:
		if list {
			return nil, RExpectedString
		}
	default:
		if !list {
			return nil, RExpectedList
		}
	}
	switch s.Kind {
	case KBytes:
	case KByteArray:
		if len(content) != s.N {
			return nil, RArrayLen
		}
	case KBigInt:
		if len(content) > 0 && content[0] == 0 {
			return nil, RIntLeadZero
		}
	case KUint, KBool:
		bits := s.Bits
		if s.Kind == KBool {
			bits = 8
		}
		if len(content) > bits/8 {
			return nil, RUintOverflow
		}
		if len(content) > 0 && content[0] == 0 {
			return nil, RIntLeadZero
		}
		if s.Kind == KBool && len(content) == 1 && content[0] != 1 {
			return nil, RBoolValue
		}
	case KList:
		for len(content) > 0 {
			c2, r := s.Elem.match(content, false)
			if r != "" {
				return nil, r
			}
			content = c2
		}
	case KArray:
		for i := 0; i < s.N; i++ {
			if len(content) == 0 {
				return nil, RTooFew
			}
			c2, r := s.Elem.match(content, false)
			if r != "" {
				return nil, r
			}
			content = c2
		}
		if len(content) > 0 {
			return nil, RTooMany
		}
	case KStruct:
		for _, f := range s.Fields {
			if len(content) == 0 {
				return nil, RTooFew
			}
			c2, r := f.match(content, false)
			if r != "" {
				return nil, r
			}
			content = c2
		}
		if s.Tail != nil {
			for len(content) > 0 {
				c2, r := s.Tail.match(content, false)
				if r != "" {
					return nil, r
				}
				content = c2
			}
		}
		if len(content) > 0 {
			return nil, RTooMany
		}
	}
	return rest, ""
}

// ---------------------------------------------------------------- Go value -> Item

var bigIntType = reflect.TypeOf(big.Int{})

// FromGo converts a Go value to its Item following the plain encoding rules:
// unsigned integers and big integers = minimal big-endian byte string, bool =
// ""/0x01, byte slices / byte arrays / strings = byte string, other slices /
// arrays / structs = list (exported fields in order, `rlp:"-"` skipped, a
// `rlp:"tail"` slice spliced into the parent list), nil pointer = the empty value
// of the element's kind, interface = contained value.  Types it does not model
// (custom encoders, raw values) yield ok=false.
func FromGo(v interface{}) (it *Item, ok bool) {
	defer func() {
		if recover() != nil {
			it, ok = nil, false
		}
	}()
	return fromGo(reflect.ValueOf(v)), true
}

type unsupported struct{}

func fromGo(v reflect.Value) *Item {
	t := v.Type()
	if t == bigIntType {
		x := v.Interface().(big.Int)
		if x.Sign() < 0 {
			panic(unsupported{})
		}
		return B(&x)
	}
	if t.Name() == "RawValue" {
		panic(unsupported{})
	}
	if _, has := reflect.PtrTo(t).MethodByName("EncodeRLP"); has {
		panic(unsupported{})
	}
	switch t.Kind() {
	case reflect.Uint, reflect.Uint8, reflect.Uint16, reflect.Uint32, reflect.Uint64, reflect.Uintptr:
		return U(v.Uint())
	case reflect.Bool:
		if v.Bool() {
			return S([]byte{1})
		}
		return S(nil)
	case reflect.String:
		return S([]byte(v.String()))
	case reflect.Slice, reflect.Array:
		if t.Elem().Kind() == reflect.Uint8 {
			b := make([]byte, v.Len())
			for i := range b {
				b[i] = byte(v.Index(i).Uint())
			}
			return S(b)
		}
		it := L()
		for i := 0; i < v.Len(); i++ {
			it.Elems = append(it.Elems, fromGo(v.Index(i)))
		}
		return it
	case reflect.Struct:
		it := L()
		for i := 0; i < t.NumField(); i++ {
			f := t.Field(i)
			if f.PkgPath != "" {
				continue
			}
			tag := f.Tag.Get("rlp")
			if tag == "-" {
				continue
			}
			if tag == "tail" {
				fv := v.Field(i)
				for j := 0; j < fv.Len(); j++ {
					it.Elems = append(it.Elems, fromGo(fv.Index(j)))
				}
				continue
			}
			it.Elems = append(it.Elems, fromGo(v.Field(i)))
		}
		return it
	case reflect.Ptr:
		if v.IsNil() {
			et := t.Elem()
			switch {
			case et == bigIntType:
				return S(nil)
			case et.Kind() == reflect.Array && et.Elem().Kind() == reflect.Uint8:
				return S(nil)
			case et.Kind() == reflect.Struct || et.Kind() == reflect.Array:
				return L()
			default:
				return fromGo(reflect.Zero(et))
			}
		}
		return fromGo(v.Elem())
	case reflect.Interface:
		if v.IsNil() {
			panic(unsupported{})
		}
		return fromGo(v.Elem())
	}
	panic(unsupported{})
}

// EqualGo compares two Go values structurally: nil and empty slices are equal,
// big integers compare by value, pointers are followed (nil only equals nil),
// unexported struct fields are ignored.
func EqualGo(a, b interface{}) bool {
	return equalGo(reflect.ValueOf(a), reflect.ValueOf(b))
}

func equalGo(a, b reflect.Value) bool {
	if a.IsValid() != b.IsValid() {
		return false
	}
	if !a.IsValid() {
		return true
	}
	if a.Type() != b.Type() {
		return false
	}
	t := a.Type()
	if t == bigIntType {
		x, y := a.Interface().(big.Int), b.Interface().(big.Int)
		return x.Cmp(&y) == 0
	}
	switch t.Kind() {
	case reflect.Ptr, reflect.Interface:
		if a.IsNil() || b.IsNil() {
			return a.IsNil() == b.IsNil()
		}
		return equalGo(a.Elem(), b.Elem())
	case reflect.Slice, reflect.Array:
		if a.Len() != b.Len() {
			return false
		}
		for i := 0; i < a.Len(); i++ {
			if !equalGo(a.Index(i), b.Index(i)) {
				return false
			}
		}
		return true
	case reflect.Struct:
		for i := 0; i < t.NumField(); i++ {
			if t.Field(i).PkgPath != "" || t.Field(i).Tag.Get("rlp") == "-" {
				continue
			}
			if !equalGo(a.Field(i), b.Field(i)) {
				return false
			}
		}
		return true
	case reflect.Bool:
		return a.Bool() == b.Bool()
	case reflect.String:
		return a.String() == b.String()
	case reflect.Uint, reflect.Uint8, reflect.Uint16, reflect.Uint32, reflect.Uint64, reflect.Uintptr:
		return a.Uint() == b.Uint()
	}
	return false
}

// ---------------------------------------------------------------- dirty fillers and leaf diff

func repb(b byte, n int) []byte {
	out := make([]byte, n)
	for i := range out {
		out[i] = b
	}
	return out
}

// Dirty returns a value of the schema that leaves as much state as possible in a
// decode destination: maximal integers, non-empty strings, non-nil pointers, lists
// with several elements.  variant 0: widest values, 3-element lists; variant 1:
// other byte patterns, 5-element lists, a long (60-byte) string.
func (s *Schema) Dirty(variant int) *Item {
	switch s.Kind {
	case KUint:
		if variant == 0 {
			return S(repb(0xff, s.Bits/8))
		}
		return S([]byte{0x80})
	case KBigInt:
		if variant == 0 {
			return S(repb(0xff, 33))
		}
		return S([]byte{0x01, 0x00})
	case KBool:
		return S([]byte{1})
	case KBytes:
		if variant == 0 {
			return S([]byte{0xff, 0xfe, 0xfd})
		}
		return S(repb(0xab, 60))
	case KByteArray:
		if variant == 0 {
			return S(repb(0xff, s.N))
		}
		return S(repb(0x80, s.N))
	case KList:
		it := L()
		for i := 0; i < 3+2*variant; i++ {
			it.Elems = append(it.Elems, s.Elem.Dirty(variant))
		}
		return it
	case KArray:
		it := L()
		for i := 0; i < s.N; i++ {
			it.Elems = append(it.Elems, s.Elem.Dirty(variant))
		}
		return it
	case KStruct:
		it := L()
		for _, f := range s.Fields {
			it.Elems = append(it.Elems, f.Dirty(variant))
		}
		if s.Tail != nil {
			for i := 0; i < 2+2*variant; i++ {
				it.Elems = append(it.Elems, s.Tail.Dirty(variant))
			}
		}
		return it
	case KOptPtr, KPtr:
		return s.Elem.Dirty(variant)
	case KRaw:
		return L(S([]byte{1}), S([]byte{2, 3}))
	}
	return L(S([]byte{0xff, 0xff}), L(S([]byte{1}))) // KAny
}

// DiffLeaf walks two canonical encodings of values of the schema in parallel and
// names the kind of the first place where they differ ("" if they are equal or
// cannot be parsed).
func (s *Schema) DiffLeaf(a, b []byte) string {
	ia, ra := Parse(a)
	ib, rb := Parse(b)
	if ra != "" || rb != "" {
		if s.Kind == KRaw {
			return "raw"
		}
		return ""
	}
	return s.diff(ia, ib)
}

func (s *Schema) diff(a, b *Item) string {
	if a.Equal(b) {
		return ""
	}
	leaf := map[SKind]string{KUint: "uint", KBigInt: "bigint", KBool: "bool", KBytes: "bytes", KByteArray: "bytearray", KRaw: "raw", KAny: "any"}
	if n, ok := leaf[s.Kind]; ok {
		return n
	}
	if s.Kind == KOptPtr || s.Kind == KPtr {
		emptyA := (a.IsList && len(a.Elems) == 0) || (!a.IsList && len(a.Str) == 0)
		emptyB := (b.IsList && len(b.Elems) == 0) || (!b.IsList && len(b.Str) == 0)
		if emptyA != emptyB {
			return "nil-pointer"
		}
		return s.Elem.diff(a, b)
	}
	if !a.IsList || !b.IsList {
		return "shape"
	}
	switch s.Kind {
	case KList, KArray:
		if len(a.Elems) != len(b.Elems) {
			return "list-length"
		}
		for i := range a.Elems {
			if d := s.Elem.diff(a.Elems[i], b.Elems[i]); d != "" {
				return d
			}
		}
	case KStruct:
		for i, f := range s.Fields {
			if i >= len(a.Elems) || i >= len(b.Elems) {
				return "shape"
			}
			if d := f.diff(a.Elems[i], b.Elems[i]); d != "" {
				return d
			}
		}
		if len(a.Elems) != len(b.Elems) {
			return "list-length"
		}
		if s.Tail != nil {
			for i := len(s.Fields); i < len(a.Elems); i++ {
				if d := s.Tail.diff(a.Elems[i], b.Elems[i]); d != "" {
					return d
				}
			}
		}
	}
	return "shape"
}
