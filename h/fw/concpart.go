package fw

import (
	"bytes"
	"encoding/json"
	"fmt"
	"os"
	"os/exec"
	"strings"
	"time"
)

// ConcCase is the replay case of a schedule-dependence violation found by the companion
// binary (package verif/h/conc).
type ConcCase struct {
	ConcScenario string `json:"conc_scenario"`
	Choices      []int  `json:"choices"`
	Thread       int    `json:"thread"`
}

type concReport struct {
	Bound     int `json:"bound"`
	Scenarios []struct {
		Name       string `json:"name"`
		Executions int64  `json:"executions"`
		MaxPoints  int    `json:"max_points"`
		Steps      int64  `json:"steps"`
		Truncated  bool   `json:"truncated"`
		Divergence string `json:"divergence"`
		Unstable   string `json:"unstable"`
	} `json:"scenarios"`
	Mismatches []struct {
		Scenario string `json:"scenario"`
		Thread   int    `json:"thread"`
		Alone    string `json:"alone"`
		Got      string `json:"got"`
		Kind     string `json:"kind"`
		Schedule []int  `json:"schedule"`
		Choices  []int  `json:"choices"`
	} `json:"mismatches"`
}

func runConc(bin string, env []string, args ...string) (*concReport, string, int) {
	cmd := exec.Command(bin, args...)
	cmd.Env = append(os.Environ(), env...)
	var out, errb bytes.Buffer
	cmd.Stdout, cmd.Stderr = &out, &errb
	err := cmd.Run()
	code := 0
	if err != nil {
		code = -1
		if ee, ok := err.(*exec.ExitError); ok {
			code = ee.ExitCode()
		}
	}
	var rep concReport
	if json.Unmarshal(out.Bytes(), &rep) != nil {
		return nil, lastLines(errb.String(), 30), code
	}
	return &rep, errb.String(), code
}

// rle prints a schedule as runs: "0x120 1x300 0x50".
func rle(s []int) string {
	var b strings.Builder
	for i := 0; i < len(s); {
		j := i
		for j < len(s) && s[j] == s[i] {
			j++
		}
		if b.Len() > 0 {
			b.WriteByte(' ')
		}
		fmt.Fprintf(&b, "%dx%d", s[i], j-i)
		i = j
	}
	return b.String()
}

func (c *Ctx) concViolations(rep *concReport) {
	for _, m := range rep.Mismatches {
		what := "returned a different result"
		switch m.Kind {
		case "panic":
			what = "panicked"
		case "deadlock":
			what = "deadlocked"
		}
		c.Violation(fmt.Sprintf("%s:conc:%s-depends-on-schedule:%s", c.ID, m.Kind, m.Scenario), "schedules",
			fmt.Sprintf("scenario %s: thread %d %s when interleaved with the other thread(s) (schedule as thread x steps: %s)\n alone      : %s\n interleaved: %s",
				m.Scenario, m.Thread, what, rle(m.Schedule), m.Alone, m.Got),
			ConcCase{ConcScenario: m.Scenario, Choices: m.Choices, Thread: m.Thread})
	}
}

// ConcPart runs this worker's shard of the schedule exploration of the companion binary
// (VERIF_CONC_BIN, built by ./check from checks/<id>/conc with its own overlay): every
// schedule with <= 1 (quick) / <= 2 (thorough) preemptions; in the thorough tier worker 0 also
// runs the -race build free-running.
func (c *Ctx) ConcPart() {
	bin := os.Getenv("VERIF_CONC_BIN")
	if bin == "" {
		c.Infra("companion binary for the schedule part missing (VERIF_CONC_BIN)")
		return
	}
	bound := 1
	if c.Thorough() {
		bound = 2
	}
	// the companion gets at most 35% of what is left of the check's budget (it is called first)
	left := int(time.Until(c.Deadline).Seconds()*0.35) - 2
	if left < 5 {
		c.Cap("time budget: schedule part not run")
		return
	}
	rep, errs, code := runConc(bin, nil, "explore", fmt.Sprint(bound), fmt.Sprint(c.Shard), fmt.Sprint(c.NShards), fmt.Sprint(left))
	if rep == nil {
		c.Infra(fmt.Sprintf("schedule companion failed (exit %d): %s", code, errs))
		return
	}
	for _, s := range rep.Scenarios {
		c.Eval(s.Executions)
		c.Trace(s.Executions)
		c.Transition(s.Steps)
		c.Count("conc_schedules_explored", s.Executions)
		if c.Shard == 0 {
			c.Note("conc_"+s.Name, fmt.Sprintf("shard 0 of %d: schedules=%d scheduling_points=%d preemption_bound=%d", c.NShards, s.Executions, s.MaxPoints, bound))
			if s.Executions > 0 && s.MaxPoints < 4 && s.Unstable == "" {
				c.Infra("schedule part of " + s.Name + " is vacuous: fewer than 4 scheduling points (instrumentation missing?)")
			}
		}
		if s.Truncated || (s.Executions == 0 && s.Unstable == "") {
			c.Cap("time budget during schedule exploration of " + s.Name)
		}
		if s.Divergence != "" {
			c.Infra("schedule replay divergence in " + s.Name + ": " + s.Divergence)
		}
		if s.Unstable != "" && c.Shard == 0 {
			c.Violation(c.ID+":conc:not-deterministic-alone:"+s.Name, "schedules", "scenario "+s.Name+": "+s.Unstable, ConcCase{ConcScenario: s.Name})
		}
	}
	c.concViolations(rep)
	if rb := os.Getenv("VERIF_CONC_RACE_BIN"); rb != "" && c.Shard == 0 {
		rep, errs, code := runConc(rb, []string{"GORACE=halt_on_error=1 exitcode=66"}, "free", "20")
		switch {
		case code == 66:
			site := ""
			for _, l := range strings.Split(errs, "\n") {
				if strings.Contains(l, "/src/") && strings.Contains(l, ".go:") && !strings.Contains(l, "/verif/") {
					site = strings.TrimSpace(l)
					break
				}
			}
			c.Violation(c.ID+":conc:data-race", "race-pass", "free-running -race pass of the same thread bodies: the race detector reports an unsynchronised access at "+site+"\n"+lastLines(errs, 40), ConcCase{ConcScenario: "free"})
		case rep == nil:
			c.Infra(fmt.Sprintf("race companion failed (exit %d): %s", code, errs))
		default:
			var n int64
			for _, s := range rep.Scenarios {
				n += s.Executions
			}
			c.Count("conc_free_running_race_rounds", n)
			c.concViolations(rep)
		}
	}
}

// ConcReplay handles a replay case produced by ConcPart; it reports whether the case was one.
func (c *Ctx) ConcReplay(raw json.RawMessage) bool {
	var cs ConcCase
	if json.Unmarshal(raw, &cs) != nil || cs.ConcScenario == "" {
		return false
	}
	bin := os.Getenv("VERIF_CONC_BIN")
	if cs.ConcScenario == "free" {
		fmt.Println("the data-race report came from the free-running -race pass; re-run the thorough tier")
		return true
	}
	ch, _ := json.Marshal(cs.Choices)
	rep, errs, code := runConc(bin, nil, "replay", cs.ConcScenario, string(ch))
	if rep == nil {
		c.Infra(fmt.Sprintf("schedule companion failed (exit %d): %s", code, errs))
		return true
	}
	c.concViolations(rep)
	return true
}
