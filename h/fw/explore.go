package fw

import "fmt"

// E1: stateless depth-first exploration of choice sequences with a deviation bound.
//
// run is executed once per choice sequence on a fresh instance.  Inside run, every
// nondeterministic decision is taken through ch.Choose(n, label): the explorer
// replays the prefix it is exploring and answers 0 (the default) afterwards.
// A deviation is a non-zero answer.  All executions with <= bound deviations are
// explored; each runs to completion.

type Chooser struct {
	prefix  []int
	choices []int
	arity   []int
	labels  []string
	err     error
}

// Choose returns the decision for a point with n alternatives (0..n-1).
func (c *Chooser) Choose(n int, label string) int {
	i := len(c.choices)
	v := 0
	if i < len(c.prefix) {
		v = c.prefix[i]
		if v >= n {
			// replay divergence: the same prefix led to a different point
			if c.err == nil {
				c.err = fmt.Errorf("replay divergence at point %d (%s): choice %d but only %d alternatives", i, label, v, n)
			}
			v = 0
		}
	}
	c.choices = append(c.choices, v)
	c.arity = append(c.arity, n)
	if len(c.labels) < 64 {
		c.labels = append(c.labels, label)
	}
	return v
}

func (c *Chooser) Choices() []int { return append([]int{}, c.choices...) }
func (c *Chooser) Points() int    { return len(c.choices) }

// NewReplayChooser replays a recorded choice sequence (zeros afterwards).
func NewReplayChooser(prefix []int) *Chooser { return &Chooser{prefix: prefix} }

// ExploreStats reports what Explore covered.
type ExploreStats struct {
	Executions int64
	MaxPoints  int
	Divergence error
	Truncated  bool
}

// Explore enumerates every execution of run with at most bound deviations.
// onExec is called after every execution with the complete choice list.
// stop, if non-nil, is polled between executions (time caps).
func Explore(bound int, run func(ch *Chooser), onExec func(ch *Chooser), stop func() bool) ExploreStats {
	return ExploreShard(bound, run, onExec, stop, 0, 1)
}

// ExploreShard is Explore restricted to one shard: the root execution belongs to shard 0 and
// the k-th subtree below the root (k-th first deviation, in enumeration order) to shard
// k mod nshards.  The union over all shards is exactly what Explore enumerates.
func ExploreShard(bound int, run func(ch *Chooser), onExec func(ch *Chooser), stop func() bool, shard, nshards int) ExploreStats {
	var st ExploreStats
	sub := 0
	var rec func(prefix []int, devs int)
	rec = func(prefix []int, devs int) {
		if st.Divergence != nil || st.Truncated {
			return
		}
		if stop != nil && stop() {
			st.Truncated = true
			return
		}
		ch := &Chooser{prefix: prefix}
		run(ch)
		if ch.err != nil {
			st.Divergence = ch.err
			return
		}
		if len(ch.choices) > st.MaxPoints {
			st.MaxPoints = len(ch.choices)
		}
		if devs > 0 || shard == 0 {
			st.Executions++
			onExec(ch)
		}
		if devs >= bound {
			return
		}
		for i := len(prefix); i < len(ch.choices); i++ {
			for alt := 1; alt < ch.arity[i]; alt++ {
				if devs == 0 {
					sub++
					if (sub-1)%nshards != shard {
						continue
					}
				}
				np := append(append([]int{}, ch.choices[:i]...), alt)
				rec(np, devs+1)
			}
		}
	}
	rec(nil, 0)
	return st
}
