// Package fw is the shared runner of the /verif checks: worker fan-out, case
// sharding, evidence writing, known-findings matching and replay plumbing.
package fw

import (
	"bytes"
	"crypto/sha256"
	"encoding/binary"
	"encoding/hex"
	"encoding/json"
	"fmt"
	"hash/fnv"
	"os"
	"os/exec"
	"path/filepath"
	"runtime/debug"
	"sort"
	"strconv"
	"strings"
	"sync"
	"time"
)

// Violation is one failing case. Sig identifies the specific failing input /
// call site for known-findings matching; Case is whatever Replay needs.
type Violation struct {
	Sig  string      `json:"sig"`
	Part string      `json:"part,omitempty"`
	Msg  string      `json:"msg"`
	Case interface{} `json:"case,omitempty"`
}

// Result is what one worker reports to the master.
type Result struct {
	Evals       int64                  `json:"evals"`
	DistinctN   int64                  `json:"distinct_n"`
	Hashes      []uint64               `json:"hashes,omitempty"`
	States      int64                  `json:"states"`
	Transitions int64                  `json:"transitions"`
	Traces      int64                  `json:"traces"`
	Samples     []interface{}          `json:"samples,omitempty"`
	Outcomes    map[string]int64       `json:"outcomes,omitempty"`
	Violations  []Violation            `json:"violations,omitempty"`
	Capped      []string               `json:"capped,omitempty"`
	Infra       []string               `json:"infra,omitempty"`
	Counters    map[string]int64       `json:"counters,omitempty"`
	Notes       map[string]interface{} `json:"notes,omitempty"`
}

// Check describes one property check binary.
type Check struct {
	ID          string
	Level       string // exploration | fault_enumeration | model_checking
	Rule        string
	Assumptions []string
	// Workers returns the number of worker processes for a tier (default 16).
	Workers func(tier string) int
	// Run is the worker body. It must enumerate deterministically and handle
	// exactly the cases for which c.Mine(index) is true.
	Run func(c *Ctx)
	// Replay re-executes one recorded case (the Case field of a Violation).
	Replay func(c *Ctx, cs json.RawMessage)
	// Budget is the internal time cap per tier (exit 0 / exhaustive:false when hit).
	Budget func(tier string) time.Duration
}

// Ctx is handed to Run / Replay.
type Ctx struct {
	ID       string
	Tier     string
	Seed     int64
	Shard    int
	NShards  int
	Deadline time.Time
	Home     string // /verif
	Scratch  string // this worker's private scratch directory (cwd)

	mu     sync.Mutex
	res    Result
	hashes map[uint64]struct{}
	maxSmp int
	vsigs  map[string]int
}

func (c *Ctx) Thorough() bool { return c.Tier == "thorough" }

// Mine reports whether case number idx belongs to this worker.
func (c *Ctx) Mine(idx int64) bool {
	if c.NShards <= 1 {
		return true
	}
	return (idx+c.Seed)%int64(c.NShards) == int64(c.Shard)
}

// Expired reports whether the internal deadline passed; the caller should stop
// and call Cap.
func (c *Ctx) Expired() bool { return time.Now().After(c.Deadline) }

// Cap records that a bound / time cap stopped part of the enumeration.
func (c *Ctx) Cap(what string) {
	c.mu.Lock()
	defer c.mu.Unlock()
	for _, x := range c.res.Capped {
		if x == what {
			return
		}
	}
	c.res.Capped = append(c.res.Capped, what)
}

// Infra records a harness/infrastructure failure (exit 2, never a verdict).
func (c *Ctx) Infra(msg string) {
	c.mu.Lock()
	if len(c.res.Infra) < 5 {
		c.res.Infra = append(c.res.Infra, msg)
	}
	c.mu.Unlock()
}

// Eval counts n executed cases.
func (c *Ctx) Eval(n int64) { c.mu.Lock(); c.res.Evals += n; c.mu.Unlock() }

// NontrivialN counts n cases that are distinct by construction (the enumeration
// never repeats a case and cases are partitioned over workers).
func (c *Ctx) NontrivialN(n int64) { c.mu.Lock(); c.res.DistinctN += n; c.mu.Unlock() }

// Nontrivial counts a non-trivial case identified by key; duplicates (also
// across workers) are counted once.
func (c *Ctx) Nontrivial(key string) {
	h := fnv.New64a()
	h.Write([]byte(key))
	c.mu.Lock()
	c.hashes[h.Sum64()] = struct{}{}
	c.mu.Unlock()
}

func (c *Ctx) State(n int64)      { c.mu.Lock(); c.res.States += n; c.mu.Unlock() }
func (c *Ctx) Transition(n int64) { c.mu.Lock(); c.res.Transitions += n; c.mu.Unlock() }
func (c *Ctx) Trace(n int64)      { c.mu.Lock(); c.res.Traces += n; c.mu.Unlock() }

// Count adds to a named counter that ends up in coverage.
func (c *Ctx) Count(name string, n int64) {
	c.mu.Lock()
	if c.res.Counters == nil {
		c.res.Counters = map[string]int64{}
	}
	c.res.Counters[name] += n
	c.mu.Unlock()
}

// Note stores a free-form value in coverage (last writer wins).
func (c *Ctx) Note(name string, v interface{}) {
	c.mu.Lock()
	if c.res.Notes == nil {
		c.res.Notes = map[string]interface{}{}
	}
	c.res.Notes[name] = v
	c.mu.Unlock()
}

// Outcome counts a distinct observed outcome class.
func (c *Ctx) Outcome(o string) {
	c.mu.Lock()
	if c.res.Outcomes == nil {
		c.res.Outcomes = map[string]int64{}
	}
	if len(c.res.Outcomes) < 4000 || c.res.Outcomes[o] > 0 {
		c.res.Outcomes[o]++
	}
	c.mu.Unlock()
}

// Sample keeps up to a few written-out cases per worker.
func (c *Ctx) Sample(v interface{}) {
	c.mu.Lock()
	if len(c.res.Samples) < c.maxSmp {
		c.res.Samples = append(c.res.Samples, v)
	}
	c.mu.Unlock()
}

// Violation records a failing case (at most 20 per signature are kept).
func (c *Ctx) Violation(sig, part, msg string, cs interface{}) {
	c.mu.Lock()
	defer c.mu.Unlock()
	c.vsigs[sig]++
	if c.vsigs[sig] > 3 {
		return
	}
	c.res.Violations = append(c.res.Violations, Violation{Sig: sig, Part: part, Msg: msg, Case: cs})
}

// ViolationCount returns how many violations were recorded for sig.
func (c *Ctx) ViolationCount() int {
	c.mu.Lock()
	defer c.mu.Unlock()
	n := 0
	for _, v := range c.vsigs {
		n += v
	}
	return n
}

// Try runs f and converts a panic into (panicked=true, value, stack top).
func Try(f func()) (panicked bool, val interface{}, where string) {
	defer func() {
		if r := recover(); r != nil {
			panicked = true
			val = r
			where = PanicSite(debug.Stack())
		}
	}()
	f()
	return
}

// PanicSite extracts the first repository frame below the panic from a stack.
func PanicSite(stack []byte) string {
	lines := strings.Split(string(stack), "\n")
	seenPanic := false
	first := ""
	for i := 0; i < len(lines); i++ {
		l := lines[i]
		if strings.HasPrefix(l, "panic(") {
			seenPanic = true
			continue
		}
		if !seenPanic || strings.HasPrefix(l, "\t") || l == "" {
			continue
		}
		if strings.HasPrefix(l, "runtime.") || strings.HasPrefix(l, "runtime/") {
			continue
		}
		fn := l
		if k := strings.LastIndex(fn, "("); k > 0 {
			fn = fn[:k]
		}
		if first == "" {
			first = fn
		}
		if strings.Contains(fn, "com.tuntun.rangers/node/") {
			fn = strings.Replace(fn, "com.tuntun.rangers/node/src/", "", 1)
			return fn
		}
	}
	return first
}

func envInt(name string, def int64) int64 {
	if v := os.Getenv(name); v != "" {
		if n, err := strconv.ParseInt(v, 10, 64); err == nil {
			return n
		}
	}
	return def
}

type knownFinding struct {
	Property string `json:"property"`
	Status   string `json:"status"` // known | fixed
	Sig      string `json:"signature"`
	Commit   string `json:"commit,omitempty"`
	Text     string `json:"text"`
}

func loadKnown(home string) []knownFinding {
	var kf struct {
		Findings []knownFinding `json:"findings"`
	}
	b, err := os.ReadFile(filepath.Join(home, "known_findings.json"))
	if err != nil {
		return nil
	}
	if err := json.Unmarshal(b, &kf); err != nil {
		fmt.Fprintf(os.Stderr, "known_findings.json: %v\n", err)
		os.Exit(2)
	}
	return kf.Findings
}

// Main is the entry point of every check binary.
//
//	bin <tier> [--replay FILE]            master
//	bin <tier> --worker I N               worker (internal)
func Main(chk Check) {
	args := os.Args[1:]
	tier := "quick"
	if t := os.Getenv("VERIF_TIER"); t == "quick" || t == "thorough" {
		tier = t
	}
	replay := ""
	worker, nworkers := -1, 0
	for i := 0; i < len(args); i++ {
		switch args[i] {
		case "quick", "thorough":
			tier = args[i]
		case "--replay":
			replay = args[i+1]
			i++
		case "--worker":
			worker, _ = strconv.Atoi(args[i+1])
			nworkers, _ = strconv.Atoi(args[i+2])
			i += 2
		default:
			fmt.Fprintf(os.Stderr, "unknown argument %q\n", args[i])
			os.Exit(2)
		}
	}
	home := os.Getenv("VERIF_HOME")
	if home == "" {
		home = "/verif"
	}
	seed := envInt("VERIF_SEED", 0)
	if seed < 0 {
		seed = -seed
	}
	budget := 150 * time.Second
	if tier == "thorough" {
		budget = 25 * time.Minute
	}
	if chk.Budget != nil {
		budget = chk.Budget(tier)
	}
	if s := envInt("VERIF_BUDGET_S", 0); s > 0 {
		budget = time.Duration(s) * time.Second
	}
	newCtx := func(shard, n int) *Ctx {
		cwd, _ := os.Getwd()
		return &Ctx{ID: chk.ID, Tier: tier, Seed: seed, Shard: shard, NShards: n,
			Deadline: time.Now().Add(budget), Home: home, Scratch: cwd,
			hashes: map[uint64]struct{}{}, maxSmp: 3, vsigs: map[string]int{}}
	}

	if replay != "" {
		b, err := os.ReadFile(replay)
		if err != nil {
			fmt.Fprintln(os.Stderr, err)
			os.Exit(2)
		}
		var rf struct {
			Property string          `json:"property"`
			Sig      string          `json:"sig"`
			Case     json.RawMessage `json:"case"`
		}
		if err := json.Unmarshal(b, &rf); err != nil {
			fmt.Fprintln(os.Stderr, err)
			os.Exit(2)
		}
		if chk.Replay == nil {
			fmt.Fprintln(os.Stderr, "this check has no replay function")
			os.Exit(2)
		}
		c := newCtx(0, 1)
		if !c.ConcReplay(rf.Case) {
			chk.Replay(c, rf.Case)
		}
		if len(c.res.Violations) > 0 {
			for _, v := range c.res.Violations {
				fmt.Printf("REPLAY-VIOLATION property=%s sig=%s %s\n", chk.ID, v.Sig, v.Msg)
			}
			fmt.Printf("VIOLATION property=%s replay=%s\n", chk.ID, replay)
			os.Exit(1)
		}
		fmt.Printf("replay: property=%s case passes\n", chk.ID)
		os.Exit(0)
	}

	if worker >= 0 {
		c := newCtx(worker, nworkers)
		c.maxSmp = 2
		chk.Run(c)
		c.res.Hashes = make([]uint64, 0, len(c.hashes))
		for h := range c.hashes {
			c.res.Hashes = append(c.res.Hashes, h)
		}
		writeResult(&c.res)
		os.Exit(0)
	}

	// master
	start := time.Now()
	n := 16
	if chk.Workers != nil {
		n = chk.Workers(tier)
	}
	if w := envInt("VERIF_WORKERS", 0); w > 0 {
		n = int(w)
	}
	scratch := os.Getenv("VERIF_SCRATCH")
	if scratch == "" {
		d, err := os.MkdirTemp("", "verif-"+chk.ID+"-")
		if err != nil {
			fmt.Fprintln(os.Stderr, err)
			os.Exit(2)
		}
		scratch = d
		defer os.RemoveAll(d)
	}
	exe, _ := os.Executable()
	results := make([]*Result, n)
	crashes := make([]string, n)
	var wg sync.WaitGroup
	var retryMu sync.Mutex
	for i := 0; i < n; i++ {
		wg.Add(1)
		go func(i int) {
			defer wg.Done()
			dir := filepath.Join(scratch, fmt.Sprintf("w%02d", i))
			os.MkdirAll(dir, 0o755)
			cmd := exec.Command(exe, tier, "--worker", strconv.Itoa(i), strconv.Itoa(n))
			cmd.Dir = dir
			cmd.Env = append(os.Environ(), "VERIF_HOME="+home)
			var stderr tailBuf
			cmd.Stderr = &stderr
			cmd.Stdout = &stderr
			err := cmd.Run()
			if err != nil && strings.Contains(err.Error(), "signal: killed") && !strings.Contains(stderr.String(), "fatal error:") {
				// killed from outside (the kernel's OOM killer on a loaded machine): not an observation
				// of the code under test; run the shard once more, alone
				retryMu.Lock()
				os.RemoveAll(dir)
				os.MkdirAll(dir, 0o755)
				cmd = exec.Command(exe, tier, "--worker", strconv.Itoa(i), strconv.Itoa(n))
				cmd.Dir = dir
				cmd.Env = append(os.Environ(), "VERIF_HOME="+home)
				stderr = tailBuf{}
				cmd.Stderr = &stderr
				cmd.Stdout = &stderr
				err = cmd.Run()
				retryMu.Unlock()
			}
			b, rerr := os.ReadFile(filepath.Join(dir, "verif_result.json"))
			if rerr == nil {
				var r Result
				if json.Unmarshal(b, &r) == nil {
					results[i] = &r
					return
				}
			}
			crashes[i] = fmt.Sprintf("worker %d: %v\n%s", i, err, stderr.String())
		}(i)
	}
	wg.Wait()

	total := Result{Outcomes: map[string]int64{}, Counters: map[string]int64{}, Notes: map[string]interface{}{}}
	hashes := map[uint64]struct{}{}
	infra := false
	for i, r := range results {
		if r == nil {
			msg := crashes[i]
			if strings.Contains(msg, "fatal error:") || strings.Contains(msg, "panic:") {
				site := crashSite(msg)
				total.Violations = append(total.Violations, Violation{Sig: "worker-crash:" + site, Part: "crash",
					Msg: "worker process died while executing code under test: " + lastLines(msg, 30)})
			} else {
				fmt.Fprintf(os.Stderr, "INFRA: %s\n", msg)
				infra = true
			}
			continue
		}
		for _, m := range r.Infra {
			fmt.Fprintf(os.Stderr, "INFRA: worker %d: %s\n", i, m)
			infra = true
		}
		total.Evals += r.Evals
		total.DistinctN += r.DistinctN
		total.States += r.States
		total.Transitions += r.Transitions
		total.Traces += r.Traces
		for _, h := range r.Hashes {
			hashes[h] = struct{}{}
		}
		if len(total.Samples) < 6 {
			total.Samples = append(total.Samples, r.Samples...)
		}
		for k, v := range r.Outcomes {
			total.Outcomes[k] += v
		}
		for k, v := range r.Counters {
			total.Counters[k] += v
		}
		for k, v := range r.Notes {
			total.Notes[k] = v
		}
		total.Violations = append(total.Violations, r.Violations...)
		for _, cp := range r.Capped {
			dup := false
			for _, x := range total.Capped {
				dup = dup || x == cp
			}
			if !dup {
				total.Capped = append(total.Capped, cp)
			}
		}
	}
	if infra {
		fmt.Fprintln(os.Stderr, "infrastructure failure (not a verdict)")
		os.Exit(2)
	}

	// classify violations against the committed known-findings file
	known := loadKnown(home)
	bySig := map[string][]Violation{}
	var sigs []string
	for _, v := range total.Violations {
		if _, ok := bySig[v.Sig]; !ok {
			sigs = append(sigs, v.Sig)
		}
		bySig[v.Sig] = append(bySig[v.Sig], v)
	}
	sort.Strings(sigs)
	nviol := 0
	var knownHit []string
	var outLines []string
	for _, sig := range sigs {
		v := bySig[sig][0]
		isKnown := false
		for _, k := range known {
			if k.Property == chk.ID && k.Status == "known" && k.Sig == sig {
				isKnown = true
				outLines = append(outLines, fmt.Sprintf("KNOWN-FINDING: property=%s %s [%s]", chk.ID, k.Text, sig))
				knownHit = append(knownHit, sig)
			}
		}
		if isKnown {
			continue
		}
		nviol++
		rp := writeReplay(home, chk.ID, v)
		outLines = append(outLines, fmt.Sprintf("violation detail: sig=%s part=%s %s", sig, v.Part, oneLine(v.Msg, 600)))
		outLines = append(outLines, fmt.Sprintf("VIOLATION property=%s replay=%s", chk.ID, rp))
	}

	distinct := total.DistinctN + int64(len(hashes))
	cov := map[string]interface{}{
		"evaluations":         total.Evals,
		"distinct_nontrivial": distinct,
		"rule":                chk.Rule,
		"samples":             total.Samples,
		"exhaustive":          len(total.Capped) == 0,
		"distinct_outcomes":   len(total.Outcomes),
		"workers":             n,
	}
	if len(total.Outcomes) > 0 && len(total.Outcomes) <= 40 {
		cov["outcomes"] = total.Outcomes
	}
	if len(total.Capped) > 0 {
		cov["caps_hit"] = total.Capped
	}
	if total.States > 0 || chk.Level == "model_checking" {
		cov["states"] = total.States
		cov["transitions"] = total.Transitions
		cov["traces_validated_against_impl"] = total.Traces
	}
	for k, v := range total.Counters {
		cov[k] = v
	}
	for k, v := range total.Notes {
		cov[k] = v
	}
	if len(knownHit) > 0 {
		cov["known_findings_reproduced"] = knownHit
	}
	ev := map[string]interface{}{
		"property_id": chk.ID,
		"tier":        tier,
		"seed":        seed,
		"level":       chk.Level,
		"coverage":    cov,
		"assumptions": chk.Assumptions,
		"wall_s":      time.Since(start).Seconds(),
		"violations":  nviol,
	}
	evb, _ := json.MarshalIndent(ev, "", " ")
	evdir := filepath.Join(home, "evidence")
	if d := os.Getenv("VERIF_EVIDENCE_DIR"); d != "" {
		evdir = d // scratch runs against modified checkouts must not touch the committed evidence
	}
	os.MkdirAll(evdir, 0o755)
	if err := os.WriteFile(filepath.Join(evdir, chk.ID+".json"), append(evb, '\n'), 0o644); err != nil {
		fmt.Fprintln(os.Stderr, err)
		os.Exit(2)
	}
	fmt.Printf("%s %s: evaluations=%d distinct_nontrivial=%d states=%d transitions=%d outcomes=%d exhaustive=%v caps=%v wall=%.1fs\n",
		chk.ID, tier, total.Evals, distinct, total.States, total.Transitions, len(total.Outcomes), len(total.Capped) == 0, total.Capped, time.Since(start).Seconds())
	for _, l := range outLines {
		fmt.Println(l)
	}
	if nviol > 0 {
		os.Exit(1)
	}
	os.Exit(0)
}

func oneLine(s string, max int) string {
	s = strings.ReplaceAll(s, "\n", " | ")
	if len(s) > max {
		s = s[:max] + "…"
	}
	return s
}

func lastLines(s string, n int) string {
	l := strings.Split(strings.TrimRight(s, "\n"), "\n")
	if len(l) > n {
		l = l[len(l)-n:]
	}
	return strings.Join(l, "\n")
}

func crashSite(msg string) string {
	if i := strings.Index(msg, "fatal error:"); i >= 0 {
		e := msg[i:]
		if j := strings.Index(e, "\n"); j > 0 {
			e = e[:j]
		}
		return strings.TrimSpace(e)
	}
	if i := strings.Index(msg, "panic:"); i >= 0 {
		return PanicSite([]byte("panic(\n" + msg[i:]))
	}
	return "unknown"
}

func writeResult(r *Result) {
	b, err := json.Marshal(r)
	if err != nil {
		fmt.Fprintln(os.Stderr, "marshal result:", err)
		os.Exit(3)
	}
	if err := os.WriteFile("verif_result.json", b, 0o644); err != nil {
		fmt.Fprintln(os.Stderr, err)
		os.Exit(3)
	}
}

func writeReplay(home, id string, v Violation) string {
	dir := filepath.Join(home, "replays", id)
	if d := os.Getenv("VERIF_REPLAY_DIR"); d != "" {
		dir = filepath.Join(d, id)
	}
	os.MkdirAll(dir, 0o755)
	body := map[string]interface{}{"property": id, "sig": v.Sig, "part": v.Part, "msg": v.Msg, "case": v.Case}
	b, _ := json.MarshalIndent(body, "", " ")
	h := sha256.Sum256(b)
	p := filepath.Join(dir, hex.EncodeToString(h[:6])+".json")
	os.WriteFile(p, append(b, '\n'), 0o644)
	return p
}

type tailBuf struct {
	mu  sync.Mutex
	buf bytes.Buffer
}

func (t *tailBuf) Write(p []byte) (int, error) {
	t.mu.Lock()
	defer t.mu.Unlock()
	t.buf.Write(p)
	if t.buf.Len() > 1<<20 {
		b := t.buf.Bytes()
		keep := append([]byte{}, b[len(b)-(1<<19):]...)
		t.buf.Reset()
		t.buf.Write(keep)
	}
	return len(p), nil
}
func (t *tailBuf) String() string { t.mu.Lock(); defer t.mu.Unlock(); return t.buf.String() }

// U64 is a helper to hash arbitrary bytes to a key.
func U64(b []byte) uint64 {
	h := sha256.Sum256(b)
	return binary.BigEndian.Uint64(h[:8])
}
