// Package mapiter controls Go map iteration order on chosen goroutines.  It only
// links when the build uses the `mapiter` overlay feature (patched runtime/map.go).
package mapiter

import "runtime"

// Decider returns, for a map with count entries, the raw start value (bucket =
// r & mask, in-bucket offset = (r >> B) & 7).  Returning ok=false keeps Go's random choice.
type Decider func(count int, B uint8) (r uintptr, ok bool)

var (
	targetGoid uint64
	decider    Decider
	inHook     bool
)

func hook(goid uint64, r uintptr, count int, B uint8) uintptr {
	if goid != targetGoid || decider == nil || inHook {
		return r
	}
	inHook = true
	v, ok := decider(count, B)
	inHook = false
	if !ok {
		return r
	}
	return v
}

// Install makes d decide the iteration start of every multi-entry map ranged over
// on the *calling* goroutine until Uninstall.
func Install(d Decider) {
	targetGoid = runtime.VerifGoid()
	decider = d
	runtime.VerifSetMapIterHook(hook)
}

func Uninstall() { decider = nil; targetGoid = 0 }

// Start encodes (bucket, offset) for a map with 2^B buckets.
func Start(bucket, offset int, B uint8) uintptr {
	return uintptr(bucket) | uintptr(offset)<<B
}

// Chooser is the part of fw.Chooser the standard decider needs.
type Chooser interface {
	Choose(n int, label string) int
}

// StdDecider enumerates, per map iteration, every start position of maps with up
// to 4 buckets (32 positions: all orders Go can produce for them) and 8 spread
// positions for larger maps (stated as a bound in the evidence).
func StdDecider(ch Chooser) Decider {
	return func(count int, B uint8) (uintptr, bool) {
		if B <= 2 {
			n := (1 << B) * 8
			if B == 0 && count < 8 {
				// one bucket without holes: offsets >= count repeat offset 0;
				// holes can only make more offsets equivalent, never fewer orders
				n = 8
			}
			v := ch.Choose(n, "map")
			return Start(v>>3, v&7, B), true
		}
		v := ch.Choose(8, "bigmap")
		nb := 1 << B
		return Start((v*nb)/8, v&7, B), true
	}
}
