// Package refevm is a deliberately boring reference semantics of the computational
// EVM opcodes (Yellow Paper appendix H + EIP-145 shifts, EIP-211 return data,
// EIP-3855 PUSH0, EIP-5656 MCOPY) written over math/big.  It shares no code with
// the implementation under test: words are *big.Int in [0, 2^256), memory is a
// plain []byte, jump destinations come from its own linear scan, keccak is
// golang.org/x/crypto/sha3.  There is no gas: the only resource rules are the
// 1024 stack limit and a memory rule (see expand).
package refevm

import (
	"crypto/sha256"
	"fmt"
	"math/big"

	"golang.org/x/crypto/sha3"
)

type Status int

const (
	Success     Status = iota // STOP, RETURN, or running off the end of the code
	Revert                    // REVERT (return data is defined)
	Fault                     // exceptional halt: no return data
	Loop                      // provably non-terminating (state repeated): the real machine must run out of gas
	Unsupported               // the program left the modelled fragment; nothing may be concluded
)

func (s Status) String() string {
	return [...]string{"success", "revert", "fault", "loop", "unsupported"}[s]
}

// Config of one run.
type Config struct {
	Cancun   bool   // PUSH0 (0x5f) and MCOPY (0x5e) exist
	Input    []byte // call data
	MaxSteps int    // 0 = 1<<20
	Probe    int    // if >= 0: record stack depth / msize the first time pc == Probe
}

// Result of one run.  Stack is bottom..top.
type Result struct {
	Status Status
	Why    string
	Stack  []*big.Int
	Memory []byte
	Ret    []byte
	PC     int
	Steps  int
	Ops    map[byte]int // executed opcode histogram

	ProbeHit   bool
	ProbeDepth int
	ProbeMsize int
	ProbeStack []*big.Int

	JumpsTaken    int
	JumpsRejected int
}

var (
	two256 = new(big.Int).Lsh(big.NewInt(1), 256)
	two255 = new(big.Int).Lsh(big.NewInt(1), 255)
	mask   = new(big.Int).Sub(two256, big.NewInt(1))
	one    = big.NewInt(1)
)

const (
	// MaxMem is the largest memory the model grows without comment.  Growth beyond
	// CertainOOG bytes cannot be paid for with any gas limit below 2^44 and is a fault;
	// the band in between is Unsupported (depends on the gas limit).
	MaxMem     = 1 << 20
	CertainOOG = 1 << 32
	StackLimit = 1024
)

func wrap(x *big.Int) *big.Int { return x.And(x, mask) } // two's complement wrap, also for negatives

func signed(x *big.Int) *big.Int {
	if x.Cmp(two255) >= 0 {
		return new(big.Int).Sub(x, two256)
	}
	return new(big.Int).Set(x)
}

func unsigned(x *big.Int) *big.Int {
	if x.Sign() < 0 {
		return new(big.Int).Add(x, two256)
	}
	return x
}

func b2w(b bool) *big.Int {
	if b {
		return big.NewInt(1)
	}
	return big.NewInt(0)
}

// JumpDests returns, for each code position, whether it is a JUMPDEST byte that is
// an instruction (not inside the immediate data of a PUSH).
func JumpDests(code []byte) []bool {
	ok := make([]bool, len(code))
	for i := 0; i < len(code); {
		b := code[i]
		switch {
		case b == 0x5b:
			ok[i] = true
			i++
		case b >= 0x60 && b <= 0x7f:
			i += 1 + int(b-0x5f) // opcode + n immediate bytes
		default:
			i++
		}
	}
	return ok
}

type machine struct {
	code  []byte
	cfg   Config
	stack []*big.Int
	mem   []byte
	rdata []byte
	dests []bool
	res   Result
}

type halt struct {
	st  Status
	why string
}

func (m *machine) fault(why string)       { panic(halt{Fault, why}) }
func (m *machine) unsupported(why string) { panic(halt{Unsupported, why}) }

func (m *machine) pop() *big.Int {
	if len(m.stack) == 0 {
		m.fault("stack underflow")
	}
	x := m.stack[len(m.stack)-1]
	m.stack = m.stack[:len(m.stack)-1]
	return x
}

func (m *machine) need(n int) {
	if len(m.stack) < n {
		m.fault("stack underflow")
	}
}

func (m *machine) push(x *big.Int) {
	if len(m.stack) >= StackLimit {
		m.fault("stack overflow")
	}
	if x.Sign() < 0 || x.Cmp(two256) >= 0 {
		panic(fmt.Sprintf("refevm internal: word out of range %v", x))
	}
	m.stack = append(m.stack, x)
}

// expand makes memory cover [off, off+size) (size > 0), rounding up to a word.
func (m *machine) expand(off, size *big.Int) {
	if size.Sign() == 0 {
		return
	}
	end := new(big.Int).Add(off, size)
	if end.Cmp(big.NewInt(CertainOOG)) > 0 {
		m.fault("memory expansion beyond any gas limit")
	}
	e := int(end.Int64())
	if e > MaxMem {
		m.unsupported("memory between MaxMem and CertainOOG")
	}
	e = (e + 31) / 32 * 32
	if e > len(m.mem) {
		m.mem = append(m.mem, make([]byte, e-len(m.mem))...)
	}
}

// padded returns src[off:off+size] with zeros where src has no bytes.
func padded(src []byte, off *big.Int, size int) []byte {
	out := make([]byte, size)
	if !off.IsInt64() || off.Int64() >= int64(len(src)) {
		return out
	}
	copy(out, src[off.Int64():])
	return out
}

func word(b []byte) *big.Int { return new(big.Int).SetBytes(b) }

func bytes32(x *big.Int) []byte {
	out := make([]byte, 32)
	x.FillBytes(out)
	return out
}

// Run interprets code from pc 0.
func Run(code []byte, cfg Config) (res Result) {
	m := &machine{code: code, cfg: cfg, dests: JumpDests(code)}
	m.res.Ops = map[byte]int{}
	if cfg.MaxSteps == 0 {
		cfg.MaxSteps = 1 << 20
		m.cfg.MaxSteps = cfg.MaxSteps
	}
	defer func() {
		if r := recover(); r != nil {
			h, ok := r.(halt)
			if !ok {
				panic(r)
			}
			m.res.Status, m.res.Why = h.st, h.why
			if h.st == Fault || h.st == Loop || h.st == Unsupported {
				m.res.Ret = nil
			}
		}
		m.res.Stack, m.res.Memory = m.stack, m.mem
		res = m.res
	}()
	m.run()
	return
}

func (m *machine) stateKey(pc int) [32]byte {
	h := sha256.New()
	fmt.Fprintf(h, "%d|%d|%d|", pc, len(m.stack), len(m.mem))
	for _, w := range m.stack {
		h.Write(bytes32(w))
	}
	h.Write(m.mem)
	h.Write([]byte{'|'})
	h.Write(m.rdata)
	var k [32]byte
	copy(k[:], h.Sum(nil))
	return k
}

func (m *machine) run() {
	pc := 0
	seen := map[[32]byte]struct{}{}
	jump := func(from int, dest *big.Int) int {
		if !dest.IsInt64() || dest.Int64() >= int64(len(m.code)) || !m.dests[dest.Int64()] {
			m.res.JumpsRejected++
			m.fault("invalid jump destination")
		}
		m.res.JumpsTaken++
		d := int(dest.Int64())
		if d <= from { // backward edge: a repeated machine state means divergence
			k := m.stateKey(d)
			if _, dup := seen[k]; dup {
				panic(halt{Loop, "state repeats at a backward jump"})
			}
			seen[k] = struct{}{}
		}
		return d
	}
	for {
		m.res.PC = pc
		if m.cfg.Probe >= 0 && pc == m.cfg.Probe && !m.res.ProbeHit {
			m.res.ProbeHit = true
			m.res.ProbeDepth = len(m.stack)
			m.res.ProbeMsize = len(m.mem)
			m.res.ProbeStack = append([]*big.Int{}, m.stack...)
		}
		if pc >= len(m.code) {
			panic(halt{Success, "end of code"}) // implicit STOP
		}
		m.res.Steps++
		if m.res.Steps > m.cfg.MaxSteps {
			m.unsupported("step limit")
		}
		op := m.code[pc]
		m.res.Ops[op]++
		switch {
		case op >= 0x60 && op <= 0x7f: // PUSH1..PUSH32
			n := int(op - 0x5f)
			data := make([]byte, n)
			if pc+1 < len(m.code) {
				copy(data, m.code[pc+1:]) // missing bytes read as zero (code is followed by zeros)
			}
			m.push(word(data))
			pc += 1 + n
			continue
		case op >= 0x80 && op <= 0x8f: // DUP1..16
			n := int(op-0x80) + 1
			m.need(n)
			m.push(new(big.Int).Set(m.stack[len(m.stack)-n]))
			pc++
			continue
		case op >= 0x90 && op <= 0x9f: // SWAP1..16
			n := int(op-0x90) + 1
			m.need(n + 1)
			t := len(m.stack) - 1
			m.stack[t], m.stack[t-n] = m.stack[t-n], m.stack[t]
			pc++
			continue
		}
		switch op {
		case 0x00: // STOP
			panic(halt{Success, "STOP"})
		case 0x01: // ADD
			a, b := m.pop(), m.pop()
			m.push(wrap(new(big.Int).Add(a, b)))
		case 0x02: // MUL
			a, b := m.pop(), m.pop()
			m.push(wrap(new(big.Int).Mul(a, b)))
		case 0x03: // SUB
			a, b := m.pop(), m.pop()
			m.push(wrap(new(big.Int).Sub(a, b)))
		case 0x04: // DIV
			a, b := m.pop(), m.pop()
			if b.Sign() == 0 {
				m.push(big.NewInt(0))
			} else {
				m.push(new(big.Int).Quo(a, b))
			}
		case 0x05: // SDIV: truncated signed division, x/0 = 0, -2^255 / -1 = -2^255
			a, b := m.pop(), m.pop()
			if b.Sign() == 0 {
				m.push(big.NewInt(0))
			} else {
				m.push(wrap(new(big.Int).Quo(signed(a), signed(b))))
			}
		case 0x06: // MOD
			a, b := m.pop(), m.pop()
			if b.Sign() == 0 {
				m.push(big.NewInt(0))
			} else {
				m.push(new(big.Int).Rem(a, b))
			}
		case 0x07: // SMOD: sign of the dividend
			a, b := m.pop(), m.pop()
			if b.Sign() == 0 {
				m.push(big.NewInt(0))
			} else {
				m.push(wrap(new(big.Int).Rem(signed(a), signed(b))))
			}
		case 0x08: // ADDMOD (intermediate not reduced mod 2^256)
			a, b, n := m.pop(), m.pop(), m.pop()
			if n.Sign() == 0 {
				m.push(big.NewInt(0))
			} else {
				s := new(big.Int).Add(a, b)
				m.push(s.Rem(s, n))
			}
		case 0x09: // MULMOD
			a, b, n := m.pop(), m.pop(), m.pop()
			if n.Sign() == 0 {
				m.push(big.NewInt(0))
			} else {
				s := new(big.Int).Mul(a, b)
				m.push(s.Rem(s, n))
			}
		case 0x0a: // EXP
			a, b := m.pop(), m.pop()
			m.push(new(big.Int).Exp(a, b, two256))
		case 0x0b: // SIGNEXTEND(b, x)
			b, x := m.pop(), m.pop()
			if b.Cmp(big.NewInt(31)) >= 0 {
				m.push(new(big.Int).Set(x))
			} else {
				t := uint(b.Int64())*8 + 7 // index of the sign bit
				low := new(big.Int).Sub(new(big.Int).Lsh(one, t+1), one)
				r := new(big.Int).And(x, low)
				if x.Bit(int(t)) == 1 {
					r.Or(r, new(big.Int).Xor(mask, low))
				}
				m.push(r)
			}
		case 0x10: // LT
			a, b := m.pop(), m.pop()
			m.push(b2w(a.Cmp(b) < 0))
		case 0x11: // GT
			a, b := m.pop(), m.pop()
			m.push(b2w(a.Cmp(b) > 0))
		case 0x12: // SLT
			a, b := m.pop(), m.pop()
			m.push(b2w(signed(a).Cmp(signed(b)) < 0))
		case 0x13: // SGT
			a, b := m.pop(), m.pop()
			m.push(b2w(signed(a).Cmp(signed(b)) > 0))
		case 0x14: // EQ
			a, b := m.pop(), m.pop()
			m.push(b2w(a.Cmp(b) == 0))
		case 0x15: // ISZERO
			a := m.pop()
			m.push(b2w(a.Sign() == 0))
		case 0x16: // AND
			a, b := m.pop(), m.pop()
			m.push(new(big.Int).And(a, b))
		case 0x17: // OR
			a, b := m.pop(), m.pop()
			m.push(new(big.Int).Or(a, b))
		case 0x18: // XOR
			a, b := m.pop(), m.pop()
			m.push(new(big.Int).Xor(a, b))
		case 0x19: // NOT
			a := m.pop()
			m.push(new(big.Int).Xor(a, mask))
		case 0x1a: // BYTE(i, x): i-th byte counted from the most significant
			i, x := m.pop(), m.pop()
			if i.Cmp(big.NewInt(32)) >= 0 {
				m.push(big.NewInt(0))
			} else {
				m.push(big.NewInt(int64(bytes32(x)[i.Int64()])))
			}
		case 0x1b: // SHL(shift, value)
			s, v := m.pop(), m.pop()
			if s.Cmp(big.NewInt(256)) >= 0 {
				m.push(big.NewInt(0))
			} else {
				m.push(wrap(new(big.Int).Lsh(v, uint(s.Int64()))))
			}
		case 0x1c: // SHR
			s, v := m.pop(), m.pop()
			if s.Cmp(big.NewInt(256)) >= 0 {
				m.push(big.NewInt(0))
			} else {
				m.push(new(big.Int).Rsh(v, uint(s.Int64())))
			}
		case 0x1d: // SAR: floor(signed(value) / 2^shift)
			s, v := m.pop(), m.pop()
			sv := signed(v)
			if s.Cmp(big.NewInt(256)) >= 0 {
				if sv.Sign() < 0 {
					m.push(new(big.Int).Set(mask))
				} else {
					m.push(big.NewInt(0))
				}
			} else {
				m.push(unsigned(sv.Rsh(sv, uint(s.Int64())))) // big.Int.Rsh rounds toward -inf
			}
		case 0x20: // KECCAK256(off, size)
			off, size := m.pop(), m.pop()
			m.expand(off, size)
			h := sha3.NewLegacyKeccak256()
			if size.Sign() > 0 {
				h.Write(m.mem[off.Int64() : off.Int64()+size.Int64()])
			}
			m.push(word(h.Sum(nil)))
		case 0x35: // CALLDATALOAD
			i := m.pop()
			m.push(word(padded(m.cfg.Input, i, 32)))
		case 0x36: // CALLDATASIZE
			m.push(big.NewInt(int64(len(m.cfg.Input))))
		case 0x37: // CALLDATACOPY(memOff, dataOff, size)
			mo, do, size := m.pop(), m.pop(), m.pop()
			m.expand(mo, size)
			if size.Sign() > 0 {
				copy(m.mem[mo.Int64():], padded(m.cfg.Input, do, int(size.Int64())))
			}
		case 0x38: // CODESIZE
			m.push(big.NewInt(int64(len(m.code))))
		case 0x39: // CODECOPY
			mo, co, size := m.pop(), m.pop(), m.pop()
			m.expand(mo, size)
			if size.Sign() > 0 {
				copy(m.mem[mo.Int64():], padded(m.code, co, int(size.Int64())))
			}
		case 0x3d: // RETURNDATASIZE
			m.push(big.NewInt(int64(len(m.rdata))))
		case 0x3e: // RETURNDATACOPY: reading past the buffer is an exceptional halt (EIP-211)
			mo, ro, size := m.pop(), m.pop(), m.pop()
			if new(big.Int).Add(ro, size).Cmp(big.NewInt(int64(len(m.rdata)))) > 0 {
				m.fault("return data out of bounds")
			}
			m.expand(mo, size)
			if size.Sign() > 0 {
				copy(m.mem[mo.Int64():], m.rdata[ro.Int64():ro.Int64()+size.Int64()])
			}
		case 0x50: // POP
			m.pop()
		case 0x51: // MLOAD
			off := m.pop()
			m.expand(off, big.NewInt(32))
			m.push(word(m.mem[off.Int64() : off.Int64()+32]))
		case 0x52: // MSTORE
			off, v := m.pop(), m.pop()
			m.expand(off, big.NewInt(32))
			copy(m.mem[off.Int64():], bytes32(v))
		case 0x53: // MSTORE8
			off, v := m.pop(), m.pop()
			m.expand(off, big.NewInt(1))
			m.mem[off.Int64()] = bytes32(v)[31]
		case 0x56: // JUMP
			d := m.pop()
			pc = jump(pc, d)
			continue
		case 0x57: // JUMPI
			d, cond := m.pop(), m.pop()
			if cond.Sign() != 0 {
				pc = jump(pc, d)
				continue
			}
		case 0x58: // PC
			m.push(big.NewInt(int64(pc)))
		case 0x59: // MSIZE
			m.push(big.NewInt(int64(len(m.mem))))
		case 0x5b: // JUMPDEST
		case 0x5e: // MCOPY(dst, src, size)
			if !m.cfg.Cancun {
				m.fault("invalid opcode 0x5e")
			}
			dst, src, size := m.pop(), m.pop(), m.pop()
			hi := dst
			if src.Cmp(dst) > 0 {
				hi = src
			}
			m.expand(hi, size)
			if size.Sign() > 0 {
				tmp := append([]byte{}, m.mem[src.Int64():src.Int64()+size.Int64()]...)
				copy(m.mem[dst.Int64():], tmp)
			}
		case 0x5f: // PUSH0
			if !m.cfg.Cancun {
				m.fault("invalid opcode 0x5f")
			}
			m.push(big.NewInt(0))
		case 0xf3, 0xfd: // RETURN, REVERT
			off, size := m.pop(), m.pop()
			m.expand(off, size)
			if size.Sign() > 0 {
				m.res.Ret = append([]byte{}, m.mem[off.Int64():off.Int64()+size.Int64()]...)
			} else {
				m.res.Ret = nil
			}
			if op == 0xf3 {
				panic(halt{Success, "RETURN"})
			}
			panic(halt{Revert, "REVERT"})
		case 0xfa: // STATICCALL — modelled only for the identity precompile (address 4) with ample gas
			m.need(6)
			gas, addr := m.pop(), m.pop()
			io, is, oo, os := m.pop(), m.pop(), m.pop(), m.pop()
			if addr.Cmp(big.NewInt(4)) != 0 || gas.Cmp(big.NewInt(1<<20)) < 0 || gas.Cmp(big.NewInt(1<<40)) > 0 {
				m.unsupported("STATICCALL other than identity precompile with 2^20..2^40 gas")
			}
			// memory grows to cover both regions before the call
			if is.Sign() > 0 && os.Sign() > 0 {
				ie, oe := new(big.Int).Add(io, is), new(big.Int).Add(oo, os)
				if ie.Cmp(oe) >= 0 {
					m.expand(io, is)
				} else {
					m.expand(oo, os)
				}
			} else {
				m.expand(io, is)
				m.expand(oo, os)
			}
			var in []byte
			if is.Sign() > 0 {
				in = append([]byte{}, m.mem[io.Int64():io.Int64()+is.Int64()]...)
			}
			m.rdata = in // identity: output = input
			if os.Sign() > 0 {
				n := int(os.Int64())
				if n > len(in) {
					n = len(in)
				}
				copy(m.mem[oo.Int64():], in[:n])
			}
			m.push(big.NewInt(1))
		case 0xfe:
			m.fault("INVALID")
		default:
			if undefined[op] {
				m.fault(fmt.Sprintf("undefined opcode %#x", op))
			}
			m.unsupported(fmt.Sprintf("opcode %#x outside the computational fragment", op))
		}
		pc++
	}
}

// undefined lists byte values that are not instructions in any fork table of the
// implementation under test nor in Ethereum up to Cancun.
var undefined = func() (u [256]bool) {
	for _, r := range [][2]int{{0x0c, 0x0f}, {0x1e, 0x1f}, {0x21, 0x2f}, {0x4b, 0x4f}, {0xa5, 0xaf}} {
		for i := r[0]; i <= r[1]; i++ {
			u[i] = true
		}
	}
	return
}()
