package main

// refjournal: the boring reference model of the journaled account state.
// State = plain Go values; Snapshot = push a deep copy; RevertToSnapshot = restore the copy.
// Forward semantics of every mutator are written out here by hand from the API
// documentation of AccountDB (what a caller may rely on), not from the journal code.

import (
	"fmt"
	"math/big"
	"sort"
	"strings"

	"com.tuntun.rangers/node/src/utility"
)

type mAcct struct {
	Exists   bool
	Suicided bool
	Nonce    uint64
	Code     []byte
	Store    map[int][]byte // slot index -> value (absent = nil)
}

type mLog struct {
	V     int // which log value
	Tx    int // transaction context it was emitted in
	Index uint
}

type mCore struct {
	Acct   []mAcct
	Bal    []*big.Int
	Refund uint64
	// logs of the whole block, in emission order; Index is stamped from the block-wide counter
	Logs    []mLog
	LogSize uint
	CurTx   int // transaction context set by Prepare (0 = none yet: zero tx hash, zero block hash)
	// ERC20 binding of boundName (exists exactly as long as the binding account does)
	Bound    bool
	BoundDec uint64
	ALAddr   []bool
	ALSlot   map[[2]int]bool
	Trans    map[[2]int]int
}

func (c *mCore) copy() mCore {
	n := mCore{Refund: c.Refund, LogSize: c.LogSize, CurTx: c.CurTx, Bound: c.Bound, BoundDec: c.BoundDec}
	n.Acct = make([]mAcct, len(c.Acct))
	for i, a := range c.Acct {
		b := a
		b.Code = append([]byte(nil), a.Code...)
		b.Store = map[int][]byte{}
		for k, v := range a.Store {
			b.Store[k] = append([]byte(nil), v...)
		}
		n.Acct[i] = b
	}
	n.Bal = make([]*big.Int, len(c.Bal))
	for i, b := range c.Bal {
		n.Bal[i] = new(big.Int).Set(b)
	}
	n.Logs = append([]mLog(nil), c.Logs...)
	n.ALAddr = append([]bool(nil), c.ALAddr...)
	n.ALSlot = map[[2]int]bool{}
	for k, v := range c.ALSlot {
		n.ALSlot[k] = v
	}
	n.Trans = map[[2]int]int{}
	for k, v := range c.Trans {
		n.Trans[k] = v
	}
	return n
}

func (c *mCore) String() string {
	var w strings.Builder
	for i, a := range c.Acct {
		fmt.Fprintf(&w, "a%d:%v,%v,%d,%x,{", i, a.Exists, a.Suicided, a.Nonce, a.Code)
		ks := make([]int, 0, len(a.Store))
		for k := range a.Store {
			ks = append(ks, k)
		}
		sort.Ints(ks)
		for _, k := range ks {
			if len(a.Store[k]) > 0 {
				fmt.Fprintf(&w, "%d=%x,", k, a.Store[k])
			}
		}
		fmt.Fprintf(&w, "}bal=%s;", c.Bal[i])
	}
	fmt.Fprintf(&w, "r%d;l%v/%d;tx%d;b%v/%d;al%v;", c.Refund, c.Logs, c.LogSize, c.CurTx, c.Bound, c.BoundDec, c.ALAddr)
	var s []string
	for k, v := range c.ALSlot {
		if v {
			s = append(s, fmt.Sprint(k))
		}
	}
	sort.Strings(s)
	w.WriteString(strings.Join(s, ""))
	s = s[:0]
	for k, v := range c.Trans {
		if v != 0 {
			s = append(s, fmt.Sprint(k, v))
		}
	}
	sort.Strings(s)
	w.WriteString(";t" + strings.Join(s, ""))
	return w.String()
}

// model = current state + stack of deep copies (one per live snapshot).
type model struct {
	mCore
	snaps []mCore
	bind  *bindCfg // roles of the universe addresses in the binding slices (nil elsewhere)
}

func (m *model) clone() *model {
	n := &model{mCore: m.mCore.copy(), bind: m.bind}
	for i := range m.snaps {
		n.snaps = append(n.snaps, m.snaps[i].copy())
	}
	return n
}

func (m *model) String() string {
	var w strings.Builder
	w.WriteString(m.mCore.String())
	for i := range m.snaps {
		w.WriteString("|S|" + m.snaps[i].String())
	}
	return w.String()
}

func (m *model) ensure(a int) *mAcct {
	m.Acct[a].Exists = true
	return &m.Acct[a]
}

// enabled says whether op is a legal next call in the model's current state
// (RevertToSnapshot only to a live id, nesting bound, SubRefund never below zero).
func (m *model) enabled(op Op, maxNest int) bool {
	switch op.K {
	case kSnapshot:
		return len(m.snaps) < maxNest
	case kRevert:
		return op.V < len(m.snaps)
	case kSubRefund:
		return m.Refund >= uint64(op.V)
	case kPrepare:
		return len(m.snaps) == 0 // the executor prepares a transaction outside any snapshot
	}
	return true
}

func (m *model) apply(op Op) {
	switch op.K {
	case kSetNonce:
		m.ensure(op.A).Nonce = uint64(op.V)
	case kIncNonce:
		m.ensure(op.A).Nonce++
	case kSetData:
		m.ensure(op.A).Store[op.S] = dataVal(op.V)
	case kRemoveData:
		delete(m.ensure(op.A).Store, op.S)
	case kSetCode:
		m.ensure(op.A).Code = codeVal(op.V)
	case kAddBalance:
		m.Bal[op.A].Add(m.Bal[op.A], big.NewInt(int64(op.V)))
	case kSubBalance:
		m.sub(op.A, int64(op.V))
	case kSetBalance:
		m.Bal[op.A].SetInt64(int64(op.V))
	case kTransfer:
		if op.V > 0 {
			m.sub(op.A, int64(op.V)) // an uncovered debit is silently skipped by the API, the credit is not
			m.Bal[op.B].Add(m.Bal[op.B], big.NewInt(int64(op.V)))
		}
	case kSuicide:
		if m.Acct[op.A].Exists {
			m.Acct[op.A].Suicided = true
			m.Bal[op.A].SetInt64(0)
		}
	case kCreate:
		m.ensure(op.A)
	case kAddLog:
		m.Logs = append(m.Logs, mLog{V: op.V, Tx: m.CurTx, Index: m.LogSize})
		m.LogSize++
	case kPrepare:
		// a new transaction of the same block: tx context, a fresh access list and fresh
		// transient storage (both per transaction); logs, the block-wide log counter and the
		// refund counter are left as they are
		m.CurTx = op.V
		for i := range m.ALAddr {
			m.ALAddr[i] = false
		}
		m.ALSlot = map[[2]int]bool{}
		m.Trans = map[[2]int]int{}
	case kAddRefund:
		m.Refund += uint64(op.V)
	case kSubRefund:
		m.Refund -= uint64(op.V)
	case kALAddr:
		m.ALAddr[op.A] = true
	case kALSlot:
		m.ALAddr[op.A] = true
		m.ALSlot[[2]int{op.A, op.S}] = true
	case kTransient:
		if op.V == 0 {
			delete(m.Trans, [2]int{op.A, op.S})
		} else {
			m.Trans[[2]int{op.A, op.S}] = op.V
		}
	case kAddFT, kSubFT, kSetFT:
		m.ftWrite(op)
	case kGetFT:
		m.getFT(op.A, op.S, true)
	case kGetBinding:
		// pure query
	case kBind:
		// refused if the binding account exists; otherwise the binding account is created with
		// the three binding slots
		if n := &m.Acct[m.bind.acct]; !n.Exists {
			n.Exists = true
			m.Bound, m.BoundDec = true, uint64(op.V)
		}
	case kReadAll:
		// the full observation ends in GetFT on the token (see getFT for what that query does)
		if m.bind != nil {
			m.getFT(m.bind.holder, 1, true)
		}
	case kReadCommitted:
		// query: no effect on the abstract state
	case kSnapshot:
		m.snaps = append(m.snaps, m.mCore.copy())
	case kRevert:
		m.mCore = m.snaps[op.V]
		m.snaps = m.snaps[:op.V]
	default:
		panic("model: unknown op " + op.K)
	}
}

func (m *model) sub(a int, n int64) {
	if m.Bal[a].Cmp(big.NewInt(n)) >= 0 {
		m.Bal[a].Sub(m.Bal[a], big.NewInt(n))
	}
}

// ftSlot: where the FT balance of (holder a, token S) lives.  On a bound token it is the
// balance slot of the bound contract, and every FT call first makes sure that contract has an
// account object (as the AccountDB does, journaled); otherwise the holder's own FT slot.
func (m *model) ftSlot(a, tok int, side bool) (acct *mAcct, slot int, bound bool) {
	if tok == 1 && m.Bound {
		c := &m.Acct[m.bind.contract]
		if side {
			c.Exists = true
		}
		return c, slotERC, true
	}
	h := &m.Acct[a]
	if side {
		h.Exists = true
	}
	if tok == 1 {
		return h, slotFTB, false
	}
	return h, slotFT, false
}

// getFT: the holder's balance; side=true also applies the object creation the query performs.
func (m *model) getFT(a, tok int, side bool) *big.Int {
	acct, slot, bound := m.ftSlot(a, tok, side)
	v := new(big.Int).SetBytes(acct.Store[slot])
	if bound {
		return utility.FormatDecimalForRocket(v, int64(m.BoundDec))
	}
	return v
}

func (m *model) ftWrite(op Op) {
	acct, slot, bound := m.ftSlot(op.A, op.S, true)
	amt := ftAmount(op)
	if bound {
		amt = utility.FormatDecimalForERC20(amt, int64(m.BoundDec))
	}
	cur := new(big.Int).SetBytes(acct.Store[slot])
	switch op.K {
	case kSetFT:
		acct.Store[slot] = amt.Bytes()
	case kAddFT:
		if bound || amt.Sign() != 0 { // unbound, amount 0: only touches the object
			acct.Store[slot] = cur.Add(cur, amt).Bytes()
		}
	case kSubFT:
		if bound {
			if cur.Cmp(amt) >= 0 {
				acct.Store[slot] = cur.Sub(cur, amt).Bytes()
			}
		} else if amt.Sign() != 0 && len(acct.Store[slot]) > 0 && cur.Cmp(amt) >= 0 {
			acct.Store[slot] = cur.Sub(cur, amt).Bytes()
		}
	}
}
