package main

import (
	"encoding/hex"
	"fmt"
	"math/big"
	"strconv"
	"strings"

	"golang.org/x/crypto/sha3"

	"com.tuntun.rangers/node/src/common"
	crypto "com.tuntun.rangers/node/src/eth_crypto"
	"com.tuntun.rangers/node/src/middleware/types"
	"com.tuntun.rangers/node/src/storage/account"
	"com.tuntun.rangers/node/src/utility"
)

const (
	kSetNonce      = "SetNonce"
	kIncNonce      = "IncreaseNonce"
	kSetData       = "SetData"
	kRemoveData    = "RemoveData"
	kSetCode       = "SetCode"
	kAddBalance    = "AddBalance"
	kSubBalance    = "SubBalance"
	kSetBalance    = "SetBalance"
	kTransfer      = "Transfer"
	kSuicide       = "Suicide"
	kCreate        = "CreateAccount"
	kAddLog        = "AddLog"
	kAddRefund     = "AddRefund"
	kSubRefund     = "SubRefund"
	kALAddr        = "AddAddressToAccessList"
	kALSlot        = "AddSlotToAccessList"
	kTransient     = "SetTransientState"
	kReadAll       = "ReadAll"
	kReadCommitted = "GetCommittedState"
	kSnapshot      = "Snapshot"
	kRevert        = "RevertToSnapshot"
	kAddFT         = "AddFT"
	kSubFT         = "SubFT"
	kSetFT         = "SetFT"
	kPrepare       = "Prepare"
	kBind          = "AddERC20Binding"
	kGetFT         = "GetFT"
	kGetBinding    = "GetERC20Binding"
)

// journal-entry family of an op kind (used in signatures: which kinds of calls sat in
// the reverted segments of the minimal failing history).
var family = map[string]string{
	kSetNonce: "nonce", kIncNonce: "nonce", kSetData: "storage", kRemoveData: "storage", kSetCode: "code",
	kAddBalance: "balance", kSubBalance: "balance", kSetBalance: "balance", kTransfer: "balance",
	kSuicide: "suicide", kCreate: "create", kAddLog: "log", kAddRefund: "refund", kSubRefund: "refund",
	kALAddr: "accesslist", kALSlot: "accesslist", kTransient: "transient", kReadAll: "read",
	kReadCommitted: "read-committed", kAddFT: "ft", kSubFT: "ft", kSetFT: "ft", kPrepare: "prepare",
	kBind: "binding", kGetFT: "ft-read", kGetBinding: "read-binding",
}

// familyOf: the FT mutators write a slot of the account's own storage (same journal entry
// kind as SetData); with amount 0 AddFT only touches the object.
func familyOf(o Op) string {
	switch o.K {
	case kAddFT, kSubFT, kSetFT:
		if o.K == kAddFT && o.V == 0 {
			return "touch"
		}
		return "storage"
	}
	return family[o.K]
}

const ftName = "VERIF-TOK2" // a token name without ERC20 binding: FT mutators then use the account's own storage
const slotFT = 3            // pseudo slot index of the FT key in the model / observation

// A second, non-native token name that histories may bind to an ERC20 contract
// (AddERC20Binding); FT calls with Op.S == 1 use it.  Amounts on it are multiples of 10^9 so
// that a 9-decimal binding converts without remainder.
const boundName = "VERIF-BOUND"
const slotFTB = 4 // the holder's own FT slot for boundName (used while the name is unbound)
const slotERC = 5 // the bound contract's balance slot of the holder
const bindPos = 3 // mapping position of balances in the bound contract

var ercKey []byte // storage key of the holder's balance in the bound contract (set at boot)

var e9 = big.NewInt(1000000000)

// bindCfg: which universe addresses play holder / bound contract / binding account.
type bindCfg struct{ holder, contract, acct int }

func ftNameOf(o Op) string {
	if o.S == 1 {
		return boundName
	}
	return ftName
}

func ftAmount(o Op) *big.Int {
	if o.S == 1 {
		return new(big.Int).Mul(big.NewInt(int64(o.V)), e9)
	}
	return big.NewInt(int64(o.V))
}

// Op is one call of the alphabet.  A,B index the address universe, S a slot/key, V a value
// index, an amount or (RevertToSnapshot) the position of the target in the list of live ids.
type Op struct {
	K string `json:"op"`
	A int    `json:"a"`
	B int    `json:"b,omitempty"`
	S int    `json:"s,omitempty"`
	V int    `json:"v,omitempty"`
}

// isQuery: calls that are queries by contract; they stay in place when the reverted segments
// are deleted.  (SubFT/AddFT with amount 0 are not: they create the account object.)
func (o Op) isQuery() bool { return o.K == kReadAll || o.K == kReadCommitted || o.K == kGetBinding }

func (o Op) usesAddr() bool {
	switch o.K {
	case kAddLog, kAddRefund, kSubRefund, kReadAll, kSnapshot, kRevert, kPrepare, kGetBinding:
		return false
	}
	return true
}

func (o Op) str(u *universe) string {
	a := func(i int) string { return u.short[i] }
	switch o.K {
	case kSetNonce:
		return fmt.Sprintf("SetNonce(%s,%d)", a(o.A), o.V)
	case kIncNonce, kSuicide, kCreate, kALAddr:
		return fmt.Sprintf("%s(%s)", o.K, a(o.A))
	case kSetData:
		return fmt.Sprintf("SetData(%s,s%d,v%d)", a(o.A), o.S, o.V)
	case kRemoveData:
		return fmt.Sprintf("RemoveData(%s,s%d)", a(o.A), o.S)
	case kSetCode:
		return fmt.Sprintf("SetCode(%s,c%d)", a(o.A), o.V)
	case kAddBalance, kSubBalance, kSetBalance:
		return fmt.Sprintf("%s(%s,%d)", o.K, a(o.A), o.V)
	case kTransfer:
		return fmt.Sprintf("Transfer(%s,%s,%d)", a(o.A), a(o.B), o.V)
	case kAddLog:
		return fmt.Sprintf("AddLog(L%d)", o.V)
	case kPrepare:
		return fmt.Sprintf("Prepare(tx%d,bh,%d)", o.V, o.V)
	case kAddRefund, kSubRefund:
		return fmt.Sprintf("%s(%d)", o.K, o.V)
	case kALSlot:
		return fmt.Sprintf("AddSlotToAccessList(%s,s%d)", a(o.A), o.S)
	case kTransient:
		return fmt.Sprintf("SetTransientState(%s,k%d,t%d)", a(o.A), o.S, o.V)
	case kReadCommitted:
		return fmt.Sprintf("GetCommittedState(%s,s%d)", a(o.A), o.S)
	case kRevert:
		return fmt.Sprintf("RevertToSnapshot(live[%d])", o.V)
	case kAddFT, kSubFT, kSetFT:
		return fmt.Sprintf("%s(%s,%q,%s)", o.K, a(o.A), ftNameOf(o), ftAmount(o))
	case kGetFT:
		return fmt.Sprintf("GetFT(%s,%q)", a(o.A), ftNameOf(o))
	case kGetBinding:
		return fmt.Sprintf("GetERC20Binding(%q)", boundName)
	case kBind:
		return fmt.Sprintf("AddERC20Binding(%q,%s,%d,%d)", boundName, a(o.A), bindPos, o.V)
	}
	return o.K + "()"
}

func histStr(u *universe, h []Op) []string {
	out := make([]string, len(h))
	for i, o := range h {
		out[i] = o.str(u)
	}
	return out
}

// ---- concrete values -------------------------------------------------------------------

func slotKey(s int) []byte {
	switch s {
	case slotFT:
		return utility.StrToBytes(common.GenerateFTKey(ftName))
	case slotFTB:
		return utility.StrToBytes(common.GenerateFTKey(boundName))
	case slotERC:
		return ercKey
	}
	k := make([]byte, 32)
	k[31] = byte(s)
	return k
}

func slotHash(s int) common.Hash { return common.BytesToHash(slotKey(s)) }

func dataVal(v int) []byte {
	switch v {
	case 0:
		return []byte{0xc0, 0xff, 0xee} // the committed value
	case 1:
		return []byte{0x11}
	default:
		return []byte{0x22, 0x22}
	}
}

func codeVal(v int) []byte {
	if v == 0 {
		return []byte{0x60, 0x00, 0x60, 0x00, 0xf3} // the committed code
	}
	return []byte{0x60, byte(v), 0x00}
}

func transVal(v int) common.Hash {
	var h common.Hash
	if v != 0 {
		h[31] = byte(0xa0 + v)
	}
	return h
}

func transKey(s int) common.Hash {
	var h common.Hash
	h[0] = 0x7c
	h[31] = byte(s)
	return h
}

var emptyCodeHash = sha3.Sum256(nil)

const nTx = 3 // transaction contexts tx1..tx3 (tx0 = before any Prepare)

func txHash(i int) common.Hash {
	var h common.Hash
	if i != 0 {
		h[0], h[31] = 0x7a, byte(i)
	}
	return h
}

func blockHashOf(tx int) common.Hash {
	var h common.Hash
	if tx != 0 {
		h[0], h[31] = 0xb1, 0x0c
	}
	return h
}

func logVal(u *universe, v int) *types.Log {
	var t common.Hash
	t[0] = byte(v)
	return &types.Log{Address: u.addr[(v-1)%len(u.addr)], Topics: []common.Hash{t}, Data: []byte{byte(v), 0xda}}
}

// ---- universe / start states ---------------------------------------------------------------

type universe struct {
	name  string
	root  common.Hash
	db    account.AccountDatabase
	addr  []common.Address
	role  []string // life cycle of the address in the start state
	short []string
	// prep, if set, is run on every freshly opened instance and must end in Commit: the
	// history then runs on the same (cache-warm, committed) AccountDB object.
	prep func(st *account.AccountDB)
	// bind, if set: the universe of the ERC20-binding slices (token queries are part of the observation)
	bind *bindCfg
}

func (u *universe) open() *account.AccountDB {
	st, err := account.NewAccountDB(u.root, u.db)
	if err != nil {
		panic(fmt.Errorf("open start state %s: %v", u.name, err))
	}
	if u.prep != nil {
		u.prep(st)
	}
	return st
}

func (u *universe) indexOf(a common.Address) int {
	for i := range u.addr {
		if u.addr[i] == a {
			return i
		}
	}
	return -1
}

func (u *universe) roleOf(a common.Address) string {
	for i := range u.addr {
		if u.addr[i] == a {
			return u.role[i]
		}
	}
	return "other"
}

// ---- executing one op on the implementation -------------------------------------------------

type impl struct {
	st   *account.AccountDB
	live []int // snapshot ids handed out by Snapshot and still valid by the API contract
}

func (x *impl) exec(u *universe, o Op, ft bool) {
	st := x.st
	switch o.K {
	case kSetNonce:
		st.SetNonce(u.addr[o.A], uint64(o.V))
	case kIncNonce:
		st.IncreaseNonce(u.addr[o.A])
	case kSetData:
		st.SetData(u.addr[o.A], slotKey(o.S), dataVal(o.V))
	case kRemoveData:
		st.RemoveData(u.addr[o.A], slotKey(o.S))
	case kSetCode:
		st.SetCode(u.addr[o.A], codeVal(o.V))
	case kAddBalance:
		st.AddBalance(u.addr[o.A], big.NewInt(int64(o.V)))
	case kSubBalance:
		st.SubBalance(u.addr[o.A], big.NewInt(int64(o.V)))
	case kSetBalance:
		st.SetBalance(u.addr[o.A], big.NewInt(int64(o.V)))
	case kTransfer:
		st.Transfer(u.addr[o.A], u.addr[o.B], big.NewInt(int64(o.V)))
	case kSuicide:
		st.Suicide(u.addr[o.A])
	case kCreate:
		st.CreateAccount(u.addr[o.A])
	case kAddLog:
		st.AddLog(logVal(u, o.V))
	case kPrepare:
		st.Prepare(txHash(o.V), blockHashOf(o.V), o.V)
	case kAddRefund:
		st.AddRefund(uint64(o.V))
	case kSubRefund:
		st.SubRefund(uint64(o.V))
	case kALAddr:
		st.AddAddressToAccessList(u.addr[o.A])
	case kALSlot:
		st.AddSlotToAccessList(u.addr[o.A], slotHash(o.S))
	case kTransient:
		st.SetTransientState(u.addr[o.A], transKey(o.S), transVal(o.V))
	case kReadAll:
		observe(st, u, ft)
	case kReadCommitted:
		st.GetCommittedState(u.addr[o.A], slotHash(o.S))
	case kAddFT:
		st.AddFT(u.addr[o.A], ftNameOf(o), ftAmount(o))
	case kSubFT:
		st.SubFT(u.addr[o.A], ftNameOf(o), ftAmount(o))
	case kSetFT:
		st.SetFT(u.addr[o.A], ftNameOf(o), ftAmount(o))
	case kGetFT:
		st.GetFT(u.addr[o.A], ftNameOf(o))
	case kGetBinding:
		st.GetERC20Binding(boundName)
	case kBind:
		st.AddERC20Binding(boundName, u.addr[o.A], bindPos, uint64(o.V))
	case kSnapshot:
		x.live = append(x.live, st.Snapshot())
	case kRevert:
		st.RevertToSnapshot(x.live[o.V])
		x.live = x.live[:o.V]
	default:
		panic("exec: unknown op " + o.K)
	}
}

// ---- observation: every query named in the property statement -----------------------------

func hexs(b []byte) string { return hex.EncodeToString(b) }

func bstr(b bool) string {
	if b {
		return "true"
	}
	return "false"
}

const undef = "\x01"

// obsKeys lists the queries of one full observation, in the order observe asks them:
// cache-warming reads first, Empty last so that its answer does not depend on whether
// this very observation already ran once.
func obsKeys(u *universe, ft bool) []string {
	var out []string
	for i := range u.addr {
		n := u.short[i]
		out = append(out, "GetBalance("+n+")", "GetNonce("+n+")", "GetData("+n+",s1)", "GetData("+n+",s2)")
		if ft {
			out = append(out, "GetData("+n+",ft)")
		}
		out = append(out, "GetCode("+n+")", "GetCodeHash("+n+")", "Exist("+n+")", "HasSuicided("+n+")")
	}
	for i := range u.addr {
		out = append(out, "Empty("+u.short[i]+")")
	}
	out = append(out, "GetRefund()")
	for t := 0; t <= nTx; t++ {
		out = append(out, fmt.Sprintf("GetLogs(tx%d)", t))
	}
	if b := u.bind; b != nil {
		h, c := u.short[b.holder], u.short[b.contract]
		out = append(out, "GetERC20Binding(tok)", "GetData("+h+",own-ft-slot)", "GetData("+c+",erc20-balance-slot)")
	}
	for i := range u.addr {
		n := u.short[i]
		out = append(out, "AddressInAccessList("+n+")", "SlotInAccessList("+n+",s1)", "SlotInAccessList("+n+",s2)", "GetTransientState("+n+",k1)")
	}
	if b := u.bind; b != nil {
		out = append(out, "GetFT("+u.short[b.holder]+",tok)")
	}
	return out
}

// logStr: payload and every field the AccountDB stamps on a log itself.
func logStr(l *types.Log, index uint, txIndex uint, txh, bh common.Hash) string {
	return fmt.Sprintf("%x/%x/%x/index%d/txindex%d/tx%x/block%x", l.Address[:], l.Topics, l.Data, index, txIndex, txh[:2], bh[:2])
}

// observe asks every query of the statement over the closed universe (answers in obsKeys order).
func observe(st *account.AccountDB, u *universe, ft bool) []string {
	out := make([]string, 0, 16*len(u.addr)+4)
	for _, a := range u.addr {
		out = append(out, st.GetBalance(a).String(), strconv.FormatUint(st.GetNonce(a), 10),
			hexs(st.GetData(a, slotKey(1))), hexs(st.GetData(a, slotKey(2))))
		if ft {
			out = append(out, hexs(st.GetData(a, slotKey(slotFT))))
		}
		h := st.GetCodeHash(a)
		out = append(out, hexs(st.GetCode(a)), hexs(h[:]), bstr(st.Exist(a)), bstr(st.HasSuicided(a)))
	}
	for _, a := range u.addr {
		out = append(out, bstr(st.Empty(a)))
	}
	out = append(out, strconv.FormatUint(st.GetRefund(), 10))
	for t := 0; t <= nTx; t++ {
		var lg []string
		for _, l := range st.GetLogs(txHash(t)) {
			lg = append(lg, logStr(l, l.Index, l.TxIndex, l.TxHash, l.BlockHash))
		}
		out = append(out, strings.Join(lg, ";"))
	}
	if b := u.bind; b != nil {
		found, c, pos, dec := st.GetERC20Binding(boundName)
		out = append(out, bindStr(found, c, pos, dec),
			hexs(st.GetData(u.addr[b.holder], slotKey(slotFTB))), hexs(st.GetData(u.addr[b.contract], slotKey(slotERC))))
	}
	for _, a := range u.addr {
		out = append(out, bstr(st.AddressInAccessList(a)))
		for s := 1; s <= 2; s++ {
			ap, sp := st.SlotInAccessList(a, slotHash(s))
			out = append(out, bstr(ap)+" "+bstr(sp))
		}
		t := st.GetTransientState(a, transKey(1))
		out = append(out, hexs(t[:]))
	}
	if b := u.bind; b != nil {
		// last: on a bound name GetFT makes the AccountDB create the contract's account object
		// if it does not exist (journaled, also on the unchanged tree)
		out = append(out, st.GetFT(u.addr[b.holder], boundName).String())
	}
	return out
}

func bindStr(found bool, c common.Address, pos, dec uint64) string {
	return fmt.Sprintf("%v %x %d %d", found, c[:], pos, dec)
}

// ---- probes: what a LATER call gets ---------------------------------------------------------
//
// After the history (and the observation) one follow-up call is made on every block-wide
// counter / accumulator the AccountDB keeps, and what that call yields is observed: the
// refund counter after one more AddRefund, the access list after one more AddSlotToAccessList
// per address, transient storage after one more SetTransientState per address, and the
// fields stamped on one more log emitted in the current transaction and in every other
// transaction context (Prepare + AddLog).  Probes never touch account objects.

const probeLog = 9

func probeKeys(u *universe) []string {
	out := []string{"NextRefund()"}
	if u.bind != nil {
		out = []string{"NextFT(" + u.short[u.bind.holder] + ",tok)", "NextRefund()"}
	}
	for i := range u.addr {
		out = append(out, "NextAccessList("+u.short[i]+")")
	}
	for i := range u.addr {
		out = append(out, "NextTransient("+u.short[i]+")")
	}
	out = append(out, "NextLog(current-tx)")
	for t := 1; t <= nTx; t++ {
		out = append(out, fmt.Sprintf("NextLog(tx%d)", t))
	}
	return out
}

func probe(st *account.AccountDB, u *universe) []string {
	var out []string
	if b := u.bind; b != nil {
		// one more FT write on the token and what the holder's balance is then
		st.AddFT(u.addr[b.holder], boundName, e9)
		out = append(out, st.GetFT(u.addr[b.holder], boundName).String())
	}
	st.AddRefund(1)
	out = append(out, strconv.FormatUint(st.GetRefund(), 10))
	for _, a := range u.addr {
		st.AddSlotToAccessList(a, slotHash(2))
		_, s1 := st.SlotInAccessList(a, slotHash(1))
		ap, s2 := st.SlotInAccessList(a, slotHash(2))
		out = append(out, bstr(ap)+" "+bstr(s1)+" "+bstr(s2))
	}
	for _, a := range u.addr {
		st.SetTransientState(a, transKey(2), transVal(1))
		t1, t2 := st.GetTransientState(a, transKey(1)), st.GetTransientState(a, transKey(2))
		out = append(out, hexs(t1[:])+" "+hexs(t2[:]))
	}
	l := logVal(u, probeLog)
	st.AddLog(l)
	out = append(out, logStr(l, l.Index, l.TxIndex, l.TxHash, l.BlockHash))
	for t := 1; t <= nTx; t++ {
		st.Prepare(txHash(t), blockHashOf(t), t)
		l := logVal(u, probeLog)
		st.AddLog(l)
		out = append(out, logStr(l, l.Index, l.TxIndex, l.TxHash, l.BlockHash))
	}
	return out
}

func (m *model) probe(u *universe) []string {
	var out []string
	if b := u.bind; b != nil {
		mc := m.clone()
		mc.apply(Op{K: kAddFT, A: b.holder, S: 1, V: 1})
		out = append(out, mc.getFT(b.holder, 1, false).String())
	}
	out = append(out, strconv.FormatUint(m.Refund+1, 10))
	for i := range u.addr {
		out = append(out, "true "+bstr(m.ALAddr[i] && m.ALSlot[[2]int{i, 1}])+" true")
	}
	for i := range u.addr {
		t1, t2 := transVal(m.Trans[[2]int{i, 1}]), transVal(1)
		out = append(out, hexs(t1[:])+" "+hexs(t2[:]))
	}
	n := m.LogSize
	l := logVal(u, probeLog)
	out = append(out, logStr(l, n, uint(m.CurTx), txHash(m.CurTx), blockHashOf(m.CurTx)))
	for t := 1; t <= nTx; t++ {
		n++
		out = append(out, logStr(l, n, uint(t), txHash(t), blockHashOf(t)))
	}
	return out
}

// accessorOf extracts "GetData" / "A" from an observation key like "GetData(A,s1)".
func accessorOf(key string) (name, who string) {
	i := strings.IndexByte(key, '(')
	name = key[:i]
	rest := key[i+1 : len(key)-1]
	if j := strings.IndexByte(rest, ','); j >= 0 {
		rest = rest[:j]
	}
	return name, rest
}

var zeroHashHex = hexs(make([]byte, 32))
var emptyCodeHashHex = hexs(emptyCodeHash[:])

// observe renders the model's answers in obsKeys order.  Empty is not defined by the
// model (the implementation's notion depends on its caches); it is checked differentially only.
func (m *model) observe(u *universe, ft bool) []string {
	out := make([]string, 0, 16*len(u.addr)+4)
	for i := range u.addr {
		a := &m.Acct[i]
		out = append(out, m.Bal[i].String(), strconv.FormatUint(a.Nonce, 10), hexs(a.Store[1]), hexs(a.Store[2]))
		if ft {
			out = append(out, hexs(a.Store[slotFT]))
		}
		ch := zeroHashHex
		switch {
		case !a.Exists:
		case len(a.Code) == 0:
			ch = emptyCodeHashHex
		default:
			h := crypto.Keccak256Hash(a.Code)
			ch = hexs(h[:])
		}
		out = append(out, hexs(a.Code), ch, bstr(a.Exists), bstr(a.Suicided))
	}
	for range u.addr {
		out = append(out, undef)
	}
	out = append(out, strconv.FormatUint(m.Refund, 10))
	for t := 0; t <= nTx; t++ {
		var lg []string
		for _, l := range m.Logs {
			if l.Tx == t {
				lg = append(lg, logStr(logVal(u, l.V), l.Index, uint(l.Tx), txHash(l.Tx), blockHashOf(l.Tx)))
			}
		}
		out = append(out, strings.Join(lg, ";"))
	}
	if b := u.bind; b != nil {
		if m.Bound {
			out = append(out, bindStr(true, u.addr[b.contract], bindPos, m.BoundDec))
		} else {
			out = append(out, bindStr(false, common.Address{}, 0, 0))
		}
		out = append(out, hexs(m.Acct[b.holder].Store[slotFTB]), hexs(m.Acct[b.contract].Store[slotERC]))
	}
	for i := range u.addr {
		out = append(out, bstr(m.ALAddr[i]))
		for s := 1; s <= 2; s++ {
			out = append(out, bstr(m.ALAddr[i])+" "+bstr(m.ALAddr[i] && m.ALSlot[[2]int{i, s}]))
		}
		t := transVal(m.Trans[[2]int{i, 1}])
		out = append(out, hexs(t[:]))
	}
	if b := u.bind; b != nil {
		out = append(out, m.getFT(b.holder, 1, false).String())
	}
	return out
}

// initModel reads the start state once through the plain accessors.
func initModel(u *universe, ft bool) *model {
	st := u.open()
	m := &model{bind: u.bind}
	n := len(u.addr)
	m.Acct = make([]mAcct, n)
	m.Bal = make([]*big.Int, n)
	m.ALAddr = make([]bool, n)
	m.ALSlot = map[[2]int]bool{}
	m.Trans = map[[2]int]int{}
	for i, a := range u.addr {
		m.Bal[i] = new(big.Int).Set(st.GetBalance(a))
		acc := mAcct{Store: map[int][]byte{}}
		acc.Exists = st.Exist(a)
		acc.Nonce = st.GetNonce(a)
		acc.Code = append([]byte(nil), st.GetCode(a)...)
		for _, s := range []int{1, 2, slotFT, slotFTB, slotERC} {
			if v := st.GetData(a, slotKey(s)); len(v) > 0 {
				acc.Store[s] = append([]byte(nil), v...)
			}
		}
		m.Acct[i] = acc
	}
	return m
}
