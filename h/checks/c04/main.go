// C04: reverting to a snapshot restores the account state exactly.
//
// Explicit-state breadth-first search (engine E2) over histories of AccountDB calls
// (mutators, queries with side effects, Snapshot, RevertToSnapshot to any live id) on
// the real AccountDB, opened fresh at a committed root for every history.  Oracles:
//
//  1. refjournal (model.go): plain Go state + a stack of deep copies; after every history
//     all queries named in the statement are compared with the model;
//  2. differential: the same queries, and IntermediateRoot(true) (the call the block
//     executor makes), are compared with a fresh AccountDB that executes the history with
//     the mutating calls of all reverted segments deleted (queries stay in place: they are
//     not "reverted operations"); a root mismatch is explained by a leaf-level diff of the
//     two account tries (and their storage tries).
//
// A query answer is flagged only if BOTH oracles reject it (the model says what the answer
// was when the snapshot was taken; the differential run says what it is without the
// reverted calls).  Emptiness and presence of an account in the trie are not notions of
// the model (the implementation derives them from its caches): presence in the trie is
// decided by the differential oracle alone; Empty() is not in the statement's list of
// queries and a difference there is only recorded as an observation.  Nonce / code hash / slot differences between the two tries are
// dropped when the history's own leaf is what the model says.
//
// Every history with a revert is executed twice: once ending in the full observation
// followed by the root ("warm": the queries have filled the object caches), once ending
// directly in the root ("cold"); the thorough tier adds IntermediateRoot(false).  ReadAll
// (the full observation) and GetCommittedState (the read the EVM's SSTORE gas rule makes)
// are letters of the alphabet, so queries are interleaved at every position of a history,
// including inside segments that are reverted later.
//
// The explored space is a union of slices (buildSlices): each slice = ALL valid histories up
// to its depth over its alphabet, from one of the start states {dev genesis state; genesis +
// a committed storage-only account and a committed contract; thorough: the committing
// AccountDB object itself}.  Three addresses per start state, chosen by life cycle.
//
// A model mismatch in a history without RevertToSnapshot is a deviation of forward
// semantics, outside this property: it is recorded in the evidence, never flagged.
// A failing history is reported only if no call (or pair of calls) can be removed from it
// without losing the failure, and its subtree is not expanded.
package main

import (
	"bytes"
	"crypto/sha256"
	"encoding/json"
	"fmt"
	"math/big"
	"os"
	"sort"
	"strings"
	"time"

	"verif/h/fw"
	"verif/h/node"

	"com.tuntun.rangers/node/src/common"
	"com.tuntun.rangers/node/src/core"
	crypto "com.tuntun.rangers/node/src/eth_crypto"
	"com.tuntun.rangers/node/src/storage/account"
)

func main() {
	fw.Main(fw.Check{
		ID: "C04", Level: "model_checking",
		Rule: "every valid history (RevertToSnapshot only to live ids, <=3 live snapshots, SubRefund never below zero) up to the slice's depth over the slice's alphabet is executed on a fresh real AccountDB, " +
			"except revert-free histories that cannot be extended to one with a revert within the depth bound (they say nothing about the property); " +
			"distinct = distinct histories (each enumerated once); non-trivial = the history contains at least one RevertToSnapshot that undid at least one journal entry; " +
			"states = distinct (implementation dump incl. journal entries and snapshot ids, model state incl. copy stack)",
		Assumptions: []string{
			"the start states are read correctly through the plain accessors of a freshly opened AccountDB (the model is initialised from them)",
			"forward (revert-free) semantics of each mutator as written in model.go; a model mismatch in a history without RevertToSnapshot is outside the property: it is recorded in coverage (forward_deviation_*), never flagged",
			"the leaf-level trie iterator used only to explain a root mismatch",
			"Proposal002 active (balances are journaled storage slots of the bound token contract); dev genesis state",
		},
		Run: run, Replay: replay,
		Budget: func(tier string) time.Duration {
			if tier == "thorough" {
				return 17 * time.Minute
			}
			return 100 * time.Second
		},
	})
}

// ---- start states --------------------------------------------------------------------------

func boot() (gen, com, com2, warm, bnd, bndX *universe) {
	if err := node.Boot(node.ForksAllOn, true); err != nil {
		fmt.Fprintln(os.Stderr, "boot:", err)
		os.Exit(3)
	}
	common.SetBlockHeight(2)
	base := node.LatestState()
	db := base.Database()
	root := core.GetBlockChain().TopBlock().StateTree

	mk := func(b byte) common.Address {
		var a common.Address
		a[0], a[1], a[19] = 0xc0, 0x4a, b
		return a
	}
	gen = &universe{name: "genesis", root: root, db: db,
		addr:  []common.Address{mk(1), common.HexToAddress("0x2f4f09b722a6e5b77be17c9a99c785fa7035a09f"), common.GenerateERC20Binding(common.BLANCE_NAME)},
		role:  []string{"absent", "absent", "storage-only"}, // F: no account object, only a balance slot in the token contract
		short: []string{"A", "F", "B"}}

	// second start state: a storage-only account and a contract account committed on top of genesis
	S, K := mk(2), mk(3)
	base.SetData(S, slotKey(1), dataVal(0))
	base.SetBalance(S, big.NewInt(20))
	base.SetNonce(K, 1)
	base.SetCode(K, codeVal(0))
	base.SetData(K, slotKey(1), dataVal(0))
	base.SetBalance(K, big.NewInt(20))
	root2, err := base.Commit(true)
	if err != nil {
		fmt.Fprintln(os.Stderr, "commit start state:", err)
		os.Exit(3)
	}
	com = &universe{name: "committed", root: root2, db: db,
		addr:  []common.Address{mk(1), S, K},
		role:  []string{"absent", "storage-only", "contract"},
		short: []string{"A", "S", "K"}}

	// a state committed with deleteEmptyObjects=false: a hollow account (exists, nothing in it),
	// a nonce-0 account that only holds an FT balance in its own storage (looks empty until
	// that slot is read), a funded externally owned account (nonce 1, RPG balance)
	H, T, E := mk(5), mk(6), mk(7)
	b2 := node.LatestState()
	b2.CreateAccount(H)
	b2.SetFT(T, ftName, big.NewInt(5))
	b2.SetNonce(E, 1)
	b2.SetBalance(E, big.NewInt(20))
	root3, err := b2.Commit(false)
	if err != nil {
		fmt.Fprintln(os.Stderr, "commit start state:", err)
		os.Exit(3)
	}
	com2 = &universe{name: "committed-keep-empty", root: root3, db: db,
		addr:  []common.Address{H, T, E},
		role:  []string{"hollow", "storage-only", "eoa"}, // T: FT-only holder = storage-only account
		short: []string{"H", "T", "E"}}

	// start state of the ERC20-binding slices: a token holder (externally owned account that
	// holds 7*10^9 of the still unbound token in its own FT slot) and a contract; the binding
	// account of the token does not exist.  Two universes over it: the token gets bound to the
	// existing contract, or to an address that has no account.
	P, C := mk(8), mk(9)
	b3 := node.LatestState()
	b3.SetNonce(P, 1)
	b3.SetBalance(P, big.NewInt(20))
	b3.SetFT(P, boundName, new(big.Int).Mul(big.NewInt(7), e9))
	b3.SetNonce(C, 1)
	b3.SetCode(C, codeVal(0))
	b3.SetData(C, slotKey(1), dataVal(0))
	root4, err := b3.Commit(true)
	if err != nil {
		fmt.Fprintln(os.Stderr, "commit start state:", err)
		os.Exit(3)
	}
	ercKey = b3.GetERC20Key(P, bindPos)
	N := common.GenerateERC20Binding(boundName)
	bnd = &universe{name: "token-holder", root: root4, db: db,
		addr:  []common.Address{P, C, N},
		role:  []string{"eoa", "contract", "absent"},
		short: []string{"P", "C", "N"},
		bind:  &bindCfg{holder: 0, contract: 1, acct: 2}}
	bndX = &universe{name: "token-holder-contract-absent", root: root4, db: db,
		addr:  []common.Address{P, mk(10), N},
		role:  []string{"eoa", "absent", "absent"},
		short: []string{"P", "X", "N"},
		bind:  &bindCfg{holder: 0, contract: 1, acct: 2}}

	// third start state: the AccountDB object that committed the state is used on (as the
	// node does with its latest state object): account objects stay cached, one of them
	// (created and self-destructed before the commit) is flagged deleted.
	D := mk(4)
	warm = &universe{name: "warm-committed-object", root: root, db: db,
		addr:  []common.Address{mk(1), S, D},
		role:  []string{"absent", "storage-only-cached", "deleted-object-cached"},
		short: []string{"A", "S", "D"},
		prep: func(st *account.AccountDB) {
			st.SetData(S, slotKey(1), dataVal(0))
			st.SetBalance(S, big.NewInt(20))
			st.SetNonce(D, 3)
			st.SetData(D, slotKey(1), dataVal(0))
			st.Suicide(D)
			if _, err := st.Commit(true); err != nil {
				panic(err)
			}
		}}
	return
}

// ---- alphabets -------------------------------------------------------------------------------

type slice struct {
	name  string
	u     *universe
	ops   []Op
	depth int
	ft    bool
	keep  bool // also compare IntermediateRoot(false)
	// commit: also compare Commit(true) + a fresh AccountDB at the committed root (root and all queries)
	commit bool

	m0       *model
	b        *bfs
	frontier [][]byte
	done     int // deepest level completely evaluated
	okeys    []string
	memo     map[string]*refRes
	failKeys map[string][]string // failure keys of sub-histories already evaluated during minimisation
	c        *fw.Ctx
}

func (s *slice) init(c *fw.Ctx) {
	s.c = c
	s.memo = map[string]*refRes{}
	s.failKeys = map[string][]string{}
	s.m0 = initModel(s.u, s.ft)
	s.okeys = append(obsKeys(s.u, s.ft), probeKeys(s.u)...)
}

func acctOps(a int, rich bool) []Op {
	ops := []Op{
		{K: kSetNonce, A: a, V: 7}, {K: kIncNonce, A: a},
		{K: kSetData, A: a, S: 1, V: 1}, {K: kRemoveData, A: a, S: 1}, {K: kSetData, A: a, S: 2, V: 2},
		{K: kSetCode, A: a, V: 1},
		{K: kAddBalance, A: a, V: 5}, {K: kSubBalance, A: a, V: 3}, {K: kSetBalance, A: a, V: 9},
		{K: kSuicide, A: a}, {K: kCreate, A: a},
	}
	if rich {
		ops = append(ops, Op{K: kSetData, A: a, S: 1, V: 2}, Op{K: kRemoveData, A: a, S: 2}, Op{K: kReadCommitted, A: a, S: 1})
	}
	return ops
}

func ctlOps() []Op {
	return []Op{{K: kReadAll}, {K: kSnapshot}, {K: kRevert, V: 0}, {K: kRevert, V: 1}, {K: kRevert, V: 2}}
}

func sideOps() []Op {
	return []Op{
		{K: kAddLog, V: 1}, {K: kAddLog, V: 2}, {K: kAddRefund, V: 5}, {K: kSubRefund, V: 2},
		{K: kALAddr, A: 0}, {K: kALAddr, A: 1}, {K: kALSlot, A: 0, S: 1}, {K: kALSlot, A: 0, S: 2}, {K: kALSlot, A: 1, S: 1},
		{K: kTransient, A: 0, S: 1, V: 1}, {K: kTransient, A: 0, S: 1, V: 2}, {K: kTransient, A: 0, S: 1, V: 0}, {K: kTransient, A: 1, S: 1, V: 1},
	}
}

func ftOps(a int) []Op {
	return []Op{{K: kAddFT, A: a, V: 0}, {K: kAddFT, A: a, V: 5}, {K: kSubFT, A: a, V: 5}, {K: kSetFT, A: a, V: 5}, {K: kSetFT, A: a, V: 0}}
}

func cat(l ...[]Op) []Op {
	var out []Op
	for _, x := range l {
		out = append(out, x...)
	}
	return out
}

func coreOps(a int) []Op {
	return []Op{{K: kSetNonce, A: a, V: 7}, {K: kSetData, A: a, S: 1, V: 1}, {K: kRemoveData, A: a, S: 1}, {K: kSetCode, A: a, V: 1},
		{K: kAddBalance, A: a, V: 5}, {K: kSuicide, A: a}, {K: kCreate, A: a}}
}

func deepOps(a int) []Op {
	return []Op{{K: kSetNonce, A: a, V: 7}, {K: kSetData, A: a, S: 1, V: 1}, {K: kSuicide, A: a}, {K: kCreate, A: a}}
}

// buildSlices: the explored space is the union of the slices; each slice is the set of ALL
// valid histories up to its depth over its alphabet (the full alphabet to full depth is out
// of reach: 60 letters).  Order = order of execution (a time cap cuts the tail).
func buildSlices(thorough bool, gen, com, com2, warm, bnd, bndX *universe) []*slice {
	var out []*slice
	add := func(name string, u *universe, depth int, ft bool, ops []Op) {
		out = append(out, &slice{name: u.name + "/" + name, u: u, ops: ops, depth: depth, ft: ft, keep: thorough})
	}
	d := func(q, t int) int {
		if thorough {
			return t
		}
		return q
	}
	us := []*universe{com, gen}
	// every call that can reach touch() with a zero amount (and the zero-amount balance calls),
	// on every account class of the start states, alone inside reverted snapshots (nesting 1..3);
	// roots by IntermediateRoot(true), IntermediateRoot(false) and Commit(true)+reopen
	for _, u := range []*universe{com2, com, gen} {
		for a := 0; a < 3; a++ {
			z := []Op{{K: kAddFT, A: a, V: 0}, {K: kSubFT, A: a, V: 0}, {K: kAddBalance, A: a, V: 0}, {K: kSubBalance, A: a, V: 0}}
			out = append(out, &slice{name: u.name + "/touch-" + u.short[a], u: u, ops: cat(z, ctlOps()), depth: 6, ft: true, keep: true, commit: true})
		}
	}
	// ERC20 binding of a non-native token (two decimal counts), FT writes and FT / binding
	// queries on it for one holder: the binding decides where the balance lives
	for _, u := range []*universe{bnd, bndX} {
		y := []Op{{K: kBind, A: 1, V: 18}, {K: kBind, A: 1, V: 9},
			{K: kSetFT, A: 0, S: 1, V: 5}, {K: kAddFT, A: 0, S: 1, V: 5}, {K: kSubFT, A: 0, S: 1, V: 5}, {K: kAddFT, A: 0, S: 1, V: 0},
			{K: kGetFT, A: 0, S: 1}, {K: kGetBinding}}
		add("binding", u, d(6, 7), false, cat(y, ctlOps()))
	}
	// exported FT mutators on a token name without binding (account's own storage, touch())
	for _, u := range us {
		for a := 0; a < 3; a++ {
			y := []Op{{K: kSetNonce, A: a, V: 7}, {K: kSetData, A: a, S: 1, V: 1}, {K: kSetCode, A: a, V: 1}, {K: kSuicide, A: a}, {K: kCreate, A: a}, {K: kAddBalance, A: a, V: 5}}
			dep := d(4, 6)
			if u == gen {
				dep = d(4, 5)
			}
			add("ft-"+u.short[a], u, dep, true, cat(ftOps(a), y, ctlOps()))
		}
	}
	// one address at a time, the core letters of every journal-entry kind, deep
	for _, u := range us {
		for a := 0; a < 3; a++ {
			add("core-"+u.short[a], u, d(6, 7), false, cat(coreOps(a), ctlOps()))
		}
	}
	// refund, logs, access list, transient storage, interleaved with a few account letters
	for _, u := range us {
		y := []Op{{K: kSetNonce, A: 0, V: 7}, {K: kSetData, A: 1, S: 1, V: 1}, {K: kSuicide, A: 1}, {K: kPrepare, V: 1}, {K: kPrepare, V: 2}}
		add("side", u, d(5, 6), false, cat(sideOps(), y, ctlOps()))
	}
	// several transactions of one block on the same AccountDB (Prepare between them, no
	// Finalise/Reset): block-wide log counter, refund, transient storage carried across, access
	// list reset per transaction
	for _, u := range us {
		if u == gen && !thorough {
			continue
		}
		y := []Op{{K: kPrepare, V: 1}, {K: kPrepare, V: 2}, {K: kAddLog, V: 1}, {K: kAddLog, V: 2}, {K: kAddRefund, V: 5}, {K: kSubRefund, V: 2},
			{K: kALAddr, A: 0}, {K: kALSlot, A: 0, S: 1}, {K: kALSlot, A: 1, S: 1}, {K: kTransient, A: 0, S: 1, V: 1}, {K: kTransient, A: 0, S: 1, V: 0}, {K: kSetNonce, A: 0, V: 7}}
		add("tx", u, d(6, 7), false, cat(y, ctlOps()))
	}
	// one address at a time, all account letters (second values, GetCommittedState, balance
	// arithmetic, transfers with a neighbour)
	for _, u := range us {
		for a := 0; a < 3; a++ {
			b := (a + 1) % 3
			x := []Op{{K: kAddBalance, A: b, V: 5}, {K: kTransfer, A: a, B: b, V: 4}, {K: kTransfer, A: b, B: a, V: 4}}
			add("account-"+u.short[a], u, d(5, 6), false, cat(acctOps(a, true), x, ctlOps()))
		}
	}
	// two addresses at a time, core letters and transfers between them
	for _, u := range us {
		for a := 0; a < 3; a++ {
			b := (a + 1) % 3
			x := []Op{{K: kTransfer, A: a, B: b, V: 4}, {K: kTransfer, A: b, B: a, V: 4}}
			add("pair-"+u.short[a]+u.short[b], u, d(5, 6), false, cat(coreOps(a), coreOps(b), x, ctlOps()))
		}
	}
	// every account-level letter on all three addresses plus cross-address transfers
	for _, u := range us {
		tr := []Op{{K: kTransfer, A: 1, B: 0, V: 4}, {K: kTransfer, A: 0, B: 1, V: 4}, {K: kTransfer, A: 1, B: 2, V: 4}, {K: kTransfer, A: 2, B: 1, V: 4}}
		add("accounts3", u, d(4, 5), false, cat(acctOps(0, false), acctOps(1, false), acctOps(2, false), tr, ctlOps()))
	}
	if thorough {
		// the committing AccountDB object itself as start state
		for a := 0; a < 3; a++ {
			add("core-"+warm.short[a], warm, 5, false, cat(coreOps(a), ctlOps()))
		}
		// few letters, depth 8 (nesting 3 needs at least 3 snapshots + 3 reverts)
		for _, u := range us {
			for a := 0; a < 3; a++ {
				add("deep-"+u.short[a], u, 8, false, cat(deepOps(a), ctlOps()))
			}
		}
	}
	return out
}

// ---- one execution on the implementation ----------------------------------------------------------

type runRes struct {
	panicked bool
	site     string
	pval     string
	at       int // index of the op that panicked, len(h) = in the final observation / root
	dump     string
	obs      []string
	root     common.Hash
	undone   int
	idsBad   string
	leaves   []account.VerifLeaf
}

const (
	modeObs     = 0 // history, dump, full observation, IntermediateRoot(true)
	modeCold    = 1 // history, IntermediateRoot(true)
	modeObsOnly = 2 // history, dump, full observation
	modeKeep    = 3 // history, IntermediateRoot(false): empty objects are kept (the RPC simulation path)
	modeCommit  = 4 // history, Commit(true), fresh AccountDB opened at the returned root, full observation
)

func (s *slice) runImpl(h []Op, mode int, wantLeaves bool) (r runRes) {
	x := &impl{st: s.u.open()}
	i := 0
	p, v, site := fw.Try(func() {
		for i = 0; i < len(h); i++ {
			if h[i].K == kRevert {
				before := account.VerifJournalLen(x.st)
				x.exec(s.u, h[i], s.ft)
				r.undone += before - account.VerifJournalLen(x.st)
			} else {
				x.exec(s.u, h[i], s.ft)
			}
		}
		ids := account.VerifLiveSnapshots(x.st)
		if fmt.Sprint(ids) != fmt.Sprint(x.live) {
			r.idsBad = fmt.Sprintf("ids the caller may still revert to %v, ids the AccountDB accepts %v", x.live, ids)
		}
		if mode == modeObs || mode == modeObsOnly {
			r.dump = account.VerifDump(x.st, true)
			r.obs = observe(x.st, s.u, s.ft)
			r.obs = append(r.obs, probe(x.st, s.u)...)
		}
		switch mode {
		case modeObs, modeCold:
			r.root = x.st.IntermediateRoot(true)
		case modeKeep:
			r.root = x.st.IntermediateRoot(false)
		case modeCommit:
			root, err := x.st.Commit(true)
			if err != nil {
				panic(fmt.Errorf("Commit(true): %v", err))
			}
			r.root = root
			re, err := account.NewAccountDB(root, s.u.db)
			if err != nil {
				panic(fmt.Errorf("reopen at committed root: %v", err))
			}
			r.obs = observe(re, s.u, s.ft)
		}
		if wantLeaves {
			r.leaves = account.VerifLeaves(x.st)
		}
	})
	if p {
		r.panicked, r.site, r.pval, r.at = true, site, fmt.Sprint(v), i
	}
	s.c.Count("impl_replays", 1)
	return
}

// ---- reference execution of the history without its reverted segments --------------------

type refRes struct {
	ok       bool
	obs      string // answers joined by \x00
	rootWarm common.Hash
	rootCold common.Hash
	rootKeep common.Hash
	rootCom  common.Hash
	obsCom   string
	rootCont common.Hash
}

func (s *slice) ref(red []Op) *refRes {
	key := opsKey(red)
	if r, ok := s.memo[key]; ok {
		return r
	}
	a := s.runImpl(red, modeObs, false)
	b := s.runImpl(red, modeCold, false)
	r := &refRes{ok: !a.panicked && !b.panicked, obs: strings.Join(a.obs, "\x00"), rootWarm: a.root, rootCold: b.root}
	if s.keep {
		k := s.runImpl(red, modeKeep, false)
		r.ok = r.ok && !k.panicked
		r.rootKeep = k.root
	}
	if s.u.bind != nil {
		k := s.runImpl(s.cont(red), modeCold, false)
		r.ok = r.ok && !k.panicked
		r.rootCont = k.root
	}
	if s.commit {
		k := s.runImpl(red, modeCommit, false)
		r.ok = r.ok && !k.panicked
		r.rootCom, r.obsCom = k.root, strings.Join(k.obs, "\x00")
	}
	if len(s.memo) > 40000 {
		s.memo = map[string]*refRes{}
	}
	s.memo[key] = r
	return r
}

// walk steps the model through h and computes the reduced history: the mutating calls of
// reverted segments (and the Snapshot/Revert calls themselves) deleted, everything else in
// place; plus the families of the deleted calls.  ok=false if h is not a valid history.
func (s *slice) walk(h []Op) (m *model, red []Op, revFam []string, hasRevert, hasSnap, ok bool) {
	m = s.m0.clone()
	var marks []int
	fam := map[string]bool{}
	for _, o := range h {
		if !m.enabled(o, 3) {
			return nil, nil, nil, false, false, false
		}
		m.apply(o)
		switch o.K {
		case kSnapshot:
			hasSnap = true
			marks = append(marks, len(red))
		case kRevert:
			hasRevert = true
			// only the state-mutating calls of the segment are "reverted operations"; queries made
			// inside the segment stay where they were (they are not undone by anything, and the
			// statement does not promise that a query is free of side effects)
			var kept []Op
			for _, d := range red[marks[o.V]:] {
				// (in the binding universes the full observation ends in GetFT, which may create the
				// bound contract's account object - journaled, hence reverted: not a pure query there)
				if d.isQuery() && !(d.K == kReadAll && s.u.bind != nil) {
					kept = append(kept, d)
				} else {
					fam[familyOf(d)] = true
				}
			}
			red = append(red[:marks[o.V]:marks[o.V]], kept...)
			marks = marks[:o.V]
		default:
			red = append(red, o)
		}
	}
	for f := range fam {
		revFam = append(revFam, f)
	}
	sort.Strings(revFam)
	return m, red, revFam, hasRevert, hasSnap, true
}

func opsKey(h []Op) string {
	b := make([]byte, 0, len(h)*6)
	for _, o := range h {
		b = append(b, o.K...)
		b = append(b, byte('0'+o.A), byte('0'+o.B), byte('0'+o.S), byte('0'+o.V), ';')
	}
	return string(b)
}

// ---- evaluation of one history ----------------------------------------------------------------------

type failure struct {
	Class  string // accessor | root-differs | panic | snapshot-ids
	Detail string
	Role   string
	Msg    string
}

func (f failure) key() string { return f.Class + ":" + f.Detail + ":" + f.Role }

type nodeRes struct {
	fails     []failure
	key       [16]byte
	m         *model
	hasRevert bool
	undone    int
	revFam    []string
	forward   []string // forward-semantics deviations from the model (history without revert)
	emptyObs  []string // role \x00 message: Empty() answers differently after the revert (observation only)
}

func (s *slice) roleOfName(n string) string {
	for i, sh := range s.u.short {
		if sh == n {
			return s.u.role[i]
		}
	}
	return "-"
}

func (s *slice) eval(h []Op) *nodeRes {
	m, red, revFam, hasRevert, _, ok := s.walk(h)
	if !ok {
		return nil
	}
	res := &nodeRes{m: m, hasRevert: hasRevert, revFam: revFam}
	seen := map[string]bool{}
	fail := func(f failure) {
		if !seen[f.key()] {
			seen[f.key()] = true
			res.fails = append(res.fails, f)
		}
	}
	// a history without RevertToSnapshot only needs the observation (model oracle, state key);
	// one with a revert is run warm (observation, then root) and cold (root only).
	var a, b, k, cm runRes
	if hasRevert {
		a = s.runImpl(h, modeObs, false)
		b = s.runImpl(h, modeCold, false)
		if s.keep {
			k = s.runImpl(h, modeKeep, false)
		}
		if s.commit {
			cm = s.runImpl(h, modeCommit, false)
		}
	} else {
		a = s.runImpl(h, modeObsOnly, false)
	}
	res.undone = a.undone
	sum := sha256.Sum256([]byte(a.dump + "\x00" + m.String()))
	copy(res.key[:], sum[:16])
	for _, r := range []runRes{a, b, k, cm} {
		if r.panicked {
			where := "in the final observation/root"
			if r.at < len(h) {
				where = "in " + h[r.at].str(s.u)
			}
			fail(failure{Class: "panic", Detail: r.site, Role: "-", Msg: fmt.Sprintf("panic %s: %s", where, r.pval)})
		}
		if r.idsBad != "" {
			fail(failure{Class: "snapshot-ids", Detail: "live-set", Role: "-", Msg: r.idsBad})
		}
	}
	if a.panicked || b.panicked || k.panicked || cm.panicked {
		return res
	}
	// oracle 1: the reference model.  In a history without RevertToSnapshot a mismatch is a
	// deviation of the forward semantics (outside the property: recorded, not flagged).
	mo := append(m.observe(s.u, s.ft), m.probe(s.u)...)
	modelMis := map[int]string{}
	for i, v := range a.obs {
		if want := mo[i]; want != undef && want != v {
			modelMis[i] = want
			if !hasRevert {
				res.forward = append(res.forward, fmt.Sprintf("%s = %s, reference model says %s", s.okeys[i], v, want))
			}
		}
	}
	if !hasRevert {
		return res
	}
	// oracle 2: the same AccountDB code on the history without its reverted segments.
	// model(h) == model(reduced h) by construction, so a model mismatch on h that is not also
	// a differential mismatch is a forward deviation of the reduced (revert-free) history.
	ref := s.ref(red)
	if !ref.ok {
		return res
	}
	if ref.obs != strings.Join(a.obs, "\x00") {
		ro := strings.Split(ref.obs, "\x00")
		for i, v := range a.obs {
			if ro[i] != v {
				name, who := accessorOf(s.okeys[i])
				msg := fmt.Sprintf("%s = %s, but %s when the reverted calls are never made", s.okeys[i], v, ro[i])
				if mo[i] != undef {
					// both oracles must reject the answer: if it is what the reference model says, the
					// revert restored it exactly and it is the reduced history that deviates (forward)
					want, ok := modelMis[i]
					if !ok {
						s.c.Count("differential_mismatch_with_answer_equal_to_model_not_flagged", 1)
						continue
					}
					msg += fmt.Sprintf(" (reference model: %s)", want)
					delete(modelMis, i)
				} else {
					// Empty is not among the queries the statement lists (and the implementation derives
					// it from its caches): an observation for the evidence, not a verdict.  Its
					// consequence for the root is judged below.
					res.emptyObs = append(res.emptyObs, s.roleOfName(who)+"\x00"+msg)
					continue
				}
				fail(failure{Class: "accessor", Detail: name + "-after-revert", Role: s.roleOfName(who), Msg: msg})
			}
		}
	}
	if len(modelMis) > 0 {
		s.c.Count("model_mismatch_explained_by_forward_deviation", 1)
	}
	failRoot := func(f failure, ok bool) {
		if ok {
			fail(f)
		} else {
			s.c.Count("root_difference_where_history_matches_model_not_flagged", 1)
		}
	}
	coldDiffers := b.root != ref.rootCold
	if coldDiffers {
		failRoot(s.explainRoot(h, red, modeCold, m))
	}
	if a.root != ref.rootWarm {
		failRoot(s.explainRoot(h, red, modeObs, m))
	}
	if s.keep && k.root != ref.rootKeep && !coldDiffers {
		// reported only where IntermediateRoot(true) agrees: otherwise it is the same difference twice
		failRoot(s.explainRoot(h, red, modeKeep, m))
	}
	if s.u.bind != nil && !coldDiffers {
		// the same continuation (one more FT write on the token) after both histories
		hc, rc := s.cont(h), s.cont(red)
		if cn := s.runImpl(hc, modeCold, false); !cn.panicked && cn.root != ref.rootCont {
			mc := m.clone()
			mc.apply(hc[len(hc)-1])
			f, ok := s.explainRoot(hc, rc, modeCold, mc)
			f.Detail = "continuation/" + f.Detail
			f.Msg = "after one more " + hc[len(hc)-1].str(s.u) + ": " + f.Msg
			failRoot(f, ok)
		}
	}
	if s.commit && !coldDiffers {
		if cm.root != ref.rootCom {
			failRoot(s.explainRoot(h, red, modeCommit, m))
		} else if oc := strings.Join(cm.obs, "\x00"); oc != ref.obsCom {
			// cannot happen if the root commits to everything the queries read
			ro := strings.Split(ref.obsCom, "\x00")
			for i, v := range cm.obs {
				if ro[i] != v {
					name, who := accessorOf(s.okeys[i])
					if name == "Empty" {
						continue
					}
					fail(failure{Class: "accessor", Detail: name + "-after-commit-and-reopen", Role: s.roleOfName(who),
						Msg: fmt.Sprintf("after Commit(true) and reopening at the same root %x: %s = %s, but %s when the reverted calls are never made", cm.root[:6], s.okeys[i], v, ro[i])})
				}
			}
		}
	}
	return res
}

// cont appends the continuation call of the binding slices: one more FT write on the token.
func (s *slice) cont(h []Op) []Op {
	return append(append([]Op{}, h...), Op{K: kAddFT, A: s.u.bind.holder, S: 1, V: 1})
}

// explainRoot re-executes both histories and diffs the account tries leaf by leaf.
// Differences in nonce, code hash or slot values of a universe address where the history's
// own leaf is what the reference model says are dropped (then it is the reduced history that
// deviates, a forward matter); flag=false if nothing else differs.  Presence/absence of an
// account is never judged by the model (emptiness is not a notion of the model).
func (s *slice) explainRoot(h, red []Op, mode int, m *model) (f failure, flag bool) {
	x := s.runImpl(h, mode, true)
	y := s.runImpl(red, mode, true)
	when := "IntermediateRoot(true) directly after the history"
	pre := ""
	switch mode {
	case modeObs:
		when = "IntermediateRoot(true) after the history and one full observation"
	case modeKeep:
		when, pre = "IntermediateRoot(false) directly after the history", "keep-empty/"
	case modeCommit:
		when, pre = "Commit(true) directly after the history", "commit/"
	}
	f = failure{Class: "root-differs", Detail: pre + "no-leaf-diff", Role: "-"}
	f.Msg = fmt.Sprintf("%s: %x, but %x when the reverted calls are never made", when, x.root[:6], y.root[:6])
	tok := common.Address{}
	if st := s.u.open(); true {
		_, tok, _, _ = st.GetERC20Binding(common.BLANCE_NAME)
	}
	role := func(a common.Address) string {
		if a == tok {
			return "token-contract"
		}
		return s.u.roleOf(a)
	}
	name := func(a common.Address) string {
		for i := range s.u.addr {
			if s.u.addr[i] == a {
				return s.u.short[i]
			}
		}
		return a.GetHexString()
	}
	ym := map[common.Address]account.VerifLeaf{}
	for _, l := range y.leaves {
		ym[l.Addr] = l
	}
	xm := map[common.Address]bool{}
	var diffs []failure
	for _, l := range x.leaves {
		xm[l.Addr] = true
		o, ok := ym[l.Addr]
		ui := s.u.indexOf(l.Addr)
		if !ok {
			diffs = append(diffs, failure{Detail: "account-extra", Role: role(l.Addr), Msg: fmt.Sprintf("account %s (nonce %d, %d slots) is in the trie but would not be", name(l.Addr), l.Nonce, len(l.Storage))})
			continue
		}
		if l.Nonce != o.Nonce && !(ui >= 0 && m.Acct[ui].Nonce == l.Nonce) {
			diffs = append(diffs, failure{Detail: "nonce", Role: role(l.Addr), Msg: fmt.Sprintf("account %s nonce %d, would be %d", name(l.Addr), l.Nonce, o.Nonce)})
		}
		if !bytes.Equal(l.CodeHash, o.CodeHash) {
			want := []byte(nil)
			if ui >= 0 {
				want = emptyCodeHash[:]
				if len(m.Acct[ui].Code) > 0 {
					hh := crypto.Keccak256Hash(m.Acct[ui].Code)
					want = hh[:]
				}
			}
			if !bytes.Equal(want, l.CodeHash) {
				diffs = append(diffs, failure{Detail: "codehash", Role: role(l.Addr), Msg: fmt.Sprintf("account %s code hash %x, would be %x", name(l.Addr), l.CodeHash, o.CodeHash)})
			}
		}
		if l.Root != o.Root {
			d := ""
			keys := map[string]bool{}
			for k := range l.Storage {
				keys[k] = true
			}
			for k := range o.Storage {
				keys[k] = true
			}
			var ks []string
			for k := range keys {
				ks = append(ks, k)
			}
			sort.Strings(ks)
			for _, k := range ks {
				if bytes.Equal(l.Storage[k], o.Storage[k]) {
					continue
				}
				known := false
				if ui >= 0 {
					for _, si := range []int{1, 2, slotFT, slotFTB, slotERC} {
						if string(slotKey(si)) == k && bytes.Equal(m.Acct[ui].Store[si], l.Storage[k]) {
							known = true
						}
					}
				}
				if !known {
					d += fmt.Sprintf(" slot %x = %x, would be %x;", k, l.Storage[k], o.Storage[k])
				}
			}
			if d != "" {
				diffs = append(diffs, failure{Detail: "storage", Role: role(l.Addr), Msg: fmt.Sprintf("account %s storage differs:%s", name(l.Addr), d)})
			}
		}
	}
	for _, l := range y.leaves {
		if !xm[l.Addr] {
			diffs = append(diffs, failure{Detail: "account-missing", Role: role(l.Addr), Msg: fmt.Sprintf("account %s (nonce %d, %d slots) is not in the trie but would be", name(l.Addr), l.Nonce, len(l.Storage))})
		}
	}
	if len(diffs) == 0 {
		return f, false
	}
	f.Detail, f.Role = pre+diffs[0].Detail, diffs[0].Role
	for _, d := range diffs {
		f.Msg += " | " + d.Msg
	}
	return f, true
}

// removeOp deletes call i; if it is a Snapshot, later RevertToSnapshot calls that target a
// younger live snapshot are renumbered (their target keeps its identity).
func removeOp(h []Op, i int) []Op {
	out := append(append([]Op{}, h[:i]...), h[i+1:]...)
	if h[i].K != kSnapshot {
		return out
	}
	live := 0 // live snapshots before call i = position of the removed one
	for _, o := range h[:i] {
		switch o.K {
		case kSnapshot:
			live++
		case kRevert:
			live = o.V
		}
	}
	q := live
	for j := i; j < len(out); j++ {
		if out[j].K != kRevert {
			continue
		}
		if out[j].V > q {
			out[j].V--
		} else {
			break // the removed snapshot is targeted or dropped here: leave the rest as is
		}
	}
	return out
}

// ---- reporting -------------------------------------------------------------------------------------------

type caseT struct {
	Start   string   `json:"start"`
	FT      bool     `json:"ft,omitempty"`
	Keep    bool     `json:"keep_empty_root,omitempty"`
	Commit  bool     `json:"commit_and_reopen,omitempty"`
	Slice   string   `json:"slice,omitempty"`
	Ops     []Op     `json:"ops"`
	History []string `json:"history"`
}

func sigOf(f failure, revFam []string) string {
	return "C04:" + f.key() + ":rev{" + strings.Join(revFam, ",") + "}"
}

func (s *slice) report(c *fw.Ctx, h []Op, res *nodeRes, minimise bool) {
	for _, f := range res.fails {
		if minimise {
			// report only histories from which no single call can be removed without losing the
			// failure: the shorter history is enumerated (and reported) on its own.
			minimal := true
			stillFails := func(h2 []Op) bool {
				k2 := opsKey(h2)
				keys, ok := s.failKeys[k2]
				if !ok {
					if r2 := s.eval(h2); r2 != nil {
						for _, f2 := range r2.fails {
							keys = append(keys, f2.key())
						}
					}
					if len(s.failKeys) > 200000 {
						s.failKeys = map[string][]string{}
					}
					s.failKeys[k2] = keys
				}
				for _, k := range keys {
					if k == f.key() {
						return true
					}
				}
				return false
			}
			for i := 0; i < len(h) && minimal; i++ { // single calls first: the usual case
				minimal = !stillFails(removeOp(h, i))
			}
			for i := 0; i < len(h) && minimal; i++ { // then pairs (a Snapshot with its Revert)
				h1 := removeOp(h, i)
				for j := i; j < len(h1) && minimal; j++ {
					minimal = !stillFails(removeOp(h1, j))
				}
			}
			if !minimal {
				c.Count("failing_histories_with_shorter_failing_subhistory", 1)
				continue
			}
		}
		// same input, same observation?
		s.memo = map[string]*refRes{}
		again := s.eval(h)
		same := false
		for _, f2 := range again.fails {
			same = same || f2.key() == f.key()
		}
		if !same {
			c.Count("unstable_failures_dropped", 1)
			continue
		}
		c.Outcome("fail:" + f.key())
		msg := fmt.Sprintf("start=%s history=%v: %s", s.u.name, histStr(s.u, h), f.Msg)
		c.Violation(sigOf(f, res.revFam), f.Class, msg, caseT{Start: s.u.name, FT: s.ft, Keep: s.keep, Commit: s.commit, Slice: s.name, Ops: h, History: histStr(s.u, h)})
	}
}

// ---- BFS ---------------------------------------------------------------------------------------------

type bfs struct {
	s       *slice
	c       *fw.Ctx
	visited map[[16]byte]struct{}
	top     map[[16]byte]struct{}
	n       int64
	stop    bool
	sampled int

	fwdNoted map[string]bool
}

func (b *bfs) hist(idx []byte) []Op {
	h := make([]Op, len(idx))
	for i, x := range idx {
		h[i] = b.s.ops[x]
	}
	return h
}

// visit evaluates one history; returns the model after it (nil = do not expand).
func (b *bfs) visit(idx []byte, own bool) *model {
	s, c := b.s, b.c
	h := b.hist(idx)
	res := s.eval(h)
	if res == nil {
		return nil
	}
	// Levels 0 and 1 are walked by every worker and decide the numbering of the shards, so
	// their expansion must not depend on what this worker alone has seen: they are
	// de-duplicated against levels 0..1 only.
	var dup bool
	if len(idx) <= 1 {
		_, dup = b.top[res.key]
		b.top[res.key] = struct{}{}
	} else {
		_, dup = b.visited[res.key]
	}
	b.visited[res.key] = struct{}{}
	if own {
		c.Count(fmt.Sprintf("histories:%s:len%d", s.name, len(idx)), 1)
		c.Eval(1)
		c.Transition(1)
		c.Trace(1)
		if !dup {
			c.State(1)
		}
		for _, fd := range res.forward {
			name, _ := accessorOf(fd[:strings.Index(fd, " = ")])
			c.Count("forward_deviation_not_C04:"+name, 1)
			if !b.fwdNoted[name] {
				b.fwdNoted[name] = true
				c.Note("forward_deviation_example:"+name, fmt.Sprintf("start=%s history=%v: %s", s.u.name, histStr(s.u, h), fd))
			}
		}
		for _, eo := range res.emptyObs {
			p := strings.SplitN(eo, "\x00", 2)
			c.Count("observation_not_flagged:Empty-differs-after-revert:"+p[0], 1)
			if !b.fwdNoted["Empty:"+p[0]] {
				b.fwdNoted["Empty:"+p[0]] = true
				c.Note("observation_example:Empty-differs-after-revert:"+p[0], fmt.Sprintf("start=%s history=%v: %s", s.u.name, histStr(s.u, h), p[1]))
			}
		}
		switch {
		case len(res.fails) > 0:
			s.report(c, h, res, true)
		case !res.hasRevert:
			c.Outcome("pass:no-revert")
		case res.undone == 0:
			c.Outcome("pass:revert-of-nothing")
		default:
			c.NontrivialN(1)
			n := res.undone
			if n > 4 {
				n = 4
			}
			c.Outcome(fmt.Sprintf("pass:revert-undid-%d%s", n, map[bool]string{true: "+", false: ""}[n == 4]))
			if len(h) >= 4 && b.sampled < 2 && len(res.revFam) >= 2 {
				b.sampled++
				c.Sample(map[string]interface{}{"slice": s.name, "history": histStr(s.u, h), "journal_entries_undone": res.undone, "verdict": "all queries and both roots agree with model and reduced history"})
			}
		}
	}
	b.n++
	if b.n%32 == 0 && c.Expired() {
		b.stop = true
	}
	if len(res.fails) > 0 || dup || len(idx) >= s.depth {
		return nil
	}
	return res.m
}

func (b *bfs) children(idx []byte, m *model, f func(child []byte)) {
	hasRevert := false
	for _, x := range idx {
		hasRevert = hasRevert || b.s.ops[x].K == kRevert
	}
	remaining := b.s.depth - (len(idx) + 1) // calls that can still follow the child
	for i, o := range b.s.ops {
		if b.stop {
			return
		}
		if !m.enabled(o, 3) {
			continue
		}
		// A history says something about the property only once it contains a revert.  A child
		// that has none and cannot get one within the depth bound (needs Snapshot + Revert, or
		// one Revert if a snapshot is live) is skipped: nothing below it could be checked.
		if !hasRevert && o.K != kRevert {
			live := len(m.snaps)
			if o.K == kSnapshot {
				live++
			}
			if remaining < 1 || (live == 0 && remaining < 2) {
				b.c.Count("revert_free_leaves_skipped", 1)
				continue
			}
		}
		ch := make([]byte, len(idx)+1)
		copy(ch, idx)
		ch[len(idx)] = byte(i)
		f(ch)
	}
}

// start walks levels 0..2 of the slice.  Levels 0 and 1 are walked by every worker (needed
// to generate the shards) and counted by one; the level-2 subtrees are the shards.
func (s *slice) start(c *fw.Ctx, caseIdx *int64) {
	s.init(c)
	b := &bfs{s: s, c: c, visited: map[[16]byte]struct{}{}, top: map[[16]byte]struct{}{}, fwdNoted: map[string]bool{}}
	s.b = b
	mine := func() bool { v := c.Mine(*caseIdx); *caseIdx++; return v }
	if m := b.visit(nil, mine()); m != nil && s.depth >= 1 {
		b.children(nil, m, func(l1 []byte) {
			m1 := b.visit(l1, mine())
			if m1 == nil || s.depth < 2 {
				return
			}
			b.children(l1, m1, func(l2 []byte) {
				c.Count("level2_shards_enumerated_summed_over_workers", 1)
				if !mine() {
					return
				}
				c.Count("level2_shards_owned", 1)
				if m2 := b.visit(l2, true); m2 != nil {
					s.frontier = append(s.frontier, l2)
				}
			})
		})
	}
	s.done = 2
}

// step evaluates the next level of the slice (all one-call extensions of the frontier).
func (s *slice) step() {
	b := s.b
	var next [][]byte
	for _, idx := range s.frontier {
		if b.stop {
			return
		}
		m, _, _, _, _, _ := s.walk(b.hist(idx)) // the model after the history (not kept in the frontier: memory)
		b.children(idx, m, func(ch []byte) {
			if b.visit(ch, true) != nil {
				next = append(next, ch)
			}
		})
	}
	if !b.stop {
		s.frontier = next
		s.done++
	}
}

func run(c *fw.Ctx) {
	gen, com, com2, warm, bnd, bndX := boot()
	slices := buildSlices(c.Thorough(), gen, com, com2, warm, bnd, bndX)
	if only := os.Getenv("C04_ONLY"); only != "" { // development knob: restrict to slices whose name contains the string
		var keep []*slice
		for _, s := range slices {
			if strings.Contains(s.name, only) {
				keep = append(keep, s)
			}
		}
		slices = keep
		c.Cap("C04_ONLY=" + only)
	}
	var caseIdx int64
	maxDepth := 0
	for _, s := range slices {
		s.start(c, &caseIdx)
		if s.depth > maxDepth {
			maxDepth = s.depth
		}
	}
	// breadth first across the slices as well: every slice to depth 3, then every slice to
	// depth 4, ... so that a time cap cuts the deepest levels, never a whole slice
	expired := false
	for level := 3; level <= maxDepth && !expired; level++ {
		for _, s := range slices {
			if s.depth < level || s.done != level-1 {
				continue
			}
			if c.Expired() {
				expired = true
				break
			}
			s.step()
			if s.b.stop {
				expired = true
				break
			}
		}
	}
	for _, s := range slices {
		d := s.done
		if d > s.depth {
			d = s.depth
		}
		if d < s.depth {
			c.Cap(fmt.Sprintf("time cap: slice %s completed to depth %d of %d", s.name, d, s.depth))
		}
	}
	if c.Shard == 0 {
		var l []string
		for _, s := range slices {
			l = append(l, fmt.Sprintf("%s:%d letters:depth %d", s.name, len(s.ops), s.depth))
		}
		c.Note("slices", strings.Join(l, "; "))
	}
}

func replay(c *fw.Ctx, raw json.RawMessage) {
	var k caseT
	if err := json.Unmarshal(raw, &k); err != nil {
		fmt.Fprintln(os.Stderr, "bad case:", err)
		os.Exit(2)
	}
	gen, com, com2, warm, bnd, bndX := boot()
	u := gen
	switch k.Start {
	case bnd.name:
		u = bnd
	case bndX.name:
		u = bndX
	case com2.name:
		u = com2
	case com.name:
		u = com
	case warm.name:
		u = warm
	}
	s := &slice{name: "replay", u: u, depth: len(k.Ops), ft: k.FT, keep: k.Keep, commit: k.Commit}
	s.init(c)
	res := s.eval(k.Ops)
	if res == nil {
		fmt.Fprintln(os.Stderr, "the recorded history is not valid")
		os.Exit(2)
	}
	fmt.Printf("history: %v\n", histStr(u, k.Ops))
	for _, fd := range res.forward {
		fmt.Printf("forward deviation (not C04): %s\n", fd)
	}
	s.report(c, k.Ops, res, os.Getenv("C04_MIN") != "")
}
