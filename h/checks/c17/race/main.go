// Companion of the C17 check: the thread bodies of the concurrent scenarios, free running
// (no cooperative scheduler), built with -race.  The race detector's reports go to stderr
// and are parsed by the main check.
package main

import (
	"fmt"
	"os"
	"sync"

	"verif/h/checks/c17/pool"
)

func main() {
	iters := 150
	if len(os.Args) > 1 {
		fmt.Sscan(os.Args[1], &iters)
	}
	if err := pool.Boot(); err != nil {
		fmt.Fprintln(os.Stderr, "boot:", err)
		os.Exit(3)
	}
	u := pool.ConcUniverse()
	env := pool.NewEnv(u)
	for _, sc := range pool.Scenarios(true) {
		for it := 0; it < iters; it++ {
			im := env.NewImpl(true) // production constructor of the pending container (newSimpleContainer): its own synchronisation is under test here
			for _, op := range sc.Setup {
				op.Apply(im)
			}
			var wg sync.WaitGroup
			start := make(chan struct{})
			plans := sc.Plan(im)
			for _, ops := range plans[:len(sc.Threads)] {
				ops := ops
				wg.Add(1)
				go func() {
					defer wg.Done()
					<-start
					for _, po := range ops {
						po.Run(im)
					}
				}()
			}
			close(start)
			wg.Wait()
			for _, po := range plans[len(sc.Threads)] {
				po.Run(im)
			}
		}
	}
}
