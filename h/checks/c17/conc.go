package main

// Part (b) of C17: every interleaving (within a preemption bound) of 2- and 3-thread
// scenarios over colliding transactions, run on the real pool under the cooperative
// scheduler (a scheduling point before every statement of the pool files), must leave
// the pool in a state — and hand out batches — that some sequential order of the same
// operations explains.  Part (c): the same thread bodies free-running under the race
// detector (companion binary).

import (
	"encoding/json"
	"fmt"
	"os"
	"os/exec"
	"sort"
	"strings"

	"verif/h/checks/c17/pool"
	"verif/h/fw"
	"verif/h/sched"
)

type concExec struct {
	obs   [][]pool.Obs
	post  []pool.Obs
	dump  pool.Dump
	sched sched.Result
}

// runScenario executes the scenario once under the scheduler decisions of ch (nil = free run, no scheduler).
func runScenario(env *pool.Env, sc pool.Scenario, ch sched.Chooser) (*concExec, []pool.Op) {
	im := env.NewImpl(false)
	for _, op := range sc.Setup {
		op.Apply(im)
	}
	plans := sc.Plan(im)
	ex := &concExec{obs: make([][]pool.Obs, len(sc.Threads))}
	bodies := make([]func(), len(sc.Threads))
	runOne := func(to pool.PlannedOp) pool.Obs {
		var o pool.Obs
		p, v, site := fw.Try(func() { o = to.Run(im) })
		if p {
			o.Panic, o.PanicV = site, fmt.Sprint(v)
		}
		return o
	}
	for t := range sc.Threads {
		t := t
		bodies[t] = func() {
			for _, to := range plans[t] {
				var o pool.Obs
				p, v, site := fw.Try(func() { o = to.Run(im) })
				if p {
					o.Panic, o.PanicV = site, fmt.Sprint(v)
				}
				ex.obs[t] = append(ex.obs[t], o)
			}
		}
	}
	if ch != nil {
		ex.sched = sched.Run(bodies, ch, 4000)
	} else {
		done := make(chan struct{}, len(bodies))
		for _, b := range bodies {
			b := b
			go func() { b(); done <- struct{}{} }()
		}
		for range bodies {
			<-done
		}
	}
	for _, to := range plans[len(sc.Threads)] { // sequential epilogue
		ex.post = append(ex.post, runOne(to))
	}
	ex.dump = im.Dump()
	var flat []pool.Op
	flat = append(flat, sc.Setup...)
	return ex, flat
}

// linearizable reports whether some interleaving of the threads' operations, executed
// atomically on the reference model, explains the observed results and the final state.
func linearizable(u *pool.Universe, sc pool.Scenario, ex *concExec) (bool, string) {
	idx := make([]int, len(sc.Threads))
	base := pool.NewRef(u)
	for _, op := range sc.Setup {
		// the setup is sequential: the model follows the implementation's own (already checked in part a) answers
		base.Step(op, expected(base, op))
	}
	var why []string
	var rec func(r *pool.Ref, order []string) bool
	rec = func(r *pool.Ref, order []string) bool {
		done := true
		for t := range sc.Threads {
			if idx[t] >= len(sc.Threads[t]) {
				continue
			}
			done = false
			op, obs := sc.Threads[t][idx[t]], ex.obs[t][idx[t]]
			r2 := r.Clone()
			// a duplicate submission of a transaction that is still pending is harmless whatever
			// it returns: the statement is about executed transactions and about the pool state
			if op.Kind == "add" && r2.Known(op.Tx) && !executedInModel(r2, op.Tx) {
				obs = expected(r2, op)
			}
			if f := r2.Step(op, obs); len(f) > 0 {
				if len(why) < 6 {
					why = append(why, fmt.Sprintf("%v then %s: %s", order, op.String(u), f[0].Msg))
				}
				continue
			}
			idx[t]++
			ok := rec(r2, append(order, op.String(u)))
			idx[t]--
			if ok {
				return true
			}
		}
		if done {
			var last pool.Op
			if len(sc.Post) > 0 {
				r = r.Clone()
				for i, op := range sc.Post {
					if f := r.Step(op, ex.post[i]); len(f) > 0 {
						if len(why) < 6 {
							why = append(why, fmt.Sprintf("%v then (afterwards) %s: %s", order, op.String(u), f[0].Msg))
						}
						return false
					}
					last = op
				}
			}
			if f := r.Compare(last, ex.dump); len(f) > 0 {
				if len(why) < 6 {
					why = append(why, fmt.Sprintf("%v: final state: %s", order, f[0].Msg))
				}
				return false
			}
			return true
		}
		return false
	}
	if rec(base, nil) {
		return true, ""
	}
	return false, strings.Join(why, " || ")
}

func executedInModel(r *pool.Ref, tx int) bool {
	_, ok := r.Exec[r.U.HID[tx]]
	return ok
}

// expected returns the observation the model itself predicts for op (used for the
// sequential setup and for wild-carded duplicate submissions).
func expected(r *pool.Ref, op pool.Op) pool.Obs {
	switch op.Kind {
	case "add":
		if r.Known(op.Tx) {
			return pool.Obs{OK: false, Err: "transaction already exists"}
		}
		return pool.Obs{OK: true}
	}
	return pool.Obs{}
}

type concCase struct {
	Scenario pool.Scenario `json:"scenario"`
	Choices  []int         `json:"choices"`
}

func concPart(c *fw.Ctx, only *concCase) {
	u := pool.ConcUniverse()
	env := pool.NewEnv(u)
	bound := 2
	if c.Thorough() {
		bound = 3
	}
	scs := pool.Scenarios(c.Thorough())
	if only != nil {
		scs = []pool.Scenario{only.Scenario}
	}
	for si, sc := range scs {
		if only == nil && !c.Mine(int64(si)) {
			continue
		}
		if sc.HasTick() && !pool.TickAvailable() {
			c.Note("conc_"+sc.Name, "skipped: the checkout under test has no (*TxPool).VerifAgeTick hook")
			c.Cap("age-tick scenarios skipped: hook VerifAgeTick missing")
			continue
		}
		if only != nil {
			ex, _ := runScenario(env, sc, fw.NewReplayChooser(only.Choices))
			ok, why := linearizable(u, sc, ex)
			fmt.Printf("schedule %v\nobservations %v\nfinal %s\nlinearizable=%v %s\n", ex.sched.Schedule, ex.obs, ex.dump.Key(), ok, why)
			if !ok {
				c.Violation("C17:conc:"+sc.Name, "schedules", why, only)
			}
			return
		}
		finals := map[string]int{}
		b := bound
		if len(sc.Threads) == 2 && totalOps(sc) <= 2 && c.Thorough() {
			b = 6 // effectively unbounded for the two-operation scenarios
		}
		st := fw.Explore(b, func(ch *fw.Chooser) {
			ex, _ := runScenario(env, sc, ch)
			finals[ex.dump.Key()]++
			c.Transition(int64(ex.sched.Steps))
			if ex.sched.Horizon {
				c.Cap("scheduler horizon reached in scenario " + sc.Name)
			}
			if ex.sched.Deadlock {
				c.Violation("C17:conc:deadlock:"+sc.Name, "schedules", fmt.Sprintf("scenario %s: unfinished threads but none runnable under schedule %v", sc.Name, ex.sched.Schedule), concCase{sc, ch.Choices()})
				return
			}
			for t := range ex.obs {
				for _, o := range ex.obs[t] {
					if o.Panic != "" {
						c.Violation("C17:conc:panic:"+o.Panic, "schedules", fmt.Sprintf("scenario %s: panic %s under schedule %v", sc.Name, o.PanicV, ex.sched.Schedule), concCase{sc, ch.Choices()})
					}
				}
			}
			if ok, why := linearizable(u, sc, ex); !ok {
				// the same schedule must fail again
				ex2, _ := runScenario(env, sc, fw.NewReplayChooser(ch.Choices()))
				ok2, _ := linearizable(u, sc, ex2)
				if ok2 || ex2.dump.Key() != ex.dump.Key() {
					c.Violation("C17:conc:harness-nondeterminism", "schedules", "same schedule, different outcome: "+sc.Name, concCase{sc, ch.Choices()})
					return
				}
				c.Count("conc_schedules_not_linearizable:"+sc.Name, 1)
				c.Violation("C17:conc:not-linearizable:"+sc.Name, "schedules",
					fmt.Sprintf("scenario %s, schedule %v (preemptions %d): results %s, final state %s: no sequential order of the operations explains this: %s",
						sc.Name, ex.sched.Schedule, ex.sched.Preemptions, obsString(u, ex.obs), ex.dump.Key(), why), concCase{sc, ch.Choices()})
			}
		}, func(ch *fw.Chooser) {}, func() bool { return c.Expired() })
		c.Eval(st.Executions)
		c.Trace(st.Executions)
		c.State(int64(len(finals)))
		c.Count("schedules_explored", st.Executions)
		c.Note("conc_"+sc.Name, fmt.Sprintf("schedules=%d distinct_final_states=%d max_points=%d bound=%d", st.Executions, len(finals), st.MaxPoints, b))
		if len(finals) > 1 {
			c.Nontrivial("conc:" + sc.Name)
		}
		c.Outcome(fmt.Sprintf("conc %s finals=%d", sc.Name, len(finals)))
		if st.Divergence != nil {
			c.Violation("C17:conc:harness-replay-divergence", "schedules", st.Divergence.Error(), concCase{Scenario: sc})
		}
		if st.Truncated {
			c.Cap("time budget during schedule exploration of " + sc.Name)
		}
	}
	if only == nil && c.Shard == c.NShards-1 {
		racePart(c)
	}
}

func totalOps(sc pool.Scenario) int {
	n := 0
	for _, t := range sc.Threads {
		n += len(t)
	}
	return n
}

func obsString(u *pool.Universe, obs [][]pool.Obs) string {
	var s []string
	for t := range obs {
		var p []string
		for _, o := range obs[t] {
			p = append(p, o.String(u))
		}
		s = append(s, fmt.Sprintf("T%d[%s]", t, strings.Join(p, "; ")))
	}
	return strings.Join(s, " ")
}

// racePart runs the companion binary (same thread bodies, free running, -race).
func racePart(c *fw.Ctx) {
	bin := os.Getenv("VERIF_RACE_BIN")
	if bin == "" {
		c.Note("race_pass", "companion binary not built (VERIF_RACE_BIN unset)")
		return
	}
	iters := "150"
	if c.Thorough() {
		iters = "1500"
	}
	dir := c.Scratch + "/race"
	os.MkdirAll(dir, 0o755)
	cmd := exec.Command(bin, iters)
	cmd.Dir = dir
	cmd.Env = append(os.Environ(), "GORACE=halt_on_error=0 exitcode=0")
	out, err := cmd.CombinedOutput()
	if err != nil {
		c.Infra("race companion failed: " + err.Error() + ": " + tailStr(string(out)))
		return
	}
	c.Count("race_pass_free_running_executions", int64(atoi(iters)*len(pool.Scenarios(c.Thorough()))))
	races := parseRaces(string(out))
	keys := make([]string, 0, len(races))
	for k := range races {
		keys = append(keys, k)
	}
	sort.Strings(keys)
	for _, k := range keys {
		c.Violation("C17:data-race:"+k, "race", "race detector report in the free-running pass: "+races[k], map[string]string{"race": k})
	}
	c.Note("race_pass", fmt.Sprintf("%s iterations per scenario, %d distinct racing site pairs inside service/", iters, len(races)))
}

func atoi(s string) int { n := 0; fmt.Sscan(s, &n); return n }

func tailStr(s string) string {
	if len(s) > 1500 {
		return s[len(s)-1500:]
	}
	return s
}

// parseRaces extracts, from race detector output, the pairs of top repository frames of
// reports that involve the service package.
func parseRaces(out string) map[string]string {
	res := map[string]string{}
	for _, blk := range strings.Split(out, "WARNING: DATA RACE")[1:] {
		if i := strings.Index(blk, "=================="); i >= 0 {
			blk = blk[:i]
		}
		var sites []string
		for _, part := range strings.Split(blk, "\n\n") {
			if !(strings.HasPrefix(strings.TrimSpace(part), "Write at") || strings.HasPrefix(strings.TrimSpace(part), "Read at") ||
				strings.HasPrefix(strings.TrimSpace(part), "Previous write at") || strings.HasPrefix(strings.TrimSpace(part), "Previous read at")) {
				continue
			}
			for _, l := range strings.Split(part, "\n") {
				l = strings.TrimSpace(l)
				if strings.HasPrefix(l, "com.tuntun.rangers/node/src/service.") {
					fn := strings.TrimPrefix(l, "com.tuntun.rangers/node/src/")
					if k := strings.Index(fn, "("); k > 0 && !strings.HasPrefix(fn[k:], "(*") {
						fn = fn[:k]
					} else if k := strings.LastIndex(fn, "("); k > 0 {
						fn = fn[:k]
					}
					sites = append(sites, fn)
					break
				}
			}
		}
		if len(sites) == 0 {
			continue
		}
		sort.Strings(sites)
		key := strings.Join(sites, "+")
		if _, ok := res[key]; !ok {
			b := blk
			if len(b) > 1200 {
				b = b[:1200]
			}
			res[key] = b
		}
	}
	return res
}

func replayConc(c *fw.Ctx, raw json.RawMessage) bool {
	var cc concCase
	if json.Unmarshal(raw, &cc) != nil || len(cc.Scenario.Threads) == 0 {
		return false
	}
	concPart(c, &cc)
	return true
}
