package main

// Mixed batches (part "a-mixed"): the pack oracle on batches that mix JSON-RPC
// transactions (RequestId 0, nonce-checked) of one sender with gate transactions
// (RequestId != 0) of senders whose addresses lie below, at and above it, for every
// insertion order.

import (
	"fmt"
	"math/bits"

	"verif/h/checks/c17/pool"
	"verif/h/fw"
)

// mixedUniverse: three senders lo < mid < hi (numeric address order).  mid is the rpc
// sender with state nonce e (state 0) / e+1 (state 1) and the transactions stale (e-1),
// exp and rep (both e, competitors), next (e+1).  Gate transactions: lo with request
// ids 1 and 4, hi with request ids 2 and 3 (so lo/hi pairs exist with the request ids in
// both relative orders), and one of mid itself (request id 5).
func mixedUniverse() *pool.Universe {
	const e = 5
	specs := []pool.TxSpec{
		{Name: "stale", Sender: 1, Off: 0, Data: "s", Signed: true},
		{Name: "exp", Sender: 1, Off: 1, Data: "e", Signed: true},
		{Name: "rep", Sender: 1, Off: 1, Data: "r", Signed: true},
		{Name: "next", Sender: 1, Off: 2, Data: "n", Signed: true},
		{Name: "lo#1", Sender: 0, Off: 50, Rid: 1, Data: "g", Signed: true},
		{Name: "hi#2", Sender: 2, Off: 50, Rid: 2, Data: "g", Signed: true},
		{Name: "hi#3", Sender: 2, Off: 51, Rid: 3, Data: "g", Signed: true},
		{Name: "lo#4", Sender: 0, Off: 51, Rid: 4, Data: "g", Signed: true},
		{Name: "mid#5", Sender: 1, Off: 50, Rid: 5, Data: "g", Signed: true},
	}
	base := []uint64{0, e - 1, 0}
	return pool.NewUniverseOrdered("mixed", 3, base, [][]uint64{{0, e, 0}, {0, e + 1, 0}}, specs)
}

func mixedMaxLen(tier string) int {
	if tier == "thorough" {
		return 7
	}
	return 5
}

func sameInts(a, b []int) bool {
	if len(a) != len(b) {
		return false
	}
	for i := range a {
		if a[i] != b[i] {
			return false
		}
	}
	return true
}

// packsOf runs adds(order) + pack(state0) + pack(state1) on a fresh pool with the full
// oracle after every step; it returns the two batches or the findings of the first failing step.
func mixedOps(order []int) []pool.Op {
	ops := make([]pool.Op, 0, len(order)+2)
	for _, t := range order {
		ops = append(ops, pool.Op{Kind: "add", Tx: t})
	}
	return append(ops, pool.Op{Kind: "pack", K: 0}, pool.Op{Kind: "pack", K: 1})
}

func mixedRun(env *pool.Env, ops []pool.Op) (batches [][]int, failAt int, fs []pool.Finding) {
	im := env.NewImpl(false)
	ref := pool.NewRef(env.U)
	for i, op := range ops {
		obs, _, f := stepChecked(im, ref, op, true)
		if len(f) > 0 {
			return batches, i, f
		}
		if op.Kind == "pack" {
			batches = append(batches, append([]int{}, obs.Batch...))
		}
	}
	return batches, -1, nil
}

// diffFinding compares the batches of two insertion orders of the same transaction set.
func diffFinding(u *pool.Universe, opsA, opsB []pool.Op, a, b [][]int) []pool.Finding {
	for k := range a {
		if k < len(b) && !sameInts(a[k], b[k]) {
			return []pool.Finding{{Sig: "C17:pack-order-depends-on-insertion",
				Msg: fmt.Sprintf("same pending set, pack against state %d: inserted as %s the batch is %s, inserted as %s it is %s",
					k, pool.HistString(u, opsA[:len(opsA)-2]), u.Names(a[k]), pool.HistString(u, opsB[:len(opsB)-2]), u.Names(b[k]))}}
		}
	}
	return nil
}

func mixed(c *fw.Ctx) {
	pool.SetHeight(20)
	u := mixedUniverse()
	env := pool.NewEnv(u)
	if err := env.VerifySigned(); err != nil {
		panic("harness: " + err.Error())
	}
	for s := 0; s+1 < len(u.Addrs); s++ {
		if string(u.Addrs[s][:]) >= string(u.Addrs[s+1][:]) {
			panic("harness: mixed universe senders not in ascending address order")
		}
	}
	enumOrders(c, env, mixedMaxLen(c.Tier), "mixed", func(rpc, gate int) bool { return rpc > 0 && gate > 0 })
	edge(c)
}

// edgeUniverse: the nonce dimension at its boundaries.  One rpc sender with state nonce e
// (state 0) / e+1 (state 1); its transactions: exp (e), next (e+1), and nonces e+2^63-1,
// e+2^63, e+2^63+7 (uint64 arithmetic, wrapping for e = 2^63), MaxUint64-1 and MaxUint64.
func edgeUniverse(e uint64) *pool.Universe {
	const half = uint64(1) << 63
	specs := []pool.TxSpec{
		{Name: "exp", Sender: 0, Off: 0, Data: "e"},
		{Name: "next", Sender: 0, Off: 1, Data: "n"},
		{Name: "e+2^63-1", Sender: 0, Off: half - 1, Data: "a"},
		{Name: "e+2^63", Sender: 0, Off: half, Data: "b"},
		{Name: "e+2^63+7", Sender: 0, Off: half + 7, Data: "c"},
		{Name: "max-1", Sender: 0, Off: ^uint64(0) - 1 - e, Data: "d"},
		{Name: "max", Sender: 0, Off: ^uint64(0) - e, Data: "f"},
	}
	return pool.NewUniverse(fmt.Sprintf("edge:%d", e), 1, []uint64{e}, [][]uint64{{e}, {e + 1}}, specs)
}

var edgeStates = []uint64{0, 5, 1 << 63}

// edge (part "a-edge"): every set of <= 3 (quick) / <= 4 (thorough) of those transactions in
// every insertion order, packed against both states, for state nonces 0, 5 and 2^63.
func edge(c *fw.Ctx) {
	maxLen := 3
	if c.Thorough() {
		maxLen = 4
	}
	for _, e := range edgeStates {
		enumOrders(c, pool.NewEnv(edgeUniverse(e)), maxLen, "edge", func(rpc, gate int) bool { return rpc > 1 })
	}
}

// enumOrders: every subset of at most maxLen transactions of the universe, in every insertion
// order, each on a fresh pool, then pack against state 0 and state 1, full oracle after every step.
func enumOrders(c *fw.Ctx, env *pool.Env, maxLen int, label string, nontrivial func(rpc, gate int) bool) {
	u := env.U
	n := u.N()
	setIdx := int64(0)
	for mask := 1; mask < 1<<n; mask++ {
		sz := bits.OnesCount(uint(mask))
		if sz > maxLen {
			continue
		}
		setIdx++
		if !c.Mine(setIdx) {
			continue
		}
		if c.Expired() {
			c.Cap("time cap in the " + label + " enumeration")
			return
		}
		var members []int
		rpc, gate := 0, 0
		for i := 0; i < n; i++ {
			if mask>>i&1 == 1 {
				members = append(members, i)
				if u.Checked(i) {
					rpc++
				} else {
					gate++
				}
			}
		}
		c.Count(label+"_sets", 1)
		var firstOps []pool.Op
		var first [][]int
		stop, diffSeen, nrep := false, false, 0
		// all insertion orders, lexicographic
		perm := append([]int{}, members...)
		var rec func(k int)
		rec = func(k int) {
			if stop {
				return
			}
			if k == len(perm) {
				ops := mixedOps(perm)
				batches, at, fs := mixedRun(env, ops)
				c.Eval(1)
				c.Trace(1)
				c.Count(label+"_orders", 1)
				if nontrivial(rpc, gate) {
					c.NontrivialN(1)
				}
				if len(fs) > 0 {
					seen := map[string]bool{}
					for _, f := range fs {
						if !seen[f.Sig] {
							seen[f.Sig] = true
							c.Count(label+"_orders_failing:"+f.Sig, 1)
						}
					}
					if nrep < 2 { // the framework keeps 3 per signature anyway; every failing order is counted
						nrep++
						report(c, env, ops[:at+1], fs, "a-"+label, false)
					}
					return
				}
				if first == nil {
					first, firstOps = batches, ops
					c.Outcome(fmt.Sprintf(label+":rpc=%d/%d:gate=%d", rpc-countSkipped(u, members, batches[0]), rpc, gate))
					return
				}
				if d := diffFinding(u, firstOps, ops, first, batches); d != nil {
					// observation only: the property does not state that the packed order is independent of
					// the insertion order, so this is counted in the evidence and never reported as a violation
					c.Count(label+"_observed:pack-order-depends-on-insertion", 1)
					_ = diffSeen
				}
				return
			}
			for i := k; i < len(perm); i++ {
				// rotate perm[k..i] right by one keeps lexicographic order
				x := perm[i]
				copy(perm[k+1:i+1], perm[k:i])
				perm[k] = x
				rec(k + 1)
				copy(perm[k:i], perm[k+1:i+1])
				perm[i] = x
			}
		}
		rec(0)
	}
}

func countSkipped(u *pool.Universe, members, batch []int) int {
	in := map[int]bool{}
	for _, t := range batch {
		in[t] = true
	}
	n := 0
	for _, t := range members {
		if u.Checked(t) && !in[t] {
			n++
		}
	}
	return n
}

// reportDiff confirms a differential finding by running both orders again.
func reportDiff(c *fw.Ctx, env *pool.Env, opsA, opsB []pool.Op, fs []pool.Finding) {
	a, atA, _ := mixedRun(env, opsA)
	b, atB, _ := mixedRun(env, opsB)
	again := diffFinding(env.U, opsA, opsB, a, b)
	if atA >= 0 || atB >= 0 || again == nil {
		c.Violation("C17:nondeterministic", "a-mixed", "insertion-order differential not reproduced: "+fs[0].Msg, kase{Universe: env.U.Name, Ops: opsB, Alt: opsA})
		return
	}
	c.Violation(again[0].Sig, "a-mixed", again[0].Msg, kase{Universe: env.U.Name, Ops: opsB, Alt: opsA, Text: pool.HistString(env.U, opsB)})
}

// replayDiff re-executes a recorded differential case.
func replayDiff(c *fw.Ctx, env *pool.Env, k kase) {
	a, atA, fa := mixedRun(env, k.Alt)
	b, atB, fb := mixedRun(env, k.Ops)
	fmt.Printf("replay: universe %s, orders: %s | %s\n", k.Universe, pool.HistString(env.U, k.Alt), pool.HistString(env.U, k.Ops))
	for _, f := range append(fa, fb...) {
		c.Violation(f.Sig, "replay", f.Msg, k)
	}
	if atA < 0 && atB < 0 {
		for _, f := range diffFinding(env.U, k.Alt, k.Ops, a, b) {
			c.Violation(f.Sig, "replay", f.Msg, k)
		}
	}
}
