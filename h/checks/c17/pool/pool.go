// Package pool holds the reusable pieces of the C17 check (transaction pool hands
// each transaction to the chain at most once, never ahead of nonce):
//
//   - Universe / Env: a closed set of colliding transactions, the account states a
//     batch is packed against, and the constructor of fresh independent pools;
//   - Op: one pool operation {kind, args} with Apply(impl) -> Obs;
//   - Impl: one real service.TxPool plus the harness-side chain of marked blocks,
//     and Dump, the canonical dump of the pool's containers;
//   - Ref (refpool.go): the reference model with the same operations, written as an
//     acceptor: Step(op, obs) says whether obs is allowed in the model state and moves on;
//   - Compare / Sweep (refpool.go): the invariant checker run after every operation.
//
// Part (a) of the check (sequential histories, ../main.go) and the concurrent parts
// built on top use the same pieces.
//
// Use from concurrent scenarios: Boot() once; env := NewEnv(universe); im := env.NewImpl(false)
// per execution.  Op.Apply only reads harness state for add/pack/get/exist and may run on
// any goroutine; "mark"/"unmark" push/pop im.Blocks (harness state, not synchronised) — threads
// should build their blocks up front with im.BuildBlock and call im.MarkBlock / im.UnMarkBlock.
// The account states of an Env are only read (GetNonce) but AccountDB is not documented as
// goroutine-safe: give every packing thread its own Env.  Linearisation: for each candidate
// order, ref := NewRef(u) (or a Clone of the pre-state); the order is admissible iff every
// ref.Step(op, obs) returns no Finding and ref.Compare(lastOp, im.Dump()) returns none.
package pool

import (
	"crypto/sha256"
	"encoding/hex"
	"fmt"
	"sort"
	"strings"

	"verif/h/fw"
	"verif/h/node"

	"com.tuntun.rangers/node/src/common"
	"com.tuntun.rangers/node/src/middleware/db"
	"com.tuntun.rangers/node/src/middleware/types"
	"com.tuntun.rangers/node/src/service"
	"com.tuntun.rangers/node/src/storage/account"
	"github.com/cihub/seelog"
)

// Limit is the per-block transaction limit of the pool.
const Limit = service.VerifTxCountPerBlock

// Height is the block height under which the pool is exercised.  With the dev fork
// table every proposal (except the unreachable 025) is active from height 12 on
// (020 at 10, 023 at 12, 026 at 1 in the fixture, the others at 0).
var Height uint64 = 20

// SetHeight switches the fork configuration: the pool reads the process-wide block height.
func SetHeight(h uint64) {
	Height = h
	common.SetBlockHeight(h)
}

// TxSpec describes one transaction of a universe.
type TxSpec struct {
	Name   string `json:"name"`
	Sender int    `json:"sender"`          // index of the sender
	Off    uint64 `json:"off"`             // nonce = Base[sender] + Off
	Rid    uint64 `json:"rid,omitempty"`   // RequestId; 0 = JSON-RPC style, nonce-checked when packing
	Data   string `json:"data,omitempty"`  // distinguishes same-nonce competitors
	DupOf  int    `json:"dupOf,omitempty"` // 1+index of the transaction whose hash this object shares (0 = none)
	Signed bool   `json:"signed,omitempty"`
	// Gate != 0: the shape GameExecutor.runWrite gives a transaction that arrived through the
	// gateway: RequestId = message nonce (Rid), SubTransactions = [{Address: gate nonce}].
	// AddTransaction / MarkExecuted then also record the gate nonce (refreshGateNonce).
	Gate uint64 `json:"gate,omitempty"`
}

// Universe is a closed set of transactions over a few senders.
type Universe struct {
	Name    string
	Specs   []TxSpec
	Base    []uint64   // state nonce of each sender in state 0
	Nonces  [][]uint64 // Nonces[k][s] = nonce of sender s in pack state k
	Senders []string
	Addrs   []common.Address

	tmpl   []types.Transaction
	Hash   []common.Hash // per transaction
	HID    []int         // transaction index -> distinct-hash id
	HHash  []common.Hash // distinct-hash id -> hash
	Absent common.Hash   // a hash no transaction of the universe has
	hidOf  map[common.Hash]int
}

func senderKey(i int) *common.PrivateKey {
	// fixed harness keys: scalar 0x5eed0000…+i
	return common.HexStringToSecKey(fmt.Sprintf("0x5eed%060x", i+1))
}

// NewUniverse builds (and, where asked, honestly signs) the transactions.
func NewUniverse(name string, nsenders int, base []uint64, nonces [][]uint64, specs []TxSpec) *Universe {
	return newUniverse(name, nsenders, base, nonces, specs, false)
}

// NewUniverseOrdered is NewUniverse with the senders numbered by ascending address
// (sender 0 has the numerically lowest address): the batch order of the pool compares
// sources numerically.
func NewUniverseOrdered(name string, nsenders int, base []uint64, nonces [][]uint64, specs []TxSpec) *Universe {
	return newUniverse(name, nsenders, base, nonces, specs, true)
}

func newUniverse(name string, nsenders int, base []uint64, nonces [][]uint64, specs []TxSpec, ordered bool) *Universe {
	u := &Universe{Name: name, Specs: specs, Base: base, Nonces: nonces}
	keys := make([]*common.PrivateKey, nsenders)
	for s := 0; s < nsenders; s++ {
		keys[s] = senderKey(s)
	}
	addrOf := func(k *common.PrivateKey) common.Address { pk := k.GetPubKey(); return pk.GetAddress() }
	if ordered {
		sort.Slice(keys, func(i, j int) bool {
			a, b := addrOf(keys[i]), addrOf(keys[j])
			return string(a[:]) < string(b[:])
		})
	}
	for s := 0; s < nsenders; s++ {
		a := addrOf(keys[s])
		u.Addrs = append(u.Addrs, a)
		u.Senders = append(u.Senders, a.GetHexString())
	}
	chain := common.ChainId(Height)
	byHash := map[common.Hash]int{}
	for i, sp := range specs {
		var tx types.Transaction
		if sp.DupOf > 0 {
			tx = u.tmpl[sp.DupOf-1] // same signed content, same hash
			tx.RequestId = sp.Rid
			tx.SocketRequestId = "dup"
		} else {
			tx = types.Transaction{
				Source:  u.Senders[sp.Sender],
				Target:  "0x00000000000000000000000000000000000000c1",
				Type:    types.TransactionTypeOperatorEvent,
				Time:    "2026-01-01 00:00:00",
				Data:    sp.Data,
				Nonce:   base[sp.Sender] + sp.Off,
				ChainId: chain,
			}
			tx.RequestId = sp.Rid
			if sp.Gate != 0 {
				tx.SubTransactions = []types.UserData{{Address: sp.Gate}}
			}
			tx.Hash = tx.GenHash()
			if sp.Signed {
				sg := keys[sp.Sender].Sign(tx.Hash.Bytes())
				tx.Sign = &sg
			}
		}
		u.tmpl = append(u.tmpl, tx)
		u.Hash = append(u.Hash, tx.Hash)
		id, ok := byHash[tx.Hash]
		if !ok {
			id = len(u.HHash)
			byHash[tx.Hash] = id
			u.HHash = append(u.HHash, tx.Hash)
		}
		u.HID = append(u.HID, id)
		_ = i
	}
	u.Absent = common.BytesToHash(common.Sha256([]byte("c17-absent-" + name)))
	u.hidOf = byHash
	return u
}

// N is the number of transactions, NH the number of distinct hashes.
func (u *Universe) N() int  { return len(u.Specs) }
func (u *Universe) NH() int { return len(u.HHash) }

// Nonce of transaction i.
func (u *Universe) Nonce(i int) uint64 { return u.Base[u.Specs[i].Sender] + u.Specs[i].Off }

// Checked reports whether transaction i is nonce-checked when packing (RequestId 0).
func (u *Universe) Checked(i int) bool { return u.Specs[i].Rid == 0 }

// TxName / names for messages.
func (u *Universe) TxName(i int) string {
	if i < 0 || i >= len(u.Specs) {
		return fmt.Sprintf("?%d", i)
	}
	return u.Specs[i].Name
}
func (u *Universe) Names(l []int) string {
	s := make([]string, len(l))
	for i, x := range l {
		s[i] = u.TxName(x)
	}
	return "[" + strings.Join(s, " ") + "]"
}

// Env is a universe bound to the booted node: the account states to pack against.
type Env struct {
	U      *Universe
	States []*account.AccountDB
}

var booted bool

// Boot boots the node fixture once per process (all forks on, with core) and
// silences the pool's debug logger.
func Boot() error {
	if booted {
		return nil
	}
	if err := node.Boot(node.ForksAllOn, true); err != nil {
		return err
	}
	SetHeight(Height)
	service.VerifSetTxPoolLogger(seelog.Disabled)
	booted = true
	return nil
}

// NewEnv opens one account state per pack state of the universe and sets the
// senders' nonces in it.  Only GetNonce is ever called on these objects.
func NewEnv(u *Universe) *Env {
	e := &Env{U: u}
	for k := range u.Nonces {
		st := node.LatestState()
		for s, a := range u.Addrs {
			st.SetNonce(a, u.Nonces[k][s])
		}
		for s, a := range u.Addrs {
			if got := st.GetNonce(a); got != u.Nonces[k][s] {
				panic(fmt.Sprintf("harness: state %d sender %d nonce %d != %d", k, s, got, u.Nonces[k][s]))
			}
		}
		e.States = append(e.States, st)
	}
	return e
}

// VerifySigned runs the pool's own admission verification over the signed
// transactions of the universe (harness sanity: the histories use honest transactions).
func (e *Env) VerifySigned() error {
	p := service.GetTransactionPool()
	for i, sp := range e.U.Specs {
		if !sp.Signed && !(sp.DupOf > 0 && e.U.Specs[sp.DupOf-1].Signed) {
			continue
		}
		tx := e.U.tmpl[i]
		if err := p.VerifyTransaction(&tx, Height); err != nil {
			return fmt.Errorf("universe %s tx %s does not verify: %v", e.U.Name, sp.Name, err)
		}
	}
	return nil
}

// Block is one block of the harness-side chain.
type Block struct {
	Txs     []int
	Evicted []int
	B       *types.Block
}

// Impl is one real pool instance plus the harness-side chain of marked blocks.
type Impl struct {
	E      *Env
	Pool   *service.TxPool
	DB     *db.MemDatabase
	Objs   []*types.Transaction
	idx    map[*types.Transaction]int
	Blocks []Block
}

// NewImpl builds a fresh, independent pool.  expiry=true builds the pending
// container with the production constructor (leaks its expiry goroutine).
func (e *Env) NewImpl(expiry bool) *Impl {
	mdb, _ := db.NewMemDatabase()
	im := &Impl{E: e, DB: mdb, Pool: service.VerifNewTxPool(mdb, expiry)}
	im.Objs = make([]*types.Transaction, e.U.N())
	im.idx = make(map[*types.Transaction]int, e.U.N())
	for i := range e.U.tmpl {
		t := e.U.tmpl[i] // copy
		im.Objs[i] = &t
		im.idx[&t] = i
	}
	return im
}

// Index maps a transaction object handed out by the pool back to the universe
// (-1: not an object of this instance).
func (im *Impl) Index(tx *types.Transaction) int {
	if tx == nil {
		return -1
	}
	if i, ok := im.idx[tx]; ok {
		return i
	}
	return -1
}

// indexByContent maps a transaction value (e.g. decoded from an executed record).
func (im *Impl) indexByContent(tx *types.Transaction) int {
	for i, o := range im.Objs {
		if o.Hash == tx.Hash && o.RequestId == tx.RequestId {
			return i
		}
	}
	return -1
}

// Op is one pool operation.
type Op struct {
	Kind    string `json:"kind"`              // add | pack | mark | unmark | get | exist | tick (one age tick of the pending container)
	Tx      int    `json:"tx,omitempty"`      // add, get, exist: transaction index (get/exist: -1 = absent hash)
	K       int    `json:"k,omitempty"`       // pack: state index
	Txs     []int  `json:"txs,omitempty"`     // mark: the block's transactions, block order
	Evicted []int  `json:"evicted,omitempty"` // mark: evicted transactions (not in the block, no receipt)
	Remote  bool   `json:"remote,omitempty"`  // mark: block did not come from the last packed batch (label only)
}

func (o Op) String(u *Universe) string {
	switch o.Kind {
	case "add", "get", "exist":
		if o.Tx < 0 {
			return o.Kind + "(absent)"
		}
		return o.Kind + "(" + u.TxName(o.Tx) + ")"
	case "pack":
		return fmt.Sprintf("pack(state%d)", o.K)
	case "mark":
		r := ""
		if o.Remote {
			r = "remote "
		}
		return "mark(" + r + u.Names(o.Txs) + " evicted " + u.Names(o.Evicted) + ")"
	}
	return o.Kind
}

// HistString renders a history.
func HistString(u *Universe, h []Op) string {
	var s []string
	for i := 0; i < len(h); i++ {
		j := i
		for j < len(h) && h[j].Kind == "add" {
			j++
		}
		if j-i > 8 { // long run of adds (limit scenarios)
			s = append(s, fmt.Sprintf("add ×%d (%s, %s, … %s)", j-i, u.TxName(h[i].Tx), u.TxName(h[i+1].Tx), u.TxName(h[j-1].Tx)))
			i = j - 1
			continue
		}
		o := h[i]
		if o.Kind == "mark" && len(o.Txs)+len(o.Evicted) > 12 {
			s = append(s, fmt.Sprintf("mark(%d txs %s…, %d evicted)", len(o.Txs), u.Names(o.Txs[:min(3, len(o.Txs))]), len(o.Evicted)))
			continue
		}
		s = append(s, o.String(u))
	}
	return strings.Join(s, "; ")
}

// Obs is what one operation returned.
type Obs struct {
	Panic   string `json:"panic,omitempty"` // first repository frame if the call panicked
	PanicV  string `json:"panicv,omitempty"`
	OK      bool   `json:"ok,omitempty"`      // add: first result; get: found; exist: result
	Err     string `json:"err,omitempty"`     // add / get
	Batch   []int  `json:"batch,omitempty"`   // pack: universe indexes in batch order (-1 = foreign object)
	HashOK  bool   `json:"hashOk,omitempty"`  // get: returned transaction has the requested hash
	NoBlock bool   `json:"noBlock,omitempty"` // unmark with an empty chain: nothing called
	NoHook  bool   `json:"noHook,omitempty"`  // tick: the repository under test has no VerifAgeTick hook
}

func (o Obs) String(u *Universe) string {
	if o.Panic != "" {
		return "panic@" + o.Panic
	}
	s := fmt.Sprintf("ok=%v", o.OK)
	if o.Err != "" {
		s += " err=" + o.Err
	}
	if o.Batch != nil {
		s += " batch=" + u.Names(o.Batch)
	}
	return s
}

func (im *Impl) hashOf(i int) common.Hash {
	if i < 0 {
		return im.E.U.Absent
	}
	return im.E.U.Hash[i]
}

// BuildBlock builds the block the chain would hand to MarkExecuted / UnMarkExecuted:
// Transactions = executed ones, Header.EvictedTxs = evicted ones (no receipt), as
// the block executor produces them with all forks active.
func (im *Impl) BuildBlock(txs, evicted []int) Block {
	height := Height + uint64(len(im.Blocks))
	hd := &types.BlockHeader{Height: height, EvictedTxs: make([]common.Hash, 0)}
	b := &types.Block{Header: hd, Transactions: make([]*types.Transaction, 0, len(txs))}
	seed := fmt.Sprintf("c17-block|%d|", height)
	for _, t := range txs {
		b.Transactions = append(b.Transactions, im.Objs[t])
		seed += im.E.U.Hash[t].Hex() + ","
	}
	seed += "|"
	for _, t := range evicted {
		hd.EvictedTxs = append(hd.EvictedTxs, im.E.U.Hash[t])
		seed += im.E.U.Hash[t].Hex() + ","
	}
	hd.Hash = common.BytesToHash(common.Sha256([]byte(seed)))
	return Block{Txs: append([]int{}, txs...), Evicted: append([]int{}, evicted...), B: b}
}

// Receipts builds one successful receipt per block transaction, as the executor does.
func (im *Impl) Receipts(b Block) types.Receipts {
	rs := make(types.Receipts, 0, len(b.Txs))
	for _, tx := range b.B.Transactions {
		r := types.NewReceipt(nil, false, 0, b.B.Header.Height, "", tx.Source, "")
		r.TxHash = tx.Hash
		rs = append(rs, r)
	}
	return rs
}

// MarkBlock / UnMarkBlock are the raw calls (used by Apply and by concurrent scenarios).
func (im *Impl) MarkBlock(b Block) {
	im.Pool.MarkExecuted(b.B.Header, im.Receipts(b), b.B.Transactions, b.B.Header.EvictedTxs)
}
func (im *Impl) UnMarkBlock(b Block) { im.Pool.UnMarkExecuted(b.B) }

// Apply runs the operation on the real pool.
func (o Op) Apply(im *Impl) Obs {
	var obs Obs
	p, v, site := fw.Try(func() {
		switch o.Kind {
		case "add":
			ok, err := im.Pool.AddTransaction(im.Objs[o.Tx])
			obs.OK = ok
			if err != nil {
				obs.Err = err.Error()
			}
		case "pack":
			b := im.Pool.PackForCast(Height+uint64(len(im.Blocks)), im.E.States[o.K])
			obs.Batch = make([]int, 0, len(b))
			for _, tx := range b {
				obs.Batch = append(obs.Batch, im.Index(tx))
			}
		case "mark":
			b := im.BuildBlock(o.Txs, o.Evicted)
			im.Blocks = append(im.Blocks, b) // the chain has the block whatever the pool does
			im.MarkBlock(b)
		case "unmark":
			if len(im.Blocks) == 0 {
				obs.NoBlock = true
				return
			}
			b := im.Blocks[len(im.Blocks)-1]
			im.Blocks = im.Blocks[:len(im.Blocks)-1]
			im.UnMarkBlock(b)
		case "get":
			h := im.hashOf(o.Tx)
			tx, err := im.Pool.GetTransaction(h)
			obs.OK = tx != nil && err == nil
			if err != nil {
				obs.Err = err.Error()
			}
			obs.HashOK = tx != nil && tx.Hash == h
		case "exist":
			obs.OK = im.Pool.IsExisted(im.hashOf(o.Tx))
		case "tick":
			// what the container's ticker goroutine starts once a minute (simpleContainer.growRing),
			// reached through the add-only hook (*TxPool).VerifAgeTick; looked up dynamically so that
			// the harness also builds against a checkout without the hook
			t, ok := interface{}(im.Pool).(interface{ VerifAgeTick() })
			if !ok {
				obs.NoHook = true
				return
			}
			t.VerifAgeTick()
		default:
			panic("harness: unknown op " + o.Kind)
		}
	})
	if p {
		obs.Panic = site
		obs.PanicV = fmt.Sprint(v)
		if len(obs.PanicV) > 200 {
			obs.PanicV = obs.PanicV[:200]
		}
	}
	return obs
}

// TickAvailable reports whether the repository under test exports the age tick.
func TickAvailable() bool {
	_, ok := interface{}((*service.TxPool)(nil)).(interface{ VerifAgeTick() })
	return ok
}

// Dump is the canonical dump of the implementation state.
type Dump struct {
	Pending     []int    // objects in container order (-1 foreign)
	PendingHID  []int    // hash id of each container key (-1 foreign)
	KeyMismatch bool     // some key != hash of the stored transaction
	Ages        []int    // hash ids in the expiry bookkeeping (sorted)
	Executed    []int    // hash ids with an executed record (sorted; -1 foreign)
	ExecObj     []int    // object stored in each record (-1 undecodable / foreign)
	ExecBlock   []string // block hash stored in each record (short)
	Evicted     []int    // hash ids in the evicted cache, oldest first
	BatchBytes  int      // unwritten bytes in the executed-records batch
	GateNonce   uint64   // GetGateNonce(): the gate nonce persisted in the executed-records database
}

func (im *Impl) hid(h common.Hash) int {
	if i, ok := im.E.U.hidOf[h]; ok {
		return i
	}
	return -1
}

// Dump reads the containers through the verif accessors (read-only).
func (im *Impl) Dump() Dump {
	var d Dump
	keys, txs := im.Pool.VerifPending()
	for i, k := range keys {
		d.PendingHID = append(d.PendingHID, im.hid(k))
		d.Pending = append(d.Pending, im.Index(txs[i]))
		if txs[i] == nil || txs[i].Hash != k {
			d.KeyMismatch = true
		}
	}
	for _, k := range im.Pool.VerifPendingAges() {
		d.Ages = append(d.Ages, im.hid(k))
	}
	sort.Ints(d.Ages)
	type rec struct {
		hid, obj int
		blk      string
	}
	var recs []rec
	for _, k := range im.Pool.VerifExecutedHashes() {
		r := rec{hid: im.hid(k), obj: -1}
		if et := im.Pool.GetExecuted(k); et != nil {
			r.blk = hex.EncodeToString(et.Receipt.BlockHash[:4])
			if tx, err := types.UnMarshalTransaction(et.Transaction); err == nil {
				r.obj = im.indexByContent(&tx)
			}
		} else {
			r.blk = "undecodable"
		}
		recs = append(recs, r)
	}
	sort.Slice(recs, func(i, j int) bool { return recs[i].hid < recs[j].hid })
	for _, r := range recs {
		d.Executed = append(d.Executed, r.hid)
		d.ExecObj = append(d.ExecObj, r.obj)
		d.ExecBlock = append(d.ExecBlock, r.blk)
	}
	for _, k := range im.Pool.VerifEvicted() {
		d.Evicted = append(d.Evicted, im.hid(k))
	}
	d.BatchBytes = im.Pool.VerifBatchSize()
	d.GateNonce = im.Pool.GetGateNonce()
	return d
}

// Key is the canonical string of a dump.
func (d Dump) Key() string {
	return fmt.Sprint("P", d.Pending, d.PendingHID, d.KeyMismatch, "A", d.Ages, "X", d.Executed, d.ExecObj, d.ExecBlock, "E", d.Evicted, "B", d.BatchBytes, "G", d.GateNonce)
}

// StateKey hashes implementation dump + model state into the BFS dedup key.
func StateKey(d Dump, r *Ref) [16]byte {
	h := sha256.Sum256([]byte(d.Key() + "#" + r.Key()))
	var k [16]byte
	copy(k[:], h[:16])
	return k
}
