package pool

import (
	"fmt"
	"sort"
)

// Ref is the reference model of the pool ("refpool"): a list of pending
// transactions (at most one per hash), a map of executed records and the stack of
// blocks marked so far.  It is an acceptor: Step checks an observed result against
// what the property statement (and, where marked "model", the documented mechanism)
// allows in the current state, then moves to the next state.  Where the statement
// leaves a choice open (order of a batch beyond per-sender nonce order, which object
// of two with the same hash is kept) the model follows the implementation.
type Ref struct {
	U         *Universe
	Pending   []int       // objects, insertion order, one per hash id
	Exec      map[int]int // hash id -> object recorded
	Blocks    []RefBlock
	LastBatch []int // result of the last pack; consumed when it is put into a block (mark that is not remote)

	lastUnmarked []int // transient: hash ids re-pended by the last unmark
}

type RefBlock struct{ Txs, Evicted []int }

// Finding is one disagreement between implementation and statement/model.
type Finding struct {
	Sig string `json:"sig"`
	Msg string `json:"msg"`
}

func NewRef(u *Universe) *Ref { return &Ref{U: u, Exec: map[int]int{}} }

func (r *Ref) Clone() *Ref {
	c := &Ref{U: r.U, Exec: make(map[int]int, len(r.Exec))}
	c.Pending = append([]int(nil), r.Pending...)
	c.LastBatch = append([]int(nil), r.LastBatch...)
	for k, v := range r.Exec {
		c.Exec[k] = v
	}
	c.Blocks = append([]RefBlock(nil), r.Blocks...) // blocks are immutable
	return c
}

// Key is the canonical string of the model state.
func (r *Ref) Key() string {
	ex := make([]int, 0, len(r.Exec))
	for h := range r.Exec {
		ex = append(ex, h)
	}
	sort.Ints(ex)
	s := fmt.Sprint("p", r.Pending, "x")
	for _, h := range ex {
		s += fmt.Sprint(h, ":", r.Exec[h], ",")
	}
	s += "b"
	for _, b := range r.Blocks {
		s += fmt.Sprint(b.Txs, b.Evicted)
	}
	return s + fmt.Sprint("l", r.LastBatch)
}

func (r *Ref) pendingPos(hid int) int {
	for i, t := range r.Pending {
		if r.U.HID[t] == hid {
			return i
		}
	}
	return -1
}

func (r *Ref) removePending(hid int) {
	if i := r.pendingPos(hid); i >= 0 {
		r.Pending = append(r.Pending[:i:i], r.Pending[i+1:]...)
	}
}

// Known reports whether the hash of transaction i (i<0: the absent hash) is pending or executed.
func (r *Ref) Known(i int) bool {
	if i < 0 {
		return false
	}
	h := r.U.HID[i]
	_, ex := r.Exec[h]
	return ex || r.pendingPos(h) >= 0
}

// Eligible returns the pending transactions a batch against state k may and (model)
// should contain: every transaction that is not nonce-checked, and of every sender the
// nonce-checked ones whose nonce is below "state nonce + length of the gap-free run of
// pending nonces starting at the state nonce".
func (r *Ref) Eligible(k int) map[int]bool {
	u := r.U
	exp := append([]uint64(nil), u.Nonces[k]...)
	for s := range exp {
		for again := true; again; {
			again = false
			for _, t := range r.Pending {
				if u.Checked(t) && u.Specs[t].Sender == s && u.Nonce(t) == exp[s] {
					exp[s]++
					again = true
					break
				}
			}
		}
	}
	el := map[int]bool{}
	for _, t := range r.Pending {
		if !u.Checked(t) || u.Nonce(t) < exp[u.Specs[t].Sender] {
			el[t] = true
		}
	}
	return el
}

// CheckBatch checks a packed batch against the statement in the current state.
func (r *Ref) CheckBatch(k int, batch []int) []Finding {
	u := r.U
	var fs []Finding
	add := func(sig, msg string) { fs = append(fs, Finding{sig, msg}) }
	seen := map[int]bool{}
	exp := append([]uint64(nil), u.Nonces[k]...)
	last := map[int]uint64{}
	for pos, t := range batch {
		if t < 0 {
			add("C17:pack-foreign-tx", fmt.Sprintf("batch position %d holds a transaction object the harness never submitted", pos))
			continue
		}
		h := u.HID[t]
		if seen[h] {
			add("C17:pack-duplicate", fmt.Sprintf("batch %s contains hash of %s twice", u.Names(batch), u.TxName(t)))
		}
		seen[h] = true
		if _, ex := r.Exec[h]; ex {
			add("C17:executed-tx-packed", fmt.Sprintf("%s has an executed record on the canonical chain but was packed again: batch %s", u.TxName(t), u.Names(batch)))
		} else if r.pendingPos(h) < 0 {
			add("C17:pack-not-pending", fmt.Sprintf("%s is not pending (model) but was packed: batch %s", u.TxName(t), u.Names(batch)))
		}
		if u.Checked(t) {
			s, n := u.Specs[t].Sender, u.Nonce(t)
			if l, ok := last[s]; ok && n < l {
				add("C17:pack-nonce-order", fmt.Sprintf("sender %d: nonce %d packed after nonce %d: batch %s", s, n, l, u.Names(batch)))
			}
			last[s] = n
			if n > exp[s] {
				add("C17:packed-ahead-of-nonce", fmt.Sprintf("%s (nonce %d) packed while sender %d's next expected nonce is %d (state nonce %d + %d placed in-sequence): batch %s",
					u.TxName(t), n, s, exp[s], u.Nonces[k][s], exp[s]-u.Nonces[k][s], u.Names(batch)))
			} else if n == exp[s] {
				exp[s]++
			}
		}
	}
	if len(batch) > Limit {
		add("C17:pack-over-limit", fmt.Sprintf("batch of %d transactions, limit %d", len(batch), Limit))
	}
	if el := r.Eligible(k); len(el) <= Limit {
		var miss []int
		for t := range el {
			if !seen[u.HID[t]] {
				miss = append(miss, t)
			}
		}
		sort.Ints(miss)
		if len(miss) > 0 {
			add("C17:eligible-tx-not-packed", fmt.Sprintf("pending %s, state %d (nonces %v): %s pending, not ahead of nonce, below the limit, yet not packed: batch %s",
				u.Names(r.Pending), k, u.Nonces[k], u.Names(miss), u.Names(batch)))
		}
	}
	return fs
}

// Step checks obs against the model state and advances the model.
func (r *Ref) Step(op Op, obs Obs) []Finding {
	u := r.U
	var fs []Finding
	add := func(sig, msg string) { fs = append(fs, Finding{sig, msg}) }
	r.lastUnmarked = nil
	if obs.Panic != "" {
		add("C17:panic:"+obs.Panic, fmt.Sprintf("%s panicked: %s", op.String(u), obs.PanicV))
		return fs
	}
	switch op.Kind {
	case "add":
		h := u.HID[op.Tx]
		_, ex := r.Exec[h]
		switch {
		case ex:
			if obs.OK || obs.Err == "" {
				add("C17:executed-tx-accepted", fmt.Sprintf("%s has an executed record on the canonical chain but AddTransaction returned (%v,%q)", u.TxName(op.Tx), obs.OK, obs.Err))
			}
		case r.pendingPos(h) >= 0:
			if obs.OK || obs.Err == "" {
				add("C17:pending-duplicate-accepted", fmt.Sprintf("hash of %s is already pending but AddTransaction returned (%v,%q)", u.TxName(op.Tx), obs.OK, obs.Err))
			}
		default:
			if !obs.OK || obs.Err != "" {
				add("C17:fresh-tx-refused", fmt.Sprintf("%s is neither pending nor executed but AddTransaction returned (%v,%q)", u.TxName(op.Tx), obs.OK, obs.Err))
			} else {
				r.Pending = append(r.Pending, op.Tx)
			}
		}
	case "pack":
		fs = append(fs, r.CheckBatch(op.K, obs.Batch)...)
		r.LastBatch = append([]int(nil), obs.Batch...)
	case "mark":
		for _, t := range op.Txs {
			h := u.HID[t]
			r.Exec[h] = t
			r.removePending(h)
		}
		for _, t := range op.Evicted {
			r.removePending(u.HID[t])
		}
		r.Blocks = append(r.Blocks, RefBlock{append([]int(nil), op.Txs...), append([]int(nil), op.Evicted...)})
		if !op.Remote {
			r.LastBatch = nil
		}
	case "unmark":
		if len(r.Blocks) == 0 {
			break
		}
		b := r.Blocks[len(r.Blocks)-1]
		r.Blocks = r.Blocks[: len(r.Blocks)-1 : len(r.Blocks)-1]
		for _, t := range b.Txs {
			h := u.HID[t]
			delete(r.Exec, h)
			if r.pendingPos(h) < 0 {
				r.Pending = append(r.Pending, t)
			}
			r.lastUnmarked = append(r.lastUnmarked, h)
		}
	case "tick":
		// ages are not part of the statement; scenarios tick a transaction fewer than the five times that expire it
	case "get":
		want := r.Known(op.Tx)
		if obs.OK != want {
			add("C17:lookup:GetTransaction:"+r.class(op.Tx), fmt.Sprintf("GetTransaction(%s) found=%v err=%q, model says known=%v", txOrAbsent(u, op.Tx), obs.OK, obs.Err, want))
		} else if obs.OK && !obs.HashOK {
			add("C17:lookup:wrong-tx", fmt.Sprintf("GetTransaction(%s) returned a transaction with another hash", txOrAbsent(u, op.Tx)))
		}
	case "exist":
		if want := r.Known(op.Tx); obs.OK != want {
			add("C17:lookup:IsExisted:"+r.class(op.Tx), fmt.Sprintf("IsExisted(%s)=%v, model says %v", txOrAbsent(u, op.Tx), obs.OK, want))
		}
	}
	return fs
}

// class says what the model knows about the hash of transaction i.
func (r *Ref) class(i int) string {
	if i >= 0 {
		if _, ex := r.Exec[r.U.HID[i]]; ex {
			return "executed"
		}
		if r.pendingPos(r.U.HID[i]) >= 0 {
			return "pending"
		}
	}
	return "unknown"
}

func txOrAbsent(u *Universe, i int) string {
	if i < 0 {
		return "absent"
	}
	return u.TxName(i)
}

// Compare checks the implementation dump taken after op against the model state
// after op (Step must have been called), and lets the model adopt the open choices.
func (r *Ref) Compare(op Op, d Dump) []Finding {
	u := r.U
	var fs []Finding
	add := func(sig, msg string) { fs = append(fs, Finding{sig, msg}) }
	hname := func(h int) string {
		if h < 0 {
			return "foreign-hash"
		}
		for i := range u.HID {
			if u.HID[i] == h {
				return u.TxName(i)
			}
		}
		return "?"
	}
	in := func(l []int, x int) bool {
		for _, y := range l {
			if x == y {
				return true
			}
		}
		return false
	}
	if d.KeyMismatch {
		add("C17:pending-key-mismatch", "a pending container key differs from the hash of the transaction stored under it")
	}
	implPend := map[int]bool{}
	for _, h := range d.PendingHID {
		if h >= 0 && implPend[h] {
			add("C17:pending-duplicate-hash", "hash of "+hname(h)+" is pending twice")
		}
		implPend[h] = true
	}
	implExec := map[int]bool{}
	for i, h := range d.Executed {
		implExec[h] = true
		if h >= 0 && d.ExecObj[i] < 0 {
			add("C17:executed-record-undecodable", "executed record of "+hname(h)+" does not decode to a transaction of the history")
		}
	}
	evictedH := []int{}
	if op.Kind == "mark" {
		for _, t := range op.Evicted {
			evictedH = append(evictedH, u.HID[t])
		}
	}
	ctx := fmt.Sprintf(" [impl pending %s executed %v | model pending %s executed %v]", u.Names(d.Pending), d.Executed, u.Names(r.Pending), r.execList())

	// the statement's own invariant on the implementation state
	for _, h := range d.Executed {
		if implPend[h] {
			add("C17:executed-and-pending", hname(h)+" has an executed record and is pending in the pool at the same time"+ctx)
		}
	}
	// executed records
	for _, h := range d.Executed {
		if _, ok := r.Exec[h]; !ok {
			if op.Kind == "unmark" && in(r.lastUnmarked, h) {
				add("C17:unmarked-tx-still-executed", hname(h)+" was in the removed block but still has an executed record"+ctx)
			} else {
				add("C17:executed-record-unexpected", hname(h)+" has an executed record but is in no block of the chain"+ctx)
			}
		}
	}
	for h := range r.Exec {
		if !implExec[h] {
			add("C17:executed-record-missing", hname(h)+" is in a block of the chain but has no executed record (it would be accepted and packed again)"+ctx)
		}
	}
	// pending set
	pendOK := !d.KeyMismatch
	for _, t := range r.Pending {
		h := u.HID[t]
		if !implPend[h] {
			pendOK = false
			if op.Kind == "unmark" && in(r.lastUnmarked, h) {
				add("C17:unmarked-tx-not-pending", hname(h)+" was in the removed block but is not pending again"+ctx)
			} else {
				add("C17:pending-tx-lost", hname(h)+" should be pending (model) but is not"+ctx)
			}
		}
	}
	for _, h := range d.PendingHID {
		if r.pendingPos(h) >= 0 {
			continue
		}
		pendOK = false
		if implExec[h] {
			continue // reported as executed-and-pending
		}
		if in(evictedH, h) {
			add("C17:evicted-tx-still-pending", hname(h)+" was evicted by the block but is still pending"+ctx)
		} else {
			add("C17:pending-unexpected", hname(h)+" is pending but should not be (model)"+ctx)
		}
	}
	if pendOK && len(fs) == 0 {
		ok := true
		for _, t := range d.Pending {
			ok = ok && t >= 0
		}
		if ok {
			r.Pending = append([]int(nil), d.Pending...) // adopt order and object choice
		} else {
			add("C17:pending-foreign-object", "a pending transaction object was never submitted by the harness"+ctx)
		}
	}
	sort.SliceStable(fs, func(i, j int) bool { return fs[i].Sig < fs[j].Sig })
	return fs
}

func (r *Ref) execList() []int {
	l := make([]int, 0, len(r.Exec))
	for h := range r.Exec {
		l = append(l, h)
	}
	sort.Ints(l)
	return l
}

// Sweep runs the read-only lookups for every hash of the universe plus an absent
// one against the model, and checks that they did not change the pool.
func Sweep(im *Impl, r *Ref, before Dump) []Finding {
	u := r.U
	var fs []Finding
	rep := make([]int, u.NH())
	for i := range rep {
		rep[i] = -1
	}
	for i := len(u.HID) - 1; i >= 0; i-- {
		rep[u.HID[i]] = i
	}
	for _, t := range append([]int{-1}, rep...) {
		for _, kind := range []string{"exist", "get"} {
			op := Op{Kind: kind, Tx: t}
			fs = append(fs, r.Step(op, op.Apply(im))...)
		}
	}
	if after := im.Dump(); after.Key() != before.Key() {
		fs = append(fs, Finding{"C17:lookup-mutates-pool", "IsExisted/GetTransaction changed the pool: " + before.Key() + " -> " + after.Key()})
	}
	return fs
}

// Gen says which operations the history enumeration uses.
type Gen struct {
	NK       int   // pack states 0..NK-1
	MaxEvict int   // evicted subsets of the last batch up to this size …
	EvictAll bool  // … plus the whole batch
	Remote   []int // transactions that may arrive in a one-transaction block not packed here
}

// Enabled lists, in a fixed order, the operations that extend a history ending in this model state.
func (r *Ref) Enabled(g Gen) []Op {
	u := r.U
	var ops []Op
	for i := 0; i < u.N(); i++ {
		ops = append(ops, Op{Kind: "add", Tx: i})
	}
	for k := 0; k < g.NK; k++ {
		ops = append(ops, Op{Kind: "pack", K: k})
	}
	stale := false // a batch holding a transaction that meanwhile got executed cannot go into a canonical block
	for _, t := range r.LastBatch {
		if _, ex := r.Exec[u.HID[t]]; ex {
			stale = true
		}
	}
	if n := len(r.LastBatch); n > 0 && !stale {
		var subsets [][]int // positions
		var rec func(start int, cur []int)
		rec = func(start int, cur []int) {
			subsets = append(subsets, append([]int(nil), cur...))
			if len(cur) == g.MaxEvict {
				return
			}
			for p := start; p < n; p++ {
				rec(p+1, append(cur, p))
			}
		}
		rec(0, nil)
		if g.EvictAll && n > g.MaxEvict {
			all := make([]int, n)
			for i := range all {
				all[i] = i
			}
			subsets = append(subsets, all)
		}
		for _, sub := range subsets {
			op := Op{Kind: "mark"}
			for p, t := range r.LastBatch {
				ev := false
				for _, q := range sub {
					ev = ev || q == p
				}
				if ev {
					op.Evicted = append(op.Evicted, t)
				} else {
					op.Txs = append(op.Txs, t)
				}
			}
			ops = append(ops, op)
		}
	}
	for _, t := range g.Remote {
		if _, ex := r.Exec[u.HID[t]]; !ex {
			ops = append(ops, Op{Kind: "mark", Txs: []int{t}, Remote: true})
		}
	}
	if len(r.Blocks) > 0 {
		ops = append(ops, Op{Kind: "unmark"})
	}
	return ops
}
