package pool

// Concurrent scenarios shared by the scheduler-driven exploration (../conc.go) and the
// free-running race-detector companion (../race).

// Scenario: setup ops run sequentially first, then the threads run concurrently.
type Scenario struct {
	Name    string `json:"name"`
	Setup   []Op   `json:"setup"`
	Threads [][]Op `json:"threads"`
	Post    []Op   `json:"post,omitempty"` // run sequentially after all threads finished, before the final-state comparison
}

func ConcUniverse() *Universe {
	const n = 100
	specs := []TxSpec{
		{Name: "a0", Sender: 0, Off: 0, Data: "a"},
		{Name: "a1", Sender: 0, Off: 1, Data: "a"},
		{Name: "b0", Sender: 0, Off: 0, Data: "b"}, // competitor of a0 for the same nonce
		// a gateway transaction as GameExecutor.runWrite submits it: RequestId = message nonce,
		// one sub-transaction carrying the gate nonce; its submission also touches the pool's
		// shared write batch (refreshGateNonce), outside the pool lock
		{Name: "g", Sender: 0, Off: 7, Rid: 3, Gate: 11, Data: "g"},
	}
	return NewUniverse("conc", 1, []uint64{n}, [][]uint64{{n}, {n + 1}}, specs)
}

func Scenarios(thorough bool) []Scenario {
	add := func(i int) Op { return Op{Kind: "add", Tx: i} }
	mark := func(txs ...int) Op { return Op{Kind: "mark", Txs: txs} }
	markEv := func(txs []int, ev []int) Op { return Op{Kind: "mark", Txs: txs, Evicted: ev} }
	pack := Op{Kind: "pack", K: 0}
	unmark := Op{Kind: "unmark"}
	tick := Op{Kind: "tick"} // the pool's background task: one age tick of the pending container (runs outside the pool lock)
	s := []Scenario{
		{Name: "add-vs-mark-same-tx", Threads: [][]Op{{add(0)}, {mark(0)}}},
		{Name: "readd-vs-mark", Setup: []Op{add(0)}, Threads: [][]Op{{add(0)}, {mark(0)}}},
		{Name: "add-vs-add-same-tx", Threads: [][]Op{{add(0)}, {add(0)}}},
		{Name: "pack-vs-mark", Setup: []Op{add(0), add(1)}, Threads: [][]Op{{pack}, {mark(0)}}},
		{Name: "unmark-vs-add", Setup: []Op{add(0), mark(0)}, Threads: [][]Op{{unmark}, {add(0)}}},
		{Name: "unmark-vs-pack", Setup: []Op{add(0), add(1), mark(0)}, Threads: [][]Op{{unmark}, {pack}}},
		{Name: "mark-evict-vs-add", Setup: []Op{add(0)}, Threads: [][]Op{{markEv([]int{0}, []int{2})}, {add(2)}}},
		{Name: "add-pack-mark", Setup: []Op{add(0)}, Threads: [][]Op{{add(1)}, {pack}, {mark(0)}}},
		// gateway submission (index 3) next to the block bookkeeping, packing and a reorg
		{Name: "gate-add-vs-mark", Setup: []Op{add(0)}, Threads: [][]Op{{add(3)}, {mark(0)}}},
		{Name: "gate-add-vs-mark-two-evict", Setup: []Op{add(0), add(1), add(2)}, Threads: [][]Op{{add(3)}, {markEv([]int{0, 1}, []int{2})}}},
		{Name: "gate-add-vs-pack", Setup: []Op{add(0)}, Threads: [][]Op{{add(3)}, {pack}}},
		// the age tick next to the block bookkeeping; afterwards the block is removed again (reorg) or the
		// evicted transaction is submitted again: it must be pending and packable
		{Name: "tick-vs-mark-then-unmark", Setup: []Op{add(0)}, Threads: [][]Op{{tick}, {mark(0)}}, Post: []Op{unmark, pack}},
		// (one pending transaction per tick scenario: sync.Map.Range visits several keys in Go's randomised
		// map order, which would make a schedule's meaning differ between two runs of the same choices)
		{Name: "tick-vs-evict-then-readd", Setup: []Op{add(0)}, Threads: [][]Op{{tick}, {markEv(nil, []int{0})}}, Post: []Op{add(0), pack}},
		{Name: "tick-vs-add", Threads: [][]Op{{tick}, {add(0)}}, Post: []Op{pack}},
		{Name: "tick-vs-pack", Setup: []Op{add(0)}, Threads: [][]Op{{tick}, {pack}}},
		{Name: "gate-add-vs-unmark", Setup: []Op{add(0), mark(0)}, Threads: [][]Op{{add(3)}, {unmark}}},
	}
	if thorough {
		s = append(s,
			Scenario{Name: "add-add-mark", Threads: [][]Op{{add(0)}, {add(1)}, {mark(0, 1)}}},
			Scenario{Name: "mark-unmark-vs-add", Setup: []Op{add(0)}, Threads: [][]Op{{mark(0), unmark}, {add(0)}}},
			Scenario{Name: "two-adds-vs-pack", Threads: [][]Op{{add(0), add(1)}, {pack, pack}}},
			Scenario{Name: "tick-vs-mark-vs-pack", Setup: []Op{add(0)}, Threads: [][]Op{{tick}, {mark(0)}, {pack}}, Post: []Op{unmark, pack}},
			Scenario{Name: "gate-add-vs-mark-gate", Setup: []Op{add(0), add(3)}, Threads: [][]Op{{add(3)}, {mark(0, 3)}}},
			Scenario{Name: "gate-add-vs-mark-vs-add", Setup: []Op{add(0)}, Threads: [][]Op{{add(3)}, {mark(0)}, {add(0)}}},
		)
	}
	return s
}

// Plan is the per-thread list of raw calls of a scenario on one pool instance; blocks
// (harness state) are built before the threads start.
type PlannedOp struct {
	Op    Op
	Block *Block
}

// HasTick reports whether the scenario uses the age tick.
func (sc Scenario) HasTick() bool {
	for _, l := range append(append([][]Op{sc.Setup}, sc.Threads...), sc.Post) {
		for _, op := range l {
			if op.Kind == "tick" {
				return true
			}
		}
	}
	return false
}

// Plan returns the per-thread plans followed by one more plan for the Post operations.
func (sc Scenario) Plan(im *Impl) [][]PlannedOp {
	var chain []Block
	chain = append(chain, im.Blocks...)
	plans := make([][]PlannedOp, len(sc.Threads)+1)
	for t, ops := range append(append([][]Op{}, sc.Threads...), sc.Post) {
		for _, op := range ops {
			po := PlannedOp{Op: op}
			switch op.Kind {
			case "mark":
				b := im.BuildBlock(op.Txs, op.Evicted)
				chain = append(chain, b)
				po.Block = &b
			case "unmark":
				if len(chain) == 0 {
					panic("scenario unmarks an empty chain")
				}
				b := chain[len(chain)-1]
				chain = chain[:len(chain)-1]
				po.Block = &b
			}
			plans[t] = append(plans[t], po)
		}
	}
	return plans
}

// Run executes one planned operation.
func (po PlannedOp) Run(im *Impl) Obs {
	switch po.Op.Kind {
	case "mark":
		im.MarkBlock(*po.Block)
		return Obs{}
	case "unmark":
		im.UnMarkBlock(*po.Block)
		return Obs{}
	}
	return po.Op.Apply(im)
}
