// C17 (part a): the transaction pool hands each transaction to the chain at most
// once and never ahead of nonce — bounded-exhaustive breadth-first exploration (E2)
// of sequential operation histories on real service.TxPool instances, every step
// compared with the reference model in ./pool (refpool).
package main

import (
	"encoding/json"
	"fmt"
	"os"
	"runtime"
	"sort"
	"strings"
	"time"

	"verif/h/checks/c17/pool"
	"verif/h/fw"
)

// kase is what a violation records and what --replay re-executes.
type kase struct {
	Universe string    `json:"universe"` // "bfs:<tier>" or "limit:<shape>:<n>:<order>"
	Ops      []pool.Op `json:"ops"`
	Alt      []pool.Op `json:"alt,omitempty"` // differential cases: the other insertion order of the same set
	Text     string    `json:"text,omitempty"`
}

// ---------------------------------------------------------------------------------
// universes

// bfsUniverse: transactions forced to collide.  One sender S with state nonce n:
// a0,b0 (both nonce n), a1 (n+1), a2 (n+2); r = request-id transaction of S with a
// nonce far ahead (not nonce-checked); d = another object with the hash of a1 (the
// hash does not cover RequestId/SocketRequestId) that is not nonce-checked.
// The "thorough" universe adds t0, an in-sequence transaction of a second sender, a third
// pack state and evicted subsets of two.  The last result is the BFS level at which the
// frontier is split over the worker processes.
func bfsUniverse(tier string) (*pool.Universe, pool.Gen, int) {
	const n, m = 5, 3
	specs := []pool.TxSpec{
		{Name: "a0", Sender: 0, Off: 0, Data: "a", Signed: true},
		{Name: "b0", Sender: 0, Off: 0, Data: "b", Signed: true},
		{Name: "a1", Sender: 0, Off: 1, Data: "a", Signed: true},
		{Name: "a2", Sender: 0, Off: 2, Data: "a", Signed: true},
		{Name: "r", Sender: 0, Off: 7, Rid: 7, Gate: 11, Data: "r", Signed: true}, // gateway shape (runWrite): RequestId + one sub-transaction with the gate nonce
		{Name: "d", Sender: 0, Rid: 9, DupOf: 3},
	}
	if tier == "thorough" {
		specs = append(specs, pool.TxSpec{Name: "t0", Sender: 1, Off: 0, Data: "t", Signed: true})
		nonces := [][]uint64{{n, m}, {n + 1, m}, {n + 2, m + 1}}
		u := pool.NewUniverse("bfs:thorough", 2, []uint64{n, m}, nonces, specs)
		return u, pool.Gen{NK: 3, MaxEvict: 2, EvictAll: true, Remote: []int{1, 5}}, 3
	}
	nonces := [][]uint64{{n}, {n + 1}}
	u := pool.NewUniverse("bfs:quick", 1, []uint64{n}, nonces, specs)
	return u, pool.Gen{NK: 2, MaxEvict: 1, EvictAll: true, Remote: []int{1, 5}}, 3
}

// limitUniverse: n transactions of one shape; state 0 = before any block, state 1 =
// after a block holding the first full batch.
func limitUniverse(shape string, n int) *pool.Universe {
	const base = 100
	name := fmt.Sprintf("limit:%s:%d", shape, n)
	first := n
	if first > pool.Limit {
		first = pool.Limit
	}
	var specs []pool.TxSpec
	switch shape {
	case "one-sender": // nonces base..base+n-1
		for i := 0; i < n; i++ {
			specs = append(specs, pool.TxSpec{Name: fmt.Sprintf("s%d", i), Sender: 0, Off: uint64(i), Data: "x"})
		}
		return pool.NewUniverse(name, 1, []uint64{base}, [][]uint64{{base}, {base + uint64(first)}}, specs)
	case "same-nonce": // n competitors for one nonce
		for i := 0; i < n; i++ {
			specs = append(specs, pool.TxSpec{Name: fmt.Sprintf("c%d", i), Sender: 0, Off: 0, Data: fmt.Sprintf("x%d", i)})
		}
		return pool.NewUniverse(name, 1, []uint64{base}, [][]uint64{{base}, {base + 1}}, specs)
	case "request-ids": // not nonce-checked
		for i := 0; i < n; i++ {
			specs = append(specs, pool.TxSpec{Name: fmt.Sprintf("r%d", i), Sender: 0, Off: uint64(1000 + i), Rid: uint64(i + 1), Data: "x"})
		}
		return pool.NewUniverse(name, 1, []uint64{base}, [][]uint64{{base}, {base}}, specs)
	case "many-senders": // one in-sequence transaction per sender
		b := make([]uint64, n)
		b1 := make([]uint64, n)
		for i := 0; i < n; i++ {
			specs = append(specs, pool.TxSpec{Name: fmt.Sprintf("m%d", i), Sender: i, Off: 0, Data: "x"})
			b[i], b1[i] = base, base // which senders land in the first batch is open; state 1 = state 0
		}
		return pool.NewUniverse(name, n, b, [][]uint64{b, b1}, specs)
	case "gap": // n-50 in sequence, then a gap, then 50 ahead of nonce
		for i := 0; i < n; i++ {
			off := uint64(i)
			if i >= n-50 {
				off++
			}
			specs = append(specs, pool.TxSpec{Name: fmt.Sprintf("g%d", i), Sender: 0, Off: off, Data: "x"})
		}
		f := n - 50
		if f > pool.Limit {
			f = pool.Limit
		}
		return pool.NewUniverse(name, 1, []uint64{base}, [][]uint64{{base}, {base + uint64(f)}}, specs)
	}
	panic("unknown shape " + shape)
}

var limitShapes = []string{"one-sender", "same-nonce", "request-ids", "many-senders", "gap"}
var limitSizes = []int{199, 200, 201, 250}
var limitOrders = []string{"asc", "desc", "mixed"}

// limitOps: add everything in the given order, pack, put the batch in a block, pack
// again against the next state, block, undo both blocks, pack again.
func addOrder(n int, order string) []int {
	l := make([]int, 0, n)
	switch order {
	case "asc":
		for i := 0; i < n; i++ {
			l = append(l, i)
		}
	case "desc":
		for i := n - 1; i >= 0; i-- {
			l = append(l, i)
		}
	default: // deterministic stride permutation
		for i, j := 0, 0; i < n; i, j = i+1, (j+97)%n {
			l = append(l, j)
		}
	}
	return l
}

// ---------------------------------------------------------------------------------
// stepping with the full oracle

// stepChecked applies op on the implementation, steps the model and runs every check.
// full=false (used for the long add runs of the limit scenarios) checks the return value only.
func stepChecked(im *pool.Impl, ref *pool.Ref, op pool.Op, full bool) (pool.Obs, pool.Dump, []pool.Finding) {
	obs := op.Apply(im)
	fs := ref.Step(op, obs)
	if !full {
		return obs, pool.Dump{}, fs
	}
	d := im.Dump()
	fs = append(fs, ref.Compare(op, d)...)
	fs = append(fs, pool.Sweep(im, ref, d)...)
	return obs, d, fs
}

func sigsOf(fs []pool.Finding) string {
	m := map[string]bool{}
	for _, f := range fs {
		m[f.Sig] = true
	}
	l := make([]string, 0, len(m))
	for s := range m {
		l = append(l, s)
	}
	sort.Strings(l)
	return strings.Join(l, ",")
}

// runHistory runs ops with the full oracle after every step on a fresh pool and
// returns the findings of the first failing step (and its index), if any.
// In a limit scenario (limit=true) the pool is built with the production container
// constructor and an add is fully checked only when it is the last one of a run of adds.
func runHistory(env *pool.Env, ops []pool.Op, limit bool) (int, []pool.Finding) {
	im := env.NewImpl(limit)
	ref := pool.NewRef(env.U)
	for i, op := range ops {
		if op.Kind == "mark" && op.Txs == nil && op.Evicted == nil { // "mark the last batch"
			op.Txs = append([]int(nil), ref.LastBatch...)
		}
		_, _, fs := stepChecked(im, ref, op, fullAt(ops, i, limit))
		if len(fs) > 0 {
			return i, fs
		}
	}
	return -1, nil
}

func fullAt(ops []pool.Op, i int, limit bool) bool {
	return !limit || ops[i].Kind != "add" || i+1 == len(ops) || ops[i+1].Kind != "add"
}

// report confirms a failing history by running it again from scratch (same input,
// same observation required) and records one violation per signature.
var deferred []func()

func report(c *fw.Ctx, env *pool.Env, ops []pool.Op, fs []pool.Finding, part string, limit bool) {
	if limit && deferred != nil { // limit scenarios run first but report after the BFS, whose histories are minimal
		deferred = append(deferred, func() { report1(c, env, ops, fs, part, limit) })
		return
	}
	report1(c, env, ops, fs, part, limit)
}

func report1(c *fw.Ctx, env *pool.Env, ops []pool.Op, fs []pool.Finding, part string, limit bool) {
	at, again := runHistory(env, ops, limit)
	same := at == len(ops)-1
	for _, f := range fs { // every signature must show again (the re-run may check more: last add of a limit run is checked fully)
		same = same && strings.Contains(","+sigsOf(again)+",", ","+f.Sig+",")
	}
	if !same {
		c.Violation("C17:nondeterministic", part, fmt.Sprintf("history %s gave %s first and %s (step %d) when run again",
			pool.HistString(env.U, ops), sigsOf(fs), sigsOf(again), at), kase{Universe: env.U.Name, Ops: ops})
		return
	}
	seen := map[string]bool{}
	for _, f := range again {
		if seen[f.Sig] {
			continue
		}
		seen[f.Sig] = true
		text := pool.HistString(env.U, ops)
		c.Violation(f.Sig, part, fmt.Sprintf("history (%d ops): %s  =>  %s", len(ops), text, f.Msg), kase{Universe: env.U.Name, Ops: ops, Text: text})
	}
}

// ---------------------------------------------------------------------------------
// BFS over histories

type bnode struct {
	hist    []pool.Op
	ref     *pool.Ref
	dkey    string
	nontriv bool
}

func outcome(op pool.Op, obs pool.Obs, npendBefore int) string {
	switch op.Kind {
	case "add":
		if obs.OK {
			return "add:accepted"
		}
		return "add:refused:" + obs.Err
	case "pack":
		switch {
		case npendBefore == 0:
			return "pack:empty-pool"
		case len(obs.Batch) == 0:
			return "pack:nothing-eligible"
		case len(obs.Batch) == npendBefore:
			return "pack:all-pending"
		}
		return "pack:some-skipped"
	case "mark":
		if op.Remote {
			return "mark:remote-block"
		}
		return fmt.Sprintf("mark:packed-block:evicted=%d:executed=%d", len(op.Evicted), len(op.Txs))
	case "unmark":
		return "unmark"
	}
	return op.Kind
}

func bfs(c *fw.Ctx, env *pool.Env, gen pool.Gen, depth, shardAt int, label string) {
	u := env.U
	visited := map[[16]byte]struct{}{}
	root := bnode{ref: pool.NewRef(u)}
	{
		im := env.NewImpl(true)
		d := im.Dump()
		root.dkey = d.Key()
		visited[pool.StateKey(d, root.ref)] = struct{}{}
		if c.Shard == 0 {
			c.State(1)
		}
	}
	frontier := []bnode{root}
	perDepth := map[string]int64{}
	defer func() {
		for k, v := range perDepth {
			c.Count(k, v)
		}
	}()
	samples := 0
	for lvl := 0; lvl < depth && len(frontier) > 0; lvl++ {
		counting := lvl >= shardAt || c.Shard == 0 // the unsharded preamble is counted once
		if lvl == shardAt && c.NShards > 1 {
			mine := frontier[:0:0]
			for i, n := range frontier {
				if c.Mine(int64(i)) {
					mine = append(mine, n)
				}
			}
			frontier = mine
		}
		var next []bnode
		for ni, nd := range frontier {
			if ni%64 == 0 && c.Expired() {
				c.Cap(fmt.Sprintf("time cap in %s inside BFS level %d (histories of length %d)", u.Name, lvl, lvl+1))
				return
			}
			for _, op := range nd.ref.Enabled(gen) {
				// fresh real pool + replay of the history + one more operation.  The
				// unsharded preamble uses the production container constructor.
				im := env.NewImpl(lvl < shardAt && lvl < 2)
				for _, h := range nd.hist {
					h.Apply(im)
				}
				if k := im.Dump().Key(); k != nd.dkey {
					c.Violation("C17:nondeterministic", "a-histories", fmt.Sprintf("replaying %s gave pool state %s, first run gave %s",
						pool.HistString(u, nd.hist), k, nd.dkey), kase{Universe: u.Name, Ops: nd.hist})
					continue
				}
				ref := nd.ref.Clone()
				npend := len(ref.Pending)
				obs, d, fs := stepChecked(im, ref, op, true)
				hist := append(append(make([]pool.Op, 0, len(nd.hist)+1), nd.hist...), op)
				nt := nd.nontriv || op.Kind == "mark" || (op.Kind == "pack" && len(obs.Batch) > 0)
				if counting {
					c.Eval(1)
					c.Transition(1)
					c.Trace(1)
					if nt {
						c.NontrivialN(1)
					}
					c.Outcome(outcome(op, obs, npend))
					perDepth[fmt.Sprintf("histories_len_%d%s", lvl+1, label)]++
				}
				if len(fs) > 0 {
					report(c, env, hist, fs, "a-histories", false)
					continue // do not build on a violating state
				}
				key := pool.StateKey(d, ref)
				if _, ok := visited[key]; ok {
					continue
				}
				visited[key] = struct{}{}
				if counting {
					c.State(1)
				}
				if samples < 2 && lvl == depth-1 && nt && len(ref.Blocks) > 0 && counting {
					samples++
					c.Sample(map[string]interface{}{"history": pool.HistString(u, hist), "pending": u.Names(ref.Pending), "blocks": len(ref.Blocks)})
				}
				if lvl+1 < depth {
					next = append(next, bnode{hist: hist, ref: ref, dkey: d.Key(), nontriv: nt})
				}
			}
		}
		frontier = next
	}
}

// ---------------------------------------------------------------------------------
// limit scenarios

func limitOps(n int, order string) []pool.Op {
	var ops []pool.Op
	for _, i := range addOrder(n, order) {
		ops = append(ops, pool.Op{Kind: "add", Tx: i})
	}
	ops = append(ops,
		pool.Op{Kind: "pack", K: 0}, pool.Op{Kind: "mark"}, // nil lists: block = the whole last batch
		pool.Op{Kind: "pack", K: 1}, pool.Op{Kind: "mark"},
		pool.Op{Kind: "pack", K: 1},
		pool.Op{Kind: "unmark"}, pool.Op{Kind: "pack", K: 1},
		pool.Op{Kind: "unmark"}, pool.Op{Kind: "pack", K: 0})
	return ops
}

func limits(c *fw.Ctx) {
	idx := int64(0)
	for _, shape := range limitShapes {
		for _, n := range limitSizes {
			for _, order := range limitOrders {
				idx++
				if !c.Mine(idx) {
					continue
				}
				if c.Expired() {
					c.Cap("time cap in the limit scenarios")
					return
				}
				u := limitUniverse(shape, n)
				u.Name += ":" + order
				env := pool.NewEnv(u)
				ops := limitOps(n, order)
				// run with the oracle; keep the first batch size as an outcome class
				im := env.NewImpl(true)
				ref := pool.NewRef(u)
				bad := false
				for i, op := range ops {
					if op.Kind == "mark" && op.Txs == nil {
						op.Txs = append([]int(nil), ref.LastBatch...)
					}
					obs, _, fs := stepChecked(im, ref, op, fullAt(ops, i, true))
					if op.Kind == "pack" {
						c.Outcome(fmt.Sprintf("limit:%s:batch=%d", shape, len(obs.Batch)))
						c.Count("limit_batches_checked", 1)
					}
					if len(fs) > 0 {
						report(c, env, ops[:i+1], fs, "a-limit", true)
						bad = true
						break
					}
				}
				_ = bad
				c.Eval(1)
				c.Trace(1)
				c.NontrivialN(1)
				c.Count("limit_scenarios", 1)
			}
		}
	}
}

// ---------------------------------------------------------------------------------

// pass is one BFS exploration: a universe, a fork configuration (block height) and a depth.
type pass struct {
	universe string // "quick" (6 transactions, 1 sender) | "thorough" (7 transactions, 2 senders, more pack states and evictions)
	height   uint64
	depth    int
}

func passes(tier string) []pass {
	if tier == "thorough" {
		return []pass{
			{"thorough", 20, 8},
			{"quick", 20, 10},
			{"quick", 11, 7}, // height 11: proposal 023 (same-nonce tie-break by hash) not yet active, 021 ordering
		}
	}
	return []pass{{"quick", 20, 8}}
}

func run(c *fw.Ctx) {
	if err := pool.Boot(); err != nil {
		panic(err)
	}
	t0 := time.Now()
	deferred = []func(){}
	limits(c)
	mixed(c)
	t1 := time.Now()
	var desc []string
	for pi, ps := range passes(c.Tier) {
		if v := os.Getenv("C17_DEPTH"); v != "" && pi == 0 { // calibration knob; the depth used is recorded in the evidence
			fmt.Sscan(v, &ps.depth)
		}
		pool.SetHeight(ps.height)
		u, gen, shardAt := bfsUniverse(ps.universe)
		if v := os.Getenv("C17_SHARDAT"); v != "" { // calibration knob: BFS level at which the frontier is split over the workers
			fmt.Sscan(v, &shardAt)
		}
		if ps.height != 20 {
			u.Name += fmt.Sprintf("@%d", ps.height)
		}
		env := pool.NewEnv(u)
		if err := env.VerifySigned(); err != nil {
			panic("harness: " + err.Error())
		}
		desc = append(desc, fmt.Sprintf("%s: %d transactions / %d hashes / %d senders, %d pack states, evicted subsets <= %d, height %d, depth %d",
			u.Name, u.N(), u.NH(), len(u.Senders), gen.NK, gen.MaxEvict, ps.height, ps.depth))
		label := ""
		if pi > 0 {
			label = "_" + strings.TrimPrefix(u.Name, "bfs:")
		}
		bfs(c, env, gen, ps.depth, shardAt, label)
	}
	pool.SetHeight(20)
	c.Note("bfs_passes", desc)
	for _, f := range deferred {
		f()
	}
	deferred = nil
	concPart(c, nil) // parts (b) and (c)
	if c.Shard == 0 {
		var ms runtime.MemStats
		runtime.ReadMemStats(&ms)
		c.Note("shard0_goroutines_at_end", runtime.NumGoroutine())
		c.Note("shard0_heap_mb", ms.HeapAlloc>>20)
		c.Note("shard0_limit_s", t1.Sub(t0).Seconds())
		c.Note("shard0_bfs_s", time.Since(t1).Seconds())
	}
}

func envFor(name string) (*pool.Env, bool) {
	p := strings.Split(name, ":")
	switch p[0] {
	case "bfs":
		tier := p[1]
		if i := strings.Index(tier, "@"); i > 0 {
			var h uint64
			fmt.Sscan(tier[i+1:], &h)
			pool.SetHeight(h)
			tier = tier[:i]
		}
		u, _, _ := bfsUniverse(tier)
		u.Name = name
		return pool.NewEnv(u), false
	case "edge":
		var e uint64
		fmt.Sscan(p[1], &e)
		pool.SetHeight(20)
		return pool.NewEnv(edgeUniverse(e)), false
	case "mixed":
		pool.SetHeight(20)
		return pool.NewEnv(mixedUniverse()), false
	case "limit":
		var n int
		fmt.Sscan(p[2], &n)
		u := limitUniverse(p[1], n)
		if len(p) > 3 {
			u.Name += ":" + p[3]
		}
		return pool.NewEnv(u), true
	}
	panic("unknown universe " + name)
}

func replay(c *fw.Ctx, raw json.RawMessage) {
	if err := pool.Boot(); err != nil {
		panic(err)
	}
	if replayConc(c, raw) {
		return
	}
	var k kase
	if err := json.Unmarshal(raw, &k); err != nil {
		panic(err)
	}
	env, expiry := envFor(k.Universe)
	if len(k.Alt) > 0 {
		replayDiff(c, env, k)
		return
	}
	at, fs := runHistory(env, k.Ops, expiry)
	fmt.Printf("replay: universe %s, history: %s\n", k.Universe, pool.HistString(env.U, k.Ops))
	seen := map[string]bool{}
	for _, f := range fs {
		if !seen[f.Sig] {
			seen[f.Sig] = true
			c.Violation(f.Sig, "replay", fmt.Sprintf("step %d: %s", at+1, f.Msg), k)
		}
	}
}

func main() {
	fw.Main(fw.Check{
		ID: "C17", Level: "model_checking",
		Rule: "part (a): every history of pool operations {AddTransaction(t), PackForCast(state k), MarkExecuted(block of the last packed batch minus an evicted subset | one-transaction block packed elsewhere), UnMarkExecuted(top block)} " +
			"over a closed universe of colliding transactions (same sender nonces n,n,n+1,n+2; one RequestId transaction; one second object with the hash of n+1), up to the depth bound, breadth-first with dedup on " +
			"(implementation dump, model state); each history is executed on a fresh real TxPool (replay + one op); after every op the return value, the pool dump and IsExisted/GetTransaction of every hash are compared with refpool. " +
			"A history is counted as non-trivial if it contains a MarkExecuted or a PackForCast that returned a non-empty batch; histories are distinct by construction. A packed batch stays available for MarkExecuted while other blocks are marked/unmarked, unless one of its transactions got executed meanwhile. " +
			"Part (b): 2- and 3-thread scenarios over colliding transactions (add vs mark of the same transaction, re-add vs mark, add vs add, pack vs mark, unmark vs add, unmark vs pack, mark-with-eviction vs add, add+pack+mark) run on the real pool under a cooperative scheduler with a scheduling point before every statement of transaction_pool.go / simple_container.go: every interleaving with at most 2 (quick) / 3 (thorough) preemptions; the results and the final pool dump must be explained by some sequential order on refpool (a duplicate submission of a still-pending transaction may return either answer). Part (c): the same thread bodies free-running under the race detector. " +
			"Part a-mixed: every subset of <= 5 (quick) / <= 7 (thorough) of 9 transactions mixing one JSON-RPC sender (nonces stale, expected, repeat of expected, expected+1) with gate transactions (RequestId != 0) of senders numerically below, at and above it, request ids in both relative orders, in every insertion order, then PackForCast against two states: the batch oracle of the statement, plus a differential (the batch of a pending set must not depend on its insertion order; holds on HEAD because the batch order is total for distinct request ids). " +
			"Part a-edge: the same enumeration (sets of <= 3 / <= 4, every insertion order, two pack states) over one sender's nonces at the uint64 boundaries (expected, +1, +2^63-1, +2^63, +2^63+7, MaxUint64-1, MaxUint64) for state nonces 0, 5 and 2^63. " +
			"Plus 60 scenarios of 199..250 transactions around the per-block limit of 200 (5 shapes x 4 sizes x 3 insertion orders: add all, pack, block, pack, block, pack, unmark, pack, unmark, pack).",
		Assumptions: []string{
			"node fixture: dev genesis, block height 20 = every proposal of the dev table active except the unreachable 025 (checkNonce on, proposal-023 batch ordering); thorough repeats a depth-7 exploration at height 11 (023 off, 021 ordering); accept-all consensus stub (not on the path)",
			"AddTransaction does not verify signatures itself (VerifyTransaction is a separate call of the submitting layer); the universe's transactions are honestly signed with harness keys and pass VerifyTransaction",
			"executed records live in a harness-owned db.MemDatabase per pool instead of the LevelDB store \"tx\"",
			"pending container of the deep BFS levels is built by the verif hook with the fields of newSimpleContainer but without its one-minute expiry goroutine (the expiry ticker never fires inside a history); the first two levels and the limit scenarios use newSimpleContainer itself",
			"pool debug logger silenced (VerifSetTxPoolLogger)",
			"blocks handed to MarkExecuted/UnMarkExecuted are shaped as the block executor shapes them with all forks on: evicted transactions carry no receipt and are not in block.Transactions",
		},
		Run: run, Replay: replay,
		Budget: func(tier string) time.Duration {
			if tier == "thorough" {
				return 17 * time.Minute
			}
			return 70 * time.Second
		},
	})
}
