// C14: BLS verification accepts exactly the one valid signature; encodings faithful.
//
// Bounded exhaustive enumeration (E4).  For every (secret key, message) context of a fixed
// list the check presents to the repository's own parse+verify entry points
//   - every member of a structured list of signature byte strings (honest, truncations,
//     trailing bytes, negation, sums with other valid signatures, identity, coordinates >= p,
//     signatures for other messages / keys, endomorphism images, off-curve points),
//   - every single-bit flip (thorough: every double-bit flip and every single-byte
//     replacement) of the honest signature,
//   - the analogous lists for the 128-byte public key (plus points of the twist outside the
//     order-n subgroup), each combined with the honest and with the identity signature,
//
// through every parse path the node has (DeserializeSign / Signature.Deserialize /
// SetHexString; Pubkey.Deserialize / ByteToPublicKey / SetHexString / UnmarshalJSON).
// Oracle (BLS signatures are unique): accepted <=> the presented public-key bytes and the
// presented signature bytes are both byte-identical to the honest serialisations.
// Structurally related messages (zero padding / stripping, 32-byte windows, end-bit flips) are
// checked in both processing orders (related.go).
// Further parts: serialise/parse round trips of Seckey / ID / Pubkey / Signature, and
// bilinearity + non-degeneracy of the pairing over a small exponent set.
package main

import (
	"bytes"
	"crypto/sha256"
	"encoding/hex"
	"encoding/json"
	"fmt"
	"math/big"
	"time"

	"verif/h/fw"

	"com.tuntun.rangers/node/src/consensus/base"
	"com.tuntun.rangers/node/src/consensus/groupsig"
	bn "com.tuntun.rangers/node/src/consensus/groupsig/bn256"
)

type kase struct {
	Kind string `json:"kind"` // verify | rt | pair | rel | seq | longkey
	// verify
	Sk      string `json:"sk,omitempty"`  // secret key, hex big-endian
	Msg     string `json:"msg,omitempty"` // message, hex
	Pk      string `json:"pk,omitempty"`  // presented public-key bytes, hex
	PkPath  string `json:"pk_path,omitempty"`
	Sig     string `json:"sig,omitempty"` // presented signature bytes, hex
	SigPath string `json:"sig_path,omitempty"`
	Class   string `json:"class,omitempty"`
	// MustReject: the presented bytes were made for another message / key or are an algebraic relative
	// that differs from the honest group element, so they must be rejected whatever their encoding is.
	MustReject bool `json:"must_reject,omitempty"`
	// rel: a structurally related message and the order in which the two messages are processed
	Rel   string `json:"rel,omitempty"`
	Order string `json:"order,omitempty"`
	// rt
	Type string `json:"type,omitempty"` // seckey | id | pubkey | sig
	Ctor string `json:"ctor,omitempty"`
	Val  string `json:"val,omitempty"` // hex
	// pair
	A  string `json:"a,omitempty"`
	B  string `json:"b,omitempty"`
	PI int    `json:"pi,omitempty"`
	QI int    `json:"qi,omitempty"`
	RI int    `json:"ri,omitempty"` // seq: third pool index of a triple, -1 for a pair
}

func hx(b []byte) string { return hex.EncodeToString(b) }
func unhx(s string) []byte {
	b, err := hex.DecodeString(s)
	if err != nil {
		panic(err)
	}
	return b
}

// ---------------------------------------------------------------------------------------
// parse + verify through the repository's entry points

var sigPaths = []string{"dsign", "deser", "hex"}
var pkPaths = []string{"deser", "bytes", "hex", "json"}

func parsePk(path string, b []byte) (pk groupsig.Pubkey, ok bool) {
	switch path {
	case "deser": // Pubkey.Deserialize, callers check the error (consensus/net/msg_decode.go)
		if err := pk.Deserialize(b); err != nil {
			return pk, false
		}
	case "bytes": // groupsig.ByteToPublicKey (group / miner public keys in consensus)
		pk = groupsig.ByteToPublicKey(b)
	case "hex": // Pubkey.SetHexString (genesis, rpc)
		if err := pk.SetHexString("0x" + hx(b)); err != nil {
			return pk, false
		}
	case "json":
		if err := pk.UnmarshalJSON([]byte("\"0x" + hx(b) + "\"")); err != nil {
			return pk, false
		}
	default:
		panic("pk path " + path)
	}
	return pk, true
}

func parseSig(path string, b []byte) (sig groupsig.Signature, ok bool) {
	switch path {
	case "dsign": // groupsig.DeserializeSign (block header signature / random, group signatures)
		sig = *groupsig.DeserializeSign(b)
	case "deser": // Signature.Deserialize, callers check the error
		if err := sig.Deserialize(b); err != nil {
			return sig, false
		}
	case "hex":
		if err := sig.SetHexString("0x" + hx(b)); err != nil {
			return sig, false
		}
	default:
		panic("sig path " + path)
	}
	return sig, true
}

// present returns whether the node accepts (pk bytes, msg, sig bytes) and at which stage it said no.
func present(msg, pkb []byte, pkPath string, sgb []byte, sigPath string) (bool, string) {
	pk, ok := parsePk(pkPath, pkb)
	if !ok {
		return false, "parse-pk"
	}
	sig, ok := parseSig(sigPath, sgb)
	if !ok {
		return false, "parse-sig"
	}
	if groupsig.VerifySig(pk, msg, sig) {
		return true, "accept"
	}
	return false, "verify"
}

func seckeyOf(v *big.Int) groupsig.Seckey {
	return *groupsig.NewSeckeyFromBigInt(new(big.Int).Set(v))
}

func honest(sk *big.Int, msg []byte) (pkb, sgb []byte) {
	sec := seckeyOf(sk)
	return groupsig.GeneratePubkey(sec).Serialize(), signBytes(sk, msg)
}

func signBytes(sk *big.Int, msg []byte) []byte {
	s := groupsig.Sign(seckeyOf(sk), msg)
	return s.Serialize()
}

// checkVerify runs one presented case against the uniqueness oracle.
func checkVerify(c *fw.Ctx, k kase, hpk, hsg []byte) {
	c.Eval(1)
	msg, pkb, sgb := unhx(k.Msg), unhx(k.Pk), unhx(k.Sig)
	want := bytes.Equal(pkb, hpk) && bytes.Equal(sgb, hsg) && !k.MustReject
	type obs struct {
		acc   bool
		stage string
		pan   bool
		site  string
		val   string
	}
	once := func() obs {
		var o obs
		p, v, site := fw.Try(func() { o.acc, o.stage = present(msg, pkb, k.PkPath, sgb, k.SigPath) })
		if p {
			o = obs{pan: true, site: site, val: fmt.Sprint(v)}
		}
		return o
	}
	o := once()
	if o.pan {
		c.Outcome("panic:" + k.Class)
	} else {
		c.Outcome(k.Class + ":" + o.stage)
	}
	if !o.pan && o.acc == want {
		return
	}
	if o2 := once(); o2 != o {
		c.Violation("C14:unstable:"+k.Class, "verify", fmt.Sprintf("two runs of the same input differ: %+v vs %+v", o, o2), k)
		return
	}
	switch {
	case o.pan:
		c.Violation("C14:panic:"+o.site, "verify", fmt.Sprintf("panic %s class=%s pkpath=%s sigpath=%s", o.val, k.Class, k.PkPath, k.SigPath), k)
	case o.acc:
		c.Violation("C14:accept:"+k.Class, "verify",
			fmt.Sprintf("VerifySig accepted a presentation that is not the honest one: class=%s pk(%s,%dB,honest-bytes=%v) sig(%s,%dB,honest-bytes=%v) made-for-other-message-or-key=%v",
				k.Class, k.PkPath, len(pkb), bytes.Equal(pkb, hpk), k.SigPath, len(sgb), bytes.Equal(sgb, hsg), k.MustReject), k)
	default:
		c.Violation("C14:reject:honest", "verify",
			fmt.Sprintf("honest signature rejected at stage %s (pkpath=%s sigpath=%s)", o.stage, k.PkPath, k.SigPath), k)
	}
}

// ---------------------------------------------------------------------------------------
// mutant lists

type mutant struct {
	class      string
	b          []byte
	mustReject bool
}

type mlist struct {
	honest []byte
	d      int // flips up to d bits are enumerated separately
	seen   map[string]bool
	out    []mutant
}

func newList(honest []byte, d int) *mlist {
	l := &mlist{honest: honest, d: d, seen: map[string]bool{}}
	l.add("honest", honest)
	return l
}

func (l *mlist) add(class string, b []byte) {
	if b == nil {
		return
	}
	if l.seen[string(b)] {
		return
	}
	if len(b) == len(l.honest) && class != "honest" {
		if h := hamming(b, l.honest); h <= l.d {
			return // equal to the honest bytes or covered by the flip enumeration
		}
	}
	l.seen[string(b)] = true
	l.out = append(l.out, mutant{class, clone(b), false})
}

// addR adds bytes that denote a group element different from the honest one (another message, another key,
// negation, sums): they must be rejected even if a defect made their encoding coincide with the honest bytes.
func (l *mlist) addR(class string, b []byte) {
	if bytes.Equal(b, l.honest) {
		l.out = append(l.out, mutant{class, clone(b), true})
		return
	}
	n := len(l.out)
	l.add(class, b)
	if len(l.out) > n {
		l.out[n].mustReject = true
	}
}

var suffixes = [][]byte{{0x00}, {0x01}, {0xff}, {0x00, 0x00}, {0x00, 0x01}, {0xff, 0xff}, {0xab, 0xcd}}

func otherMessages(m []byte) [][]byte {
	var out [][]byte
	if len(m) == 0 {
		return [][]byte{{0x00}, []byte("a")}
	}
	a := clone(m)
	a[len(a)-1] ^= 0x01
	out = append(out, a)
	b := clone(m)
	b[0] ^= 0x80
	out = append(out, b)
	out = append(out, cat(m, []byte{0x00}))
	out = append(out, clone(m[:len(m)-1]))
	if len(m) > 1 {
		out = append(out, []byte{})
	}
	return out
}

// g1For / g2For rebuild sk*H(msg) and sk*G2 through the exported bn256 API (exactly what Sign and
// GeneratePubkey do), so that algebraic relatives can be formed without going through the parsers under test.
func g1For(sk *big.Int, msg []byte) *bn.G1 {
	h := new(bn.G1)
	h.HashToPoint(msg)
	return new(bn.G1).ScalarMult(h, new(big.Int).Mod(sk, bigOrder))
}

func g2For(sk *big.Int) *bn.G2 {
	return new(bn.G2).ScalarBaseMult(new(big.Int).Mod(sk, bigOrder))
}

type env struct {
	keys  []*big.Int
	msgs  [][]byte
	roots []*big.Int
	R, T  *bn.G2
	d     int
}

func sigMutants(e *env, sk *big.Int, msg []byte, hsg []byte) []mutant {
	l := newList(hsg, e.d)
	x, y := hsg[:32], hsg[32:]
	for _, s := range suffixes {
		l.add("overlong-signature", cat(hsg, s))
	}
	l.add("overlong-signature", cat(hsg, hsg))
	for n := 0; n < len(hsg); n++ {
		l.add("truncated-signature", hsg[:n])
	}
	for _, n := range []int{63, 64, 65, 128} {
		l.add("identity-signature", make([]byte, n))
	}
	sg := g1For(sk, msg)
	if !bytes.Equal(sg.Marshal(), hsg) {
		panic("harness: sk*H(msg) built through bn256 differs from Sign(sk,msg).Serialize()")
	}
	l.addR("negated-signature", new(bn.G1).Neg(sg).Marshal())
	l.addR("doubled-signature", new(bn.G1).Add(sg, sg).Marshal())
	oms := otherMessages(msg)
	var oks []*big.Int
	for _, k := range e.keys {
		if k.Cmp(sk) != 0 {
			oks = append(oks, k)
		}
	}
	for _, om := range oms {
		l.addR("other-message-signature", signBytes(sk, om))
	}
	for _, ok := range oks {
		l.addR("other-key-signature", signBytes(ok, msg))
	}
	s1 := g1For(sk, oms[0])
	s2 := g1For(oks[0], msg)
	l.addR("sum-other-message-signature", new(bn.G1).Add(sg, s1).Marshal())
	l.addR("sum-other-key-signature", new(bn.G1).Add(sg, s2).Marshal())
	l.addR("difference-other-key-signature", new(bn.G1).Add(sg, new(bn.G1).Neg(s2)).Marshal())
	xp, yp := plusP(x), plusP(y)
	if xp != nil {
		l.add("noncanonical-coordinate-signature", cat(xp, y))
	}
	if yp != nil {
		l.add("noncanonical-coordinate-signature", cat(x, yp))
	}
	if xp != nil && yp != nil {
		l.add("noncanonical-coordinate-signature", cat(xp, yp))
	}
	xv, yv := new(big.Int).SetBytes(x), new(big.Int).SetBytes(y)
	for _, r := range e.roots {
		l.add("endomorphism-signature", cat(be32(modP(new(big.Int).Mul(xv, r))), y))
	}
	l.add("offcurve-signature", cat(y, x))
	l.add("offcurve-signature", cat(x, be32(modP(new(big.Int).Add(yv, bi(1))))))
	l.add("offcurve-signature", cat(be32(modP(new(big.Int).Add(xv, bi(1)))), y))
	l.add("offcurve-signature", bytes.Repeat([]byte{0xff}, 64))
	l.add("generator-signature", new(bn.G1).ScalarBaseMult(bi(1)).Marshal())
	return l.out
}

func pkMutants(e *env, sk *big.Int, hpk []byte) []mutant {
	l := newList(hpk, e.d)
	for _, s := range suffixes {
		l.add("overlong-pubkey", cat(hpk, s))
	}
	l.add("overlong-pubkey", cat(hpk, hpk))
	for n := 0; n < len(hpk); n++ {
		l.add("truncated-pubkey", hpk[:n])
	}
	for _, n := range []int{1, 64, 127, 128, 129, 256} {
		l.add("identity-pubkey", make([]byte, n))
	}
	pg := g2For(sk)
	if !bytes.Equal(pg.Marshal(), hpk) {
		panic("harness: sk*G2 built through bn256 differs from GeneratePubkey(sk).Serialize()")
	}
	l.addR("negated-pubkey", new(bn.G2).Neg(pg).Marshal())
	l.addR("doubled-pubkey", new(bn.G2).Add(pg, pg).Marshal())
	first := true
	for _, k := range e.keys {
		if k.Cmp(sk) == 0 {
			continue
		}
		ob := groupsig.GeneratePubkey(seckeyOf(k)).Serialize()
		l.addR("other-key-pubkey", ob)
		if first {
			first = false
			og := g2For(k)
			l.addR("sum-other-key-pubkey", new(bn.G2).Add(pg, og).Marshal())
			l.addR("difference-other-key-pubkey", new(bn.G2).Add(pg, new(bn.G2).Neg(og)).Marshal())
		}
	}
	co := [][]byte{hpk[0:32], hpk[32:64], hpk[64:96], hpk[96:128]}
	all := [][]byte{co[0], co[1], co[2], co[3]}
	for i := range co {
		if cp := plusP(co[i]); cp != nil {
			parts := [][]byte{co[0], co[1], co[2], co[3]}
			parts[i] = cp
			all[i] = cp
			l.add("noncanonical-coordinate-pubkey", cat(parts...))
		}
	}
	l.add("noncanonical-coordinate-pubkey", cat(all...))
	v := make([]*big.Int, 4)
	for i := range co {
		v[i] = new(big.Int).SetBytes(co[i])
	}
	neg := func(x *big.Int) []byte { return be32(modP(new(big.Int).Neg(x))) }
	l.add("offtwist-pubkey", cat(co[0], co[1], co[2], be32(modP(new(big.Int).Add(v[3], bi(1))))))
	l.add("offtwist-pubkey", cat(co[0], be32(modP(new(big.Int).Add(v[1], bi(1)))), co[2], co[3]))
	l.add("offtwist-pubkey", cat(neg(v[0]), co[1], neg(v[2]), co[3])) // coordinate-wise conjugate
	l.add("offtwist-pubkey", cat(co[1], co[0], co[3], co[2]))
	l.add("offtwist-pubkey", cat(co[2], co[3], co[0], co[1]))
	l.add("offtwist-pubkey", bytes.Repeat([]byte{0xff}, 128))
	for _, r := range e.roots {
		l.add("endomorphism-pubkey", cat(be32(modP(new(big.Int).Mul(v[0], r))), be32(modP(new(big.Int).Mul(v[1], r))), co[2], co[3]))
	}
	if e.T != nil {
		l.add("nonsubgroup-pubkey", e.R.Marshal())
		l.add("nonsubgroup-pubkey", e.T.Marshal())
		l.add("nonsubgroup-pubkey", new(bn.G2).Add(pg, e.T).Marshal())
		l.add("nonsubgroup-pubkey", new(bn.G2).Add(pg, new(bn.G2).Neg(e.T)).Marshal())
	}
	return l.out
}

// ---------------------------------------------------------------------------------------
// round trips

func rtFail(c *fw.Ctx, k kase, what, msg string) {
	c.Violation("C14:roundtrip:"+k.Type+":"+what, "roundtrip", fmt.Sprintf("%s ctor=%s val=%s: %s", k.Type, k.Ctor, k.Val, msg), k)
}

func checkRT(c *fw.Ctx, k kase) {
	c.Eval(1)
	p, v, site := fw.Try(func() { doRT(c, k) })
	if p {
		c.Violation("C14:panic:"+site, "roundtrip", fmt.Sprintf("panic %v in round trip %s/%s val=%s", v, k.Type, k.Ctor, k.Val), k)
	}
}

func doRT(c *fw.Ctx, k kase) {
	raw := unhx(k.Val)
	val := new(big.Int).SetBytes(raw)
	switch k.Type {
	case "seckey":
		var s groupsig.Seckey
		switch k.Ctor {
		case "bigint":
			s = seckeyOf(val)
		case "bytes":
			if err := s.Deserialize(raw); err != nil {
				return // not a value of the type
			}
		case "rand":
			s = *groupsig.NewSeckeyFromRand(base.RandFromBytes(raw))
		case "hexstr":
			if err := s.SetHexString("0x" + k.Val); err != nil {
				return
			}
		}
		b := s.Serialize()
		var t groupsig.Seckey
		if err := t.Deserialize(b); err != nil {
			rtFail(c, k, "bytes", "Deserialize(Serialize(x)) error "+err.Error())
		} else if !t.IsEqual(s) || !s.IsEqual(t) || t.GetBigInt().Cmp(s.GetBigInt()) != 0 || !bytes.Equal(t.Serialize(), b) {
			rtFail(c, k, "bytes", fmt.Sprintf("x=%s serialised %x parsed back as %s", s.GetBigInt(), b, t.GetBigInt()))
		}
		h := s.GetHexString()
		var u groupsig.Seckey
		if err := u.SetHexString(h); err != nil {
			rtFail(c, k, "hex", "SetHexString(GetHexString(x)) error "+err.Error())
		} else if !u.IsEqual(s) || u.GetBigInt().Cmp(s.GetBigInt()) != 0 || u.GetHexString() != h {
			rtFail(c, k, "hex", fmt.Sprintf("x=%s hex %s parsed back as %s", s.GetBigInt(), h, u.GetBigInt()))
		}
		c.Outcome("rt:seckey:" + k.Ctor)
	case "id":
		var id groupsig.ID
		switch k.Ctor {
		case "bigint":
			id.SetBigInt(val)
		case "bytes":
			id = groupsig.DeserializeID(raw)
		case "pubkey":
			id = *groupsig.NewIDFromPubkey(*groupsig.GeneratePubkey(seckeyOf(val)))
		case "hexstr":
			if err := id.SetHexString("0x" + k.Val); err != nil {
				return
			}
		}
		b := id.Serialize()
		t := groupsig.DeserializeID(b)
		if !t.IsEqual(id) || !id.IsEqual(t) || t.GetBigInt().Cmp(id.GetBigInt()) != 0 || !bytes.Equal(t.Serialize(), b) {
			rtFail(c, k, "bytes", fmt.Sprintf("x=%s serialised %x parsed back as %s", id.GetBigInt(), b, t.GetBigInt()))
		}
		var t2 groupsig.ID
		if err := t2.Deserialize(b); err != nil || !t2.IsEqual(id) {
			rtFail(c, k, "bytes", fmt.Sprintf("ID.Deserialize(Serialize(x)) err=%v value %s want %s", err, t2.GetBigInt(), id.GetBigInt()))
		}
		h := id.GetHexString()
		var u groupsig.ID
		if err := u.SetHexString(h); err != nil {
			rtFail(c, k, "hex", "SetHexString(GetHexString(x)) error "+err.Error())
		} else if !u.IsEqual(id) || u.GetHexString() != h {
			rtFail(c, k, "hex", fmt.Sprintf("x=%s hex %s parsed back as %s", id.GetBigInt(), h, u.GetBigInt()))
		}
		j, err := id.MarshalJSON()
		var w groupsig.ID
		if err != nil {
			rtFail(c, k, "json", "MarshalJSON error "+err.Error())
		} else if err := w.UnmarshalJSON(j); err != nil {
			rtFail(c, k, "json", "UnmarshalJSON(MarshalJSON(x)) error "+err.Error())
		} else if !w.IsEqual(id) {
			rtFail(c, k, "json", fmt.Sprintf("x=%s json %s parsed back as %s", id.GetBigInt(), j, w.GetBigInt()))
		}
		c.Outcome("rt:id:" + k.Ctor)
	case "pubkey":
		if new(big.Int).Mod(val, bigOrder).Sign() == 0 {
			c.Outcome("rt:pubkey:skipped-zero-key")
			return // sk = 0 is not a valid key (Seckey.IsValid false); its "public key" is not demanded to round-trip
		}
		var pk groupsig.Pubkey
		switch k.Ctor {
		case "seckey":
			pk = *groupsig.GeneratePubkey(seckeyOf(val))
		case "aggregate":
			a := *groupsig.GeneratePubkey(seckeyOf(val))
			b := *groupsig.GeneratePubkey(seckeyOf(new(big.Int).Add(val, bi(1))))
			if new(big.Int).Mod(new(big.Int).Add(new(big.Int).Lsh(val, 1), bi(1)), bigOrder).Sign() == 0 {
				return
			}
			pk = *groupsig.AggregatePubkeys([]groupsig.Pubkey{a, b})
		}
		b := pk.Serialize()
		for i := 0; i < 128 && len(b) == 128; i += 32 {
			if b[i] == 0 {
				c.Count("rt_pubkey_with_leading_zero_coordinate", 1)
				break
			}
		}
		var t groupsig.Pubkey
		if err := t.Deserialize(b); err != nil {
			rtFail(c, k, "bytes", "Deserialize(Serialize(x)) error "+err.Error())
		} else if !t.IsEqual(pk) || !pk.IsEqual(t) || !bytes.Equal(t.Serialize(), b) {
			rtFail(c, k, "bytes", fmt.Sprintf("serialised %x parsed back as %x", b, t.Serialize()))
		}
		t3 := groupsig.ByteToPublicKey(b)
		if !t3.IsValid() || !t3.IsEqual(pk) {
			rtFail(c, k, "bytes", fmt.Sprintf("ByteToPublicKey(Serialize(x)) valid=%v differs from x=%x", t3.IsValid(), b))
		}
		h := pk.GetHexString()
		var u groupsig.Pubkey
		if err := u.SetHexString(h); err != nil {
			rtFail(c, k, "hex", "SetHexString(GetHexString(x)) error "+err.Error())
		} else if !u.IsValid() || !u.IsEqual(pk) || u.GetHexString() != h {
			rtFail(c, k, "hex", fmt.Sprintf("hex %s parsed back as %s", h, u.GetHexString()))
		}
		j, err := pk.MarshalJSON()
		var w groupsig.Pubkey
		if err != nil {
			rtFail(c, k, "json", "MarshalJSON error "+err.Error())
		} else if err := w.UnmarshalJSON(j); err != nil {
			rtFail(c, k, "json", "UnmarshalJSON(MarshalJSON(x)) error "+err.Error())
		} else if !w.IsValid() || !w.IsEqual(pk) {
			rtFail(c, k, "json", fmt.Sprintf("json %s parsed back as %s", j, w.GetHexString()))
		}
		c.Outcome("rt:pubkey:" + k.Ctor)
	case "sig":
		if new(big.Int).Mod(val, bigOrder).Sign() == 0 {
			c.Outcome("rt:sig:skipped-zero-key")
			return
		}
		sig := groupsig.Sign(seckeyOf(val), unhx(k.Msg))
		b := sig.Serialize()
		if len(b) == 64 && (b[0] == 0 || b[32] == 0) {
			c.Count("rt_signature_with_leading_zero_coordinate", 1)
		}
		t := groupsig.DeserializeSign(b)
		if t.IsNil() || !t.IsValid() || !t.IsEqual(sig) || !sig.IsEqual(*t) || !bytes.Equal(t.Serialize(), b) {
			rtFail(c, k, "bytes", fmt.Sprintf("serialised %x parsed back as %x", b, t.Serialize()))
		}
		var t2 groupsig.Signature
		if err := t2.Deserialize(b); err != nil {
			rtFail(c, k, "bytes", "Deserialize(Serialize(x)) error "+err.Error())
		} else if !t2.IsEqual(sig) {
			rtFail(c, k, "bytes", fmt.Sprintf("serialised %x parsed back as %x", b, t2.Serialize()))
		}
		h := sig.GetHexString()
		var u groupsig.Signature
		if err := u.SetHexString(h); err != nil {
			rtFail(c, k, "hex", "SetHexString(GetHexString(x)) error "+err.Error())
		} else if u.IsNil() || !u.IsEqual(sig) || u.GetHexString() != h {
			rtFail(c, k, "hex", fmt.Sprintf("hex %s parsed back as %s", h, u.GetHexString()))
		}
		c.Outcome("rt:sig:sign")
	default:
		panic("rt type " + k.Type)
	}
}

// ---------------------------------------------------------------------------------------
// pairing

func gtOneBytes() []byte {
	b := make([]byte, 12*32)
	b[len(b)-1] = 1
	return b
}

func pairPoints(e *env) ([]*bn.G1, []*bn.G2) {
	p0 := new(bn.G1).ScalarBaseMult(bi(1))
	p1 := new(bn.G1)
	if err := p1.HashToPoint(e.msgs[0]); err != nil {
		panic("harness: HashToPoint failed: " + err.Error())
	}
	q0 := bn.GetG2Base()
	q1 := new(bn.G2).ScalarBaseMult(e.keys[3])
	return []*bn.G1{p0, p1}, []*bn.G2{q0, q1}
}

func checkPair(c *fw.Ctx, e *env, k kase) {
	c.Eval(1)
	p, v, site := fw.Try(func() { doPair(c, e, k) })
	if p {
		c.Violation("C14:panic:"+site, "pairing", fmt.Sprintf("panic %v in pairing case %+v", v, k), k)
	}
}

func doPair(c *fw.Ctx, e *env, k kase) {
	ps, qs := pairPoints(e)
	P, Q := ps[k.PI], qs[k.QI]
	one := gtOneBytes()
	switch k.Class {
	case "scalar", "scalar-add":
		doScalar(c, e, k)
	case "bilinear":
		a, _ := new(big.Int).SetString(k.A, 10)
		b, _ := new(big.Int).SetString(k.B, 10)
		ab := new(big.Int).Mul(a, b)
		abr := new(big.Int).Mod(ab, bigOrder)
		base := bn.Pair(P, Q)
		want := new(bn.GT).ScalarMult(base, abr).Marshal()
		lhs := bn.Pair(new(bn.G1).ScalarMult(P, a), new(bn.G2).ScalarMult(Q, b)).Marshal()
		if !bytes.Equal(lhs, want) {
			c.Violation("C14:pairing:bilinear", "pairing", fmt.Sprintf("e(aP,bQ) != e(P,Q)^(ab) for a=%s b=%s P#%d Q#%d", k.A, k.B, k.PI, k.QI), k)
			return
		}
		l2 := bn.Pair(new(bn.G1).ScalarMult(P, abr), Q).Marshal()
		l3 := bn.Pair(P, new(bn.G2).ScalarMult(Q, abr)).Marshal()
		if !bytes.Equal(l2, want) || !bytes.Equal(l3, want) {
			c.Violation("C14:pairing:bilinear", "pairing", fmt.Sprintf("e(abP,Q) / e(P,abQ) != e(P,Q)^(ab) for a=%s b=%s P#%d Q#%d", k.A, k.B, k.PI, k.QI), k)
			return
		}
		if abr.Sign() == 0 {
			if !bytes.Equal(lhs, one) {
				c.Violation("C14:pairing:bilinear", "pairing", fmt.Sprintf("e(aP,bQ) != 1 although ab = 0 mod n (a=%s b=%s)", k.A, k.B), k)
			}
			c.Outcome("pair:one")
		} else {
			if bytes.Equal(lhs, one) {
				c.Violation("C14:pairing:degenerate", "pairing", fmt.Sprintf("e(aP,bQ) == 1 although ab != 0 mod n (a=%s b=%s)", k.A, k.B), k)
			}
			c.Outcome("pair:non-one")
		}
	case "additive":
		P2, Q2 := ps[1-k.PI], qs[1-k.QI]
		l := bn.Pair(new(bn.G1).Add(P, P2), Q).Marshal()
		r := new(bn.GT).Add(bn.Pair(P, Q), bn.Pair(P2, Q)).Marshal()
		if !bytes.Equal(l, r) {
			c.Violation("C14:pairing:bilinear", "pairing", "e(P+P',Q) != e(P,Q)*e(P',Q)", k)
		}
		l = bn.Pair(P, new(bn.G2).Add(Q, Q2)).Marshal()
		r = new(bn.GT).Add(bn.Pair(P, Q), bn.Pair(P, Q2)).Marshal()
		if !bytes.Equal(l, r) {
			c.Violation("C14:pairing:bilinear", "pairing", "e(P,Q+Q') != e(P,Q)*e(P,Q')", k)
		}
		c.Outcome("pair:additive")
	case "nondegenerate":
		base := bn.Pair(P, Q)
		if bytes.Equal(base.Marshal(), one) {
			c.Violation("C14:pairing:degenerate", "pairing", fmt.Sprintf("e(P#%d,Q#%d) == 1", k.PI, k.QI), k)
		}
		if !bytes.Equal(new(bn.GT).ScalarMult(base, bigOrder).Marshal(), one) {
			c.Violation("C14:pairing:order", "pairing", fmt.Sprintf("e(P#%d,Q#%d)^n != 1", k.PI, k.QI), k)
		}
		if !bytes.Equal(new(bn.GT).ScalarMult(base, bi(0)).Marshal(), one) {
			c.Violation("C14:pairing:order", "pairing", "e(P,Q)^0 != 1", k)
		}
		c.Outcome("pair:nondegenerate")
	default:
		panic("pair class " + k.Class)
	}
}

// ---------------------------------------------------------------------------------------
// enumeration

func fixedKey(i int) *big.Int {
	h := sha256.Sum256([]byte(fmt.Sprintf("C14-key-%d", i)))
	v := new(big.Int).SetBytes(h[:])
	v.Mod(v, bigOrder)
	if v.Sign() == 0 {
		v.SetInt64(7)
	}
	return v
}

func newEnv(thorough bool) *env {
	e := &env{d: 1}
	nm1 := new(big.Int).Sub(bigOrder, bi(1))
	e.keys = []*big.Int{bi(1), bi(2), nm1, fixedKey(1), fixedKey(2), fixedKey(3)}
	m1 := sha256.Sum256([]byte("C14-msg-1"))
	e.msgs = [][]byte{m1[:], []byte("a")}
	if thorough {
		e.d = 2
		for i := 4; i <= 8; i++ {
			e.keys = append(e.keys, fixedKey(i))
		}
		e.keys = append(e.keys, new(big.Int).Sub(bigOrder, bi(2)))
		long := bytes.Repeat([]byte("C14 long message "), 6)
		e.msgs = append(e.msgs, []byte{}, long[:97])
	}
	e.roots = cubeRoots()
	if r, t, ok := offSubgroup(); ok {
		e.R, e.T = r, t
	}
	return e
}

func rtValues() []*big.Int {
	seen := map[string]bool{}
	var out []*big.Int
	lim := new(big.Int).Lsh(bi(1), 256)
	add := func(v *big.Int) {
		if v.Sign() < 0 || v.Cmp(lim) >= 0 || seen[v.String()] {
			return
		}
		seen[v.String()] = true
		out = append(out, new(big.Int).Set(v))
	}
	for k := uint(0); k <= 256; k++ {
		b := new(big.Int).Lsh(bi(1), k)
		for d := int64(-1); d <= 1; d++ {
			add(new(big.Int).Add(b, bi(d)))
		}
	}
	for _, b := range []*big.Int{bigOrder, bigP} {
		for d := int64(-2); d <= 2; d++ {
			add(new(big.Int).Add(b, bi(d)))
		}
	}
	for i := 1; i <= 8; i++ {
		add(fixedKey(i))
	}
	for i := int64(0); i <= 400; i++ {
		add(bi(i))
	}
	return out
}

func run(c *fw.Ctx) {
	c.ConcPart() // schedule companion (checks/c14/conc): a separate process, so nothing is hashed in this one yet
	e := newEnv(c.Thorough())
	var idx, done int64
	// the running case number is skewed by idx/16 + idx/256 (still a partition of the cases over the
	// workers) so that inner loops of period 4 / 8 / 16 do not put all pairing-heavy cases on the same workers
	mine := func() bool { idx++; return c.Mine(idx + idx/16 + idx/256) }
	stop := false
	executed := func() bool { // call after every executed case
		done++
		if c.Expired() {
			stop = true
		}
		return stop
	}
	finish := func(where string) {
		if stop {
			c.Cap("time budget reached in " + where)
		}
		c.NontrivialN(done)
	}
	if e.T == nil {
		c.Note("nonsubgroup_points", "construction failed; class not exercised")
	}
	c.Note("keys", len(e.keys))
	c.Note("messages", len(e.msgs))
	c.Note("flip_depth_bits", e.d)
	c.Note("not_demanded", "round trip of the G2 identity (public key of the invalid secret key 0: Marshal gives 1 byte which Unmarshal rejects); IDs longer than 32 bytes (Serialize panics by design); malformed hex *strings*")
	c.Note("outside_bound", "group elements other than the listed algebraic relatives of the honest signature / key (soundness there is the co-CDH assumption); flips of more than flip_depth_bits bits; keys and messages outside the fixed lists")

	// ---- part 0: structurally related messages.  Runs first, so that nothing in this process has hashed,
	// signed or verified any message before a case does (process-local state makes the order matter).
	relKeys := []*big.Int{e.keys[3], e.keys[4]}
	if c.Thorough() {
		relKeys = append(relKeys, e.keys[2], e.keys[5])
	}
	enumRelated(relKeys, func(mkc func() kase) {
		if stop || !mine() {
			return
		}
		checkRelated(c, mkc())
		executed()
	})
	if stop {
		finish("related messages")
		return
	}
	// ---- part 0b: call sequences (result isolation, history independence, dirty destinations), see seq.go
	enumSeq(func(k kase) {
		if stop || !mine() {
			return
		}
		checkSeq(c, k)
		executed()
	})
	if stop {
		finish("call sequences")
		return
	}
	c.Sample(kase{Kind: "seq", Class: "sign-verify", PI: 0, QI: 1, RI: 2})
	c.Sample(kase{Kind: "rel", Sk: hx(e.keys[3].Bytes()), Msg: hx(relBase(33, "lead0", "sample")), Rel: hx(relBase(33, "lead0", "sample")[1:]), Order: "r-first", Class: "drop-leading-zeros/len33/lead0"})

	// ---- part 1: round trips
	vals := rtValues()
	for _, v := range vals {
		raw := v.Bytes()
		forms := [][]byte{raw, be32(v), cat([]byte{0}, raw)}
		for fi, f := range forms {
			if fi > 0 && bytes.Equal(f, raw) {
				continue
			}
			for _, ctor := range []string{"bytes", "hexstr"} {
				if ctor == "hexstr" && len(f) == 0 {
					continue
				}
				if mine() {
					checkRT(c, kase{Kind: "rt", Type: "seckey", Ctor: ctor, Val: hx(f)})
					executed()
				}
				if mine() {
					checkRT(c, kase{Kind: "rt", Type: "id", Ctor: ctor, Val: hx(f)})
					executed()
				}
			}
		}
		if mine() {
			checkRT(c, kase{Kind: "rt", Type: "seckey", Ctor: "bigint", Val: hx(raw)})
			executed()
		}
		if mine() {
			checkRT(c, kase{Kind: "rt", Type: "seckey", Ctor: "rand", Val: hx(raw)})
			executed()
		}
		if mine() {
			checkRT(c, kase{Kind: "rt", Type: "id", Ctor: "bigint", Val: hx(raw)})
			executed()
		}
		if mine() {
			checkRT(c, kase{Kind: "rt", Type: "id", Ctor: "pubkey", Val: hx(raw)})
			executed()
		}
		if mine() {
			checkRT(c, kase{Kind: "rt", Type: "pubkey", Ctor: "seckey", Val: hx(raw)})
			executed()
		}
		if mine() {
			checkRT(c, kase{Kind: "rt", Type: "pubkey", Ctor: "aggregate", Val: hx(raw)})
			executed()
		}
		for _, m := range e.msgs {
			if mine() {
				checkRT(c, kase{Kind: "rt", Type: "sig", Ctor: "sign", Val: hx(raw), Msg: hx(m)})
				executed()
			}
		}
		if stop {
			finish("round trips")
			return
		}
	}
	c.Sample(kase{Kind: "rt", Type: "seckey", Ctor: "bytes", Val: hx(be32(bigOrder))})

	// ---- part 2: pairing
	nm1 := new(big.Int).Sub(bigOrder, bi(1))
	exps := []*big.Int{bi(0), bi(1), bi(2), bi(3), bi(4), bi(5), nm1}
	if c.Thorough() {
		exps = append(exps, bi(6), bi(7), new(big.Int).Sub(bigOrder, bi(2)), bigOrder, new(big.Int).Add(bigOrder, bi(1)),
			new(big.Int).Lsh(bi(1), 128), fixedKey(1), new(big.Int).Sub(new(big.Int).Lsh(bi(1), 256), bi(1)))
	}
	for pi := 0; pi < 2; pi++ {
		for qi := 0; qi < 2; qi++ {
			if mine() {
				checkPair(c, e, kase{Kind: "pair", Class: "nondegenerate", PI: pi, QI: qi})
				executed()
			}
			if mine() {
				checkPair(c, e, kase{Kind: "pair", Class: "additive", PI: pi, QI: qi})
				executed()
			}
			for _, a := range exps {
				for _, b := range exps {
					if mine() {
						checkPair(c, e, kase{Kind: "pair", Class: "bilinear", PI: pi, QI: qi, A: a.String(), B: b.String()})
						executed()
					}
				}
			}
			if stop {
				finish("pairing")
				return
			}
		}
	}
	c.Sample(kase{Kind: "pair", Class: "bilinear", A: "5", B: nm1.String()})

	// ---- part 2b: long unreduced secret keys and scalars (longkeys.go)
	enumLong(e, func(k kase, key bool) {
		if stop || !mine() {
			return
		}
		switch k.Kind {
		case "longkey":
			checkLongKey(c, k)
		case "rt":
			checkRT(c, k)
		default:
			checkPair(c, e, k)
		}
		executed()
	})
	if stop {
		finish("long keys and scalars")
		return
	}
	c.Sample(kase{Kind: "longkey", Ctor: "bytes", Val: hx(pow2(257).Bytes()), Msg: hx(e.msgs[0])})

	// ---- part 3: verification.  Passes are ordered by decreasing information, so a time cap drops the least informative cases:
	// A structured lists (all contexts), B signature flips, C public-key flips, D (thorough) double flips / byte replacement.
	identSig := make([]byte, 64)
	type vctx struct {
		sk       *big.Int
		msg      []byte
		hpk, hsg []byte
	}
	var ctxs []vctx
	for _, sk := range e.keys {
		for _, msg := range e.msgs {
			hpk, hsg := honest(sk, msg)
			if len(hpk) != 128 || len(hsg) != 64 {
				c.Violation("C14:encoding:length", "verify", fmt.Sprintf("honest pk %d bytes, sig %d bytes", len(hpk), len(hsg)), kase{Kind: "verify", Sk: hx(sk.Bytes()), Msg: hx(msg)})
				continue
			}
			ctxs = append(ctxs, vctx{sk, msg, hpk, hsg})
		}
	}
	mk := func(x vctx, class string, pkb []byte, pp string, sgb []byte, sp string) kase {
		return kase{Kind: "verify", Sk: hx(x.sk.Bytes()), Msg: hx(x.msg), Pk: hx(pkb), PkPath: pp, Sig: hx(sgb), SigPath: sp, Class: class}
	}
	mkm := func(x vctx, m mutant, suffix string, pkb []byte, pp string, sgb []byte, sp string) kase {
		k := mk(x, m.class+suffix, pkb, pp, sgb, sp)
		k.MustReject = m.mustReject
		return k
	}
	flip := func(h []byte, bits ...int) []byte {
		b := clone(h)
		for _, i := range bits {
			b[i/8] ^= 0x80 >> uint(i%8)
		}
		return b
	}
	// pass A: structured signature and public-key lists
	for _, x := range ctxs {
		var sm, pm []mutant
		if p, v, site := fw.Try(func() { sm = sigMutants(e, x.sk, x.msg, x.hsg); pm = pkMutants(e, x.sk, x.hpk) }); p {
			c.Violation("C14:panic:"+site, "verify", fmt.Sprintf("panic %v while forming algebraic relatives of the honest signature / key", v), mk(x, "honest", x.hpk, "bytes", x.hsg, "dsign"))
		}
		if sm == nil {
			sm = []mutant{{"honest", x.hsg, false}}
		}
		if pm == nil {
			pm = []mutant{{"honest", x.hpk, false}}
		}
		for _, m := range sm {
			for _, sp := range sigPaths {
				if mine() {
					checkVerify(c, mkm(x, m, "", x.hpk, "bytes", m.b, sp), x.hpk, x.hsg)
					executed()
				}
			}
		}
		for _, m := range pm {
			for _, pp := range pkPaths {
				if pp == "json" && m.class == "truncated-pubkey" && !c.Thorough() {
					continue // json = SetHexString behind quote stripping; quick keeps it for the other classes
				}
				if mine() {
					checkVerify(c, mkm(x, m, "", m.b, pp, x.hsg, "dsign"), x.hpk, x.hsg)
					executed()
				}
				if mine() {
					checkVerify(c, mkm(x, m, "+identity-signature", m.b, pp, identSig, "dsign"), x.hpk, x.hsg)
					executed()
				}
			}
			if stop {
				finish("structured mutants")
				return
			}
		}
	}
	// pass B: signature bit flips
	for _, x := range ctxs {
		nb := len(x.hsg) * 8
		for i := 0; i < nb && !stop; i++ {
			for _, sp := range sigPaths {
				if mine() {
					checkVerify(c, mk(x, "bitflip-signature", x.hpk, "bytes", flip(x.hsg, i), sp), x.hpk, x.hsg)
					executed()
				}
			}
		}
		if stop {
			finish("signature bit flips")
			return
		}
	}
	// pass C: public-key bit flips (the key does not depend on the message: quick uses the first message of every key)
	for _, x := range ctxs {
		if !c.Thorough() && !bytes.Equal(x.msg, e.msgs[0]) {
			continue
		}
		nb := len(x.hpk) * 8
		for i := 0; i < nb && !stop; i++ {
			for _, pp := range pkPaths {
				if pp == "json" && !c.Thorough() {
					continue
				}
				if mine() {
					checkVerify(c, mk(x, "bitflip-pubkey", flip(x.hpk, i), pp, x.hsg, "dsign"), x.hpk, x.hsg)
					executed()
				}
				if c.Thorough() && mine() {
					checkVerify(c, mk(x, "bitflip-pubkey+identity-signature", flip(x.hpk, i), pp, identSig, "dsign"), x.hpk, x.hsg)
					executed()
				}
			}
		}
		if stop {
			finish("public-key bit flips")
			return
		}
	}
	// pass D (thorough): double flips and single-byte replacements
	if c.Thorough() {
		for _, x := range ctxs {
			nb := len(x.hsg) * 8
			for i := 0; i < nb && !stop; i++ {
				for j := i + 1; j < nb; j++ {
					for _, sp := range sigPaths {
						if mine() {
							checkVerify(c, mk(x, "bitflip2-signature", x.hpk, "bytes", flip(x.hsg, i, j), sp), x.hpk, x.hsg)
							executed()
						}
					}
				}
			}
			for i := 0; i < len(x.hsg) && !stop; i++ {
				for v := 0; v < 256; v++ {
					if popcount8(byte(v)^x.hsg[i]) <= e.d {
						continue
					}
					for _, sp := range sigPaths {
						if mine() {
							b := clone(x.hsg)
							b[i] = byte(v)
							checkVerify(c, mk(x, "bytereplaced-signature", x.hpk, "bytes", b, sp), x.hpk, x.hsg)
							executed()
						}
					}
				}
			}
			// double flips of the key only through the paths that reject at parse time (no pairing needed)
			nb = len(x.hpk) * 8
			for i := 0; i < nb && !stop; i++ {
				for j := i + 1; j < nb; j++ {
					for _, pp := range pkPaths[:2] {
						if mine() {
							checkVerify(c, mk(x, "bitflip2-pubkey", flip(x.hpk, i, j), pp, x.hsg, "dsign"), x.hpk, x.hsg)
							executed()
						}
					}
				}
			}
			for i := 0; i < len(x.hpk) && !stop; i++ {
				for v := 0; v < 256; v++ {
					if popcount8(byte(v)^x.hpk[i]) <= e.d {
						continue
					}
					for pi, pp := range pkPaths[:3] {
						if pi == 2 && v != 0x00 && v != 0xff && v != int(x.hpk[i])^0xff {
							continue // the hex path needs two pairings per case: three values per position
						}
						if mine() {
							b := clone(x.hpk)
							b[i] = byte(v)
							checkVerify(c, mk(x, "bytereplaced-pubkey", b, pp, x.hsg, "dsign"), x.hpk, x.hsg)
							executed()
						}
					}
				}
			}
			if stop {
				finish("double flips / byte replacement")
				return
			}
		}
		// pass E: every remaining single-byte replacement of the key through the hex path (two pairings each)
		for _, x := range ctxs {
			for i := 0; i < len(x.hpk) && !stop; i++ {
				for v := 0; v < 256; v++ {
					if popcount8(byte(v)^x.hpk[i]) <= e.d || v == 0x00 || v == 0xff || v == int(x.hpk[i])^0xff {
						continue
					}
					if mine() {
						b := clone(x.hpk)
						b[i] = byte(v)
						checkVerify(c, mk(x, "bytereplaced-pubkey", b, "hex", x.hsg, "dsign"), x.hpk, x.hsg)
						executed()
					}
				}
			}
			if stop {
				finish("byte replacement of the key through the hex path")
				return
			}
		}
	}
	c.Sample(mk(ctxs[6%len(ctxs)], "overlong-signature", ctxs[6%len(ctxs)].hpk, "bytes", cat(ctxs[6%len(ctxs)].hsg, []byte{0}), "dsign"))
	finish("")
}

func replay(c *fw.Ctx, raw json.RawMessage) {
	var k kase
	if err := json.Unmarshal(raw, &k); err != nil {
		panic(err)
	}
	switch k.Kind {
	case "verify":
		sk := new(big.Int).SetBytes(unhx(k.Sk))
		hpk, hsg := honest(sk, unhx(k.Msg))
		if k.Pk == "" {
			c.Violation("C14:encoding:length", "verify", fmt.Sprintf("honest pk %d bytes, sig %d bytes", len(hpk), len(hsg)), k)
			return
		}
		checkVerify(c, k, hpk, hsg)
	case "rt":
		checkRT(c, k)
	case "pair":
		checkPair(c, newEnv(c.Thorough()), k)
	case "rel":
		checkRelated(c, k)
	case "longkey":
		checkLongKey(c, k)
	case "seq":
		checkSeq(c, k)
	default:
		panic("unknown case kind " + k.Kind)
	}
}

func main() {
	fw.Main(fw.Check{
		ID:    "C14",
		Level: "exploration",
		Rule: "a case is (secret key, message, presented public-key bytes, pk parse path, presented signature bytes, sig parse path) " +
			"or one (key, base message, structurally related message, processing order) quadruple on its own salted base bytes, " +
			"or one call sequence (ordered pair / triple of a 6-item pool, per function family), " +
			"or one (long unreduced secret key, constructor, message) triple, or one long scalar / scalar pair at the bn256 level, " +
			"or one round-trip value/constructor or one pairing exponent pair; byte strings within one context are de-duplicated " +
			"(structured mutants equal to the honest bytes, to each other, or within the enumerated flip distance are dropped), so every " +
			"counted case is distinct by construction; non-trivial = every case except none (each presents either the honest bytes or a " +
			"mutant that differs from them and must therefore be rejected)",
		Assumptions: []string{
			"BLS signatures are unique: for a public key in G2 and a message exactly one G1 element verifies, so 'accepted <=> bytes are the honest serialisation' is exact",
			"the repository's Sign / GeneratePubkey / G1,G2 Add,Neg,ScalarMult are used to construct honest values and algebraic relatives; harness big.Int field arithmetic only constructs inputs, never verdicts",
			"honest serialisation = Signature.Serialize() / Pubkey.Serialize() of the values produced by Sign / GeneratePubkey",
		},
		Run: run, Replay: replay,
		Budget: func(tier string) time.Duration {
			if tier == "thorough" {
				return 17 * time.Minute
			}
			return 100 * time.Second // ~15 s on an idle 16-core machine; the margin is for a loaded one
		},
	})
}
