// Companion of C14: signing, verifying and the key / signature / id codecs on two goroutines
// (as the node does: block verification, share collection and group creation run in
// parallel) must give each caller exactly what it gets alone.
package main

import (
	"crypto/sha256"
	"fmt"
	"math/big"

	"verif/h/conc"

	"com.tuntun.rangers/node/src/consensus/groupsig"
)

func key(i int) *groupsig.Seckey {
	h := sha256.Sum256([]byte(fmt.Sprintf("C14-conc-key-%d", i)))
	return groupsig.NewSeckeyFromBigInt(new(big.Int).SetBytes(h[:]))
}

func msgOf(n int, tag string) []byte {
	var out []byte
	for ctr := 0; len(out) < n; ctr++ {
		h := sha256.Sum256([]byte(fmt.Sprintf("C14-conc-msg/%s/%d", tag, ctr)))
		out = append(out, h[:]...)
	}
	return out[:n]
}

// signVerify: derive the public key, sign msg, send the signature through its byte codec and verify
// it for msg (must hold) and for other (must not).
func signVerify(k int, msg, other []byte) func() string {
	msg, other = append([]byte{}, msg...), append([]byte{}, other...)
	return func() string {
		sk := key(k)
		pk := groupsig.GeneratePubkey(*sk)
		sig := groupsig.Sign(*sk, msg)
		sb := sig.Serialize()
		back := groupsig.DeserializeSign(sb)
		ok := groupsig.VerifySig(*pk, msg, *back)
		wrong := groupsig.VerifySig(*pk, other, *back)
		return fmt.Sprintf("pk=%x sig=%x ok=%v other-message=%v", pk.Serialize(), sb, ok, wrong)
	}
}

// verifyOnly: parse public key and signature from bytes (the consensus path) and verify.
func verifyOnly(k int, msg, other []byte) func() string {
	sk := key(k)
	pkb := groupsig.GeneratePubkey(*sk).Serialize()
	sig := groupsig.Sign(*sk, msg)
	sgb := sig.Serialize()
	msg, other = append([]byte{}, msg...), append([]byte{}, other...)
	return func() string {
		pk := groupsig.ByteToPublicKey(append([]byte{}, pkb...))
		s := groupsig.DeserializeSign(append([]byte{}, sgb...))
		ok := groupsig.VerifySig(pk, msg, *s)
		wrong := groupsig.VerifySig(pk, other, *s)
		return fmt.Sprintf("valid-pk=%v ok=%v other-message=%v sig=%s", pk.IsValid(), ok, wrong, s.GetHexString())
	}
}

// codecs: every serialise / parse pair of the four types for one key; no pairing.
func codecs(v *big.Int, msg []byte) func() string {
	v = new(big.Int).Set(v)
	msg = append([]byte{}, msg...)
	return func() string {
		sk := groupsig.NewSeckeyFromBigInt(new(big.Int).Set(v))
		var sk2, sk3 groupsig.Seckey
		e1 := sk2.Deserialize(sk.Serialize())
		e2 := sk3.SetHexString(sk.GetHexString())
		pk := groupsig.GeneratePubkey(*sk)
		var pk2, pk3, pk4 groupsig.Pubkey
		e3 := pk2.Deserialize(pk.Serialize())
		e4 := pk3.SetHexString(pk.GetHexString())
		pj, _ := pk.MarshalJSON()
		e5 := pk4.UnmarshalJSON(pj)
		id := groupsig.NewIDFromPubkey(*pk)
		id2 := groupsig.DeserializeID(id.Serialize())
		var id3, id4, small groupsig.ID
		e6 := id3.SetHexString(id.GetHexString())
		ij, _ := id.MarshalJSON()
		e7 := id4.UnmarshalJSON(ij)
		small.SetBigInt(new(big.Int).Mod(v, big.NewInt(65521))) // an id with leading zero bytes
		small2 := groupsig.DeserializeID(small.Serialize())
		sig := groupsig.Sign(*sk, msg)
		var sg2 groupsig.Signature
		e8 := sg2.SetHexString(sig.GetHexString())
		sg3 := groupsig.DeserializeSign(sig.Serialize())
		return fmt.Sprintf("sk=%s|%s|%s %v %v pk=%s|%x|%x|%x %v %v %v id=%s|%s|%s|%s %v %v small=%x|%x addr=%x sig=%x|%x|%x %v eq=%v%v%v%v%v",
			sk.GetHexString(), sk2.GetHexString(), sk3.GetHexString(), e1, e2,
			pk.GetHexString(), pk2.Serialize(), pk3.Serialize(), pk4.Serialize(), e3, e4, e5,
			id.GetHexString(), id2.GetHexString(), id3.GetHexString(), id4.GetHexString(), e6, e7,
			small.Serialize(), small2.Serialize(), pk.GetAddress().Bytes(),
			sig.Serialize(), sg2.Serialize(), sg3.Serialize(), e8,
			sk.IsEqual(sk2), pk.IsEqual(pk3), id.IsEqual(id2), small.IsEqual(small2), sig.IsEqual(*sg3))
	}
}

// sharedKeyVerify: both threads verify with ONE public key object that was never serialised (fresh
// from key derivation or aggregation, i.e. still in projective form), as the share collectors do with
// a group member's key.  Verification must treat its inputs as read-only.
func sharedKeyVerify(pk *groupsig.Pubkey, sk *groupsig.Seckey, msg, other []byte) func() string {
	sig := groupsig.Sign(*sk, msg)
	sgb := sig.Serialize()
	msg, other = append([]byte{}, msg...), append([]byte{}, other...)
	return func() string {
		s := groupsig.DeserializeSign(append([]byte{}, sgb...))
		ok := groupsig.VerifySig(*pk, msg, *s)
		wrong := groupsig.VerifySig(*pk, other, *s)
		again := groupsig.VerifySig(*pk, msg, *s)
		return fmt.Sprintf("ok=%v other-message=%v again=%v", ok, wrong, again)
	}
}

func main() {
	m33 := msgOf(33, "a")
	m33[0] = 0                                    // leading zero byte
	rel := m33[1:]                                // the same last 32 bytes without the leading zero
	short := []byte("a")                          // 1 byte
	long := msgOf(65, "b")                        // 65 bytes
	long2 := append(msgOf(33, "c"), long[33:]...) // same last 32 bytes as long, other prefix
	wide := key(0).GetBigInt()                    // a full-width value
	conc.Main([]conc.Scenario{
		// different keys, structurally related messages (same suffix, leading zero): a cache or scratch value keyed
		// by too little hands one thread the other's hash / signature
		{Name: "sign-verify||sign-verify-related-message", Mk: func() []func() string {
			return []func() string{signVerify(1, m33, rel), signVerify(2, rel, m33)}
		}},
		// equal inputs on both threads
		{Name: "verify||verify-same-input", Mk: func() []func() string {
			return []func() string{verifyOnly(3, short, long), verifyOnly(3, short, long)}
		}},
		// a signer with a long message next to a verifier with a related long message and another key
		{Name: "sign-verify||verify-other-key-size", Mk: func() []func() string {
			return []func() string{signVerify(4, long, long2), verifyOnly(5, long2, long)}
		}},
		// one never-serialised key object used by both verifiers (derived key; aggregated key)
		{Name: "verify||verify-shared-fresh-key", Mk: func() []func() string {
			sk := key(6)
			pk := groupsig.GeneratePubkey(*sk)
			return []func() string{sharedKeyVerify(pk, sk, short, long), sharedKeyVerify(pk, sk, long, short)}
		}},
		{Name: "verify||verify-shared-aggregated-key", Mk: func() []func() string {
			a, b := key(7), key(8)
			sk := groupsig.AggregateSeckeys([]groupsig.Seckey{*a, *b})
			pk := groupsig.AggregatePubkeys([]groupsig.Pubkey{*groupsig.GeneratePubkey(*a), *groupsig.GeneratePubkey(*b)})
			return []func() string{sharedKeyVerify(pk, sk, m33, rel), sharedKeyVerify(pk, sk, rel, m33)}
		}},
		// codecs of all four types, small value (leading zeros) against a full-width value
		{Name: "codecs||codecs-other-size", Mk: func() []func() string {
			return []func() string{codecs(big.NewInt(5), short), codecs(wide, m33)}
		}},
	})
}
