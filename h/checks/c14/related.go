package main

// Structurally related messages.  For a base message m and every relative r != m obtained by
// zero padding, zero stripping, truncation to / extension around a 32-byte window, or a single-bit
// flip at either end, a signature made for one must be rejected for the other, the two signatures
// must differ bytewise, and each must verify for its own message.  Every case derives its own
// base bytes (salted by the case coordinates) and is evaluated in a stated order (m first or r
// first), so that state kept inside the process between hashing / signing / verifying calls
// (caches, pools) is exercised in both directions on messages it has not seen before.

import (
	"bytes"
	"crypto/sha256"
	"fmt"
	"math/big"

	"verif/h/fw"

	"com.tuntun.rangers/node/src/consensus/groupsig"
)

var relLens = []int{0, 1, 31, 32, 33, 64, 65}

func relVariants(n int) []string {
	switch {
	case n == 0:
		return []string{"plain"}
	case n == 1:
		return []string{"plain", "zero"}
	default:
		return []string{"plain", "lead0", "trail0"}
	}
}

func saltBytes(n int, salt string) []byte {
	var out []byte
	for ctr := 0; len(out) < n; ctr++ {
		h := sha256.Sum256([]byte(fmt.Sprintf("C14-rel/%s/%d", salt, ctr)))
		out = append(out, h[:]...)
	}
	return out[:n]
}

// relBase returns the deterministic base message of length n for a variant; all bytes other than
// the forced first / last byte are non-zero so that the list of relatives depends on (n, variant) only.
func relBase(n int, variant, salt string) []byte {
	m := saltBytes(n, salt)
	for i := range m {
		if m[i] == 0 {
			m[i] = 0x5b
		}
	}
	switch variant {
	case "zero", "lead0":
		m[0] = 0
	case "trail0":
		m[n-1] = 0
	}
	return m
}

type relative struct {
	name string
	r    []byte
}

func padLeft(m []byte, n int) []byte  { return cat(make([]byte, n-len(m)), m) }
func padRight(m []byte, n int) []byte { return cat(m, make([]byte, n-len(m))) }

func relatives(m []byte, variant string) []relative {
	n := len(m)
	var out []relative
	add := func(name string, r []byte) { out = append(out, relative{name, r}) }
	add("lead-zero+1", padLeft(m, n+1))
	for _, t := range []int{32, 64} {
		if n+1 < t {
			add(fmt.Sprintf("lead-zero-to-%d", t), padLeft(m, t))
		}
	}
	add("trail-zero+1", padRight(m, n+1))
	for _, t := range []int{32, 64} {
		if n+1 < t {
			add(fmt.Sprintf("trail-zero-to-%d", t), padRight(m, t))
		}
	}
	if variant == "lead0" || variant == "zero" {
		add("drop-leading-zeros", bytes.TrimLeft(m, "\x00"))
	}
	if variant == "trail0" || variant == "zero" {
		add("drop-trailing-zeros", bytes.TrimRight(m, "\x00"))
	}
	if n > 32 {
		add("first-32", clone(m[:32]))
		add("last-32", clone(m[n-32:]))
		inv := func(b []byte) []byte {
			o := clone(b)
			for i := range o {
				o[i] ^= 0xff
			}
			return o
		}
		add("other-prefix-same-last-32", cat(inv(m[:n-32]), m[n-32:]))
		add("other-suffix-same-first-32", cat(m[:32], inv(m[32:])))
	}
	add("prefix-byte", cat([]byte{0xc3}, m))
	add("suffix-byte", cat(m, []byte{0x3c}))
	if n >= 32 {
		add("long-prefix-same-last-32", cat(bytes.Repeat([]byte{0xa7}, 32), m[n-32:]))
		add("long-suffix-same-first-32", cat(m[:32], bytes.Repeat([]byte{0x7a}, 32)))
	}
	if n >= 1 {
		for _, bit := range []byte{0x80, 0x01} {
			r := clone(m)
			r[0] ^= bit
			add(fmt.Sprintf("flip-first-byte-%02x", bit), r)
			if n >= 2 {
				r = clone(m)
				r[n-1] ^= bit
				add(fmt.Sprintf("flip-last-byte-%02x", bit), r)
			}
		}
	}
	return out
}

// checkRelated evaluates one (key, m, r, order) case.
func checkRelated(c *fw.Ctx, k kase) {
	c.Eval(1)
	p, v, site := fw.Try(func() { doRelated(c, k) })
	if p {
		c.Violation("C14:panic:"+site, "related-messages", fmt.Sprintf("panic %v relation=%s order=%s", v, k.Class, k.Order), k)
	}
}

func doRelated(c *fw.Ctx, k kase) {
	sk := new(big.Int).SetBytes(unhx(k.Sk))
	m, r := unhx(k.Msg), unhx(k.Rel)
	if bytes.Equal(m, r) {
		return
	}
	first, second := m, r
	if k.Order == "r-first" {
		first, second = r, m
	}
	bad := func(what string) {
		c.Violation("C14:accept:related-message-signature", "related-messages",
			fmt.Sprintf("%s (relation=%s, order=%s, first message %dB, second message %dB)", what, k.Class, k.Order, len(first), len(second)), k)
	}
	pkb := honestPk(sk)
	// everything about the first message before the second one is touched at all
	s1 := signBytes(sk, first)
	ok1, _ := present(first, pkb, "bytes", s1, "dsign")
	x21, _ := present(second, pkb, "bytes", s1, "dsign") // signature for the first presented for the second
	s2 := signBytes(sk, second)
	ok2, _ := present(second, pkb, "bytes", s2, "dsign")
	x12, _ := present(first, pkb, "bytes", s2, "dsign")  // signature for the second presented for the first
	ok1b, _ := present(first, pkb, "bytes", s1, "dsign") // and the first one again, after the second was processed
	if !ok1 || !ok2 || !ok1b {
		c.Violation("C14:reject:honest", "related-messages",
			fmt.Sprintf("honest signature rejected: first=%v second=%v first-again=%v (relation=%s, order=%s)", ok1, ok2, ok1b, k.Class, k.Order), k)
	}
	if x21 {
		bad("signature made for the first message verifies for the second")
	}
	if x12 {
		bad("signature made for the second message verifies for the first")
	}
	if bytes.Equal(s1, s2) {
		bad("Sign gives byte-identical signatures for two different messages")
	}
	switch {
	case x21 || x12 || bytes.Equal(s1, s2):
		c.Outcome("related:" + k.Order + ":confused")
	default:
		c.Outcome("related:" + k.Order + ":separated")
	}
}

func honestPk(sk *big.Int) []byte {
	return groupsig.GeneratePubkey(seckeyOf(sk)).Serialize()
}

// enumRelated walks the family; visit is called for every case in a fixed order.
func enumRelated(keys []*big.Int, visit func(mk func() kase)) {
	for ki, sk := range keys {
		for _, n := range relLens {
			for _, variant := range relVariants(n) {
				tmpl := relatives(relBase(n, variant, "template"), variant)
				for ri := range tmpl {
					for _, order := range []string{"m-first", "r-first"} {
						ki, sk, n, variant, ri, order := ki, sk, n, variant, ri, order
						visit(func() kase {
							m := relBase(n, variant, fmt.Sprintf("%d/%d/%s/%d/%s", ki, n, variant, ri, order))
							rel := relatives(m, variant)[ri]
							return kase{Kind: "rel", Sk: hx(sk.Bytes()), Msg: hx(m), Rel: hx(rel.r), Order: order,
								Class: fmt.Sprintf("%s/len%d/%s", rel.name, n, variant)}
						})
					}
				}
			}
		}
	}
}
