package main

// Boring big.Int helpers used only to *construct* adversarial encodings (points on the
// twist outside the order-n subgroup, coordinates shifted by p, cube roots of unity).
// Verdicts never depend on this arithmetic: every constructed byte string is simply
// different from the honest one, so the oracle says "reject".

import (
	"math/big"

	bn "com.tuntun.rangers/node/src/consensus/groupsig/bn256"
)

var (
	bigP     = bn.P
	bigOrder = bn.Order
)

func bi(x int64) *big.Int { return big.NewInt(x) }

func modP(x *big.Int) *big.Int { return x.Mod(x, bigP) }

// f2 is i*I + r with I^2 = -1 (the layout of G2.Marshal: imaginary part first).
type f2 struct{ i, r *big.Int }

func f2mul(a, b f2) f2 {
	r := new(big.Int).Mul(a.r, b.r)
	r.Sub(r, new(big.Int).Mul(a.i, b.i))
	i := new(big.Int).Mul(a.r, b.i)
	i.Add(i, new(big.Int).Mul(a.i, b.r))
	return f2{modP(i), modP(r)}
}
func f2add(a, b f2) f2 {
	return f2{modP(new(big.Int).Add(a.i, b.i)), modP(new(big.Int).Add(a.r, b.r))}
}
func f2sub(a, b f2) f2 {
	return f2{modP(new(big.Int).Sub(a.i, b.i)), modP(new(big.Int).Sub(a.r, b.r))}
}
func f2eq(a, b f2) bool { return a.i.Cmp(b.i) == 0 && a.r.Cmp(b.r) == 0 }

func f2sqrt(a f2) (f2, bool) {
	n := modP(new(big.Int).Add(new(big.Int).Mul(a.r, a.r), new(big.Int).Mul(a.i, a.i)))
	s := new(big.Int).ModSqrt(n, bigP)
	if s == nil {
		return f2{}, false
	}
	inv2 := new(big.Int).ModInverse(bi(2), bigP)
	for k := 0; k < 2; k++ {
		t := new(big.Int).Add(a.r, s)
		if k == 1 {
			t.Sub(a.r, s)
		}
		t.Mul(t, inv2)
		modP(t)
		x0 := new(big.Int).ModSqrt(t, bigP)
		if x0 == nil || x0.Sign() == 0 {
			continue
		}
		x1 := new(big.Int).ModInverse(new(big.Int).Lsh(x0, 1), bigP)
		x1.Mul(x1, a.i)
		modP(x1)
		c := f2{x1, x0}
		if f2eq(f2mul(c, c), a) {
			return c, true
		}
	}
	return f2{}, false
}

func g2Coords(b []byte) (x, y f2) {
	g := func(k int) *big.Int { return new(big.Int).SetBytes(b[32*k : 32*k+32]) }
	return f2{g(0), g(1)}, f2{g(2), g(3)}
}

func g2Enc(x, y f2) []byte {
	out := make([]byte, 128)
	x.i.FillBytes(out[0:32])
	x.r.FillBytes(out[32:64])
	y.i.FillBytes(out[64:96])
	y.r.FillBytes(out[96:128])
	return out
}

// twistB derives b' of y^2 = x^3 + b' from the generator's own encoding and confirms it on 2*gen.
func twistB() (f2, bool) {
	x, y := g2Coords(bn.GetG2Base().Marshal())
	b := f2sub(f2mul(y, y), f2mul(f2mul(x, x), x))
	x2, y2 := g2Coords(new(bn.G2).ScalarBaseMult(bi(2)).Marshal())
	b2 := f2sub(f2mul(y2, y2), f2mul(f2mul(x2, x2), x2))
	return b, f2eq(b, b2)
}

// offSubgroup returns R (a point of the twist with small real x, generally of full order
// n*h) and T = n*R (a non-trivial point of the cofactor subgroup), both as G2 values
// produced by the repository's own parser and arithmetic.  ok=false if none found.
func offSubgroup() (R, T *bn.G2, ok bool) {
	bp, good := twistB()
	if !good {
		return nil, nil, false
	}
	for k := int64(1); k < 64; k++ {
		x := f2{bi(0), bi(k)}
		y, sq := f2sqrt(f2add(f2mul(f2mul(x, x), x), bp))
		if !sq {
			continue
		}
		r := new(bn.G2)
		if _, err := r.Unmarshal(g2Enc(x, y)); err != nil {
			continue
		}
		t := new(bn.G2).ScalarMult(r, bigOrder)
		if len(t.Marshal()) != 128 { // infinity
			continue
		}
		return r, t, true
	}
	return nil, nil, false
}

// cubeRoots returns the two non-trivial cube roots of unity mod p.
func cubeRoots() []*big.Int {
	e := new(big.Int).Sub(bigP, bi(1))
	e.Div(e, bi(3))
	for g := int64(2); g < 50; g++ {
		b := new(big.Int).Exp(bi(g), e, bigP)
		if b.Cmp(bi(1)) != 0 {
			b2 := modP(new(big.Int).Mul(b, b))
			return []*big.Int{b, b2}
		}
	}
	return nil
}

func be32(x *big.Int) []byte { return x.FillBytes(make([]byte, 32)) }

// plusP returns the 32-byte encoding of c+p, or nil when it does not fit 256 bits.
func plusP(c []byte) []byte {
	v := new(big.Int).SetBytes(c)
	v.Add(v, bigP)
	if v.BitLen() > 256 {
		return nil
	}
	return be32(v)
}

func hamming(a, b []byte) int {
	n := 0
	for i := range a {
		x := a[i] ^ b[i]
		for x != 0 {
			n++
			x &= x - 1
		}
	}
	return n
}

func popcount8(x byte) int {
	n := 0
	for x != 0 {
		n++
		x &= x - 1
	}
	return n
}

func cat(parts ...[]byte) []byte {
	var out []byte
	for _, p := range parts {
		out = append(out, p...)
	}
	return out
}

func clone(b []byte) []byte { return append([]byte{}, b...) }
