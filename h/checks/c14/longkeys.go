package main

// Long, unreduced scalars.  The package's own API hands out secret keys of any length
// (Seckey.Deserialize / SetHexString never reduce), and bn256's ScalarMult takes any non-negative
// big.Int, so "for every secret key" and bilinearity have to hold there too:
//   - key level: VerifySig(GeneratePubkey(sk), m, Sign(sk, m)) is true, and signing / key derivation
//     agree with the key reduced modulo the group order (whatever the constructor made of the input:
//     a constructor that reduces or refuses consistently is fine);
//   - bn256 level: k*P == (k mod r)*P in G1 and G2, e(k*P,Q) == e(P,k*Q) == e(P,Q)^(k mod r), and
//     (a+b)*P == a*P + b*P for sums that cross 2^256 and 2^257.

import (
	"bytes"
	"fmt"
	"math/big"

	"verif/h/fw"

	"com.tuntun.rangers/node/src/consensus/groupsig"
	bn "com.tuntun.rangers/node/src/consensus/groupsig/bn256"
)

func pow2(k uint) *big.Int { return new(big.Int).Lsh(bi(1), k) }

// longScalars: values of 257..384 bits plus the neighbourhood of the group order.
func longScalars() []*big.Int {
	r := bigOrder
	add := func(a *big.Int, d int64) *big.Int { return new(big.Int).Add(a, bi(d)) }
	out := []*big.Int{
		add(r, -1), new(big.Int).Set(r), add(r, 1), add(new(big.Int).Lsh(r, 1), 3),
		pow2(256), add(pow2(257), -1), pow2(257), add(pow2(257), 1), add(pow2(258), 5), add(pow2(300), 7),
		pow2(383), add(pow2(384), -1),
		new(big.Int).SetBytes(bytes.Repeat([]byte{0xa5}, 40)),
		new(big.Int).SetBytes(saltBytes(40, "longkey/40")),
		new(big.Int).SetBytes(bytes.Repeat([]byte{0xff}, 48)),
		new(big.Int).SetBytes(saltBytes(48, "longkey/48")),
	}
	for _, k := range []uint{1, 2, 8, 64, 127} {
		out = append(out, add(new(big.Int).Lsh(r, k), 5))
	}
	return out
}

func checkLongKey(c *fw.Ctx, k kase) {
	c.Eval(1)
	p, v, site := fw.Try(func() { doLongKey(c, k) })
	if p {
		c.Violation("C14:panic:"+site, "long-keys", fmt.Sprintf("panic %v for a %d-byte secret key through %s", v, len(k.Val)/2, k.Ctor), k)
	}
}

func doLongKey(c *fw.Ctx, k kase) {
	raw, msg := unhx(k.Val), unhx(k.Msg)
	var sk groupsig.Seckey
	switch k.Ctor {
	case "bytes":
		if err := sk.Deserialize(clone(raw)); err != nil {
			c.Outcome("longkey:refused:" + k.Ctor)
			return
		}
	case "hexstr":
		if err := sk.SetHexString("0x" + k.Val); err != nil {
			c.Outcome("longkey:refused:" + k.Ctor)
			return
		}
	case "bigint":
		sk = *groupsig.NewSeckeyFromBigInt(new(big.Int).SetBytes(raw))
	default:
		panic("long key ctor " + k.Ctor)
	}
	held := sk.GetBigInt()
	red := new(big.Int).Mod(held, bigOrder)
	if red.Sign() == 0 {
		c.Outcome("longkey:skipped-zero-mod-order")
		return // the zero key is not a valid key
	}
	if held.Cmp(red) == 0 {
		c.Outcome("longkey:held-reduced:" + k.Ctor)
	} else {
		c.Outcome(fmt.Sprintf("longkey:held-unreduced:%s", k.Ctor))
	}
	bad := func(sig, what string) {
		c.Violation(sig, "long-keys", fmt.Sprintf("%s (secret key of %d bits obtained through %s, message %dB)", what, held.BitLen(), k.Ctor, len(msg)), k)
	}
	pk := groupsig.GeneratePubkey(sk)
	sig := groupsig.Sign(sk, clone(msg))
	pkb, sgb := pk.Serialize(), sig.Serialize()
	if !groupsig.VerifySig(*pk, clone(msg), sig) {
		bad("C14:reject:honest", "VerifySig(GeneratePubkey(sk), m, Sign(sk, m)) is false")
	}
	if ok, stage := present(msg, pkb, "bytes", sgb, "dsign"); !ok {
		bad("C14:reject:honest", "the honest signature / public key sent through their byte codecs are rejected at stage "+stage)
	}
	rsk := seckeyOf(red)
	if want := signBytes(red, msg); !bytes.Equal(sgb, want) {
		bad("C14:longkey:sign-differs-from-reduced-key", fmt.Sprintf("Sign(sk, m) = %x but Sign(sk mod r, m) = %x", sgb, want))
	}
	if want := groupsig.GeneratePubkey(rsk).Serialize(); !bytes.Equal(pkb, want) {
		bad("C14:longkey:pubkey-differs-from-reduced-key", fmt.Sprintf("GeneratePubkey(sk) = %x but GeneratePubkey(sk mod r) = %x", pkb, want))
	}
	if !bytes.Equal(sk.GetBigInt().Bytes(), held.Bytes()) {
		bad("C14:seq:argument-modified:Sign", "the secret key changed while signing / deriving the public key")
	}
}

// scalar-level cases live in the pairing part: classes "scalar" (A = k) and "scalar-add" (A = a, B = b).
func doScalar(c *fw.Ctx, e *env, k kase) {
	ps, qs := pairPoints(e)
	P, Q := ps[k.PI], qs[k.QI]
	a, _ := new(big.Int).SetString(k.A, 10)
	switch k.Class {
	case "scalar":
		ar := new(big.Int).Mod(a, bigOrder)
		kP, kPr := new(bn.G1).ScalarMult(P, a), new(bn.G1).ScalarMult(P, ar)
		if !bytes.Equal(kP.Marshal(), kPr.Marshal()) {
			c.Violation("C14:pairing:scalar-mult-G1", "pairing", fmt.Sprintf("k*P != (k mod r)*P in G1 for k=%s (%d bits), P#%d", k.A, a.BitLen(), k.PI), k)
		}
		kQ, kQr := new(bn.G2).ScalarMult(Q, a), new(bn.G2).ScalarMult(Q, ar)
		if !bytes.Equal(kQ.Marshal(), kQr.Marshal()) {
			c.Violation("C14:pairing:scalar-mult-G2", "pairing", fmt.Sprintf("k*Q != (k mod r)*Q in G2 for k=%s (%d bits), Q#%d", k.A, a.BitLen(), k.QI), k)
		}
		if k.PI == 0 && !bytes.Equal(new(bn.G1).ScalarBaseMult(a).Marshal(), kPr.Marshal()) {
			c.Violation("C14:pairing:scalar-mult-G1", "pairing", fmt.Sprintf("ScalarBaseMult(k) != (k mod r)*G1 for k=%s", k.A), k)
		}
		if k.QI == 0 && !bytes.Equal(new(bn.G2).ScalarBaseMult(a).Marshal(), kQr.Marshal()) {
			c.Violation("C14:pairing:scalar-mult-G2", "pairing", fmt.Sprintf("ScalarBaseMult(k) != (k mod r)*G2 for k=%s", k.A), k)
		}
		l := bn.Pair(kP, Q).Marshal()
		r := bn.Pair(P, kQ).Marshal()
		want := new(bn.GT).ScalarMult(bn.Pair(P, Q), ar).Marshal()
		if !bytes.Equal(l, r) || !bytes.Equal(l, want) {
			c.Violation("C14:pairing:bilinear", "pairing", fmt.Sprintf("e(k*P,Q), e(P,k*Q), e(P,Q)^(k mod r) are not all equal for k=%s (%d bits), P#%d Q#%d: first two equal=%v, first equals power=%v",
				k.A, a.BitLen(), k.PI, k.QI, bytes.Equal(l, r), bytes.Equal(l, want)), k)
		}
		c.Outcome("pair:scalar")
	case "scalar-add":
		b, _ := new(big.Int).SetString(k.B, 10)
		s := new(big.Int).Add(a, b)
		l1 := new(bn.G1).ScalarMult(P, s).Marshal()
		r1 := new(bn.G1).Add(new(bn.G1).ScalarMult(P, a), new(bn.G1).ScalarMult(P, b)).Marshal()
		if !bytes.Equal(l1, r1) {
			c.Violation("C14:pairing:scalar-mult-G1", "pairing", fmt.Sprintf("(a+b)*P != a*P + b*P in G1 for a=%s b=%s", k.A, k.B), k)
		}
		l2 := new(bn.G2).ScalarMult(Q, s).Marshal()
		r2 := new(bn.G2).Add(new(bn.G2).ScalarMult(Q, a), new(bn.G2).ScalarMult(Q, b)).Marshal()
		if !bytes.Equal(l2, r2) {
			c.Violation("C14:pairing:scalar-mult-G2", "pairing", fmt.Sprintf("(a+b)*Q != a*Q + b*Q in G2 for a=%s b=%s", k.A, k.B), k)
		}
		c.Outcome("pair:scalar-add")
	}
}

// enumLong lists key-level and scalar-level cases in a fixed order.
func enumLong(e *env, visit func(k kase, key bool)) {
	ls := longScalars()
	for _, v := range ls {
		for _, ctor := range []string{"bytes", "hexstr", "bigint"} {
			for _, m := range e.msgs[:2] {
				visit(kase{Kind: "longkey", Ctor: ctor, Val: hx(v.Bytes()), Msg: hx(m)}, true)
			}
			visit(kase{Kind: "rt", Type: "seckey", Ctor: ctor, Val: hx(v.Bytes())}, true)
		}
	}
	sums := [][2]*big.Int{
		{new(big.Int).Sub(pow2(256), bi(3)), bi(5)},
		{new(big.Int).Sub(pow2(257), bi(2)), bi(7)},
		{pow2(255), pow2(255)},
		{pow2(256), pow2(256)},
		{new(big.Int).Add(new(big.Int).Lsh(bigOrder, 8), bi(5)), pow2(300)},
		{new(big.Int).Sub(bigOrder, bi(1)), new(big.Int).Sub(pow2(257), bigOrder)},
	}
	for pi := 0; pi < 2; pi++ {
		for qi := 0; qi < 2; qi++ {
			for _, v := range ls {
				visit(kase{Kind: "pair", Class: "scalar", PI: pi, QI: qi, A: v.String()}, false)
			}
			for _, ab := range sums {
				visit(kase{Kind: "pair", Class: "scalar-add", PI: pi, QI: qi, A: ab[0].String(), B: ab[1].String()}, false)
			}
		}
	}
}
