package main

// Call-sequence oracles (non-initial states).
//
// (1) result stability / isolation: r1 := f(A); r2 := f(B) (and the sibling functions on B); then
//     everything the caller owns is overwritten (returned byte slices zeroed, returned big.Ints
//     mutated, r2 re-parsed into another value, the input slices inverted).  r1 must still equal its
//     snapshot, f's arguments must be unchanged by the call, and f(A) on fresh copies of A must
//     return what it returned the first time.
// (2) dirty destination: every parse-into-receiver function is also run on an object that already
//     holds a different valid value and on one that holds the result of a failed parse; verdict and
//     (when the parse succeeds) resulting value must equal those of a fresh object.
//
// Pools are small and fixed; all ordered pairs (including the same item twice) and a few triples.

import (
	"bytes"
	"crypto/sha256"
	"fmt"
	"math/big"

	"verif/h/fw"

	"com.tuntun.rangers/node/src/consensus/groupsig"
)

type seqItem struct {
	sk  *big.Int
	msg []byte
}

func seqPool() []seqItem {
	k := func(i int) *big.Int {
		h := sha256.Sum256([]byte(fmt.Sprintf("C14-seq-key-%d", i)))
		return new(big.Int).Mod(new(big.Int).SetBytes(h[:]), bigOrder)
	}
	m33 := saltBytes(33, "seq/m33")
	m33[0] = 0
	long := saltBytes(65, "seq/long")
	copy(long[33:], m33[1:]) // same last 32 bytes as m33
	return []seqItem{
		{k(1), m33},
		{k(1), clone(m33[1:])},
		{k(2), clone(m33)},
		{bi(2), []byte("a")},
		{new(big.Int).Sub(bigOrder, bi(1)), long},
		{k(3), cat(m33, []byte{1})}, // same first 33 bytes as m33
	}
}

type seqRun struct {
	c *fw.Ctx
	k kase
}

func (s *seqRun) fail(kind, fn, msg string) {
	s.c.Violation("C14:seq:"+kind+":"+fn, "sequences", fmt.Sprintf("%s: %s (case %s a=%d b=%d c=%d)", fn, msg, s.k.Class, s.k.PI, s.k.QI, s.k.RI), s.k)
}

func (s *seqRun) dirty(fn, msg string) {
	s.c.Violation("C14:dirty-destination:"+fn, "sequences", fmt.Sprintf("%s: %s (item a=%d, other b=%d)", fn, msg, s.k.PI, s.k.QI), s.k)
}

// mat is one materialisation of a pool item: objects and byte slices nobody else holds.
type mat struct {
	sk          groupsig.Seckey
	pk          groupsig.Pubkey
	msg         []byte
	skB, pkB, m []byte // snapshots
}

func materialise(it seqItem) *mat {
	x := &mat{}
	x.sk = seckeyOf(it.sk)
	x.pk = *groupsig.GeneratePubkey(x.sk)
	x.msg = clone(it.msg)
	x.skB, x.pkB, x.m = x.sk.Serialize(), x.pk.Serialize(), clone(it.msg)
	return x
}

func (x *mat) argsIntact() string {
	switch {
	case !bytes.Equal(x.sk.Serialize(), x.skB):
		return "secret key changed"
	case !bytes.Equal(x.pk.Serialize(), x.pkB):
		return "public key changed"
	case !bytes.Equal(x.msg, x.m):
		return "message slice changed"
	}
	return ""
}

func invert(b []byte) {
	for i := range b {
		b[i] ^= 0xff
	}
}

func zero(b []byte) {
	for i := range b {
		b[i] = 0
	}
}

// ---- Sign / VerifySig over a sequence of pool items

func seqSignVerify(s *seqRun, pool []seqItem, idx []int) {
	type step struct {
		x    *mat
		sig  groupsig.Signature
		snap []byte
		ok   bool
	}
	var steps []*step
	for n, i := range idx {
		x := materialise(pool[i])
		st := &step{x: x}
		st.sig = groupsig.Sign(x.sk, x.msg)
		if why := x.argsIntact(); why != "" {
			s.fail("argument-modified", "Sign", why)
		}
		st.snap = clone(st.sig.Serialize())
		st.ok = groupsig.VerifySig(x.pk, x.msg, st.sig)
		if why := x.argsIntact(); why != "" {
			s.fail("argument-modified", "VerifySig", why)
		}
		if !bytes.Equal(st.sig.Serialize(), st.snap) {
			s.fail("argument-modified", "VerifySig", "signature object changed by verification")
		}
		if !st.ok {
			s.c.Violation("C14:reject:honest", "sequences", fmt.Sprintf("honest signature rejected at position %d of the sequence %v", n, idx), s.k)
		}
		// the signature of an earlier step presented for this step's key and message
		for _, e := range steps {
			same := e.x.sk.IsEqual(x.sk) && bytes.Equal(e.x.m, x.m)
			if got := groupsig.VerifySig(x.pk, x.msg, e.sig); got != same {
				s.fail("history-dependent", "VerifySig", fmt.Sprintf("signature of an earlier step verifies=%v for this step's key/message, want %v", got, same))
			}
		}
		steps = append(steps, st)
	}
	// the caller overwrites everything it owns of every step but the first
	for n, st := range steps {
		if n == 0 {
			continue
		}
		other := materialise(pool[(idx[n]+1)%len(pool)])
		osig := groupsig.Sign(other.sk, other.msg)
		zero(st.sig.Serialize())
		st.sig.Deserialize(osig.Serialize())
		st.x.sk.GetBigInt().SetInt64(7)
		st.x.sk.Deserialize(other.skB)
		st.x.pk.Deserialize(other.pkB)
		invert(st.x.msg)
	}
	first := steps[0]
	if !bytes.Equal(first.sig.Serialize(), first.snap) {
		s.fail("result-aliased", "Sign", fmt.Sprintf("first signature reads %x after later calls and caller-side overwrites, was %x", first.sig.Serialize(), first.snap))
	}
	if got := groupsig.VerifySig(first.x.pk, first.x.msg, first.sig); got != first.ok {
		s.fail("history-dependent", "VerifySig", fmt.Sprintf("first verification repeated after later calls gives %v, was %v", got, first.ok))
	}
	again := materialise(pool[idx[0]])
	s2 := groupsig.Sign(again.sk, again.msg)
	if !bytes.Equal(s2.Serialize(), first.snap) {
		s.fail("history-dependent", "Sign", fmt.Sprintf("Sign on fresh copies of the first input gives %x, first time %x", s2.Serialize(), first.snap))
	}
	if got := groupsig.VerifySig(again.pk, again.msg, *groupsig.DeserializeSign(clone(first.snap))); got != first.ok {
		s.fail("history-dependent", "VerifySig", fmt.Sprintf("verification of the first input from bytes gives %v, first time %v", got, first.ok))
	}
	s.c.Outcome(fmt.Sprintf("seq:sign-verify:len%d", len(idx)))
}

// ---- the four encodable types behind one table

type format struct {
	name  string                                // bytes | hex | json
	ser   string                                // method name
	par   string                                // method name
	enc   func(x interface{}) []byte            // serialise
	dec   func(dst interface{}, b []byte) error // parse into dst
	bad   func(good []byte) [][]byte            // inputs the parser is expected to refuse (may be empty)
	extra func(good []byte) [][]byte            // further inputs (accepted or not) compared fresh vs dirty
}

type etype struct {
	name    string
	build   func(it seqItem) interface{} // through the node's constructors, a new object every time
	blank   func() interface{}
	canon   func(x interface{}) string
	formats []format
	ctors   []ctor // parse functions that return a new object
}

type ctor struct {
	name string
	f    func(b []byte) interface{}
}

type dstate struct {
	name string
	mk   func() interface{}
}

func hexBad(good []byte) [][]byte {
	return [][]byte{good[2:], []byte("0"), []byte("")}
}

func etypes() []etype {
	sigT := etype{
		name: "Signature",
		build: func(it seqItem) interface{} {
			s := groupsig.Sign(seckeyOf(it.sk), clone(it.msg))
			return &s
		},
		blank: func() interface{} { return &groupsig.Signature{} },
		canon: func(x interface{}) string {
			s := x.(*groupsig.Signature)
			return fmt.Sprintf("nil=%v valid=%v %x", s.IsNil(), s.IsValid(), s.Serialize())
		},
		formats: []format{
			{name: "bytes", ser: "Serialize", par: "Deserialize",
				enc: func(x interface{}) []byte { return x.(*groupsig.Signature).Serialize() },
				dec: func(d interface{}, b []byte) error { return d.(*groupsig.Signature).Deserialize(b) },
				bad: func(g []byte) [][]byte {
					return [][]byte{g[:len(g)-1], cat(g, []byte{0}), {}, bytes.Repeat([]byte{0xff}, len(g))}
				}},
			{name: "hex", ser: "GetHexString", par: "SetHexString",
				enc: func(x interface{}) []byte { return []byte(x.(*groupsig.Signature).GetHexString()) },
				dec: func(d interface{}, b []byte) error { return d.(*groupsig.Signature).SetHexString(string(b)) },
				bad: func(g []byte) [][]byte { return append(hexBad(g), g[:len(g)-2], cat(g, []byte("00"))) }},
		},
		ctors: []ctor{{"DeserializeSign", func(b []byte) interface{} { return groupsig.DeserializeSign(b) }}},
	}
	pkT := etype{
		name:  "Pubkey",
		build: func(it seqItem) interface{} { return groupsig.GeneratePubkey(seckeyOf(it.sk)) },
		blank: func() interface{} { return &groupsig.Pubkey{} },
		canon: func(x interface{}) string {
			p := x.(*groupsig.Pubkey)
			if !p.IsValid() {
				return "invalid"
			}
			return fmt.Sprintf("valid %x", p.Serialize())
		},
		formats: []format{
			{name: "bytes", ser: "Serialize", par: "Deserialize",
				enc: func(x interface{}) []byte { return x.(*groupsig.Pubkey).Serialize() },
				dec: func(d interface{}, b []byte) error { return d.(*groupsig.Pubkey).Deserialize(b) },
				bad: func(g []byte) [][]byte {
					return [][]byte{g[:len(g)-1], cat(g, []byte{0}), {}, bytes.Repeat([]byte{0xff}, len(g))}
				}},
			{name: "hex", ser: "GetHexString", par: "SetHexString",
				enc: func(x interface{}) []byte { return []byte(x.(*groupsig.Pubkey).GetHexString()) },
				dec: func(d interface{}, b []byte) error { return d.(*groupsig.Pubkey).SetHexString(string(b)) },
				bad: func(g []byte) [][]byte { return append(hexBad(g), g[:len(g)-2], cat(g, []byte("00"))) }},
			{name: "json", ser: "MarshalJSON", par: "UnmarshalJSON",
				enc: func(x interface{}) []byte { b, _ := x.(*groupsig.Pubkey).MarshalJSON(); return b },
				dec: func(d interface{}, b []byte) error { return d.(*groupsig.Pubkey).UnmarshalJSON(b) },
				bad: func(g []byte) [][]byte {
					return [][]byte{[]byte("\""), []byte("\"\""), []byte("\"0x\""), cat(g[:len(g)-3], []byte("\""))}
				}},
		},
		ctors: []ctor{{"ByteToPublicKey", func(b []byte) interface{} { p := groupsig.ByteToPublicKey(b); return &p }}},
	}
	skT := etype{
		name:  "Seckey",
		build: func(it seqItem) interface{} { return groupsig.NewSeckeyFromBigInt(new(big.Int).Set(it.sk)) },
		blank: func() interface{} { return &groupsig.Seckey{} },
		canon: func(x interface{}) string {
			k := x.(*groupsig.Seckey)
			return fmt.Sprintf("%s %x %s", k.GetBigInt(), k.Serialize(), k.GetHexString())
		},
		formats: []format{
			{name: "bytes", ser: "Serialize", par: "Deserialize",
				enc:   func(x interface{}) []byte { return x.(*groupsig.Seckey).Serialize() },
				dec:   func(d interface{}, b []byte) error { return d.(*groupsig.Seckey).Deserialize(b) },
				extra: func(g []byte) [][]byte { return [][]byte{{}, {0}, g[:len(g)-1], cat([]byte{0, 0}, g)} }},
			{name: "hex", ser: "GetHexString", par: "SetHexString",
				enc: func(x interface{}) []byte { return []byte(x.(*groupsig.Seckey).GetHexString()) },
				dec: func(d interface{}, b []byte) error { return d.(*groupsig.Seckey).SetHexString(string(b)) },
				bad: hexBad,
				extra: func(g []byte) [][]byte {
					return [][]byte{[]byte("0x"), []byte("0x0"), []byte("0x000001"), []byte("0xzz"), []byte("0x12zz")}
				}},
		},
	}
	idT := etype{
		name: "ID",
		build: func(it seqItem) interface{} {
			if it.sk.BitLen() <= 16 { // a small id: serialised with leading zero bytes
				d := &groupsig.ID{}
				d.SetBigInt(new(big.Int).Set(it.sk))
				return d
			}
			return groupsig.NewIDFromPubkey(*groupsig.GeneratePubkey(seckeyOf(it.sk)))
		},
		blank: func() interface{} { return &groupsig.ID{} },
		canon: func(x interface{}) string {
			d := x.(*groupsig.ID)
			return fmt.Sprintf("%s %x", d.GetBigInt(), d.Serialize())
		},
		formats: []format{
			{name: "bytes", ser: "Serialize", par: "Deserialize",
				enc:   func(x interface{}) []byte { return x.(*groupsig.ID).Serialize() },
				dec:   func(d interface{}, b []byte) error { return d.(*groupsig.ID).Deserialize(b) },
				extra: func(g []byte) [][]byte { return [][]byte{{}, {0}, {5}, g[:len(g)-1]} }},
			{name: "hex", ser: "GetHexString", par: "SetHexString",
				enc:   func(x interface{}) []byte { return []byte(x.(*groupsig.ID).GetHexString()) },
				dec:   func(d interface{}, b []byte) error { return d.(*groupsig.ID).SetHexString(string(b)) },
				bad:   hexBad,
				extra: func(g []byte) [][]byte { return [][]byte{[]byte("0x"), []byte("0x05"), []byte("0xzz")} }},
			{name: "json", ser: "MarshalJSON", par: "UnmarshalJSON",
				enc:   func(x interface{}) []byte { b, _ := x.(*groupsig.ID).MarshalJSON(); return b },
				dec:   func(d interface{}, b []byte) error { return d.(*groupsig.ID).UnmarshalJSON(b) },
				bad:   func(g []byte) [][]byte { return [][]byte{[]byte("\""), []byte("\"\"")} },
				extra: func(g []byte) [][]byte { return [][]byte{[]byte("\"0x\""), []byte("\"0x07\"")} }},
		},
		ctors: []ctor{{"DeserializeID", func(b []byte) interface{} { d := groupsig.DeserializeID(b); return &d }}},
	}
	return []etype{sigT, pkT, skT, idT}
}

// seqCodec: serialisers and parsers of one type over the ordered pair (a, b).
func seqCodec(s *seqRun, t etype, pool []seqItem, a, b int) {
	for _, f := range t.formats {
		fnS, fnP := t.name+"."+f.ser, t.name+"."+f.par
		x := t.build(pool[a])
		before := t.canon(x)
		r1 := f.enc(x)
		snap := clone(r1)
		if t.canon(x) != before {
			s.fail("argument-modified", fnS, "the serialised object changed")
		}
		y := t.build(pool[b])
		r2 := f.enc(y)
		for _, g := range t.formats { // the sibling serialisers on B
			zero(g.enc(y))
		}
		zero(r2)
		if !bytes.Equal(r1, snap) {
			s.fail("result-aliased", fnS, fmt.Sprintf("first result reads %x after serialising another value and zeroing that result, was %x", r1, snap))
		}
		zero(r1)
		if t.canon(x) != before {
			s.fail("result-aliased", fnS, "zeroing the returned bytes changed the serialised object")
		}
		if got := f.enc(x); !bytes.Equal(got, snap) {
			s.fail("history-dependent", fnS, fmt.Sprintf("second serialisation of the same object gives %x, first %x", got, snap))
		}
		if got := f.enc(t.build(pool[a])); !bytes.Equal(got, snap) {
			s.fail("history-dependent", fnS, fmt.Sprintf("serialising a rebuilt equal value gives %x, first %x", got, snap))
		}
		// parse: input slice unchanged by the call, result independent of the input slice afterwards
		in := clone(snap)
		d := t.blank()
		err := f.dec(d, in)
		if !bytes.Equal(in, snap) {
			s.fail("argument-modified", fnP, "the input slice changed")
		}
		if err != nil || t.canon(d) != before {
			s.c.Violation("C14:roundtrip:"+t.name+":"+f.name, "sequences", fmt.Sprintf("%s(%s(x)) err=%v value %s want %s", f.par, f.ser, err, t.canon(d), before), s.k)
		}
		in2 := clone(f.enc(t.build(pool[b])))
		d2 := t.blank()
		f.dec(d2, in2) // parse B elsewhere, then the caller reuses both input buffers
		invert(in)
		invert(in2)
		if t.canon(d) != before {
			s.fail("result-aliased", fnP, "the parsed object changed when the caller overwrote the input slice")
		}
		d3 := t.blank()
		if err := f.dec(d3, clone(snap)); err != nil || t.canon(d3) != before {
			s.fail("history-dependent", fnP, fmt.Sprintf("parsing the same bytes again gives err=%v %s, first %s", err, t.canon(d3), before))
		}
		if f.name == "bytes" {
			for _, ct := range t.ctors {
				cn, ctor := ct.name, ct.f
				in := clone(snap)
				o := ctor(in)
				if !bytes.Equal(in, snap) {
					s.fail("argument-modified", cn, "the input slice changed")
				}
				ctor(clone(f.enc(t.build(pool[b]))))
				invert(in)
				if t.canon(o) != before {
					s.fail("result-aliased", cn, fmt.Sprintf("object reads %s after the caller overwrote the input slice, want %s", t.canon(o), before))
				}
				if got := t.canon(ctor(clone(snap))); got != before {
					s.fail("history-dependent", cn, fmt.Sprintf("parsing the same bytes again gives %s, first %s", got, before))
				}
			}
		}
	}
	s.c.Outcome("seq:codec:" + t.name)
}

// recoveredSig is the direct output of RecoverGroupSignature (2-of-2 shares of a degree-1 polynomial):
// a point in unnormalised Jacobian form that was never serialised.
func recoveredSig(it seqItem) *groupsig.Signature {
	msec := []groupsig.Seckey{seckeyOf(it.sk), seckeyOf(new(big.Int).Add(it.sk, bi(12345)))}
	shares := map[string]groupsig.Signature{}
	for i := int64(1); i <= 2; i++ {
		var id groupsig.ID
		id.SetBigInt(bi(i))
		shares[id.GetHexString()] = groupsig.Sign(*groupsig.ShareSeckey(msec, id), clone(it.msg))
	}
	return groupsig.RecoverGroupSignature(shares, 2)
}

// typeStates: destinations beyond "direct output of the constructor" that a receiver of the type can be in.
func typeStates(t etype, pool []seqItem, b int) []dstate {
	var out []dstate
	switch t.name {
	case "Signature":
		out = append(out,
			dstate{"identity-parsed", func() interface{} {
				d := &groupsig.Signature{}
				d.Deserialize(make([]byte, 64))
				return d
			}},
			dstate{"identity-computed", func() interface{} {
				x := groupsig.Sign(seckeyOf(bi(0)), clone(pool[b].msg))
				return &x
			}},
			dstate{"recover-output", func() interface{} { return recoveredSig(pool[b]) }},
			dstate{"sign-output-serialised-once", func() interface{} {
				x := groupsig.Sign(seckeyOf(pool[b].sk), clone(pool[b].msg))
				x.Serialize()
				return &x
			}},
			dstate{"parsed-valid", func() interface{} {
				x := groupsig.Sign(seckeyOf(pool[b].sk), clone(pool[b].msg))
				return groupsig.DeserializeSign(x.Serialize())
			}})
	case "Pubkey":
		out = append(out,
			dstate{"identity-parsed", func() interface{} {
				d := &groupsig.Pubkey{}
				d.Deserialize(make([]byte, 128))
				return d
			}},
			dstate{"identity-computed", func() interface{} { return groupsig.GeneratePubkey(seckeyOf(bi(0))) }},
			dstate{"aggregate-output", func() interface{} {
				return groupsig.AggregatePubkeys([]groupsig.Pubkey{*groupsig.GeneratePubkey(seckeyOf(pool[b].sk)), *groupsig.GeneratePubkey(seckeyOf(bi(3)))})
			}},
			dstate{"generate-output-serialised-once", func() interface{} {
				x := groupsig.GeneratePubkey(seckeyOf(pool[b].sk))
				x.Serialize()
				return x
			}},
			dstate{"parsed-valid", func() interface{} {
				x := groupsig.ByteToPublicKey(groupsig.GeneratePubkey(seckeyOf(pool[b].sk)).Serialize())
				return &x
			}})
	}
	return out
}

// seqDirty: parse-into-receiver on fresh / other-valid / failed-parse / type-specific destinations.
//
// Flagged (the property's domain): the input is an output of the type's own serialiser (round trip) — the
// dirty result must equal the fresh result; or the type is Signature / Pubkey and, for ANY input, the
// verdict differs from a fresh object's or the parse "succeeds" into a different value (a malformed
// encoding that parses into a stale valid value is an accepted non-signature).
// Counted only: ID / Seckey inputs outside the serialisers' range; destinations left as they were by an
// input that both the dirty and the fresh object refuse with an error.
func seqDirty(s *seqRun, t etype, pool []seqItem, a, b int) {
	strict := t.name == "Signature" || t.name == "Pubkey"
	for _, f := range t.formats {
		fn := t.name + "." + f.par
		good := f.enc(t.build(pool[a]))
		goodB := f.enc(t.build(pool[b]))
		var bad [][]byte
		if f.bad != nil {
			bad = f.bad(good)
		}
		type input struct {
			b         []byte
			roundtrip bool
		}
		inputs := []input{{good, true}, {goodB, true}}
		for _, x := range bad {
			inputs = append(inputs, input{x, false})
		}
		if f.extra != nil {
			for _, x := range f.extra(good) {
				inputs = append(inputs, input{x, false})
			}
		}
		states := []dstate{{"constructor-output", func() interface{} { return t.build(pool[b]) }}}
		states = append(states, typeStates(t, pool, b)...)
		for bi, bd := range bad {
			bd := bd
			states = append(states, dstate{fmt.Sprintf("failed-parse-%d", bi), func() interface{} {
				d := t.blank()
				f.dec(d, clone(bd))
				return d
			}}, dstate{fmt.Sprintf("constructor-output-then-failed-parse-%d", bi), func() interface{} {
				d := t.build(pool[b])
				f.dec(d, clone(bd))
				return d
			}})
		}
		for _, in := range inputs {
			ref := t.blank()
			refErr := f.dec(ref, clone(in.b))
			refCanon := t.canon(ref)
			for _, st := range states {
				d := st.mk()
				err := f.dec(d, clone(in.b))
				got := t.canon(d)
				var what string
				switch {
				case (err == nil) != (refErr == nil):
					what = fmt.Sprintf("input %q into a destination in state %s: err=%v, into a fresh object err=%v", in.b, st.name, err, refErr)
				case got == refCanon:
					continue
				case refErr != nil: // refused by both, the destination differs afterwards
					s.c.Count("dirty_destination_left_as_is_by_refused_input:"+fn, 1)
					continue
				default:
					what = fmt.Sprintf("input %q into a destination in state %s gives %s, into a fresh object %s", in.b, st.name, got, refCanon)
				}
				if in.roundtrip || strict {
					s.dirty(fn, what)
				} else {
					s.c.Count("dirty_destination_differs_outside_roundtrip_domain:"+fn, 1)
					s.c.Note("dirty_destination_example:"+fn, what)
				}
			}
		}
	}
	s.c.Outcome("seq:dirty:" + t.name)
}

// seqDerive: GeneratePubkey / AggregatePubkeys / NewIDFromPubkey leave their arguments alone and do not alias them.
func seqDerive(s *seqRun, pool []seqItem, a, b int) {
	sa, sb := seckeyOf(pool[a].sk), seckeyOf(pool[b].sk)
	saB := sa.Serialize()
	pa := groupsig.GeneratePubkey(sa)
	if !bytes.Equal(sa.Serialize(), saB) {
		s.fail("argument-modified", "GeneratePubkey", "secret key changed")
	}
	paB := clone(pa.Serialize())
	pb := groupsig.GeneratePubkey(sb)
	pbB := clone(pb.Serialize())
	sb.Deserialize([]byte{9})
	if !bytes.Equal(pb.Serialize(), pbB) || !bytes.Equal(pa.Serialize(), paB) {
		s.fail("result-aliased", "GeneratePubkey", "public key changed after the caller overwrote a secret key")
	}
	if got := groupsig.GeneratePubkey(seckeyOf(pool[a].sk)).Serialize(); !bytes.Equal(got, paB) {
		s.fail("history-dependent", "GeneratePubkey", fmt.Sprintf("second derivation gives %x, first %x", got, paB))
	}
	if a != b {
		list := []groupsig.Pubkey{*groupsig.GeneratePubkey(seckeyOf(pool[a].sk)), *groupsig.GeneratePubkey(seckeyOf(pool[b].sk))}
		agg := groupsig.AggregatePubkeys(list)
		if !bytes.Equal(list[0].Serialize(), paB) || !bytes.Equal(list[1].Serialize(), pbB) {
			s.fail("argument-modified", "AggregatePubkeys", "an element of the argument slice changed")
		}
		aggB := clone(agg.Serialize())
		sum := seckeyOf(new(big.Int).Add(pool[a].sk, pool[b].sk))
		if want := groupsig.GeneratePubkey(sum).Serialize(); !bytes.Equal(aggB, want) {
			s.c.Violation("C14:encoding:aggregate", "sequences", fmt.Sprintf("AggregatePubkeys(pk_a, pk_b) = %x, (a+b)*G2 = %x", aggB, want), s.k)
		}
		rev := groupsig.AggregatePubkeys([]groupsig.Pubkey{list[1], list[0]})
		if !bytes.Equal(rev.Serialize(), aggB) {
			s.fail("history-dependent", "AggregatePubkeys", "aggregate of the reversed list differs")
		}
		agg.Deserialize(pbB) // the caller reuses the result object
		list[1].Deserialize(paB)
		if !bytes.Equal(list[0].Serialize(), paB) {
			s.fail("result-aliased", "AggregatePubkeys", "overwriting the aggregate changed the first element of the argument slice")
		}
		if !bytes.Equal(rev.Serialize(), aggB) {
			s.fail("result-aliased", "AggregatePubkeys", "an earlier aggregate changed when the caller overwrote an argument / a later result")
		}
	}
	id := groupsig.NewIDFromPubkey(*pa)
	if !bytes.Equal(pa.Serialize(), paB) {
		s.fail("argument-modified", "NewIDFromPubkey", "public key changed")
	}
	idB := clone(id.Serialize())
	id2 := groupsig.NewIDFromPubkey(*pb)
	id2.GetBigInt().SetInt64(3)
	id2.SetBigInt(bi(11))
	zero(id2.Serialize())
	pa.Deserialize(pbB)
	if !bytes.Equal(id.Serialize(), idB) {
		s.fail("result-aliased", "NewIDFromPubkey", "id changed after the caller overwrote the public key / another id")
	}
	if got := groupsig.NewIDFromPubkey(*groupsig.GeneratePubkey(seckeyOf(pool[a].sk))).Serialize(); !bytes.Equal(got, idB) {
		s.fail("history-dependent", "NewIDFromPubkey", fmt.Sprintf("second derivation gives %x, first %x", got, idB))
	}
	// accessors that hand out big.Ints
	k := seckeyOf(pool[a].sk)
	v := k.GetBigInt()
	v.Add(v, bi(1))
	if k.GetBigInt().Cmp(new(big.Int).Mod(pool[a].sk, bigOrder)) != 0 {
		s.fail("result-aliased", "Seckey.GetBigInt", "mutating the returned big.Int changed the key")
	}
	w := id.GetBigInt()
	w.SetInt64(1)
	if !bytes.Equal(id.Serialize(), idB) {
		s.fail("result-aliased", "ID.GetBigInt", "mutating the returned big.Int changed the id")
	}
	src := new(big.Int).SetBytes(idB)
	var id3 groupsig.ID
	id3.SetBigInt(src)
	src.SetInt64(2)
	if !bytes.Equal(id3.Serialize(), idB) {
		s.fail("result-aliased", "ID.SetBigInt", "the id follows later changes of the big.Int it was set from")
	}
	s.c.Outcome("seq:derive")
}

func checkSeq(c *fw.Ctx, k kase) {
	c.Eval(1)
	s := &seqRun{c: c, k: k}
	pool := seqPool()
	p, v, site := fw.Try(func() {
		switch k.Class {
		case "sign-verify":
			idx := []int{k.PI, k.QI}
			if k.RI >= 0 {
				idx = append(idx, k.RI)
			}
			seqSignVerify(s, pool, idx)
		case "derive":
			seqDerive(s, pool, k.PI, k.QI)
		default:
			for _, t := range etypes() {
				if k.Class == "codec/"+t.name {
					seqCodec(s, t, pool, k.PI, k.QI)
				}
				if k.Class == "dirty/"+t.name {
					seqDirty(s, t, pool, k.PI, k.QI)
				}
			}
		}
	})
	if p {
		c.Violation("C14:panic:"+site, "sequences", fmt.Sprintf("panic %v in sequence case %s a=%d b=%d c=%d", v, k.Class, k.PI, k.QI, k.RI), k)
	}
}

// enumSeq lists the sequence cases in a fixed order.
func enumSeq(visit func(k kase)) {
	n := len(seqPool())
	classes := []string{"sign-verify", "derive"}
	for _, t := range etypes() {
		classes = append(classes, "codec/"+t.name, "dirty/"+t.name)
	}
	for _, cl := range classes {
		for a := 0; a < n; a++ {
			for b := 0; b < n; b++ {
				visit(kase{Kind: "seq", Class: cl, PI: a, QI: b, RI: -1})
			}
		}
	}
	for a := 0; a < n; a++ { // triples
		visit(kase{Kind: "seq", Class: "sign-verify", PI: a, QI: (a + 1) % n, RI: (a + 2) % n})
		visit(kase{Kind: "seq", Class: "sign-verify", PI: a, QI: (a + 1) % n, RI: a})
	}
}
