package main

// Non-initial-state differential: decoding an input into a destination that a
// previous decode has filled must give exactly what decoding it into a fresh
// destination gives (same accept/reject verdict, same value, same re-encoding).
// Destinations are filled from schema-derived "dirty" values (refrlp.Schema.Dirty:
// widest integers, non-empty strings, non-nil pointers, longer lists); two ways of
// reuse are exercised: DecodeBytes into the pre-filled destination, and one
// Stream decoding two consecutive values into one reused variable.
// The mirror for the encoder (pooled encoder buffers): encoding a value right after
// another one, through EncodeToBytes / Encode(io.Writer) / EncodeToReader, gives
// the bytes it gives when encoded first.

import (
	"bytes"
	"fmt"
	"io"

	"verif/h/fw"
	"verif/h/refrlp"

	"com.tuntun.rangers/node/src/eth_tx"
	"com.tuntun.rangers/node/src/storage/rlp"
)

var nDirty int64

func (t *target) fillers() [][]byte {
	if t.dirty == nil {
		t.dirty = [][]byte{t.schema.Dirty(0).Encode(), t.schema.Dirty(1).Encode()}
	}
	return t.dirty
}

func sameDecoded(a, b interface{}) bool {
	if x, ok := a.(*eth_tx.Transaction); ok {
		return txItem(x).Equal(txItem(b.(*eth_tx.Transaction)))
	}
	return refrlp.EqualGo(a, b)
}

// checkDirty: in was decoded into the fresh destination `fresh` with verdict
// freshErr; encFresh is the re-encoding of fresh (nil if not accepted).
func checkDirty(t *target, in []byte, fresh interface{}, freshErr error, encFresh []byte) (fs []finding) {
	if len(in) > 70000 {
		return
	}
	add := func(sig, msg string) { fs = append(fs, finding{sig, "decode", msg}) }
	compare := func(how string, filler []byte, p interface{}, err error) {
		nDirty++
		if (err == nil) != (freshErr == nil) {
			add("C08:dirty-destination:verdict-differs:"+t.class, fmt.Sprintf("%s: decoding %s into a fresh *%s gives err=%v, into a destination previously filled from %s gives err=%v", how, short(in), t.name, freshErr, short(filler), err))
			return
		}
		if err != nil || encFresh == nil {
			return
		}
		var enc []byte
		var eerr error
		if pn, v, site := fw.Try(func() { enc, eerr = rlp.EncodeToBytes(p) }); pn {
			add("C08:panic:"+site, fmt.Sprintf("%s: encoding the value decoded from %s into a reused *%s panicked: %v", how, short(in), t.name, v))
			return
		}
		if eerr != nil || !bytes.Equal(enc, encFresh) || !sameDecoded(p, fresh) {
			leaf := t.schema.DiffLeaf(enc, encFresh)
			if leaf == "" {
				leaf = "value:" + t.class
			}
			add("C08:dirty-destination:stale-"+leaf, fmt.Sprintf("%s: %s decoded into a fresh *%s gives %s, decoded into a destination previously filled from %s gives %s (re-encodes as %s, err=%v)",
				how, short(in), t.name, render(fresh), short(filler), render(p), short(enc), eerr))
		}
	}
	for _, X := range t.fillers() {
		// (a) DecodeBytes into a pre-filled destination
		p := t.mk()
		var ferr, err error
		if pn, v, site := fw.Try(func() {
			if ferr = rlp.DecodeBytes(X, p); ferr == nil {
				err = rlp.DecodeBytes(in, p)
			}
		}); pn {
			add("C08:panic:"+site, fmt.Sprintf("decoding %s then %s into one *%s panicked: %v", short(X), short(in), t.name, v))
			continue
		}
		if ferr != nil {
			add("C08:reject-valid:"+t.class+":"+errSlug(ferr), fmt.Sprintf("DecodeBytes(%s, *%s) = %v but the input is the canonical encoding of a value of that type", short(X), t.name, ferr))
			continue
		}
		compare("DecodeBytes", X, p, err)
		// (b) one Stream, two consecutive values, one reused variable
		if freshErr == nil {
			p2 := t.mk()
			both := append(append([]byte{}, X...), in...)
			var e0, e1, e2 error
			if pn, v, site := fw.Try(func() {
				s := rlp.NewStream(bytes.NewReader(both), uint64(len(both)))
				if e0 = s.Decode(p2); e0 == nil {
					if e1 = s.Decode(p2); e1 == nil {
						_, _, e2 = s.Kind()
					}
				}
			}); pn {
				add("C08:panic:"+site, fmt.Sprintf("Stream over %s decoding twice into one *%s panicked: %v", short(both), t.name, v))
				continue
			}
			if e0 != nil {
				add("C08:stream:reject-valid:"+t.class, fmt.Sprintf("Stream.Decode of the first value of %s into *%s = %v", short(both), t.name, e0))
				continue
			}
			compare("Stream loop", X, p2, e1)
			if e1 == nil && e2 != io.EOF {
				add("C08:stream:value-not-consumed:"+t.class, fmt.Sprintf("Stream over %s: after two Decode calls into *%s the stream is not at EOF: %v", short(both), t.name, e2))
			}
		}
	}
	return
}

// encoder mirror: enc is EncodeToBytes(v) obtained earlier.
var encDirtyValue = []interface{}{bytes.Repeat([]byte{0xee}, 300), []interface{}{"a long string that needs a long-form header ........................", uint64(1<<64 - 1)}, []uint{1, 2, 3, 4, 5, 6, 7, 8}}

func checkEncoderReuse(group, class string, v interface{}, enc []byte) (fs []finding) {
	add := func(sig, msg string) { fs = append(fs, finding{sig, "value", msg}) }
	var viaWriter bytes.Buffer
	var viaReader, after, afterAbandoned []byte
	var size int
	var err1, err2, err3, err4 error
	if pn, pv, site := fw.Try(func() {
		err1 = rlp.Encode(&viaWriter, v)
		var r io.Reader
		if size, r, err2 = rlp.EncodeToReader(v); err2 == nil {
			viaReader, err2 = io.ReadAll(r)
		}
		// a different, larger value goes through the pooled buffer first
		rlp.EncodeToBytes(encDirtyValue)
		after, err3 = rlp.EncodeToBytes(v)
		// ... and once more after a reader that was only partly consumed
		if _, r2, e := rlp.EncodeToReader(encDirtyValue); e == nil {
			r2.Read(make([]byte, 7))
		}
		afterAbandoned, err4 = rlp.EncodeToBytes(v)
	}); pn {
		add("C08:panic:"+site, fmt.Sprintf("encoding %s %s through Encode/EncodeToReader panicked: %v", group, renderV(v), pv))
		return
	}
	switch {
	case err1 != nil || !bytes.Equal(viaWriter.Bytes(), enc):
		add("C08:encode:writer-differs:"+class, fmt.Sprintf("Encode(io.Writer, %s %s) = %s (%v), EncodeToBytes = %s", group, renderV(v), short(viaWriter.Bytes()), err1, short(enc)))
	case err2 != nil || !bytes.Equal(viaReader, enc) || size != len(enc):
		add("C08:encode:reader-differs:"+class, fmt.Sprintf("EncodeToReader(%s %s) = size %d, %s (%v), EncodeToBytes = %s", group, renderV(v), size, short(viaReader), err2, short(enc)))
	case err3 != nil || !bytes.Equal(after, enc):
		add("C08:encode:depends-on-previous-value:"+class, fmt.Sprintf("EncodeToBytes(%s %s) right after encoding another value = %s (%v), encoded first = %s", group, renderV(v), short(after), err3, short(enc)))
	case err4 != nil || !bytes.Equal(afterAbandoned, enc):
		add("C08:encode:depends-on-previous-value:"+class, fmt.Sprintf("EncodeToBytes(%s %s) after a partly read EncodeToReader = %s (%v), encoded first = %s", group, renderV(v), short(afterAbandoned), err4, short(enc)))
	}
	return
}
