package main

import (
	"bytes"
	"math/big"

	"verif/h/refrlp"

	"com.tuntun.rangers/node/src/common"
	"com.tuntun.rangers/node/src/eth_tx"
	"com.tuntun.rangers/node/src/storage/account"
	"com.tuntun.rangers/node/src/storage/rlp"
)

// ------------------------------------------------------------------ (ii) header grammar

func be(n uint64, k int) []byte {
	out := make([]byte, k)
	for i := k - 1; i >= 0; i-- {
		out[i] = byte(n)
		n >>= 8
	}
	return out
}

// headerForms returns every way to write a header of the given kind declaring n
// payload bytes: the short form (n <= 55) and the long form with 1..8 length
// bytes (left padded with zeros when more than needed).
func headerForms(list bool, n uint64) [][]byte {
	base := byte(0x80)
	if list {
		base = 0xC0
	}
	var out [][]byte
	if n <= 55 {
		out = append(out, []byte{base + byte(n)})
	}
	for k := 1; k <= 8; k++ {
		if k < 8 && n >= 1<<(8*uint(k)) {
			continue
		}
		out = append(out, append([]byte{base + 55 + byte(k)}, be(n, k)...))
	}
	return out
}

func wrap(b []byte) []byte { return append(refrlp.Head(true, uint64(len(b))), b...) }

// forEachGrammar enumerates family (ii).  huge=true marks inputs whose declared
// size exceeds what is present (the allocation oracle applies to those).
func forEachGrammar(thorough bool, f func(in []byte, huge bool, declared uint64) bool) {
	sizes := []uint64{0, 1, 2, 55, 56, 57, 255, 256, 65535, 65536, 1 << 20, 1 << 32, 1 << 63, 1<<64 - 1}
	maxMat := uint64(300)
	if thorough {
		maxMat = 70000
	}
	strFill := []byte{0x00, 0x01, 0x7f, 0x80, 0xff}
	listFill := []byte{0x00, 0x01, 0x80, 0xc0, 0xff}
	for _, list := range []bool{false, true} {
		fills := strFill
		if list {
			fills = listFill
		}
		for _, n := range sizes {
			var plens []uint64
			for _, p := range []uint64{n, n - 1, n + 1, 0, 1, 2} {
				if p > maxMat || (p == n-1 && n == 0) || (p == n+1 && n == 1<<64-1) {
					continue
				}
				dup := false
				for _, q := range plens {
					dup = dup || q == p
				}
				if !dup {
					plens = append(plens, p)
				}
			}
			for _, h := range headerForms(list, n) {
				for _, pl := range plens {
					for fi, fill := range fills {
						if pl == 0 && fi > 0 {
							break
						}
						if pl > 1000 && !(fill == 0x00 || fill == 0x01 || fill == 0x80) {
							continue
						}
						item := append(append([]byte{}, h...), bytes.Repeat([]byte{fill}, int(pl))...)
						huge := n > pl
						var variants [][]byte
						variants = append(variants, item)
						w1 := wrap(item)
						variants = append(variants, w1)
						if pl <= 1000 {
							// outer list header declaring one byte less / more than the element needs
							variants = append(variants, append(refrlp.Head(true, uint64(len(item)-1)), item...))
							variants = append(variants, append(refrlp.Head(true, uint64(len(item)+1)), item...))
							variants = append(variants, wrap(append(append([]byte{}, item...), 0x80)))
							variants = append(variants, wrap(append([]byte{0x01}, item...)))
							variants = append(variants, wrap(w1))
							variants = append(variants, wrap(wrap(w1)))
						}
						for _, v := range variants {
							if !f(v, huge, n) {
								return
							}
						}
					}
				}
			}
		}
	}
}

// ------------------------------------------------------------------ (ii-b) field substitutions

func rep(b byte, n int) []byte { return bytes.Repeat([]byte{b}, n) }

func cat(parts ...[]byte) []byte {
	var out []byte
	for _, p := range parts {
		out = append(out, p...)
	}
	return out
}

// fieldVariants is the alphabet of encodings (canonical and not) substituted for struct fields.
func fieldVariants() [][]byte {
	v := [][]byte{
		{0x00}, {0x01}, {0x7f}, {0x80}, {0x81, 0x00}, {0x81, 0x01}, {0x81, 0x7f}, {0x81, 0x80}, {0x81, 0xff},
		{0x82, 0x00, 0x01}, {0x82, 0x01, 0x00}, {0x82, 0xff, 0xff}, {0x83, 0x01, 0x00, 0x00},
		{0x88, 1, 2, 3, 4, 5, 6, 7, 8}, {0x88, 0, 2, 3, 4, 5, 6, 7, 8}, {0x89, 1, 2, 3, 4, 5, 6, 7, 8, 9},
		{0xb8, 0x00}, {0xb8, 0x01, 0x01}, {0xb8, 0x02, 0x01, 0x02}, {0xb9, 0x00, 0x01, 0x05},
		{0xc0}, {0xc1, 0x80}, {0xc1, 0x01}, {0xc1, 0xc0}, {0xc2, 0x01, 0x02}, {0xf8, 0x00}, {0xf8, 0x01, 0x01},
	}
	for _, n := range []int{19, 20, 21, 31, 32, 33, 55} {
		v = append(v, cat([]byte{0x80 + byte(n)}, rep(0xab, n)))
		v = append(v, cat([]byte{0x80 + byte(n)}, rep(0x00, n)))
	}
	v = append(v, cat([]byte{0xb8, 20}, rep(0xab, 20)), cat([]byte{0xb8, 32}, rep(0xab, 32)))
	v = append(v, cat([]byte{0xb8, 56}, rep(0xab, 56)), cat([]byte{0xb8, 56}, rep(0x00, 56)), cat([]byte{0xb9, 0, 56}, rep(0xab, 56)))
	v = append(v, cat([]byte{0xd4}, rep(0x01, 20)), cat([]byte{0xd5, 0x94}, rep(0xab, 20)))
	return v
}

type substTarget struct {
	t    *target
	base [][]byte // canonical encodings of the fields of a base value
}

func substTargets() []substTarget {
	a20 := cat([]byte{0x94}, rep(0x11, 20))
	h32 := cat([]byte{0xa0}, rep(0x22, 32))
	return []substTarget{
		{targetByName["account.Account"], [][]byte{{0x05}, h32, cat([]byte{0xa0}, rep(0x33, 32))}},
		{targetByName["eth_tx.Transaction"], [][]byte{{0x03}, {0x82, 0x03, 0xe8}, {0x82, 0x52, 0x08}, a20, {0x64}, {0x82, 0xca, 0xfe}, {0x1b},
			cat([]byte{0xa0}, rep(0x44, 32)), cat([]byte{0xa0}, rep(0x55, 32))}},
		{targetByName["nilBoth"], [][]byte{{0x01}, a20, {0xc1, 0x07}, {0x02}}},
		{targetByName["tailS"], [][]byte{{0x01}, {0x82, 0xab, 0xcd}, {0x05}, {0x81, 0x80}}},
		{targetByName["pairB1"], [][]byte{{0x05}, {0x81, 0x80}}},
		{targetByName["[2]uint16"], [][]byte{{0x05}, {0x82, 0x01, 0x00}}},
	}
}

func assemble(fields [][]byte) []byte {
	body := cat(fields...)
	return append(refrlp.Head(true, uint64(len(body))), body...)
}

// forEachFieldSubst: for each struct-like target, the base encoding, every single
// field substitution, every double substitution (all pairs), one field dropped,
// one variant appended, and a non-canonical outer header around the base.
func forEachFieldSubst(thorough bool, f func(t *target, in []byte) bool) {
	vars := fieldVariants()
	for _, st := range substTargets() {
		n := len(st.base)
		cur := make([][]byte, n)
		copy(cur, st.base)
		if !f(st.t, assemble(cur)) {
			return
		}
		body := cat(st.base...)
		for _, h := range headerForms(true, uint64(len(body))) {
			if !f(st.t, append(append([]byte{}, h...), body...)) {
				return
			}
		}
		for i := 0; i < n; i++ {
			drop := append(append([][]byte{}, st.base[:i]...), st.base[i+1:]...)
			if !f(st.t, assemble(drop)) {
				return
			}
			for _, v := range vars {
				cur[i] = v
				if !f(st.t, assemble(cur)) {
					return
				}
				for j := i + 1; j < n; j++ {
					for _, w := range vars {
						cur[j] = w
						if !f(st.t, assemble(cur)) {
							return
						}
					}
					cur[j] = st.base[j]
				}
			}
			cur[i] = st.base[i]
		}
		for _, v := range vars {
			if !f(st.t, assemble(append(append([][]byte{}, st.base...), v))) {
				return
			}
		}
	}
}

// ------------------------------------------------------------------ (iii) value alphabets

type vgroup struct {
	name string
	gen  func() []interface{}
}

func pow2set(maxBits int) []*big.Int {
	seen := map[string]bool{}
	var out []*big.Int
	add := func(x *big.Int) {
		if x.Sign() < 0 || x.BitLen() > maxBits || seen[x.String()] {
			return
		}
		seen[x.String()] = true
		out = append(out, x)
	}
	add(big.NewInt(0))
	for k := 0; k <= maxBits; k++ {
		p := new(big.Int).Lsh(big.NewInt(1), uint(k))
		add(new(big.Int).Sub(p, big.NewInt(1)))
		add(p)
		add(new(big.Int).Add(p, big.NewInt(1)))
	}
	return out
}

func byteStrings(thorough bool) [][]byte {
	var out [][]byte
	out = append(out, []byte{})
	for a := 0; a < 256; a++ {
		out = append(out, []byte{byte(a)})
	}
	for a := 0; a < 256; a++ {
		for b := 0; b < 256; b++ {
			out = append(out, []byte{byte(a), byte(b)})
		}
	}
	lens := []int{3, 54, 55, 56, 57, 255, 256, 257}
	if thorough {
		lens = append(lens, 65535, 65536, 65537, 1<<24-1, 1<<24)
	}
	for _, n := range lens {
		for _, f := range []byte{0x00, 0x01, 0x7f, 0x80, 0xff} {
			if n > 1<<20 && f != 0x00 && f != 0xff {
				continue
			}
			out = append(out, rep(f, n))
		}
	}
	return out
}

func valueGroups(thorough bool) []vgroup {
	smallBytes := [][]byte{{}, {0x00}, {0x01}, {0x7f}, {0x80}, {0xff}, {0x00, 0x00}, {0xab, 0xcd}, rep(0x00, 55), rep(0xab, 56)}
	uints := func(bits int) []uint64 {
		var out []uint64
		for _, x := range pow2set(bits) {
			out = append(out, x.Uint64())
		}
		return out
	}
	aff, a7f := common.BytesToAddress(rep(0xff, 20)), common.BytesToAddress(rep(0x7f, 20))
	addrs := []*common.Address{nil, {}, {0: 1}, {19: 1}, &aff, &a7f}
	return []vgroup{
		{"uint8", func() []interface{} {
			var o []interface{}
			for i := 0; i < 256; i++ {
				o = append(o, uint8(i))
			}
			return o
		}},
		{"uint16", func() []interface{} {
			var o []interface{}
			for i := 0; i < 65536; i++ {
				o = append(o, uint16(i))
			}
			return o
		}},
		{"uint32", func() []interface{} {
			var o []interface{}
			for _, x := range uints(32) {
				o = append(o, uint32(x))
			}
			for i := 0; i < 70000; i++ {
				o = append(o, uint32(i)+65536)
			}
			return o
		}},
		{"uint64", func() []interface{} {
			var o []interface{}
			for _, x := range uints(64) {
				o = append(o, x)
			}
			return o
		}},
		{"uint", func() []interface{} {
			var o []interface{}
			for _, x := range uints(64) {
				o = append(o, uint(x))
			}
			return o
		}},
		{"*big.Int", func() []interface{} {
			var o []interface{}
			for _, x := range pow2set(520) {
				o = append(o, x)
			}
			for i := int64(0); i < 70000; i++ {
				o = append(o, big.NewInt(i))
			}
			return o
		}},
		{"big.Int", func() []interface{} {
			var o []interface{}
			for _, x := range pow2set(264) {
				o = append(o, *x)
			}
			return o
		}},
		{"bool", func() []interface{} { return []interface{}{false, true} }},
		{"[]byte", func() []interface{} {
			var o []interface{}
			for _, b := range byteStrings(thorough) {
				o = append(o, b)
			}
			return o
		}},
		{"string", func() []interface{} {
			var o []interface{}
			for _, b := range byteStrings(thorough) {
				o = append(o, string(b))
			}
			return o
		}},
		{"[1]byte", func() []interface{} {
			var o []interface{}
			for i := 0; i < 256; i++ {
				o = append(o, b1{byte(i)})
			}
			return o
		}},
		{"[4]byte", func() []interface{} {
			al := []byte{0x00, 0x01, 0x7f, 0x80, 0xff}
			var o []interface{}
			for _, a := range al {
				for _, b := range al {
					for _, c := range al {
						for _, d := range al {
							o = append(o, b4{a, b, c, d})
						}
					}
				}
			}
			return o
		}},
		{"common.Address", func() []interface{} {
			var o []interface{}
			for _, a := range addrs[1:] {
				o = append(o, *a)
			}
			return o
		}},
		{"[]uint", func() []interface{} {
			al := []uint{0, 1, 0x7f, 0x80, 0x100, 1<<64 - 1}
			var o []interface{}
			var rec func(cur []uint)
			rec = func(cur []uint) {
				o = append(o, append([]uint{}, cur...))
				if len(cur) == 3 {
					return
				}
				for _, a := range al {
					rec(append(cur, a))
				}
			}
			rec(nil)
			for _, n := range []int{55, 56, 57, 255, 256, 300} {
				l := make([]uint, n)
				o = append(o, l)
				l2 := make([]uint, n)
				for i := range l2 {
					l2[i] = 0x80
				}
				o = append(o, l2)
			}
			return o
		}},
		{"[][]byte", func() []interface{} {
			var o []interface{}
			var rec func(cur [][]byte)
			rec = func(cur [][]byte) {
				o = append(o, append([][]byte{}, cur...))
				if len(cur) == 3 {
					return
				}
				for _, a := range smallBytes {
					rec(append(cur, a))
				}
			}
			rec(nil)
			return o
		}},
		{"[2]uint16", func() []interface{} {
			al := []uint16{0, 1, 0x7f, 0x80, 0xff, 0x100, 0xffff}
			var o []interface{}
			for _, a := range al {
				for _, b := range al {
					o = append(o, [2]uint16{a, b})
				}
			}
			return o
		}},
		{"RawValue", func() []interface{} {
			var o []interface{}
			for _, it := range itemTrees() {
				o = append(o, rlp.RawValue(it.Encode()))
			}
			return o
		}},
		{"interface{}", func() []interface{} {
			var o []interface{}
			for _, it := range itemTrees() {
				o = append(o, itemToIface(it))
			}
			return o
		}},
		{"tailS", func() []interface{} {
			var o []interface{}
			for _, a := range []uint8{0, 1, 0x7f, 0x80, 0xff} {
				for _, b := range smallBytes {
					for _, t := range [][]uint{{}, {0}, {1}, {0x80}, {0, 0}, {1, 0x100}, {1<<64 - 1, 0, 0x7f}} {
						o = append(o, tailS{A: a, B: b, T: t})
					}
				}
			}
			return o
		}},
		{"ignS", func() []interface{} {
			var o []interface{}
			for _, a := range []uint8{0, 1, 0x80} {
				for _, b := range []uint16{0, 0x7f, 0x80, 0x100, 0xffff} {
					o = append(o, ignS{A: a, B: b})
				}
			}
			return o
		}},
		{"nilBoth", func() []interface{} {
			var o []interface{}
			for _, a := range []uint8{0, 1, 0x80} {
				for _, p := range addrs {
					for _, q := range []*inner{nil, {0}, {1}, {0x80}} {
						for _, z := range []uint8{0, 0x7f, 0xff} {
							o = append(o, nilBoth{A: a, P: p, Q: q, Z: z})
						}
					}
				}
			}
			return o
		}},
		{"nilB1S", func() []interface{} {
			o := []interface{}{nilB1S{}}
			for i := 0; i < 256; i++ {
				o = append(o, nilB1S{P: &b1{byte(i)}})
			}
			return o
		}},
		{"pairB1", func() []interface{} {
			var o []interface{}
			al := []byte{0x00, 0x01, 0x7f, 0x80, 0xff}
			for _, a := range al {
				for _, b := range al {
					o = append(o, pairB1{b1{a}, b1{b}})
				}
			}
			return o
		}},
		{"account.Account", func() []interface{} {
			var o []interface{}
			roots := []common.Hash{{}, {0: 1}, {31: 1}, common.BytesToHash(rep(0xff, 32))}
			for _, n := range uints(64) {
				for _, r := range roots {
					for _, h := range [][]byte{{}, {0x00}, {0x7f}, {0x80}, rep(0xc5, 32), rep(0x00, 32)} {
						o = append(o, account.Account{Nonce: n, Root: r, NFTSetDefinitionHash: h})
					}
				}
			}
			return o
		}},
		{"eth_tx.Transaction", func() []interface{} {
			var o []interface{}
			nums := []*big.Int{big.NewInt(0), big.NewInt(1), big.NewInt(0x7f), big.NewInt(0x80), big.NewInt(1000000000),
				new(big.Int).Lsh(big.NewInt(1), 64), new(big.Int).Sub(new(big.Int).Lsh(big.NewInt(1), 256), big.NewInt(1))}
			sigs := [][]byte{nil, cat(rep(0x00, 31), []byte{1}, rep(0x00, 31), []byte{1}, []byte{0}),
				cat(rep(0xff, 32), rep(0x7f, 32), []byte{1}), cat(rep(0x00, 16), rep(0x80, 16), rep(0x00, 31), []byte{0x80}, []byte{10})}
			for _, nonce := range []uint64{0, 1, 0x80, 1<<64 - 1} {
				for _, price := range nums {
					for _, gas := range []uint64{0, 21000, 1 << 63} {
						for _, to := range addrs {
							for _, amount := range nums {
								for _, data := range [][]byte{nil, {0x00}, {0x7f}, {0x80}, rep(0xab, 56)} {
									for _, sg := range sigs {
										var tx *eth_tx.Transaction
										if to == nil {
											tx = eth_tx.NewContractCreation(nonce, amount, gas, price, data)
										} else {
											tx = eth_tx.NewTransaction(nonce, *to, amount, gas, price, data)
										}
										if sg != nil {
											tx, _ = tx.WithSignature(eth_tx.FrontierSigner{}, sg)
										}
										o = append(o, tx)
									}
								}
							}
						}
					}
				}
			}
			return o
		}},
	}
}

// itemTrees: every tree of depth <= 3 with <= 2 children per list over a small
// leaf alphabet, plus a few wide/long ones.
func itemTrees() []*refrlp.Item {
	leaves := []*refrlp.Item{refrlp.S(nil), refrlp.S([]byte{0}), refrlp.S([]byte{0x7f}), refrlp.S([]byte{0x80}), refrlp.S([]byte{0xab, 0xcd}), refrlp.S(rep(0xab, 56))}
	level := append([]*refrlp.Item{}, leaves...)
	all := append([]*refrlp.Item{}, leaves...)
	for d := 0; d < 2; d++ {
		var next []*refrlp.Item
		next = append(next, refrlp.L())
		for _, a := range level {
			next = append(next, refrlp.L(a))
		}
		lim := level
		if len(lim) > 40 {
			lim = lim[:40]
		}
		for _, a := range lim {
			for _, b := range lim {
				next = append(next, refrlp.L(a, b))
			}
		}
		all = append(all, next...)
		level = append(append([]*refrlp.Item{}, leaves...), next...)
	}
	wide := refrlp.L()
	for i := 0; i < 60; i++ {
		wide.Elems = append(wide.Elems, refrlp.S([]byte{byte(i)}))
	}
	all = append(all, wide, refrlp.L(wide, wide), refrlp.L(refrlp.L(refrlp.L(refrlp.L(refrlp.L())))))
	return all
}

func itemToIface(it *refrlp.Item) interface{} {
	if !it.IsList {
		return append([]byte{}, it.Str...)
	}
	out := make([]interface{}, 0, len(it.Elems))
	for _, e := range it.Elems {
		out = append(out, itemToIface(e))
	}
	return out
}
