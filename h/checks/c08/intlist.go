package main

// Long-string elements against integer-like element types in list contexts.
//
// For every element type T in {uint8..uint64, uint, *big.Int, bool, [1]byte,
// [4]byte, [20]byte} and every context {bare T, []T, struct{A,B T},
// struct{A T; Tail []T `rlp:"tail"`}}: string elements with every b8/b9/ba
// header form and lengths L in {w+1, 255, 256, 256+n, 512+n, 65536+n : n in
// 0..w+1} (w = byte width of T) with the FULL payload present; payloads whose
// tail would itself parse as further canonical elements (0x01.., 0x80.., ff 01..)
// and payloads whose tail would not (0x00.., 0xff..).  The context types are
// built with reflect.SliceOf / reflect.StructOf, the schemas alongside.
// Oracles are the ordinary ones of checkDecode (accepted => re-encoding equals
// the input, accept/reject agrees with the reference) plus Stream.Decode /
// Stream.Uint on the bare element and a List/Uint.../ListEnd walk.

import (
	"bytes"
	"fmt"
	"io"
	"math/big"
	"reflect"

	"verif/h/fw"
	"verif/h/refrlp"

	"com.tuntun.rangers/node/src/storage/rlp"
)

type elemT struct {
	name   string // name of the bare target in targets
	typ    reflect.Type
	schema *refrlp.Schema
	width  int
	noList bool // []T is not a list of T ([]uint8 is a byte string) or deliberately not built
}

func elemTypes() []elemT {
	return []elemT{
		{"uint8", reflect.TypeOf(uint8(0)), refrlp.Uint(8), 1, true},
		{"uint16", reflect.TypeOf(uint16(0)), refrlp.Uint(16), 2, false},
		{"uint32", reflect.TypeOf(uint32(0)), refrlp.Uint(32), 4, false},
		{"uint64", reflect.TypeOf(uint64(0)), refrlp.Uint(64), 8, false},
		{"uint", reflect.TypeOf(uint(0)), sUint, 8, false},
		{"*big.Int", reflect.TypeOf((*big.Int)(nil)), refrlp.BigInt(), 8, false},
		{"bool", reflect.TypeOf(false), refrlp.Bool(), 1, false},
		{"[1]byte", reflect.TypeOf(b1{}), refrlp.ByteArray(1), 1, true},
		{"[4]byte", reflect.TypeOf(b4{}), refrlp.ByteArray(4), 4, false},
		{"[20]byte", reflect.TypeOf(b20{}), refrlp.ByteArray(20), 20, false},
	}
}

type elemCtx struct {
	e                 elemT
	bare              *target
	slice, pair, tail *target // slice/tail nil when e.noList
}

var elemCtxs []elemCtx

func initElemCtxs() {
	mkOf := func(t reflect.Type) func() interface{} {
		return func() interface{} { return reflect.New(t).Interface() }
	}
	reg := func(t *target) *target { targetByName[t.name] = t; return t }
	for _, e := range elemTypes() {
		c := elemCtx{e: e, bare: targetByName[e.name]}
		pairT := reflect.StructOf([]reflect.StructField{{Name: "A", Type: e.typ}, {Name: "B", Type: e.typ}})
		c.pair = reg(&target{name: "pair<" + e.name + ">", class: "struct", mk: mkOf(pairT), schema: refrlp.Struct(e.schema, e.schema), fromGo: true})
		if !e.noList {
			sl := reflect.SliceOf(e.typ)
			c.slice = reg(&target{name: "[]<" + e.name + ">", class: "list", mk: mkOf(sl), schema: refrlp.ListOf(e.schema), fromGo: true})
			tailT := reflect.StructOf([]reflect.StructField{{Name: "A", Type: e.typ}, {Name: "Tail", Type: sl, Tag: `rlp:"tail"`}})
			c.tail = reg(&target{name: "tail<" + e.name + ">", class: "struct", mk: mkOf(tailT), schema: refrlp.StructTail(e.schema, e.schema), fromGo: true})
		}
		elemCtxs = append(elemCtxs, c)
	}
}

func elemLengths(w int) []int {
	out := []int{w + 1, 255, 256}
	for _, base := range []int{256, 512, 65536} {
		for n := 0; n <= w+1; n++ {
			out = append(out, base+n)
		}
	}
	seen := map[int]bool{}
	var ded []int
	for _, l := range out {
		if !seen[l] {
			seen[l] = true
			ded = append(ded, l)
		}
	}
	return ded
}

// elemPayloads: full payloads of length n.
func elemPayloads(n int) [][]byte {
	ff01 := rep(0x01, n)
	ff01[0] = 0xff
	return [][]byte{rep(0x01, n), ff01, rep(0x80, n), rep(0x00, n), rep(0xff, n)}
}

// forEachIntElem enumerates (context target, input, bare) for the family.
func forEachIntElem(f func(c elemCtx, t *target, in []byte, bare bool) bool) {
	for _, c := range elemCtxs {
		for _, L := range elemLengths(c.e.width) {
			var heads [][]byte
			for k := 1; k <= 3; k++ {
				if L < 1<<(8*uint(k)) {
					heads = append(heads, append([]byte{0xb7 + byte(k)}, be(uint64(L), k)...))
				}
			}
			for _, h := range heads {
				for _, p := range elemPayloads(L) {
					elem := cat(h, p)
					if !f(c, c.bare, elem, true) {
						return
					}
					one := []byte{0x01}
					type asm struct {
						t  *target
						in []byte
					}
					cases := []asm{{c.pair, assemble([][]byte{elem})}, {c.pair, assemble([][]byte{elem, one})}, {c.pair, assemble([][]byte{one, elem})}}
					if c.slice != nil {
						cases = append(cases,
							asm{c.slice, assemble([][]byte{elem})}, asm{c.slice, assemble([][]byte{elem, one})}, asm{c.slice, assemble([][]byte{one, elem})},
							asm{c.tail, assemble([][]byte{elem})}, asm{c.tail, assemble([][]byte{elem, one})}, asm{c.tail, assemble([][]byte{one, elem})}, asm{c.tail, assemble([][]byte{one, one, elem})})
					}
					for _, a := range cases {
						if !f(c, a.t, a.in, false) {
							return
						}
					}
				}
			}
		}
	}
}

// checkStreamElem: one bare value on a limited Stream, through Stream.Decode into
// the element type and through Stream.Uint.  "Accepted" means: returned without
// error AND the stream is at EOF afterwards (the whole value was consumed).
func checkStreamElem(t *target, in []byte) (fs []finding) {
	add := func(sig, msg string) { fs = append(fs, finding{sig, "stream-elem", msg}) }
	reason := t.schema.Accept(in)
	if reason != refrlp.RTrailing {
		ptr := t.mk()
		var derr, kerr error
		if p, v, site := fw.Try(func() {
			s := rlp.NewStream(bytes.NewReader(in), uint64(len(in)))
			if derr = s.Decode(ptr); derr == nil {
				_, _, kerr = s.Kind()
			}
		}); p {
			add("C08:panic:"+site, fmt.Sprintf("Stream.Decode(%s, *%s) panicked: %v", short(in), t.name, v))
		} else {
			switch {
			case derr == nil && reason != "":
				add("C08:stream:accept-invalid:"+sigReason(reason, t.class), fmt.Sprintf("Stream.Decode(%s, *%s) returned %s (next Kind() err=%v), reference: %s", short(in), t.name, render(ptr), kerr, reason))
			case derr == nil && kerr != io.EOF:
				add("C08:stream:value-not-consumed:"+t.class, fmt.Sprintf("Stream.Decode(%s, *%s) returned %s and left part of the value in the stream: next Kind() err=%v", short(in), t.name, render(ptr), kerr))
			case derr != nil && reason == "":
				add("C08:stream:reject-valid:"+t.class, fmt.Sprintf("Stream.Decode(%s, *%s) = %v, reference accepts", short(in), t.name, derr))
			}
		}
	}
	// Stream.Uint()
	ureason := refrlp.Uint(64).Accept(in)
	if ureason != refrlp.RTrailing {
		var u uint64
		var uerr, kerr error
		if p, v, site := fw.Try(func() {
			s := rlp.NewStream(bytes.NewReader(in), uint64(len(in)))
			if u, uerr = s.Uint(); uerr == nil {
				_, _, kerr = s.Kind()
			}
		}); p {
			add("C08:panic:"+site, fmt.Sprintf("Stream.Uint(%s) panicked: %v", short(in), v))
		} else {
			switch {
			case uerr == nil && ureason != "":
				add("C08:stream-uint:accept-invalid:"+ureason, fmt.Sprintf("Stream.Uint(%s) = %d (next Kind() err=%v), reference: %s", short(in), u, kerr, ureason))
			case uerr == nil && kerr != io.EOF:
				add("C08:stream-uint:value-not-consumed", fmt.Sprintf("Stream.Uint(%s) = %d and left part of the value in the stream: next Kind() err=%v", short(in), u, kerr))
			case uerr != nil && ureason == "":
				add("C08:stream-uint:reject-valid", fmt.Sprintf("Stream.Uint(%s) = %v, reference accepts", short(in), uerr))
			case uerr == nil:
				if it, r := refrlp.Parse(in); r == "" && new(big.Int).SetBytes(it.Str).Uint64() != u {
					add("C08:stream-uint:value-differs", fmt.Sprintf("Stream.Uint(%s) = %d", short(in), u))
				}
			}
		}
	}
	return
}

// checkStreamUintList walks a list with List / Uint... / ListEnd and compares with
// the reference for []uint64.
func checkStreamUintList(in []byte) (fs []finding) {
	reason := refrlp.ListOf(refrlp.Uint(64)).Accept(in)
	if reason == refrlp.RTrailing {
		return
	}
	var vals []uint64
	var err, kerr error
	if p, v, site := fw.Try(func() {
		s := rlp.NewStream(bytes.NewReader(in), uint64(len(in)))
		if _, err = s.List(); err != nil {
			return
		}
		for {
			var u uint64
			if u, err = s.Uint(); err != nil {
				break
			}
			vals = append(vals, u)
		}
		if err != rlp.EOL {
			return
		}
		if err = s.ListEnd(); err == nil {
			_, _, kerr = s.Kind()
		}
	}); p {
		return []finding{{"C08:panic:" + site, "stream-elem", fmt.Sprintf("List/Uint/ListEnd walk of %s panicked: %v", short(in), v)}}
	}
	ok := err == nil && kerr == io.EOF
	if ok != (reason == "") {
		if ok {
			return []finding{{"C08:stream-uint-list:accept-invalid:" + reason, "stream-elem", fmt.Sprintf("List/Uint.../ListEnd walk of %s returns %d integers, reference: %s", short(in), len(vals), reason)}}
		}
		return []finding{{"C08:stream-uint-list:reject-valid", "stream-elem", fmt.Sprintf("List/Uint.../ListEnd walk of %s fails (%v, %v), reference accepts", short(in), err, kerr)}}
	}
	if ok {
		it := refrlp.L()
		for _, u := range vals {
			it.Elems = append(it.Elems, refrlp.U(u))
		}
		if !bytes.Equal(it.Encode(), in) {
			return []finding{{"C08:stream-uint-list:value-differs", "stream-elem", fmt.Sprintf("List/Uint.../ListEnd walk of %s returns %v", short(in), vals)}}
		}
	}
	return
}
