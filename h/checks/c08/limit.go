package main

// Limited multi-value Stream family: one rlp.Stream with an input limit L over
// a reader that holds MORE than L bytes; 2..3 consecutive top-level values are
// read from it, for every limit position 1..len(values).
//
// Oracles ("never reads past the declared input"):
//   - the reader's consumed byte count never exceeds L;
//   - a value that lies entirely inside the limit decodes to what the reference says;
//   - a value whose encoding crosses the limit is rejected, never returned;
//   - when the limit is exhausted exactly at a value boundary the next read is io.EOF.

import (
	"bytes"
	"fmt"
	"io"

	"verif/h/fw"
	"verif/h/refrlp"

	"com.tuntun.rangers/node/src/storage/rlp"
)

// countingReader is an io.Reader + io.ByteReader that records consumption.
type countingReader struct {
	data []byte
	pos  int
}

func (r *countingReader) Read(p []byte) (int, error) {
	if r.pos >= len(r.data) {
		return 0, io.EOF
	}
	n := copy(p, r.data[r.pos:])
	r.pos += n
	return n, nil
}

func (r *countingReader) ReadByte() (byte, error) {
	if r.pos >= len(r.data) {
		return 0, io.EOF
	}
	b := r.data[r.pos]
	r.pos++
	return b, nil
}

type limVal struct {
	name string
	enc  []byte
	t    *target // matching typed target
}

func limAlphabet() []limVal {
	return []limVal{
		{"byte", []byte{0x05}, targetByName["uint8"]},
		{"empty-string", []byte{0x80}, targetByName["[]byte"]},
		{"short-string", []byte{0x82, 0xab, 0xcd}, targetByName["[]byte"]},
		{"long-string", cat([]byte{0xb8, 56}, rep(0xab, 56)), targetByName["[]byte"]},
		{"empty-list", []byte{0xc0}, targetByName["[]uint"]},
		{"list-1", []byte{0xc1, 0x05}, targetByName["[]uint"]},
		{"list-2", []byte{0xc2, 0x05, 0x06}, targetByName["[]uint"]},
		{"struct", []byte{0xc3, 0x01, 0x81, 0x80}, targetByName["ignS"]},
		{"nested-list", []byte{0xc3, 0xc2, 0x01, 0x02}, targetByName["[][]uint8list"]},
	}
}

var limModes = []string{"decode", "walk", "raw", "primitive"}

// readOne reads one top-level value from s in the given mode and returns the
// canonical encoding of what it got (nil + error when the read failed).
func readOne(s *rlp.Stream, v limVal, mode int) ([]byte, error) {
	switch mode {
	case 0: // typed Decode into the matching target
		ptr := v.t.mk()
		if err := s.Decode(ptr); err != nil {
			return nil, err
		}
		it, ok := refrlp.FromGo(ptr)
		if !ok {
			return nil, fmt.Errorf("harness: target %s not modelled", v.t.name)
		}
		return it.Encode(), nil
	case 2: // Raw
		return s.Raw()
	case 3: // primitive accessors: Uint for the single byte, Bytes for strings, List/.../ListEnd by hand for lists
		k, _, err := s.Kind()
		if err != nil {
			return nil, err
		}
		switch {
		case k == rlp.Byte:
			u, err := s.Uint()
			if err != nil {
				return nil, err
			}
			return refrlp.U(u).Encode(), nil
		case k == rlp.String:
			b, err := s.Bytes()
			if err != nil {
				return nil, err
			}
			return refrlp.S(b).Encode(), nil
		}
		if _, err := s.List(); err != nil {
			return nil, err
		}
		it := refrlp.L()
		for {
			raw, err := s.Raw()
			if err == rlp.EOL {
				break
			}
			if err != nil {
				return nil, err
			}
			e, r := refrlp.Parse(raw)
			if r != "" {
				return nil, fmt.Errorf("Raw() inside list returned %x: %s", raw, r)
			}
			it.Elems = append(it.Elems, e)
		}
		if err := s.ListEnd(); err != nil {
			return nil, err
		}
		return it.Encode(), nil
	}
	// 1: Kind/List/Bytes/ListEnd walk
	it, err := streamTree(s)
	if err != nil {
		return nil, err
	}
	return it.Encode(), nil
}

// checkLimit runs one (sequence, limit, mode) case.
func checkLimit(seq []int, limit, mode int) (fs []finding) {
	add := func(sig, msg string) { fs = append(fs, finding{sig, "limit", msg}) }
	al := limAlphabet()
	var data []byte
	var ends []int
	var names []string
	for _, i := range seq {
		data = append(data, al[i].enc...)
		ends = append(ends, len(data))
		names = append(names, al[i].name)
	}
	// the reader goes on with further well-formed values beyond anything the limit covers
	full := append(append([]byte{}, data...), 0x05, 0x82, 0xab, 0xcd, 0xc1, 0x05, 0x80, 0x80)
	rd := &countingReader{data: full}
	desc := fmt.Sprintf("values %v (%s), reader holds %d bytes, Stream limit %d, mode %s", names, short(data), len(full), limit, limModes[mode])
	var msg string
	var sig string
	if p, pv, site := fw.Try(func() {
		s := rlp.NewStream(rd, uint64(limit))
		start := 0
		for vi, i := range seq {
			end := ends[vi]
			got, err := readOne(s, al[i], mode)
			if rd.pos > limit {
				sig, msg = "C08:stream-limit:overread", fmt.Sprintf("%s: after reading value #%d the reader has been consumed up to byte %d", desc, vi, rd.pos)
				return
			}
			switch {
			case end <= limit: // entirely inside
				if err != nil {
					sig, msg = "C08:stream-limit:reject-inside-limit", fmt.Sprintf("%s: value #%d (bytes %d..%d) lies inside the limit but was rejected: %v", desc, vi, start, end, err)
					return
				}
				if !bytes.Equal(got, al[i].enc) {
					sig, msg = "C08:stream-limit:value-differs", fmt.Sprintf("%s: value #%d read as %x, want %x", desc, vi, got, al[i].enc)
					return
				}
			case start >= limit: // limit exhausted exactly at a boundary
				if err != io.EOF {
					sig, msg = "C08:stream-limit:no-eof", fmt.Sprintf("%s: the limit ends before value #%d but reading it gave (%x, %v) instead of io.EOF", desc, vi, got, err)
				}
				return
			default: // crosses the limit
				if err == nil {
					sig, msg = "C08:stream-limit:value-past-limit-returned", fmt.Sprintf("%s: value #%d (bytes %d..%d) crosses the limit but was returned: %x", desc, vi, start, end, got)
				}
				return
			}
			start = end
		}
		// all values fitted; limit == end of the last one here only if limit == len(data)
		if limit == len(data) {
			got, err := readOne(s, al[seq[0]], mode)
			if rd.pos > limit {
				sig, msg = "C08:stream-limit:overread", fmt.Sprintf("%s: reading beyond the exhausted limit consumed the reader up to byte %d", desc, rd.pos)
			} else if err != io.EOF {
				sig, msg = "C08:stream-limit:no-eof", fmt.Sprintf("%s: the limit is exhausted but one more read gave (%x, %v) instead of io.EOF", desc, got, err)
			}
		}
	}); p {
		add("C08:panic:"+site, fmt.Sprintf("%s: panic %v", desc, pv))
		return
	}
	if sig != "" {
		add(sig, msg)
	}
	return
}

// forEachLimitCase enumerates every sequence of 2..3 alphabet values.
func forEachLimitSeq(f func(seq []int) bool) {
	n := len(limAlphabet())
	for a := 0; a < n; a++ {
		for b := 0; b < n; b++ {
			if !f([]int{a, b}) {
				return
			}
			for c := 0; c < n; c++ {
				if !f([]int{a, b, c}) {
					return
				}
			}
		}
	}
}

func limitSeqLen(seq []int) int {
	al := limAlphabet()
	n := 0
	for _, i := range seq {
		n += len(al[i].enc)
	}
	return n
}
