package main

// Reader-behaviour dimension: the decoder is driven through rlp.Decode / Stream
// over readers that deliver the same bytes in different legal ways, and must give
// the verdict and the value DecodeBytes gives on those bytes.
//
//	reader kind : *bytes.Reader | plain io.Reader (Stream adds its own bufio) | io.Reader + io.ByteReader
//	chunking    : full reads | one byte per Read | short reads cycling 1..3 bytes |
//	              full reads with the last data returned together with io.EOF |
//	              short reads with data+io.EOF | 2-byte reads with a (0, nil) read in between
//	input limit : exact | 0 (unlimited; rlp.Decode) | larger than the data
//
// In particular every strict prefix of a valid encoding must be rejected with an
// error (never a fabricated value), and a complete value must be accepted no matter
// how the reader slices it.

import (
	"bytes"
	"fmt"
	"io"

	"verif/h/fw"

	"com.tuntun.rangers/node/src/storage/rlp"
)

const (
	chFull = iota
	chOne
	chShort
	chFullDataErr
	chShortDataErr
	chZeroNil
	nChunk
)

var chunkNames = []string{"full reads", "one byte per Read", "short reads 1..3", "full reads, last data with io.EOF", "short reads 1..3, last data with io.EOF", "2-byte reads with (0,nil) in between"}

type chunkReader struct {
	data  []byte
	pos   int
	mode  int
	calls int
}

func (r *chunkReader) Read(p []byte) (int, error) {
	if len(p) == 0 {
		return 0, nil
	}
	r.calls++
	if r.mode == chZeroNil && r.calls%2 == 1 {
		return 0, nil
	}
	if r.pos >= len(r.data) {
		return 0, io.EOF
	}
	n := len(p)
	switch r.mode {
	case chOne:
		n = 1
	case chShort, chShortDataErr:
		n = 1 + r.calls%3
	case chZeroNil:
		n = 2
	}
	if n > len(p) {
		n = len(p)
	}
	if rem := len(r.data) - r.pos; n > rem {
		n = rem
	}
	copy(p, r.data[r.pos:r.pos+n])
	r.pos += n
	if (r.mode == chFullDataErr || r.mode == chShortDataErr) && r.pos == len(r.data) {
		return n, io.EOF
	}
	return n, nil
}

// byteChunkReader adds ReadByte (which by contract never returns a byte together with an error).
type byteChunkReader struct{ chunkReader }

func (r *byteChunkReader) ReadByte() (byte, error) {
	if r.pos >= len(r.data) {
		return 0, io.EOF
	}
	b := r.data[r.pos]
	r.pos++
	return b, nil
}

type readerCombo struct {
	kind  int // 0 bytes.Reader, 1 plain io.Reader, 2 io.Reader+io.ByteReader
	chunk int
	limit int // 0 exact, 1 unlimited (0), 2 larger
}

func (c readerCombo) String() string {
	k := []string{"*bytes.Reader", "plain io.Reader", "io.Reader+io.ByteReader"}[c.kind]
	l := []string{"limit=len", "limit=0 (rlp.Decode)", "limit=len+5"}[c.limit]
	if c.kind == 0 {
		return k + ", " + l
	}
	return k + ", " + chunkNames[c.chunk] + ", " + l
}

var allCombos = func() (out []readerCombo) {
	for l := 0; l < 3; l++ {
		out = append(out, readerCombo{0, chFull, l})
	}
	for k := 1; k <= 2; k++ {
		for ch := 0; ch < nChunk; ch++ {
			for l := 0; l < 3; l++ {
				out = append(out, readerCombo{k, ch, l})
			}
		}
	}
	return
}()

// diagCombos: a reduced set in which every reader kind, chunking mode and limit occurs.
var diagCombos = []int{1, 3 + 1, 3 + 3*chOne + 2, 3 + 3*chShort + 0, 3 + 3*chFullDataErr + 1, 3 + 3*chShortDataErr + 2, 3 + 3*chZeroNil + 1,
	21 + 1, 21 + 3*chOne + 0, 21 + 3*chShort + 2, 21 + 3*chFullDataErr + 1, 21 + 3*chShortDataErr + 1, 21 + 3*chZeroNil + 2, 21 + 3*chFullDataErr + 2}

var nReader int64

func checkReader(t *target, in []byte, ci int) (fs []finding) {
	if len(in) == 0 {
		return
	}
	add := func(sig, msg string) { fs = append(fs, finding{sig, "reader", msg}) }
	c := allCombos[ci]
	fresh := t.mk()
	var errB error
	if p, _, _ := fw.Try(func() { errB = rlp.DecodeBytes(in, fresh) }); p {
		return // reported by checkDecode
	}
	wantOK := errB == nil || errB == rlp.ErrMoreThanOneValue
	var r io.Reader
	switch c.kind {
	case 0:
		r = bytes.NewReader(in)
	case 1:
		r = &chunkReader{data: in, mode: c.chunk}
	default:
		r = &byteChunkReader{chunkReader{data: in, mode: c.chunk}}
	}
	ptr := t.mk()
	var err, kerr error
	nReader++
	if p, v, site := fw.Try(func() {
		if c.limit == 1 {
			err = rlp.Decode(r, ptr)
			return
		}
		lim := uint64(len(in))
		if c.limit == 2 {
			lim += 5
		}
		s := rlp.NewStream(r, lim)
		if err = s.Decode(ptr); err == nil && errB == nil {
			if _, _, kerr = s.Kind(); kerr == io.EOF {
				kerr = nil
			} else if kerr == nil {
				kerr = fmt.Errorf("another value")
			}
		}
	}); p {
		add("C08:panic:"+site, fmt.Sprintf("decoding %s into *%s through %v panicked: %v", short(in), t.name, c, v))
		return
	}
	switch {
	case err == nil && !wantOK:
		reason := t.schema.Accept(in)
		add("C08:reader:accept-invalid:"+reason, fmt.Sprintf("%s decoded into *%s through [%v] is accepted as %s; DecodeBytes: %v (reference: %s)", short(in), t.name, c, render(ptr), errB, reason))
	case err != nil && wantOK:
		add("C08:reader:reject-valid:"+errSlug(err), fmt.Sprintf("%s decoded into *%s through [%v] is rejected: %v; DecodeBytes gives %s (err=%v)", short(in), t.name, c, err, render(fresh), errB))
	case err == nil:
		var e1, e2 []byte
		fw.Try(func() { e1, _ = rlp.EncodeToBytes(ptr); e2, _ = rlp.EncodeToBytes(fresh) })
		if !sameDecoded(ptr, fresh) || !bytes.Equal(e1, e2) {
			add("C08:reader:value-differs:"+t.class, fmt.Sprintf("%s decoded into *%s through [%v] gives %s, DecodeBytes gives %s", short(in), t.name, c, render(ptr), render(fresh)))
		} else if kerr != nil {
			add("C08:reader:no-eof", fmt.Sprintf("%s decoded into *%s through [%v]: after the value the stream does not report io.EOF: %v", short(in), t.name, c, kerr))
		}
	}
	return
}

// big payloads around the bufio buffer size, bare and as a struct field, with truncations.
func forEachBigReaderInput(f func(t *target, in []byte) bool) {
	for _, n := range []int{4095, 4096, 4097, 9000} {
		for _, fill := range []byte{0x01, 0xab} {
			str := cat(be16head(n), rep(fill, n))
			cases := []struct {
				t  *target
				in []byte
			}{
				{targetByName["[]byte"], str}, {targetByName["string"], str}, {targetByName["*big.Int"], str}, {targetByName["interface{}"], str},
				{targetByName["RawValue"], str}, {targetByName["uint64"], str},
				{targetByName["tailS"], assemble([][]byte{{0x01}, str, {0x05}})},
				{targetByName["[][]byte"], assemble([][]byte{str, {0x80}, str})},
				{targetByName["account.Account"], assemble([][]byte{{0x05}, cat([]byte{0xa0}, rep(0x22, 32)), str})},
			}
			for _, c := range cases {
				cuts := []int{len(c.in), len(c.in) - 1, len(c.in) / 2, 4096, 4097, 3, 5, len(c.in) - 4096}
				seen := map[int]bool{}
				for _, k := range cuts {
					if k <= 0 || k > len(c.in) || seen[k] {
						continue
					}
					seen[k] = true
					if !f(c.t, c.in[:k]) {
						return
					}
				}
			}
		}
	}
}

func be16head(n int) []byte { return []byte{0xb9, byte(n >> 8), byte(n)} }
