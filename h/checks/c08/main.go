// C08: RLP coding is canonical, lossless and total.
//
// Bounded-exhaustive input enumeration (engine E4) on the real package
// com.tuntun.rangers/node/src/storage/rlp against the strict reference codec
// verif/h/refrlp:
//
//	(i)   every byte string of length <= 3 x every target type;
//	(ii)  a grammar of longer strings: every header form x declared sizes x actual
//	      payload lengths x fillers x nesting wrappers, and single/double field
//	      substitutions in the real struct types (account record, Ethereum tx);
//	(iii) encode -> decode round trips over per-type value alphabets.
//
// Oracles: no panic; accepted => EncodeToBytes(decoded) == input; accept/reject
// agrees with refrlp; a decoded value is consumed completely and nothing past the
// declared input is read; Split / CountValues / Stream walk agree with refrlp;
// allocation for tiny inputs declaring huge sizes stays small; a Stream with an
// input limit never consumes or returns anything beyond the limit (limit.go).
package main

import (
	"bytes"
	"encoding/hex"
	"encoding/json"
	"fmt"
	"io"
	"math/big"
	"reflect"
	"regexp"
	"runtime"
	"runtime/debug"
	"sort"
	"strconv"
	"strings"
	"syscall"
	"time"

	"verif/h/fw"
	"verif/h/refrlp"

	"com.tuntun.rangers/node/src/common"
	"com.tuntun.rangers/node/src/eth_tx"
	"com.tuntun.rangers/node/src/storage/account"
	"com.tuntun.rangers/node/src/storage/rlp"
)

// ------------------------------------------------------------------ target types

type b1 [1]byte
type b4 [4]byte
type b20 [20]byte
type inner struct{ A uint8 }

type tailS struct {
	A uint8
	B []byte
	T []uint `rlp:"tail"`
}
type tailOnly struct {
	T []uint `rlp:"tail"`
}
type nilAddrS struct {
	P *common.Address `rlp:"nil"`
}
type nilB1S struct {
	P *b1 `rlp:"nil"`
}
type nilInnerS struct {
	Q *inner `rlp:"nil"`
}
type nilBoth struct {
	A uint8
	P *common.Address `rlp:"nil"`
	Q *inner          `rlp:"nil"`
	Z uint8
}
type pairB1 struct{ A, B b1 }
type ignS struct {
	A uint8
	X uint8 `rlp:"-"`
	p uint8
	B uint16
}

type target struct {
	name   string
	class  string             // coarse type class used in signatures (filled in init)
	mk     func() interface{} // fresh pointer to decode into
	schema *refrlp.Schema
	fromGo bool                                    // refrlp.FromGo models the Go type
	post   func(ptr interface{}, in []byte) string // extra value check after an accepted decode
	dirty  [][]byte                                // schema-derived fillers for the non-initial-state differential (lazy)
}

var (
	sUint    = refrlp.Uint(strconv.IntSize)
	sAddr    = refrlp.ByteArray(20)
	sInner   = refrlp.Struct(refrlp.Uint(8))
	sAccount = refrlp.Struct(refrlp.Uint(64), refrlp.ByteArray(32), refrlp.Bytes())
	sTx      = refrlp.Struct(refrlp.Uint(64), refrlp.BigInt(), refrlp.Uint(64), refrlp.OptPtr(sAddr),
		refrlp.BigInt(), refrlp.Bytes(), refrlp.BigInt(), refrlp.BigInt(), refrlp.BigInt())
)

var targets = []*target{
	{name: "uint8", mk: func() interface{} { return new(uint8) }, schema: refrlp.Uint(8), fromGo: true},
	{name: "uint16", mk: func() interface{} { return new(uint16) }, schema: refrlp.Uint(16), fromGo: true},
	{name: "uint32", mk: func() interface{} { return new(uint32) }, schema: refrlp.Uint(32), fromGo: true},
	{name: "uint64", mk: func() interface{} { return new(uint64) }, schema: refrlp.Uint(64), fromGo: true},
	{name: "uint", mk: func() interface{} { return new(uint) }, schema: sUint, fromGo: true},
	{name: "big.Int", mk: func() interface{} { return new(big.Int) }, schema: refrlp.BigInt(), fromGo: true},
	{name: "*big.Int", mk: func() interface{} { return new(*big.Int) }, schema: refrlp.BigInt(), fromGo: true},
	{name: "bool", mk: func() interface{} { return new(bool) }, schema: refrlp.Bool(), fromGo: true},
	{name: "[]byte", mk: func() interface{} { return new([]byte) }, schema: refrlp.Bytes(), fromGo: true},
	{name: "string", mk: func() interface{} { return new(string) }, schema: refrlp.Bytes(), fromGo: true},
	{name: "[1]byte", mk: func() interface{} { return new(b1) }, schema: refrlp.ByteArray(1), fromGo: true},
	{name: "[4]byte", mk: func() interface{} { return new(b4) }, schema: refrlp.ByteArray(4), fromGo: true},
	{name: "[20]byte", mk: func() interface{} { return new(b20) }, schema: sAddr, fromGo: true},
	{name: "common.Address", mk: func() interface{} { return new(common.Address) }, schema: sAddr, fromGo: true},
	{name: "*common.Address", mk: func() interface{} { return new(*common.Address) }, schema: sAddr, fromGo: true},
	{name: "[]uint", mk: func() interface{} { return new([]uint) }, schema: refrlp.ListOf(sUint), fromGo: true},
	{name: "[]uint16", mk: func() interface{} { return new([]uint16) }, schema: refrlp.ListOf(refrlp.Uint(16)), fromGo: true},
	{name: "[][]byte", mk: func() interface{} { return new([][]byte) }, schema: refrlp.ListOf(refrlp.Bytes()), fromGo: true},
	{name: "[][]uint8list", mk: func() interface{} { return new([][]uint16) }, schema: refrlp.ListOf(refrlp.ListOf(refrlp.Uint(16))), fromGo: true},
	{name: "[2]uint16", mk: func() interface{} { return new([2]uint16) }, schema: refrlp.ArrayOf(2, refrlp.Uint(16)), fromGo: true},
	{name: "RawValue", mk: func() interface{} { return new(rlp.RawValue) }, schema: refrlp.Raw()},
	{name: "[]RawValue", mk: func() interface{} { return new([]rlp.RawValue) }, schema: refrlp.ListOf(refrlp.Raw())},
	{name: "interface{}", mk: func() interface{} { return new(interface{}) }, schema: refrlp.Any(), post: postIface},
	{name: "tailS", mk: func() interface{} { return new(tailS) }, schema: refrlp.StructTail(sUint, refrlp.Uint(8), refrlp.Bytes()), fromGo: true},
	{name: "tailOnly", mk: func() interface{} { return new(tailOnly) }, schema: refrlp.StructTail(sUint), fromGo: true},
	{name: "ignS", mk: func() interface{} { return new(ignS) }, schema: refrlp.Struct(refrlp.Uint(8), refrlp.Uint(16)), fromGo: true},
	{name: "nilAddrS", mk: func() interface{} { return new(nilAddrS) }, schema: refrlp.Struct(refrlp.OptPtr(sAddr)), fromGo: true},
	{name: "nilB1S", mk: func() interface{} { return new(nilB1S) }, schema: refrlp.Struct(refrlp.OptPtr(refrlp.ByteArray(1))), fromGo: true},
	{name: "nilInnerS", mk: func() interface{} { return new(nilInnerS) }, schema: refrlp.Struct(refrlp.OptPtr(sInner)), fromGo: true},
	{name: "nilBoth", mk: func() interface{} { return new(nilBoth) }, schema: refrlp.Struct(refrlp.Uint(8), refrlp.OptPtr(sAddr), refrlp.OptPtr(sInner), refrlp.Uint(8)), fromGo: true},
	{name: "pairB1", mk: func() interface{} { return new(pairB1) }, schema: refrlp.Struct(refrlp.ByteArray(1), refrlp.ByteArray(1)), fromGo: true},
	{name: "account.Account", mk: func() interface{} { return new(account.Account) }, schema: sAccount, fromGo: true},
	{name: "eth_tx.Transaction", mk: func() interface{} { return new(eth_tx.Transaction) }, schema: sTx, post: postTx},
}

var targetByName = map[string]*target{}

// readerTargets: the targets the header grammar is driven through the reader dimension with.
var readerTargets []*target
var isReaderTarget = map[*target]bool{}

// tripleCombos: bytes.Reader unlimited, plain reader one byte per Read with a larger limit, ByteReader with data+EOF unlimited.
var tripleCombos = []int{1, 3 + 3*chOne + 2, 21 + 3*chFullDataErr + 1}

// classOf maps a target to the coarse class that appears in signatures: fine
// enough to tell defects apart, coarse enough that one defect in (say) the uint
// codec does not yield one signature per integer width.
func classOf(name string) string {
	switch name {
	case "uint8", "uint16", "uint32", "uint64", "uint":
		return "uint"
	case "big.Int", "*big.Int":
		return "bigint"
	case "[]byte", "string":
		return "bytes"
	case "[4]byte", "[20]byte", "common.Address", "*common.Address":
		return "bytearray"
	case "[]uint", "[]uint16", "[][]byte", "[][]uint8list", "[2]uint16", "[]RawValue":
		return "list"
	case "tailS", "tailOnly", "ignS":
		return "struct"
	case "nilAddrS", "nilInnerS", "nilBoth":
		return "struct-nil"
	case "pairB1", "nilB1S":
		return "struct-of-[1]byte"
	}
	return name // bool, [1]byte, RawValue, interface{}, account.Account, eth_tx.Transaction
}

func init() {
	for _, t := range targets {
		t.class = classOf(t.name)
		targetByName[t.name] = t
	}
	initElemCtxs()
	for _, n := range []string{"[]byte", "uint64", "*big.Int", "interface{}", "RawValue", "[]uint", "[][]byte", "tailS"} {
		readerTargets = append(readerTargets, targetByName[n])
		isReaderTarget[targetByName[n]] = true
	}
}

var slugRe = regexp.MustCompile(`[^a-z0-9]+`)

// errSlug turns a decoder error into a short stable token (type names dropped).
func errSlug(err error) string {
	m := err.Error()
	m = strings.TrimPrefix(m, "rlp: ")
	if i := strings.Index(m, " for "); i >= 0 {
		m = m[:i]
	}
	if i := strings.Index(m, ", decoding into"); i >= 0 {
		m = m[:i]
	}
	m = strings.Trim(slugRe.ReplaceAllString(strings.ToLower(m), "-"), "-")
	if len(m) > 48 {
		m = m[:48]
	}
	return m
}

// ------------------------------------------------------------------ helpers

type kase struct {
	Part  string `json:"part"` // decode | bytes | alloc | value | limit | stream-elem | stream-uint-list | reader
	Type  string `json:"type,omitempty"`
	In    string `json:"in,omitempty"` // packed bytes (hex with xx*N runs)
	Deep  bool   `json:"deep,omitempty"`
	Group string `json:"group,omitempty"`
	Idx   int    `json:"idx,omitempty"`
	Tho   bool   `json:"thorough,omitempty"` // tier whose value alphabet Idx refers to
	Seq   []int  `json:"seq,omitempty"`      // limit family: indices into limAlphabet
	Limit int    `json:"limit,omitempty"`
	Mode  int    `json:"mode,omitempty"`
	Combo int    `json:"combo,omitempty"` // reader family: index into allCombos
}

type finding struct{ sig, part, msg string }

// packBytes renders b as hex where runs of >= 8 equal bytes become "xx*N".
func packBytes(b []byte) string {
	var sb strings.Builder
	var lit []byte
	flush := func() {
		if len(lit) > 0 {
			if sb.Len() > 0 {
				sb.WriteByte(' ')
			}
			sb.WriteString(hex.EncodeToString(lit))
			lit = lit[:0]
		}
	}
	for i := 0; i < len(b); {
		j := i
		for j < len(b) && b[j] == b[i] {
			j++
		}
		if j-i >= 8 {
			flush()
			if sb.Len() > 0 {
				sb.WriteByte(' ')
			}
			fmt.Fprintf(&sb, "%02x*%d", b[i], j-i)
		} else {
			lit = append(lit, b[i:j]...)
		}
		i = j
	}
	flush()
	return sb.String()
}

func unpackBytes(s string) []byte {
	var out []byte
	for _, f := range strings.Fields(s) {
		if k := strings.IndexByte(f, '*'); k >= 0 {
			x, err := hex.DecodeString(f[:k])
			n, err2 := strconv.Atoi(f[k+1:])
			if err != nil || err2 != nil || len(x) != 1 {
				panic("bad packed bytes: " + f)
			}
			out = append(out, bytes.Repeat(x, n)...)
		} else {
			x, err := hex.DecodeString(f)
			if err != nil {
				panic("bad packed bytes: " + f)
			}
			out = append(out, x...)
		}
	}
	return out
}

func short(b []byte) string {
	s := packBytes(b)
	if len(s) > 160 {
		s = s[:160] + "…"
	}
	return s
}

// reasons that are specific enough to stand alone in a signature; the generic
// structural ones get the type name appended.
var specific = map[string]bool{
	refrlp.RSizeLeadZero: true, refrlp.RSizeSmall: true, refrlp.RSingleByte: true, refrlp.RIntLeadZero: true,
	refrlp.RUintOverflow: true, refrlp.RBoolValue: true, refrlp.RArrayLen: true, refrlp.RNilWrongKind: true,
}

func sigReason(reason, typ string) string {
	if specific[reason] {
		return reason
	}
	return reason + ":" + typ
}

// quickFirst: first bytes whose length-3 strings the quick tier enumerates completely.
var quickFirst = func() (m [256]bool) {
	for _, b := range []byte{0x00, 0x7f, 0x80, 0x81, 0x82, 0x83, 0xb7, 0xb8, 0xb9, 0xbf, 0xc0, 0xc1, 0xc2, 0xc3, 0xf7, 0xf8, 0xf9, 0xff} {
		m[b] = true
	}
	return
}()

var garbage = []byte{0x80, 0x80, 0x80, 0x80}

// ------------------------------------------------------------------ oracle: one (input, type)

// stats per worker
var (
	nAccepted, nRejected int64
	outcomeSeen          = map[string]bool{}
)

func noteOutcome(t *target, reason string) {
	k := t.name + ":" + reason
	if !outcomeSeen[k] {
		outcomeSeen[k] = true
	}
}

func checkDecode(t *target, in []byte, deep bool) (fs []finding) {
	add := func(sig, msg string) { fs = append(fs, finding{sig, "decode", msg}) }
	ptr := t.mk()
	var err error
	if p, v, site := fw.Try(func() { err = rlp.DecodeBytes(in, ptr) }); p {
		add("C08:panic:"+site, fmt.Sprintf("DecodeBytes(%s, *%s) panicked: %v", short(in), t.name, v))
		return
	}
	reason := t.schema.Accept(in)
	if err != nil {
		nRejected++
		if reason == "" {
			add("C08:reject-valid:"+t.class+":"+errSlug(err), fmt.Sprintf("DecodeBytes(%s, *%s) = %v but the input is the canonical encoding of a value of that type", short(in), t.name, err))
		} else {
			noteOutcome(t, reason)
		}
		if deep {
			fs = append(fs, checkDirty(t, in, ptr, err, nil)...)
		}
	} else {
		nAccepted++
		noteOutcome(t, "accept")
		var enc []byte
		var eerr error
		if p, v, site := fw.Try(func() { enc, eerr = rlp.EncodeToBytes(ptr) }); p {
			add("C08:panic:"+site, fmt.Sprintf("EncodeToBytes of the value decoded from %s into *%s panicked: %v", short(in), t.name, v))
			return
		}
		switch {
		case eerr != nil:
			add("C08:reencode-error:"+t.class, fmt.Sprintf("value decoded from %s into *%s cannot be encoded: %v", short(in), t.name, eerr))
		case !bytes.Equal(enc, in):
			r := reason
			if r == "" {
				r = "reencode-differs"
			}
			add("C08:noncanonical:"+sigReason(r, t.class), fmt.Sprintf("DecodeBytes(%s, *%s) accepted, value %s re-encodes as %s (reference: %s)", short(in), t.name, render(ptr), short(enc), orOK(reason)))
		case reason != "":
			add("C08:accept-invalid:"+sigReason(reason, t.class), fmt.Sprintf("DecodeBytes(%s, *%s) accepted (value %s) but the reference rejects: %s", short(in), t.name, render(ptr), reason))
		}
		if eerr == nil {
			fs = append(fs, checkDirty(t, in, ptr, nil, enc)...)
		}
		if reason == "" && eerr == nil {
			if t.fromGo {
				if it, ok := refrlp.FromGo(ptr); ok && !bytes.Equal(it.Encode(), in) {
					add("C08:value-differs:"+t.class, fmt.Sprintf("DecodeBytes(%s, *%s) gave %s which denotes %s, not the input", short(in), t.name, render(ptr), it))
				}
			}
			if t.post != nil {
				if m := t.post(ptr, in); m != "" {
					add("C08:value-differs:"+t.class, fmt.Sprintf("DecodeBytes(%s, *%s): %s", short(in), t.name, m))
				}
			}
		}
		// the Stream must have consumed the value completely: a following Kind() is EOF.
		p2 := t.mk()
		var kerr, derr error
		if p, v, site := fw.Try(func() {
			s := rlp.NewStream(bytes.NewReader(in), uint64(len(in)))
			derr = s.Decode(p2)
			if derr == nil {
				_, _, kerr = s.Kind()
			}
		}); p {
			add("C08:panic:"+site, fmt.Sprintf("Stream.Decode(%s, *%s) panicked: %v", short(in), t.name, v))
		} else if derr != nil {
			add("C08:stream:decode-differs:"+t.class, fmt.Sprintf("DecodeBytes accepts %s for *%s but Stream.Decode says %v", short(in), t.name, derr))
		} else if kerr != io.EOF {
			add("C08:stream:value-not-consumed:"+t.class, fmt.Sprintf("after Stream.Decode(%s, *%s) the stream is not at EOF: Kind() err=%v (a decoded value was not consumed)", short(in), t.name, kerr))
		}
	}
	if deep || err == nil {
		// never read past the declared input: same input followed by foreign bytes in the reader.
		p3 := t.mk()
		rd := bytes.NewReader(append(append([]byte{}, in...), garbage...))
		var serr error
		if len(in) > 0 {
			if p, v, site := fw.Try(func() { serr = rlp.NewStream(rd, uint64(len(in))).Decode(p3) }); p {
				add("C08:panic:"+site, fmt.Sprintf("Stream(limit=%d).Decode(%s, *%s) panicked: %v", len(in), short(in), t.name, v))
			} else {
				consumed := len(in) + len(garbage) - rd.Len()
				wantOK := err == nil || err == rlp.ErrMoreThanOneValue
				if consumed > len(in) {
					add("C08:overread:"+t.class, fmt.Sprintf("Stream with input limit %d consumed %d bytes decoding %s into *%s", len(in), consumed, short(in), t.name))
				} else if (serr == nil) != wantOK {
					add("C08:stream:limit-differs:"+t.class, fmt.Sprintf("DecodeBytes(%s,*%s)=%v but a Stream limited to the same %d bytes says %v", short(in), t.name, err, len(in), serr))
				}
			}
		}
	}
	return
}

func orOK(r string) string {
	if r == "" {
		return "accepts"
	}
	return r
}

func render(ptr interface{}) string {
	v := reflect.ValueOf(ptr).Elem().Interface()
	var s string
	switch x := v.(type) {
	case eth_tx.Transaction:
		vv, r, ss := x.RawSignatureValues()
		s = fmt.Sprintf("tx{nonce:%d price:%v gas:%d to:%v value:%v data:%x v:%v r:%v s:%v}", x.Nonce(), x.GasPrice(), x.Gas(), x.To(), x.Value(), x.Data(), vv, r, ss)
	case big.Int:
		s = x.String()
	default:
		s = fmt.Sprintf("%+v", v)
	}
	if len(s) > 200 {
		s = s[:200] + "…"
	}
	return s
}

// toItem converts what the decoder produces for interface{} targets.
func toItem(v interface{}) *refrlp.Item {
	switch x := v.(type) {
	case []byte:
		return refrlp.S(x)
	case []interface{}:
		it := refrlp.L()
		for _, e := range x {
			c := toItem(e)
			if c == nil {
				return nil
			}
			it.Elems = append(it.Elems, c)
		}
		return it
	}
	return nil
}

func postIface(ptr interface{}, in []byte) string {
	want, r := refrlp.Parse(in)
	if r != "" {
		return ""
	}
	got := toItem(*ptr.(*interface{}))
	if got == nil || !got.Equal(want) {
		return fmt.Sprintf("decoded tree %v differs from the reference tree %v", got, want)
	}
	return ""
}

func postTx(ptr interface{}, in []byte) string {
	want, r := refrlp.Parse(in)
	if r != "" || len(want.Elems) != 9 {
		return ""
	}
	tx := ptr.(*eth_tx.Transaction)
	f := want.Elems
	big := func(b []byte) *big.Int { return new(big.Int).SetBytes(b) }
	v, rr, s := tx.RawSignatureValues()
	switch {
	case tx.Nonce() != big(f[0].Str).Uint64():
		return "nonce differs"
	case tx.GasPrice().Cmp(big(f[1].Str)) != 0:
		return "gas price differs"
	case tx.Gas() != big(f[2].Str).Uint64():
		return "gas limit differs"
	case (tx.To() == nil) != (len(f[3].Str) == 0) || (tx.To() != nil && !bytes.Equal(tx.To()[:], f[3].Str)):
		return "recipient differs"
	case tx.Value().Cmp(big(f[4].Str)) != 0:
		return "value differs"
	case !bytes.Equal(tx.Data(), f[5].Str):
		return "payload differs"
	case v == nil || rr == nil || s == nil || v.Cmp(big(f[6].Str)) != 0 || rr.Cmp(big(f[7].Str)) != 0 || s.Cmp(big(f[8].Str)) != 0:
		return "signature values differ"
	}
	return ""
}

// ------------------------------------------------------------------ oracle: Split / CountValues / Stream walk

func kindName(list, single bool) rlp.Kind {
	switch {
	case list:
		return rlp.List
	case single:
		return rlp.Byte
	}
	return rlp.String
}

// splitTree validates and parses b with nothing but rlp.Split / rlp.CountValues.
func splitTree(b []byte, depth int) (*refrlp.Item, []byte, error) {
	k, content, rest, err := rlp.Split(b)
	if err != nil {
		return nil, nil, err
	}
	if k != rlp.List {
		return refrlp.S(content), rest, nil
	}
	n, cerr := rlp.CountValues(content)
	it := refrlp.L()
	c := content
	for len(c) > 0 {
		e, r2, err := splitTree(c, depth+1)
		if err != nil {
			return nil, nil, err
		}
		it.Elems = append(it.Elems, e)
		c = r2
	}
	if cerr != nil || n != len(it.Elems) {
		return nil, nil, fmt.Errorf("CountValues(%x)=%d,%v but Split finds %d values", content, n, cerr, len(it.Elems))
	}
	return it, rest, nil
}

// streamTree walks one value with the Stream API (Kind/List/Bytes/ListEnd).
func streamTree(s *rlp.Stream) (*refrlp.Item, error) {
	k, _, err := s.Kind()
	if err != nil {
		return nil, err
	}
	if k != rlp.List {
		b, err := s.Bytes()
		if err != nil {
			return nil, err
		}
		return refrlp.S(b), nil
	}
	if _, err := s.List(); err != nil {
		return nil, err
	}
	it := refrlp.L()
	for {
		e, err := streamTree(s)
		if err == rlp.EOL {
			break
		}
		if err != nil {
			return nil, err
		}
		it.Elems = append(it.Elems, e)
	}
	if err := s.ListEnd(); err != nil {
		return nil, err
	}
	return it, nil
}

func checkBytes(in []byte) (fs []finding) {
	add := func(sig, msg string) { fs = append(fs, finding{sig, "bytes", msg}) }
	want, reason := refrlp.Parse(in)

	// first-value split
	rl, rh, rs, rsingle, rr := refrlp.Header(in, true, true)
	var k rlp.Kind
	var content, rest []byte
	var err error
	if p, v, site := fw.Try(func() { k, content, rest, err = rlp.Split(in) }); p {
		add("C08:panic:"+site, fmt.Sprintf("Split(%s) panicked: %v", short(in), v))
	} else if (err == nil) != (rr == "") {
		if err == nil {
			add("C08:split:accept-invalid:"+rr, fmt.Sprintf("Split(%s) accepts, reference header parse: %s", short(in), rr))
		} else {
			add("C08:split:reject-valid", fmt.Sprintf("Split(%s) = %v, reference accepts the first value", short(in), err))
		}
	} else if err == nil {
		if k != kindName(rl, rsingle) || !bytes.Equal(content, in[rh:rh+rs]) || !bytes.Equal(rest, in[rh+rs:]) {
			add("C08:split:content", fmt.Sprintf("Split(%s) = kind %v content %x rest %x; reference: kind %v content %x rest %x", short(in), k, content, rest, kindName(rl, rsingle), in[rh:rh+rs], in[rh+rs:]))
		}
	}

	// CountValues over the whole input
	wn, wr := refrlp.CountValues(in)
	var n int
	if p, v, site := fw.Try(func() { n, err = rlp.CountValues(in) }); p {
		add("C08:panic:"+site, fmt.Sprintf("CountValues(%s) panicked: %v", short(in), v))
	} else if (err == nil) != (wr == "") || (err == nil && n != wn) {
		add("C08:countvalues:differs", fmt.Sprintf("CountValues(%s) = %d,%v; reference %d,%q", short(in), n, err, wn, wr))
	}

	// full validation through Split only
	var st *refrlp.Item
	var srest []byte
	if p, v, site := fw.Try(func() { st, srest, err = splitTree(in, 0) }); p {
		add("C08:panic:"+site, fmt.Sprintf("Split walk of %s panicked: %v", short(in), v))
	} else {
		ok := err == nil && len(srest) == 0
		switch {
		case ok && reason != "":
			add("C08:split-walk:accept-invalid:"+reason, fmt.Sprintf("recursive Split/CountValues accepts %s, reference: %s", short(in), reason))
		case !ok && reason == "":
			add("C08:split-walk:reject-valid", fmt.Sprintf("recursive Split/CountValues rejects canonical %s: %v", short(in), err))
		case ok && !st.Equal(want):
			add("C08:split-walk:content", fmt.Sprintf("recursive Split of %s gives %v, reference %v", short(in), st, want))
		}
	}

	// Stream walk
	if len(in) > 0 {
		var it *refrlp.Item
		var after error
		if p, v, site := fw.Try(func() {
			s := rlp.NewStream(bytes.NewReader(in), uint64(len(in)))
			it, err = streamTree(s)
			if err == nil {
				_, _, after = s.Kind()
			}
		}); p {
			add("C08:panic:"+site, fmt.Sprintf("Stream walk of %s panicked: %v", short(in), v))
		} else {
			ok := err == nil && after == io.EOF
			switch {
			case ok && reason != "":
				add("C08:stream-walk:accept-invalid:"+reason, fmt.Sprintf("Stream Kind/List/Bytes/ListEnd walk accepts %s, reference: %s", short(in), reason))
			case !ok && reason == "":
				add("C08:stream-walk:reject-valid", fmt.Sprintf("Stream walk rejects canonical %s: err=%v after=%v", short(in), err, after))
			case ok && !it.Equal(want):
				add("C08:stream-walk:content", fmt.Sprintf("Stream walk of %s gives %v, reference %v", short(in), it, want))
			}
		}
	}
	return
}

// ------------------------------------------------------------------ oracle: allocation

const allocLimit = 32 << 10 // bytes, for inputs shorter than 100 bytes

func allocOf(f func()) uint64 {
	var m1, m2 runtime.MemStats
	runtime.ReadMemStats(&m1)
	f()
	runtime.ReadMemStats(&m2)
	return m2.TotalAlloc - m1.TotalAlloc
}

func checkAlloc(t *target, in []byte) (fs []finding) {
	if len(in) >= 100 {
		return
	}
	var worst uint64 = 1 << 62
	for i := 0; i < 3; i++ { // the smallest of three measurements counts
		ptr := t.mk()
		var pan bool
		a := allocOf(func() {
			pan, _, _ = fw.Try(func() { rlp.DecodeBytes(in, ptr) })
		})
		if pan {
			return // reported by checkDecode
		}
		if a < worst {
			worst = a
		}
		if worst <= allocLimit {
			return
		}
	}
	return []finding{{"C08:alloc:scales-with-declared-size", "alloc",
		fmt.Sprintf("DecodeBytes(%s, *%s): %d input bytes caused %d bytes of heap allocation (limit %d)", short(in), t.name, len(in), worst, allocLimit)}}
}

// ------------------------------------------------------------------ oracle: value round trip

func checkValue(group string, v interface{}) (fs []finding) {
	add := func(sig, msg string) { fs = append(fs, finding{sig, "value", msg}) }
	class := classOf(group)
	var enc []byte
	var err error
	if p, pv, site := fw.Try(func() { enc, err = rlp.EncodeToBytes(v) }); p {
		add("C08:panic:"+site, fmt.Sprintf("EncodeToBytes(%s %s) panicked: %v", group, renderV(v), pv))
		return
	}
	if err != nil {
		add("C08:encode-error:"+class, fmt.Sprintf("EncodeToBytes(%s %s) = %v", group, renderV(v), err))
		return
	}
	var want *refrlp.Item
	if tx, ok := v.(*eth_tx.Transaction); ok {
		want = txItem(tx)
	} else if raw, ok := v.(rlp.RawValue); ok {
		want, _ = refrlp.Parse(raw)
	} else {
		want, _ = refrlp.FromGo(v)
	}
	if want != nil && !bytes.Equal(want.Encode(), enc) {
		add("C08:encode:differs-from-reference:"+class, fmt.Sprintf("EncodeToBytes(%s %s) = %s, reference encoding %s", group, renderV(v), short(enc), short(want.Encode())))
	}
	fs = append(fs, checkEncoderReuse(group, class, v, enc)...)
	var dec reflect.Value
	switch {
	case group == "interface{}":
		dec = reflect.ValueOf(new(interface{}))
	default:
		dec = reflect.New(reflect.TypeOf(v))
	}
	if p, pv, site := fw.Try(func() { err = rlp.DecodeBytes(enc, dec.Interface()) }); p {
		add("C08:panic:"+site, fmt.Sprintf("DecodeBytes(%s) of encoded %s %s panicked: %v", short(enc), group, renderV(v), pv))
		return
	}
	if err != nil {
		add("C08:reject-valid:"+class+":"+errSlug(err), fmt.Sprintf("EncodeToBytes(%s %s) = %s cannot be decoded back: %v", group, renderV(v), short(enc), err))
		return
	}
	if t := targetByName[group]; t != nil {
		p := t.mk()
		if rlp.DecodeBytes(enc, p) == nil {
			fs = append(fs, checkDirty(t, enc, p, nil, enc)...)
		}
	}
	got := dec.Elem().Interface()
	same := false
	if tx, ok := v.(*eth_tx.Transaction); ok {
		same = txItem(tx).Equal(txItem(got.(*eth_tx.Transaction)))
	} else {
		same = refrlp.EqualGo(v, got)
	}
	if !same {
		add("C08:roundtrip:value-differs:"+class, fmt.Sprintf("%s %s encodes to %s and decodes to %s", group, renderV(v), short(enc), renderV(got)))
	}
	var enc2 []byte
	if p, pv, site := fw.Try(func() { enc2, err = rlp.EncodeToBytes(got) }); p {
		add("C08:panic:"+site, fmt.Sprintf("re-encoding %s panicked: %v", renderV(got), pv))
	} else if err != nil || !bytes.Equal(enc, enc2) {
		add("C08:roundtrip:reencode-differs:"+class, fmt.Sprintf("%s %s: first encoding %s, encoding of the decoded value %s (%v)", group, renderV(v), short(enc), short(enc2), err))
	}
	return
}

func renderV(v interface{}) string {
	var s string
	switch x := v.(type) {
	case *eth_tx.Transaction:
		s = txItem(x).String()
	case *big.Int:
		s = x.String()
	default:
		s = fmt.Sprintf("%+v", v)
	}
	if len(s) > 200 {
		s = s[:200] + "…"
	}
	return s
}

func txItem(tx *eth_tx.Transaction) *refrlp.Item {
	to := refrlp.S(nil)
	if a := tx.To(); a != nil {
		to = refrlp.S(a[:])
	}
	v, r, s := tx.RawSignatureValues()
	return refrlp.L(refrlp.U(tx.Nonce()), refrlp.B(tx.GasPrice()), refrlp.U(tx.Gas()), to, refrlp.B(tx.Value()),
		refrlp.S(tx.Data()), refrlp.B(v), refrlp.B(r), refrlp.B(s))
}

// ------------------------------------------------------------------ driver

type runner struct {
	c        *fw.Ctx
	idx      int64
	nontriv  int64
	evals    int64
	samples  int
	capped   bool
	lastTick int64
	sigN     map[string]int
}

func (r *runner) mine() bool { r.idx++; return r.c.Mine(r.idx) }

func (r *runner) expired() bool {
	if r.capped {
		return true
	}
	if r.evals-r.lastTick > 2000 {
		r.lastTick = r.evals
		if r.c.Expired() {
			r.capped = true
		}
	}
	return r.capped
}

// report re-runs the failing case and records the findings that repeat.  Once a
// signature has been recorded a few times by this worker further cases with only
// such signatures are merely counted (the framework keeps 3 per signature anyway).
func (r *runner) report(k kase, fs []finding, again func() []finding) {
	if len(fs) == 0 {
		return
	}
	fresh := false
	for _, f := range fs {
		if r.sigN[f.sig] < 3 {
			fresh = true
		}
	}
	if !fresh {
		for _, f := range fs {
			r.sigN[f.sig]++
		}
		return
	}
	second := again()
	for _, f := range fs {
		for _, g := range second {
			if g.sig == f.sig {
				r.sigN[f.sig]++
				r.c.Violation(f.sig, f.part, f.msg, k)
				break
			}
		}
	}
}

func execCase(k kase) []finding {
	switch k.Part {
	case "decode":
		return checkDecode(targetByName[k.Type], unpackBytes(k.In), k.Deep)
	case "bytes":
		return checkBytes(unpackBytes(k.In))
	case "alloc":
		return checkAlloc(targetByName[k.Type], unpackBytes(k.In))
	case "limit":
		return checkLimit(k.Seq, k.Limit, k.Mode)
	case "reader":
		return checkReader(targetByName[k.Type], unpackBytes(k.In), k.Combo)
	case "stream-elem":
		return checkStreamElem(targetByName[k.Type], unpackBytes(k.In))
	case "stream-uint-list":
		return checkStreamUintList(unpackBytes(k.In))
	case "value":
		for _, g := range valueGroups(k.Tho) {
			if g.name == k.Group {
				vals := g.gen()
				if k.Idx < len(vals) {
					return checkValue(g.name, vals[k.Idx])
				}
			}
		}
	}
	return nil
}

// one input against a set of targets (+ the type-independent oracles)
func (r *runner) input(in []byte, ts []*target, deep, alloc bool) {
	wellFormed := false
	if _, reason := refrlp.Parse(in); reason == "" {
		wellFormed = true
	}
	if fs := checkBytes(in); len(fs) > 0 {
		r.report(kase{Part: "bytes", In: packBytes(in)}, fs, func() []finding { return checkBytes(in) })
	}
	r.evals++
	for _, t := range ts {
		a0 := nAccepted
		fs := checkDecode(t, in, deep)
		r.evals++
		if wellFormed || nAccepted > a0 {
			r.nontriv++
		}
		for _, f := range fs {
			if strings.HasPrefix(f.sig, "C08:panic:") {
				allocTainted = true // e.g. makeslice: len out of range
			}
		}
		if len(fs) > 0 {
			r.report(kase{Part: "decode", Type: t.name, In: packBytes(in), Deep: deep}, fs, func() []finding { return checkDecode(t, in, deep) })
		}
		if alloc {
			if fs := checkAlloc(t, in); len(fs) > 0 {
				allocTainted = true
				r.report(kase{Part: "alloc", Type: t.name, In: packBytes(in)}, fs, func() []finding { return checkAlloc(t, in) })
			}
		}
	}
}

// limitMemory keeps the worker's heap modest even when the garbage collector is
// starved of CPU (soft limit, only changes GC pacing).
func limitMemory() {
	debug.SetMemoryLimit(768 << 20)
	// last resort against a decoder that allocates fabricated sizes: far above anything a
	// healthy run maps (observed < 6 GB of address space), far below the machine
	lim := syscall.Rlimit{Cur: 24 << 30, Max: 24 << 30}
	syscall.Setrlimit(syscall.RLIMIT_AS, &lim)
}

// allocTainted is set as soon as a decode allocated in proportion to a declared
// size (or panicked on one).  From then on inputs declaring >= 2^32 bytes are not
// executed any more: a decoder with that defect would try to allocate gigabytes
// in every worker.  Every worker runs the same sentinel first, so all of them
// take the same decision.
var allocTainted bool

// sentinel: tiny inputs declaring 1 MB and 64 MB (minimal and 8-byte length
// form, bare and nested) against every target, under the allocation oracle.
func (r *runner) sentinel() {
	for _, list := range []bool{false, true} {
		for _, n := range []uint64{1 << 20, 1 << 26} {
			forms := headerForms(list, n)
			for _, h := range [][]byte{forms[0], forms[len(forms)-1]} { // minimal and 8-byte length
				for _, in := range [][]byte{h, wrap(h), wrap(append([]byte{0x01}, h...))} {
					for _, t := range targets {
						in, t := in, t
						r.evals++
						if p, _, _ := fw.Try(func() { rlp.DecodeBytes(in, t.mk()) }); p {
							allocTainted = true
							continue // the grammar phase reports the panic with its site
						}
						if fs := checkAlloc(t, in); len(fs) > 0 {
							allocTainted = true
							if r.c.Shard == 0 {
								r.report(kase{Part: "alloc", Type: t.name, In: packBytes(in)}, fs, func() []finding { return checkAlloc(t, in) })
							}
						}
					}
				}
			}
		}
	}
}

// readerTainted is set as soon as the reader dimension has produced any finding.  From
// then on inputs with a multi-byte length header are no longer decoded through streams
// without an exact input limit: a decoder that fabricates values from partial reads also
// fabricates sizes, and an unlimited Stream would try to allocate them (terabytes) in
// every worker.  Every worker runs the same sentinel first, so all take the same decision.
var readerTainted bool
var nReaderSkipped int64

func multiByteLength(in []byte) bool {
	for i := 0; i < len(in) && i < 4; i++ {
		if b := in[i]; (b >= 0xb9 && b <= 0xbf) || b >= 0xf9 {
			return true
		}
	}
	return false
}

// readers runs one (input, target) through the given reader combinations.
func (r *runner) readers(t *target, in []byte, combos []int) {
	for _, ci := range combos {
		if readerTainted && allCombos[ci].limit != 0 && multiByteLength(in) {
			nReaderSkipped++
			continue
		}
		r.evals++
		if fs := checkReader(t, in, ci); len(fs) > 0 {
			readerTainted = true
			in, ci := append([]byte{}, in...), ci
			r.report(kase{Part: "reader", Type: t.name, In: packBytes(in), Combo: ci}, fs, func() []finding { return checkReader(t, in, ci) })
		}
	}
}

// readerSentinel: small inputs without multi-byte lengths (complete values and their
// truncations) through every reader combination; run by every worker.
func (r *runner) readerSentinel() {
	ins := [][]byte{{0x81, 0x80}, {0x82, 0x61}, {0x83, 0x61, 0x62}, {0x82, 0x01, 0x00}, {0x82, 0x01}, cat([]byte{0xb8, 56}, rep(0x61, 56)),
		cat([]byte{0xb8, 56}, rep(0x61, 10)), {0xc3, 0x82, 0x61}, {0xc2, 0x81, 0x80}, {0xc3, 0x82, 0x61, 0x62}}
	for _, in := range ins {
		for _, n := range []string{"[]byte", "uint64", "*big.Int", "interface{}", "RawValue", "[][]byte"} {
			t := targetByName[n]
			for ci := range allCombos {
				fs := checkReader(t, in, ci)
				r.evals++
				if len(fs) > 0 {
					readerTainted = true
					if r.c.Shard == 0 {
						in, ci := in, ci
						r.report(kase{Part: "reader", Type: t.name, In: packBytes(in), Combo: ci}, fs, func() []finding { return checkReader(t, in, ci) })
					}
				}
			}
		}
	}
}

var everyCombo = func() (out []int) {
	for i := range allCombos {
		out = append(out, i)
	}
	return
}()

func run(c *fw.Ctx) {
	c.ConcPart() // schedule companion (checks/c08/conc): results must not depend on the interleaving
	limitMemory()
	r := &runner{c: c, sigN: map[string]int{}}
	defer func() {
		c.Eval(r.evals)
		c.NontrivialN(r.nontriv)
		c.Count("accepted_decodes", nAccepted)
		c.Count("rejected_decodes", nRejected)
		c.Count("dirty_destination_decodes", nDirty)
		c.Count("reader_dimension_decodes", nReader)
		if nReaderSkipped > 0 {
			c.Count("reader_cases_skipped_after_finding", nReaderSkipped)
		}
		keys := make([]string, 0, len(outcomeSeen))
		for k := range outcomeSeen {
			keys = append(keys, k)
		}
		sort.Strings(keys)
		for _, k := range keys {
			c.Outcome(k)
		}
	}()
	// warm the type cache so that allocation measurements see steady state
	for _, t := range targets {
		rlp.DecodeBytes([]byte{0x80}, t.mk())
		rlp.EncodeToBytes(t.mk())
	}
	r.sentinel()
	r.readerSentinel()
	// CPU time per phase, summed over workers (reporting only, never an oracle)
	t0 := cpuMs()
	phase := func(name string) {
		t1 := cpuMs()
		c.Count("cpu_ms_"+name, t1-t0)
		t0 = t1
	}

	// (i) all byte strings of length 0..2, every type, with the over-read oracle on every case
	buf := make([]byte, 0, 4)
	nstr := int64(0)
	for n := 0; n <= 2; n++ {
		total := 1 << (8 * uint(n))
		for x := 0; x < total; x++ {
			if !r.mine() {
				continue
			}
			buf = buf[:n]
			for i := 0; i < n; i++ {
				buf[i] = byte(x >> (8 * uint(n-1-i)))
			}
			r.input(buf, targets, true, false)
			for _, t := range targets {
				// every combination where the way of reading can matter (the input is a value of the type,
				// or a prefix of one for the targets that read payloads); a covering triple otherwise
				switch reason := t.schema.Accept(buf); {
				case reason == "" || n <= 1:
					r.readers(t, buf, everyCombo)
				case reason == refrlp.RTruncated && isReaderTarget[t]:
					r.readers(t, buf, everyCombo)
				default:
					r.readers(t, buf, tripleCombos)
				}
			}
			nstr++
		}
		if r.expired() {
			c.Cap("time budget during the strings of length <= 2")
			return
		}
	}
	c.Sample(map[string]string{"part": "decode", "in": "c2c105", "types": "all " + strconv.Itoa(len(targets))})
	phase("len0to2")

	// (ii-b) field substitutions in struct encodings
	nf := int64(0)
	forEachFieldSubst(c.Thorough(), func(t *target, in []byte) bool {
		if !r.mine() {
			return true
		}
		r.input(in, []*target{t, targetByName["interface{}"], targetByName["RawValue"]}, true, false)
		r.readers(t, in, diagCombos)
		nf++
		return !r.expired()
	})
	if r.capped {
		c.Cap("time budget during field substitutions")
		return
	}
	c.Count("field_substitution_inputs", nf)
	phase("fields")

	// (ii-b') reader behaviour: big payloads around the bufio buffer size and every truncation of the
	// struct base encodings, through every reader combination
	nr := int64(0)
	forEachBigReaderInput(func(t *target, in []byte) bool {
		if r.mine() {
			r.readers(t, in, everyCombo)
			nr++
		}
		return !r.expired()
	})
	for _, st := range substTargets() {
		full := assemble(st.base)
		for k := 1; k <= len(full); k++ {
			if r.mine() {
				r.readers(st.t, full[:k], everyCombo)
				nr++
			}
		}
	}
	if r.capped {
		c.Cap("time budget during the reader-behaviour family")
		return
	}
	c.Count("reader_big_and_truncation_inputs", nr)
	phase("readers")

	// (ii-c) limited multi-value streams: every sequence of 2..3 alphabet values x every limit
	// position x every read mode
	nl := int64(0)
	forEachLimitSeq(func(seq []int) bool {
		if !r.mine() {
			return true
		}
		total := limitSeqLen(seq)
		for limit := 1; limit <= total; limit++ {
			for mode := range limModes {
				r.evals++
				r.nontriv++
				nl++
				if fs := checkLimit(seq, limit, mode); len(fs) > 0 {
					seq, limit, mode := append([]int{}, seq...), limit, mode
					r.report(kase{Part: "limit", Seq: seq, Limit: limit, Mode: mode}, fs, func() []finding { return checkLimit(seq, limit, mode) })
				}
			}
		}
		return !r.expired()
	})
	if r.capped {
		c.Cap("time budget during the limited multi-value streams")
		return
	}
	c.Count("limited_stream_cases", nl)
	c.Sample(kase{Part: "limit", Seq: []int{6, 2}, Limit: 4, Mode: 0})
	phase("limit")

	// (ii-d) long-string elements against integer-like element types in list contexts
	ni := int64(0)
	forEachIntElem(func(ec elemCtx, t *target, in []byte, bare bool) bool {
		if !r.mine() {
			return true
		}
		ni++
		r.input(in, []*target{t}, len(in) < 400, false)
		if bare {
			r.evals++
			if fs := checkStreamElem(t, in); len(fs) > 0 {
				in := append([]byte{}, in...)
				r.report(kase{Part: "stream-elem", Type: t.name, In: packBytes(in)}, fs, func() []finding { return checkStreamElem(t, in) })
			}
		} else if t == ec.slice && ec.e.name == "uint64" {
			r.evals++
			if fs := checkStreamUintList(in); len(fs) > 0 {
				in := append([]byte{}, in...)
				r.report(kase{Part: "stream-uint-list", In: packBytes(in)}, fs, func() []finding { return checkStreamUintList(in) })
			}
		}
		return !r.expired()
	})
	if r.capped {
		c.Cap("time budget during the integer-element family")
		return
	}
	c.Count("int_element_inputs", ni)
	c.Sample(map[string]string{"part": "decode", "type": "[]<uint64>", "in": "f90104 b90101 ff 01*256"})
	phase("intelem")

	// (iii) value round trips
	nvals := int64(0)
	for _, g := range valueGroups(c.Thorough()) {
		vals := g.gen()
		for i, v := range vals {
			if !r.mine() {
				continue
			}
			r.evals++
			r.nontriv++
			nvals++
			if fs := checkValue(g.name, v); len(fs) > 0 {
				v := v
				r.report(kase{Part: "value", Group: g.name, Idx: i, Tho: c.Thorough()}, fs, func() []finding { return checkValue(g.name, v) })
			}
			if r.expired() {
				break
			}
		}
		if r.expired() {
			c.Cap("time budget during value round trips")
			return
		}
	}
	c.Count("value_roundtrips", nvals)
	c.Sample(kase{Part: "value", Group: "eth_tx.Transaction", Idx: 4711, Tho: c.Thorough()})
	phase("values")

	// (ii) header grammar
	ng := int64(0)
	forEachGrammar(c.Thorough(), func(in []byte, huge bool, declared uint64) bool {
		if !r.mine() {
			return true
		}
		if allocTainted && declared >= 1<<32 {
			c.Note("declared_sizes_from_2^32_skipped", "an allocation finding / panic was seen first; not executed to protect the machine")
			return true
		}
		r.input(in, targets, len(in) < 400, huge && len(in) < 100)
		// (an unlimited Stream has to trust declared sizes: inputs declaring more than 64 KB stay with DecodeBytes)
		if len(in) < 100 && declared <= 1<<16 {
			for _, t := range readerTargets {
				r.readers(t, in, diagCombos)
			}
		}
		ng++
		return !r.expired()
	})
	if r.capped {
		c.Cap("time budget during the header grammar")
		return
	}
	c.Count("grammar_inputs", ng)
	c.Sample(map[string]string{"part": "decode+alloc", "in": "c9 bf ffffffffffffffff", "types": "all"})
	phase("grammar")
	// (i) continued: byte strings of length 3.  thorough: all 2^24.  quick: every string whose
	// first byte is in quickFirst (one or more representatives of every header class: single
	// byte, short string 0..3 and 55, long string with 1, 2 and 8 length bytes, short list 0..3
	// and 55, long list with 1, 2 and 8 length bytes) x all 65536 tails.
	for x := 0; x < 1<<24; x++ {
		if !c.Thorough() && !quickFirst[byte(x>>16)] {
			x |= 0xffff // skip the whole first-byte class
			continue
		}
		if !r.mine() {
			continue
		}
		buf = buf[:3]
		buf[0], buf[1], buf[2] = byte(x>>16), byte(x>>8), byte(x)
		r.input(buf, targets, false, false)
		nstr++
		if r.expired() {
			c.Cap("time budget during the length-3 strings")
			break
		}
	}
	c.Count("byte_strings_upto3", nstr)
	phase("len3")

	// thorough: every length-4 string that is a list with a 3-byte payload (0xC3 ** ** **),
	// against the list-kind and generic targets.
	if c.Thorough() && !r.capped {
		var lts []*target
		for _, t := range targets {
			if t.schema.Accept([]byte{0x80}) == refrlp.RExpectedList || t.schema.Kind == refrlp.KAny || t.schema.Kind == refrlp.KRaw {
				lts = append(lts, t)
			}
		}
		n4 := int64(0)
		for x := 0; x < 1<<24; x++ {
			if !r.mine() {
				continue
			}
			buf = buf[:4]
			buf[0], buf[1], buf[2], buf[3] = 0xC3, byte(x>>16), byte(x>>8), byte(x)
			r.input(buf, lts, false, false)
			n4++
			if r.expired() {
				c.Cap("time budget during the length-4 lists")
				break
			}
		}
		c.Count("byte_strings_len4_lists", n4)
		c.Note("len4_list_targets", len(lts))
		phase("len4")
	}
	c.Note("types", len(targets))
	c.Note("trie_nodes", "skipped: trie.decodeNode is unexported and no verif hook exports it; its building blocks rlp.Split/SplitList/SplitString/CountValues are covered by the bytes oracle")
	c.Note("outside_bound", "byte strings of length >= 4 outside the header grammar, the field-substitution families and (thorough) the 0xC3-lists; Decode from an unbounded io.Reader; nesting deeper than 3")
}

func cpuMs() int64 {
	var ru syscall.Rusage
	syscall.Getrusage(syscall.RUSAGE_SELF, &ru)
	return (ru.Utime.Sec+ru.Stime.Sec)*1000 + int64(ru.Utime.Usec+ru.Stime.Usec)/1000
}

func replay(c *fw.Ctx, raw json.RawMessage) {
	var k kase
	if err := json.Unmarshal(raw, &k); err != nil {
		panic(err)
	}
	limitMemory()
	for _, t := range targets {
		rlp.DecodeBytes([]byte{0x80}, t.mk())
	}
	for _, f := range execCase(k) {
		c.Violation(f.sig, f.part, f.msg, k)
	}
}

func main() {
	fw.Main(fw.Check{
		ID: "C08", Level: "exploration",
		Rule: "cases = (byte string, target type) pairs, each enumerated once (distinct by construction): every byte string of length <= 2, every length-3 string " +
			"(quick: first byte in {00,7f,80,81,82,83,b7,b8,b9,bf,c0,c1,c2,c3,f7,f8,f9,ff} x all 65536 tails; thorough: all 2^24, plus all length-4 strings 0xC3****** against the list-kind targets), the header grammar " +
			"(kind x every header form x 14 declared sizes up to 2^64-1 x payload lengths {n,n-1,n+1,0,1,2} x fillers x 8 nesting wrappers) and all single and double " +
			"field substitutions (45 canonical/non-canonical field encodings) in the struct encodings of account.Account, eth_tx.Transaction and the tagged test structs, " +
			"each against the target types, plus limited multi-value Streams (every sequence of 2..3 values from a 9-value alphabet x every input-limit position x 4 read modes " +
			"over a reader holding more than the limit), long-string elements (b8/b9/ba headers, lengths w+1, 255, 256, 256+n, 512+n, 65536+n for n<=w+1, full payload, 5 fillers) " +
			"against 10 integer-like element types bare / in []T / struct{A,B T} / struct{A T; Tail []T}, the non-initial-state differential (every accepted pair is " +
			"decoded again into destinations pre-filled from two schema-derived dirty values, via DecodeBytes and via one Stream with a reused variable; " +
			"encoder: Encode/EncodeToReader/EncodeToBytes after another value), the reader-behaviour dimension (3 reader kinds x 6 chunking modes incl. data+EOF and (0,nil) " +
			"x 3 input limits = 39 combinations on every string of length <= 2 that is a value of the target or a prefix of one (a covering triple on the other rejected ones), every truncation of the struct encodings and 4095..9000-byte payloads with truncations; " +
			"a covering subset of 14 on the grammar and field-substitution inputs; verdict and value must equal DecodeBytes), and encode->decode round trips over per-type value alphabets. " +
			"Non-trivial = the input is well-formed canonical RLP (so the outcome depends on the target type) or the decoder accepted it, or a value round trip.",
		Assumptions: []string{
			"verif/h/refrlp (strict reference decoder/encoder written from the property statement) is correct",
			"runtime.MemStats.TotalAlloc deltas on the single worker goroutine measure the decoder's allocation",
			"trie node decoding is not reachable from outside its package and is skipped",
		},
		Run: run, Replay: replay,
		Budget: func(t string) time.Duration {
			if t == "thorough" {
				return 16 * time.Minute
			}
			return 100 * time.Second
		},
	})
}
