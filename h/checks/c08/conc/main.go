// Companion of C08: encoding and decoding on two goroutines (as the node does: RPC /
// transaction pool / block verification / trie hashing all use the rlp package at once,
// sharing its type cache and its encoder-buffer pool) must give each caller exactly what
// it gets alone.
package main

import (
	"bytes"
	"fmt"
	"io"
	"math/big"
	"reflect"
	"strings"

	"verif/h/conc"

	"com.tuntun.rangers/node/src/storage/rlp"
)

type inner struct{ A uint8 }

type rec struct {
	A uint64
	B *big.Int
	C string
	P *inner `rlp:"nil"`
	T []uint `rlp:"tail"`
}

type small struct {
	N uint16
	S []byte
	R rlp.RawValue
}

// codec: encode v, decode into a fresh value of the same type.
func codec(v interface{}) string {
	enc, err := rlp.EncodeToBytes(v)
	if err != nil {
		return "encode error: " + err.Error()
	}
	dec := reflect.New(reflect.TypeOf(v))
	if err := rlp.DecodeBytes(enc, dec.Interface()); err != nil {
		return fmt.Sprintf("enc=%x decode error: %v", enc, err)
	}
	return fmt.Sprintf("enc=%x dec=%v", enc, show(dec.Elem().Interface()))
}

func show(v interface{}) string {
	switch x := v.(type) {
	case *big.Int:
		return x.String()
	case rec:
		p := "nil"
		if x.P != nil {
			p = fmt.Sprint(*x.P)
		}
		return fmt.Sprintf("{%d %v %q %s %v}", x.A, x.B, x.C, p, x.T)
	}
	return fmt.Sprintf("%v", v)
}

// decodeInto decodes raw bytes (valid or not) into ptr and renders value or error.
func decodeInto(in []byte, ptr interface{}) string {
	if err := rlp.DecodeBytes(in, ptr); err != nil {
		return fmt.Sprintf("%x -> error %v", in, err)
	}
	return fmt.Sprintf("%x -> %v", in, show(reflect.ValueOf(ptr).Elem().Interface()))
}

func walk(s *rlp.Stream, sb *strings.Builder) error {
	k, size, err := s.Kind()
	if err != nil {
		return err
	}
	fmt.Fprintf(sb, "(%v %d", k, size)
	if k != rlp.List {
		b, err := s.Bytes()
		if err != nil {
			return err
		}
		fmt.Fprintf(sb, " %x)", b)
		return nil
	}
	if _, err := s.List(); err != nil {
		return err
	}
	for {
		if err := walk(s, sb); err == rlp.EOL {
			break
		} else if err != nil {
			return err
		}
	}
	sb.WriteString(")")
	return s.ListEnd()
}

// bytesOps: Split / SplitList / CountValues / Stream walk / Raw over one encoding.
func bytesOps(in []byte) string {
	var sb strings.Builder
	k, content, rest, err := rlp.Split(in)
	fmt.Fprintf(&sb, "split=%v,%x,%x,%v", k, content, rest, err)
	if k == rlp.List && err == nil {
		n, err := rlp.CountValues(content)
		fmt.Fprintf(&sb, " count=%d,%v", n, err)
	}
	s := rlp.NewStream(bytes.NewReader(in), uint64(len(in)))
	werr := walk(s, &sb)
	_, _, after := s.Kind()
	fmt.Fprintf(&sb, " walk=%v eof=%v", werr, after == io.EOF)
	raw, rerr := rlp.NewStream(bytes.NewReader(in), 0).Raw()
	fmt.Fprintf(&sb, " raw=%x,%v", raw, rerr)
	return sb.String()
}

func bigOf(hexs string) *big.Int { v, _ := new(big.Int).SetString(hexs, 16); return v }

func enc(v interface{}) string {
	b, err := rlp.EncodeToBytes(v)
	return fmt.Sprintf("enc=%x,%v", b, err)
}

// pairBody: one struct value through encode -> decode (the struct has a big integer, a
// string, a nil-tagged pointer and a tail).
func pairBody(seed byte) func() string {
	return func() string {
		v := rec{A: uint64(seed) << 40, B: bigOf("0102030405060708090a0b0c0d0e0f1011"), C: "rangers", T: []uint{0x80}}
		if seed&1 == 1 {
			v.P = &inner{A: seed}
		}
		return codec(v)
	}
}

// scalarsBody: big integer, long-form string, list of integers, a rejected input.
func scalarsBody() func() string {
	return func() string {
		var bi big.Int
		var long string
		return strings.Join([]string{enc(bigOf("ff00000000000000000000000000000000000000000000000000000000000001")),
			decodeInto(append([]byte{0xb8, 56}, bytes.Repeat([]byte{'x'}, 56)...), &long), enc([]uint64{0, 0x7f, 1 << 63}),
			decodeInto([]byte{0x82, 0x00, 0x01}, &bi)}, " | ")
	}
}

// mixedBody: raw values, interface{} target, bool, byte array, non-canonical size.
func mixedBody() func() string {
	return func() string {
		var any interface{}
		var flag bool
		var arr [4]byte
		v := small{N: 0x1234, S: []byte{0x00}, R: rlp.RawValue{0xc1, 0x05}}
		return strings.Join([]string{enc(v), decodeInto([]byte{0xc6, 0x82, 0xab, 0xcd, 0xc2, 0x01, 0x80}, &any), decodeInto([]byte{0x01}, &flag),
			decodeInto([]byte{0x84, 7, 0, 0x80, 0xff}, &arr), decodeInto([]byte{0xb8, 0x02, 1, 2}, &any)}, " | ")
	}
}

// rawBody: Split / CountValues / Stream walk / Raw over a fixed encoding, and an 8-byte integer.
func rawBody(x byte) func() string {
	return func() string {
		var u uint64
		return bytesOps([]byte{0xc6, 0x82, 0xab, x, 0xc1, 0x01, 0x80}) + " | " + decodeInto([]byte{0x88, x, 2, 3, 4, 5, 6, 7, 8}, &u)
	}
}

// fresh struct types: never seen by the type cache before this execution.
var typeSerial int

func freshType() reflect.Type {
	typeSerial++
	return reflect.StructOf([]reflect.StructField{
		{Name: fmt.Sprintf("N%d", typeSerial), Type: reflect.TypeOf(uint32(0))},
		{Name: "L", Type: reflect.TypeOf([]string(nil))},
	})
}

func freshBody(ts []reflect.Type, n uint32) func() string {
	return func() string {
		var out []string
		for i, t := range ts {
			v := reflect.New(t).Elem()
			v.Field(0).SetUint(uint64(n))
			v.Field(1).Set(reflect.ValueOf([]string{strings.Repeat("b", int(n%5))}))
			if i == 0 {
				out = append(out, codec(v.Interface()))
			} else {
				out = append(out, enc(v.Interface()))
			}
		}
		return strings.Join(out, " | ")
	}
}

// ---- run-time type lookups with never-seen types (writeInterface, encbuf.encode, Stream.Decode)

// leafType: a fresh two-field struct type {K<serial> uint16; S string}.
func leafType() reflect.Type {
	typeSerial++
	return reflect.StructOf([]reflect.StructField{
		{Name: fmt.Sprintf("K%d", typeSerial), Type: reflect.TypeOf(uint16(0))},
		{Name: "S", Type: reflect.TypeOf("")},
	})
}

// holderType: a fresh struct type with an interface{} field {H<serial> uint8; X interface{}}.
func holderType() reflect.Type {
	typeSerial++
	return reflect.StructOf([]reflect.StructField{
		{Name: fmt.Sprintf("H%d", typeSerial), Type: reflect.TypeOf(uint8(0))},
		{Name: "X", Type: reflect.TypeOf((*interface{})(nil)).Elem()},
	})
}

func leafVal(t reflect.Type, k uint16, s string) reflect.Value {
	v := reflect.New(t).Elem()
	v.Field(0).SetUint(uint64(k))
	v.Field(1).SetString(s)
	return v
}

// encAny: encode v and decode the bytes back into interface{} (type names never rendered).
func encAny(v interface{}) string {
	b, err := rlp.EncodeToBytes(v)
	if err != nil {
		return "encode error"
	}
	var back interface{}
	derr := rlp.DecodeBytes(b, &back)
	return fmt.Sprintf("enc=%x back=%x,%v", b, back, derr != nil)
}

// decFresh: decode into a fresh destination of type t (Stream.Decode's run-time lookup).
func decFresh(in []byte, t reflect.Type) string {
	p := reflect.New(t)
	if err := rlp.DecodeBytes(in, p.Interface()); err != nil {
		return fmt.Sprintf("%x -> error", in)
	}
	return fmt.Sprintf("%x -> %v", in, p.Elem().Interface())
}

// elemBody: []interface{}{v} with v of type t.
func elemBody(t reflect.Type, k uint16) func() string {
	return func() string {
		return encAny([]interface{}{leafVal(t, k, "ab").Interface()})
	}
}

// fieldNestedBody: a (fresh) struct with an interface{} field holding a fresh-typed value,
// and the nested form []interface{}{[]interface{}{v}}.
func fieldNestedBody(holder, t reflect.Type, k uint16) func() string {
	return func() string {
		h := reflect.New(holder).Elem()
		h.Field(0).SetUint(7)
		h.Field(1).Set(leafVal(t, k, "x"))
		b, err := rlp.EncodeToBytes(h.Interface())
		return fmt.Sprintf("holder=%x,%v", b, err != nil) + " | " + enc([]interface{}{[]interface{}{leafVal(t, k+1, "").Interface()}})
	}
}

// ptrArraySliceBody: pointer to a fresh type, [2]T (reflect.ArrayOf) and []T (reflect.SliceOf) inside interfaces.
func ptrArraySliceBody(t reflect.Type, k uint16) func() string {
	return func() string {
		p := reflect.New(t)
		p.Elem().Field(0).SetUint(uint64(k))
		arr := reflect.New(reflect.ArrayOf(2, t)).Elem()
		arr.Index(1).Set(leafVal(t, k, "r"))
		sl := reflect.MakeSlice(reflect.SliceOf(t), 1, 1)
		sl.Index(0).Set(leafVal(t, 0x8000, "s"))
		return enc([]interface{}{p.Interface(), arr.Interface()}) + " | " + enc([]interface{}{sl.Interface()})
	}
}

// decodeBody: decode into interface{} and into a fresh struct type.
func decodeBody(t reflect.Type) func() string {
	return func() string {
		var any interface{}
		return decodeInto([]byte{0xc5, 0x82, 0x01, 0x00, 0xc1, 0x05}, &any) + " | " + decFresh([]byte{0xc4, 0x82, 0x12, 0x34, 0x61}, t)
	}
}

// encodeTwoBody: []interface{}{value of t1, value of t2}.
func encodeTwoBody(t1, t2 reflect.Type) func() string {
	return func() string {
		return encAny([]interface{}{leafVal(t1, 0x1234, "a").Interface(), leafVal(t2, 1, "zz").Interface()})
	}
}

func main() {
	conc.Main([]conc.Scenario{
		{Name: "struct||same-struct", Mk: func() []func() string {
			return []func() string{pairBody(3), pairBody(3)}
		}},
		{Name: "scalars||mixed-types", Mk: func() []func() string {
			return []func() string{scalarsBody(), mixedBody()}
		}},
		{Name: "struct||split-count-stream", Mk: func() []func() string {
			return []func() string{pairBody(0xf0), rawBody(0x40)}
		}},
		{Name: "first-use-of-type||same-and-another-type", Mk: func() []func() string {
			t1, t2 := freshType(), freshType()
			return []func() string{freshBody([]reflect.Type{t1}, 7), freshBody([]reflect.Type{t1, t2}, 258)}
		}},
		{Name: "iface-elem-fresh-type||same-fresh-type", Mk: func() []func() string {
			t := leafType()
			return []func() string{elemBody(t, 0x0102), elemBody(t, 0x0102)}
		}},
		{Name: "iface-field+nested||ptr+array+slice-other-fresh-type", Mk: func() []func() string {
			return []func() string{fieldNestedBody(holderType(), leafType(), 0x7f), ptrArraySliceBody(leafType(), 0x80)}
		}},
		{Name: "decode-iface+fresh-struct||encode-fresh-in-iface", Mk: func() []func() string {
			t1, t2 := leafType(), leafType()
			return []func() string{decodeBody(t1), encodeTwoBody(t1, t2)}
		}},
		{Name: "encode-fresh-in-iface||decode-iface+fresh-struct", Mk: func() []func() string {
			t1, t2 := leafType(), leafType()
			return []func() string{encodeTwoBody(t1, t2), decodeBody(t1)}
		}},
	})
}
