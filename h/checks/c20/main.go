// C20: miner registry and stake accounting agree with the applied miner transactions.
//
// Explicit-state breadth-first search (E2) over histories of miner transactions
// (apply / add-stake / refund / change-account / escrow release) executed by the
// real block executor (core.VerifExecuteBlock) on a fresh state at the dev genesis,
// compared after every operation with the reference model verif/h/refminers.
//
// Two packings of a history are explored in the same search:
//   - closed: every transaction in a block of its own (IntermediateRoot between);
//   - open:   the last k transactions share one block.  The shared block is executed by
//     the real block executor (post-block oracle) and, transaction by transaction, by a
//     harness loop over the same real executors (BeforeExecute / Snapshot / Execute /
//     Revert, as VMExecutor.Execute does) to observe the state *between* the
//     transactions of a block; the loop is validated on every history by comparing its
//     final state root with the one of the real block executor.
package main

import (
	"crypto/sha256"
	"encoding/hex"
	"encoding/json"
	"fmt"
	"math"
	"math/big"
	"os"
	"regexp"
	"runtime"
	"runtime/pprof"
	"sort"
	"strconv"
	"strings"
	"time"

	"verif/h/fw"
	"verif/h/node"
	"verif/h/refminers"

	"com.tuntun.rangers/node/src/common"
	"com.tuntun.rangers/node/src/consensus/access"
	"com.tuntun.rangers/node/src/consensus/groupsig"
	"com.tuntun.rangers/node/src/core"
	"com.tuntun.rangers/node/src/executor"
	"com.tuntun.rangers/node/src/middleware/types"
	"com.tuntun.rangers/node/src/service"
	"com.tuntun.rangers/node/src/storage/account"
)

const (
	baseHeight  = 1000
	refundDelay = 36000 // refund_manager.go: refundHeight (Proposal012 active)
	situation   = "fullverify"
	farHeight   = uint64(1) << 40
)

// ---------------------------------------------------------------------------------
// universe

var (
	unit        = new(big.Int).Exp(big.NewInt(10), big.NewInt(18), nil)
	fee         = new(big.Int).Exp(big.NewInt(10), big.NewInt(15), nil) // 0.001, transaction_pool.go delta026
	minerIDs    []string                                                // hex, harness miners m1 m2
	acctHex     []string                                                // hex, harness accounts a1 a2 a3
	initBal     = map[string]*big.Int{}
	genesisIDs  []string
	allIDs      []string
	watchAccts  []string // harness accounts + fee account + accounts of genesis miners
	feeHex      string
	contractHex string             // harness account c1 (has code)
	initMulti   = map[string]int{} // accounts that control several miners at genesis
	template    *refminers.Model
	initTotal   *big.Int
	dummySign   *common.Sign
	blockTime   = time.Date(2024, 5, 1, 0, 0, 0, 0, time.UTC)
	rules       refminers.Rules
	reApplyH    = regexp.MustCompile(`"applyHeight":[0-9]+`)
)

// config: chain configuration / block height schedule under which histories run.
type config struct {
	Name       string
	P012       bool   // Proposal012 active: a refund is due at now+36000
	Base, Step uint64 // height of the first block, distance between blocks
}

var configs = map[string]config{
	// the default: all forks active, consecutive heights
	"p012": {Name: "p012", P012: true, Base: baseHeight, Step: 1},
	// Proposal012 not yet active: proposer refunds are due at the end of the reward period
	// (+ refund blocks), so refunds made in different blocks of one period share a due height
	"pre-p012": {Name: "pre-p012", P012: false, Base: baseHeight, Step: 1},
	// every block height is a multiple of the reward period: a refund falls due exactly
	// at the height of the next block, which carries transactions itself
	"period-heights": {Name: "period-heights", P012: true, Base: refundDelay, Step: refundDelay},
}

var (
	cfg      config
	orig012  uint64
	have012  bool
	never012 = uint64(1) << 62
)

func useConfig(name string) {
	if name == "" {
		name = "p012"
	}
	c, ok := configs[name]
	if !ok {
		harnessFail("unknown configuration %q", name)
	}
	if !have012 {
		orig012, have012 = common.LocalChainConfig.Proposal012Block, true
	}
	cfg = c
	if c.P012 {
		common.LocalChainConfig.Proposal012Block = orig012
	} else {
		common.LocalChainConfig.Proposal012Block = never012
	}
	template.R.Due = dueRule
}

// dueRule: learned from refund_manager.go getRefundHeight (harness validators are in no group).
func dueRule(now uint64, typ byte) uint64 {
	if cfg.P012 {
		return now + refundDelay
	}
	if typ == refminers.TypeProp {
		rb := common.GetRewardBlocks()
		return (now+rb-1)/rb*rb + common.GetRefundBlocks()
	}
	return now + common.GetRefundBlocks()*100
}

func hx(b []byte) string { return hex.EncodeToString(b) }
func unhx(s string) []byte {
	b, err := hex.DecodeString(s)
	if err != nil {
		panic(err)
	}
	return b
}
func addrOf(h string) common.Address { return common.BytesToAddress(unhx(h)) }

func harnessFail(format string, a ...interface{}) {
	fmt.Fprintf(os.Stderr, "C20 harness failure (not a verdict): "+format+"\n", a...)
	os.Exit(3)
}

func rpg(s string) *big.Int {
	r, ok := new(big.Rat).SetString(s)
	if !ok {
		panic(s)
	}
	r.Mul(r, new(big.Rat).SetInt(unit))
	return new(big.Int).Set(r.Num())
}

func setup() {
	if err := node.Boot(node.ForksAllOn, true); err != nil {
		harnessFail("boot: %v", err)
	}
	common.SetBlockHeight(baseHeight)
	for i := 1; i <= 2; i++ {
		id := make([]byte, 32)
		id[0], id[1], id[31] = 0xc2, 0x0c, byte(i)
		minerIDs = append(minerIDs, hx(id))
	}
	for i := 1; i <= 3; i++ {
		a := make([]byte, 20)
		a[0], a[1], a[19] = 0xc2, 0x0a, byte(i)
		acctHex = append(acctHex, hx(a))
	}
	// fractional .5 so that the fixed fees (0.001 each, < 500 transactions) never decide a
	// balance check: the search key may then leave fees out.
	initBal[acctHex[0]] = rpg("4400.5")
	initBal[acctHex[1]] = rpg("4400.5")
	initBal[acctHex[2]] = rpg("900.5")
	// c1: an account that carries code (account class "contract")
	ca := make([]byte, 20)
	ca[0], ca[1], ca[19] = 0xc2, 0xcc, 1
	acctHex = append(acctHex, hx(ca))
	contractHex = hx(ca)
	initBal[contractHex] = rpg("4400.5")
	feeHex = hx(common.FeeAccount.Bytes())
	sb := make([]byte, 65)
	sb[31], sb[63] = 1, 1
	dummySign = common.BytesToSign(sb)

	rules = refminers.Rules{
		MinStake:   map[byte]uint64{refminers.TypeVal: common.ValidatorStake, refminers.TypeProp: common.ProposerStake},
		Fee:        fee,
		Unit:       unit,
		ApplyDelay: common.HeightAfterStake, RefundDelay: refundDelay, FeeAccount: feeHex,
		Contract: map[string]bool{contractHex: true},
	}
	if common.MinerTypeValidator != refminers.TypeVal || common.MinerTypeProposer != refminers.TypeProp ||
		common.MinerStatusNormal != refminers.StatusNormal || common.MinerStatusAbort != refminers.StatusAbort {
		harnessFail("constants differ from the model")
	}

	// initial registry: whatever the dev genesis holds, read through the iterator and
	// cross-checked through the other lookup paths by the oracle at the root state.
	w := newWorld()
	template = refminers.New(rules)
	seenAcct := map[string]bool{}
	for _, typ := range []byte{common.MinerTypeProposer, common.MinerTypeValidator} {
		for _, r := range w.iterate(typ) {
			template.Miners[r.ID] = &refminers.Miner{ID: r.ID, Type: r.Type, Account: r.Account, Status: r.Status,
				ApplyHeight: r.ApplyHeight, PK: r.PK, VRF: r.VRF, Applied: r.Stake}
			genesisIDs = append(genesisIDs, r.ID)
			initMulti[r.Account]++
			seenAcct[r.Account] = true
		}
	}
	sort.Strings(genesisIDs)
	allIDs = append(append([]string{}, minerIDs...), genesisIDs...)
	watchAccts = append(append([]string{}, acctHex...), feeHex)
	var ga []string
	for a := range seenAcct {
		ga = append(ga, a)
	}
	sort.Strings(ga)
	watchAccts = append(watchAccts, ga...)
	for _, a := range watchAccts {
		template.Bal[a] = new(big.Int).Set(w.db.GetBalance(addrOf(a)))
	}
	initTotal = w.totalTokens()
	useConfig("p012")
}

func cloneModel(m *refminers.Model) *refminers.Model {
	c := refminers.New(m.R)
	for k, v := range m.Miners {
		x := *v
		c.Miners[k] = &x
	}
	for k, v := range m.Bal {
		c.Bal[k] = new(big.Int).Set(v)
	}
	for k, v := range m.FeesPaid {
		c.FeesPaid[k] = new(big.Int).Set(v)
	}
	cp := func(dst, src map[uint64]map[string]*big.Int) {
		for h, l := range src {
			dst[h] = map[string]*big.Int{}
			for a, v := range l {
				dst[h][a] = new(big.Int).Set(v)
			}
		}
	}
	cp(c.Escrow, m.Escrow)
	cp(c.Pending, m.Pending)
	c.Height, c.Open = m.Height, m.Open
	return c
}

// ---------------------------------------------------------------------------------
// operations

type Op struct {
	K  string `json:"k"`            // apply | add | refund | chg | release
	M  int    `json:"m"`            // harness miner index
	A  int    `json:"a,omitempty"`  // apply: account (= payer); chg: target account
	T  int    `json:"t,omitempty"`  // apply: 1 proposer, 0 validator
	S  int    `json:"s,omitempty"`  // amount class
	By int    `json:"by,omitempty"` // 0 = the miner's current account, 1 = another account
	P  int    `json:"p,omitempty"`  // apply: 1 = the stake is paid by the other of a1/a2
	KV int    `json:"kv,omitempty"` // apply: 1 = a second public key / vrf key for the same id
}

func (o Op) String() string {
	switch o.K {
	case "apply":
		return fmt.Sprintf("apply(m%d,%s,%s,%s%s)", o.M+1, acctName(o.A), []string{"validator", "proposer"}[o.T], []string{"min-1", "min", "2min"}[o.S], []string{"", ",paid by the other account"}[o.P]+[]string{"", ",other keys"}[o.KV])
	case "add":
		return fmt.Sprintf("add(m%d,%s,%s)", o.M+1, []string{"0", "1", "balance+1", "min"}[o.S], []string{"owner", "stranger"}[o.By])
	case "refund":
		return fmt.Sprintf("refund(m%d,%s,%s)", o.M+1, []string{"1", "all", "stake+1", "to-min", "exact-stake"}[o.S], []string{"owner", "stranger"}[o.By])
	case "chg":
		return fmt.Sprintf("change-account(m%d->%s,%s)", o.M+1, acctName(o.A), []string{"owner", "stranger"}[o.By])
	}
	return o.K
}

func acctName(i int) string {
	if i == 3 {
		return "c1"
	}
	return fmt.Sprintf("a%d", i+1)
}

func histString(h []Op, open int) string {
	var p []string
	for i, o := range h {
		s := o.String()
		if open >= 0 && i == open {
			s = "[" + s
		}
		p = append(p, s)
	}
	r := strings.Join(p, "; ")
	if open >= 0 {
		r += "]"
	}
	return r
}

func alphabet(thorough bool) []Op {
	var ops []Op
	for m := 0; m < 2; m++ {
		for a := 0; a < 2; a++ {
			for t := 1; t >= 0; t-- {
				for s := 0; s < 3; s++ {
					if s == 0 && a == 1 && !thorough {
						continue // below the minimum: quick tries it with a1 only
					}
					ops = append(ops, Op{K: "apply", M: m, A: a, T: t, S: s})
				}
			}
		}
	}
	// the same ids with a different public key / vrf key (and, against a record of a1 or c1,
	// a different account): a rejected one carries data that differs from the registered record
	for m := 0; m < 2; m++ {
		ops = append(ops, Op{K: "apply", M: m, A: 1, T: 0, S: 1, KV: 1})
	}
	// account class "contract": the controlling (and paying) account carries code
	for m := 0; m < 2; m++ {
		for t := 1; t >= 0; t-- {
			for s := 1; s < 3; s++ {
				if t == 1 && s == 2 && !thorough {
					continue // proposer at 2*min for c1: thorough only
				}
				ops = append(ops, Op{K: "apply", M: m, A: 3, T: t, S: s})
			}
		}
	}
	if thorough {
		for m := 0; m < 2; m++ {
			for a := 0; a < 2; a++ {
				ops = append(ops, Op{K: "apply", M: m, A: a, T: 0, S: 1, P: 1})
			}
		}
	}
	for m := 0; m < 2; m++ {
		ns, nby := 3, 1
		if thorough {
			ns, nby = 4, 2
		}
		for by := 0; by < nby; by++ {
			for s := 0; s < ns; s++ {
				ops = append(ops, Op{K: "add", M: m, S: s, By: by})
			}
		}
	}
	for m := 0; m < 2; m++ {
		ns := 3
		if thorough {
			ns = 4
		}
		for by := 0; by < 2; by++ {
			for s := 0; s < ns; s++ {
				if by == 1 && s == 3 {
					continue
				}
				ops = append(ops, Op{K: "refund", M: m, S: s, By: by})
			}
		}
		ops = append(ops, Op{K: "refund", M: m, S: 4}) // exactly the stake, by the owner
	}
	for m := 0; m < 2; m++ {
		for a := 0; a < 4; a++ {
			ops = append(ops, Op{K: "chg", M: m, A: a})
		}
		ops = append(ops, Op{K: "chg", M: m, A: 2, By: 1})
	}
	ops = append(ops, Op{K: "release"})
	return ops
}

func payer(o Op) string {
	if o.P == 1 {
		return acctHex[(o.A+1)%2]
	}
	return acctHex[o.A]
}

// owner / stranger of a harness miner according to the model (a1 if there is no record)
func actor(m *refminers.Model, id string, by int) string {
	owner := acctHex[0]
	if r := m.Miners[id]; r != nil {
		owner = r.Account
	}
	if by == 0 {
		return owner
	}
	for i, a := range acctHex[:3] {
		if a == owner {
			return acctHex[(i+1)%3]
		}
	}
	return acctHex[0]
}

// resolve turns an operation class into a concrete transaction, given the model state.
func resolve(o Op, m *refminers.Model) refminers.Tx {
	id := minerIDs[o.M]
	switch o.K {
	case "apply":
		typ := byte(o.T)
		min := rules.MinStake[typ]
		return refminers.Tx{Kind: "apply", Source: payer(o), Account: acctHex[o.A], ID: id, Type: typ,
			Amount: []uint64{min - 1, min, 2 * min}[o.S], PK: []string{"aa", "ab"}[o.KV] + id[:8], VRF: []string{"bb", "bc"}[o.KV] + id[:8]}
	case "add":
		src := actor(m, id, o.By)
		var amt uint64
		switch o.S {
		case 0:
			amt = 0
		case 1:
			amt = 1
		case 2:
			b := new(big.Int).Set(big.NewInt(0))
			if x := m.Bal[src]; x != nil {
				b.Set(x)
			}
			amt = new(big.Int).Div(b, unit).Uint64() + 1
		case 3:
			amt = rules.MinStake[refminers.TypeVal]
		}
		return refminers.Tx{Kind: "add", Source: src, ID: id, Amount: amt}
	case "refund":
		src := actor(m, id, o.By)
		stake, min := uint64(0), uint64(0)
		if r := m.Miners[id]; r != nil {
			stake, min = r.Stake(), rules.MinStake[r.Type]
		}
		var amt uint64
		switch o.S {
		case 0:
			amt = 1
		case 1:
			amt = math.MaxUint64
		case 2:
			amt = stake + 1
		case 4:
			amt = stake
		case 3:
			if stake > min {
				amt = stake - min
			} else {
				amt = stake
			}
			if amt == 0 {
				amt = 1
			}
		}
		return refminers.Tx{Kind: "refund", Source: src, ID: id, Amount: amt}
	case "chg":
		return refminers.Tx{Kind: "chg", Source: actor(m, id, o.By), ID: id, Account: acctHex[o.A]}
	}
	panic("resolve " + o.K)
}

func buildTx(t refminers.Tx, seq uint64) *types.Transaction {
	var typ int32
	var data []byte
	switch t.Kind {
	case "apply":
		typ = types.TransactionTypeMinerApply
		data, _ = json.Marshal(&types.Miner{Id: unhx(t.ID), PublicKey: unhx(t.PK), VrfPublicKey: unhx(t.VRF), Type: t.Type,
			Stake: t.Amount, Account: unhx(t.Account)})
	case "add":
		typ = types.TransactionTypeMinerAdd
		data, _ = json.Marshal(&types.Miner{Id: unhx(t.ID), Stake: t.Amount})
	case "refund":
		typ = types.TransactionTypeMinerRefund
		data, _ = json.Marshal(&executor.MinerRefundData{Amount: strconv.FormatUint(t.Amount, 10), MinerId: "0x" + t.ID})
	case "chg":
		typ = types.TransactionTypeMinerChangeAccount
		data, _ = json.Marshal(&types.Miner{Id: unhx(t.ID), Account: unhx(t.Account)})
	}
	tx := &types.Transaction{Source: "0x" + t.Source, Type: typ, Data: string(data), RequestId: seq, Nonce: seq,
		Time: strconv.FormatUint(seq, 10), Sign: dummySign}
	tx.Hash = tx.GenHash()
	return tx
}

// ---------------------------------------------------------------------------------
// the implementation side

type world struct {
	db      *account.AccountDB
	heights []uint64 // heights of executed blocks
	ctx     map[string]interface{}
	header  *types.BlockHeader
	idx     int
}

// primePK makes the id -> public key side index (a process-wide LevelDB that outlives the
// histories) start every history from the same content for the harness ids: it is written
// through the production path MinerManager.InsertMiner on a scratch state that is reverted.
var primeDB *account.AccountDB

func primePK() {
	if primeDB == nil {
		primeDB = node.LatestState()
	}
	for _, id := range minerIDs {
		snap := primeDB.Snapshot()
		if service.MinerManagerImpl.InsertMiner(&types.Miner{Id: unhx(id), PublicKey: []byte{0}, VrfPublicKey: []byte{0}, Type: common.MinerTypeValidator}, primeDB) != 1 {
			harnessFail("cannot prime the public key index")
		}
		primeDB.RevertToSnapshot(snap)
	}
}

func newWorld() *world {
	primePK()
	w := &world{db: node.LatestState()}
	for _, a := range acctHex {
		w.db.SetBalance(addrOf(a), initBal[a])
	}
	w.db.SetCode(addrOf(contractHex), []byte{0x00}) // STOP
	return w
}

func header(h uint64) *types.BlockHeader {
	return &types.BlockHeader{Height: h, CurTime: blockTime, PreTime: blockTime, ProveValue: big.NewInt(0),
		Transactions: make([]common.Hashes, 0), EvictedTxs: make([]common.Hash, 0), RequestIds: map[string]uint64{}}
}

// realBlock runs the block executor; it returns the root and one accept flag per transaction.
func (w *world) realBlock(h uint64, txs []*types.Transaction) (common.Hash, []bool) {
	common.SetBlockHeight(h)
	blk := &types.Block{Header: header(h), Transactions: append([]*types.Transaction{}, txs...)}
	root, evicted, done, receipts := core.VerifExecuteBlock(w.db, blk, situation)
	w.heights = append(w.heights, h)
	if len(evicted) != 0 || len(done) != len(txs) || len(receipts) != len(txs) {
		harnessFail("block at %d: %d txs, %d executed, %d receipts, %d evicted", h, len(txs), len(done), len(receipts), len(evicted))
	}
	acc := make([]bool, len(txs))
	for i, r := range receipts {
		if r.TxHash != txs[i].Hash {
			harnessFail("receipt order")
		}
		acc[i] = r.Status == types.ReceiptStatusSuccessful
	}
	return root, acc
}

// The transaction-by-transaction loop (mirror of VMExecutor.Execute for non-contract
// transactions with all forks active).
func (w *world) openBlock(h uint64) {
	common.SetBlockHeight(h)
	w.header = header(h)
	w.ctx = map[string]interface{}{"situation": situation, "refund": make(map[uint64]types.RefundInfoList)}
	w.idx = 0
}

func (w *world) stepTx(tx *types.Transaction) bool {
	w.db.Prepare(tx.Hash, common.Hash{}, w.idx)
	ex := executor.GetTxExecutor(tx.Type)
	ok, addAble, _ := ex.BeforeExecute(tx, w.header, w.db, w.ctx)
	if !addAble {
		harnessFail("tx not addable")
	}
	if ok {
		snap := w.db.Snapshot()
		ok, _ = ex.Execute(tx, w.header, w.db, w.ctx)
		if !ok {
			w.db.RevertToSnapshot(snap)
		}
	}
	src := common.HexToAddress(tx.Source)
	w.db.SetNonce(src, w.db.GetNonce(src)+1)
	w.idx++
	return ok
}

func (w *world) sealOpen() common.Hash {
	h := w.header.Height
	service.RefundManagerImpl.Add(types.GetRefundInfo(w.ctx), w.db)
	service.RefundManagerImpl.CheckAndMove(h, w.db)
	w.ctx = nil
	w.heights = append(w.heights, h)
	return w.db.IntermediateRoot(true)
}

type rec struct {
	ID          string
	Type        byte
	Stake       uint64
	Account     string
	Status      byte
	ApplyHeight uint64
	PK, VRF     string
}

func toRec(m *types.Miner) *rec {
	if m == nil {
		return nil
	}
	return &rec{ID: hx(m.Id), Type: m.Type, Stake: m.Stake, Account: hx(m.Account), Status: m.Status,
		ApplyHeight: m.ApplyHeight, PK: hx(m.PublicKey), VRF: hx(m.VrfPublicKey)}
}

func (r *rec) String() string {
	if r == nil {
		return "<none>"
	}
	return fmt.Sprintf("{id …%s type %d stake %d account …%s status %d applyHeight %d}", r.ID[len(r.ID)-4:], r.Type, r.Stake, tail(r.Account), r.Status, r.ApplyHeight)
}

func tail(s string) string {
	for i, a := range acctHex {
		if a == s {
			return "(" + acctName(i) + ")"
		}
	}
	if len(s) > 6 {
		return s[len(s)-6:]
	}
	return s
}

// iterate walks the registry of one type the way the manager's own consumers do.
func (w *world) iterate(typ byte) []*rec {
	var out []*rec
	it := service.MinerManagerImpl.VerifMinerIterator(typ, w.db)
	for it.Next() {
		m, _ := it.Current()
		if m == nil {
			continue
		}
		out = append(out, toRec(m))
	}
	return out
}

func (w *world) dueHeights() []uint64 {
	seen := map[uint64]bool{}
	var out []uint64
	for _, h := range w.heights {
		for _, typ := range []byte{refminers.TypeProp, refminers.TypeVal} {
			if d := dueRule(h, typ); !seen[d] {
				seen[d] = true
				out = append(out, d)
			}
		}
	}
	sort.Slice(out, func(i, j int) bool { return out[i] < out[j] })
	return out
}

// escrow reads the escrow entries at one due height: committed (trie) view merged with
// the cached view of the watched accounts.
func (w *world) escrow(due uint64) map[string]*big.Int {
	out := map[string]*big.Int{}
	addr := service.RefundManagerImpl.VerifRefundAddress(due)
	if it := w.db.DataIterator(addr, nil); it != nil {
		for it.Next() {
			out[hx(it.Key)] = new(big.Int).SetBytes(it.Value)
		}
	}
	for k := range out {
		out[k] = new(big.Int).SetBytes(w.db.GetData(addr, unhx(k)))
	}
	for _, a := range watchAccts {
		if v := w.db.GetData(addr, unhx(a)); len(v) > 0 {
			out[a] = new(big.Int).SetBytes(v)
		}
	}
	for k, v := range out {
		if v.Sign() == 0 {
			delete(out, k)
		}
	}
	return out
}

func (w *world) pendingRefunds() map[uint64]map[string]*big.Int {
	out := map[uint64]map[string]*big.Int{}
	if w.ctx == nil {
		return out
	}
	for h, l := range types.GetRefundInfo(w.ctx) {
		for _, ri := range l.List {
			if ri.Value.Sign() == 0 {
				continue
			}
			if out[h] == nil {
				out[h] = map[string]*big.Int{}
			}
			out[h][hx(ri.Id)] = new(big.Int).Set(ri.Value)
		}
	}
	return out
}

// totalTokens = liquid balances of the watched accounts + stake of every record reachable
// by id + escrow + refunds pending in the open block.  Implementation observations only.
func (w *world) totalTokens() *big.Int {
	t := new(big.Int)
	for _, a := range watchAccts {
		t.Add(t, w.db.GetBalance(addrOf(a)))
	}
	for _, id := range allIDs {
		for _, typ := range []byte{common.MinerTypeProposer, common.MinerTypeValidator} {
			if m := service.MinerManagerImpl.GetMinerById(unhx(id), typ, w.db); m != nil {
				t.Add(t, new(big.Int).Mul(new(big.Int).SetUint64(m.Stake), unit))
			}
		}
	}
	for _, d := range w.dueHeights() {
		for _, v := range w.escrow(d) {
			t.Add(t, v)
		}
	}
	for _, l := range w.pendingRefunds() {
		for _, v := range l {
			t.Add(t, v)
		}
	}
	return t
}

var dbAddrs = []struct {
	tag  string
	addr common.Address
}{{"P", common.ProposerDBAddress}, {"V", common.ValidatorDBAddress}}

// dump renders everything the property talks about as key -> value: registry storage
// (cached view of every known slot and the committed trie), escrow records, pending
// refunds, balances and nonces.
func (w *world) dump() map[string]string {
	d := map[string]string{}
	for _, a := range watchAccts {
		d["bal:"+a] = w.db.GetBalance(addrOf(a)).String()
	}
	for _, a := range acctHex {
		d["nonce:"+a] = strconv.FormatUint(w.db.GetNonce(addrOf(a)), 10)
	}
	for _, da := range dbAddrs {
		for _, id := range allIDs {
			k := unhx(id)
			for lvl := 0; lvl < 4; lvl++ {
				if v := w.db.GetData(da.addr, k); len(v) > 0 {
					d[fmt.Sprintf("%s.slot:%s/%d", da.tag, id, lvl)] = string(v)
				}
				k = common.Sha256(k)
			}
		}
		if it := w.db.DataIterator(da.addr, nil); it != nil {
			for it.Next() {
				d[da.tag+".trie:"+hx(it.Key)] = string(it.Value)
			}
		}
	}
	for _, due := range w.dueHeights() {
		for a, v := range w.escrow(due) {
			d[fmt.Sprintf("esc:%d:%s", due, a)] = v.String()
		}
	}
	for h, l := range w.pendingRefunds() {
		for a, v := range l {
			d[fmt.Sprintf("pend:%d:%s", h, a)] = v.String()
		}
	}
	return d
}

// stateKey: canonical, height- and fee-insensitive rendering of the implementation
// dump plus the model state.
func stateKey(d map[string]string, m *refminers.Model) string {
	dues := map[uint64]bool{}
	for k := range d {
		if strings.HasPrefix(k, "esc:") || strings.HasPrefix(k, "pend:") {
			p := strings.Split(k, ":")
			h, _ := strconv.ParseUint(p[1], 10, 64)
			dues[h] = true
		}
	}
	var hs []uint64
	for h := range dues {
		hs = append(hs, h)
	}
	sort.Slice(hs, func(i, j int) bool { return hs[i] < hs[j] })
	rank := map[string]int{}
	for i, h := range hs {
		rank[strconv.FormatUint(h, 10)] = i
	}
	var lines []string
	for k, v := range d {
		switch {
		case strings.HasPrefix(k, "nonce:"):
			continue
		case strings.HasPrefix(k, "bal:"):
			a := k[4:]
			if a == feeHex {
				continue
			}
			b, _ := new(big.Int).SetString(v, 10)
			if f := m.FeesPaid[a]; f != nil {
				b.Add(b, f)
			}
			v = b.String()
		case strings.HasPrefix(k, "esc:") || strings.HasPrefix(k, "pend:"):
			p := strings.Split(k, ":")
			k = fmt.Sprintf("%s:#%d:%s", p[0], rank[p[1]], p[2])
		default:
			v = reApplyH.ReplaceAllString(v, `"applyHeight":0`)
		}
		lines = append(lines, k+"="+v)
	}
	for id, v := range readPK() {
		if m.Miners[id] != nil {
			lines = append(lines, "pkindex:"+id+"="+v)
		}
	}
	sort.Strings(lines)
	return strings.Join(lines, "\n") + "\n--model--\n" + m.Canon()
}

// ---------------------------------------------------------------------------------
// oracle

type finding struct {
	Sig      string
	Msg      string
	Diverged bool // model and implementation state differ: the history is not extended
}

type oracleCtx struct {
	mid      bool   // between the transactions of an open block
	sameBlk  bool   // the last transaction shares its block with earlier ones of the history
	lastKind string // kind of the last transaction ("" for block-only steps)
}

func kindName(k string) string {
	if k == "chg" {
		return "change-account"
	}
	return k
}

func oracle(w *world, m *refminers.Model, oc oracleCtx) []finding {
	var fs []finding
	add := func(div bool, sig, format string, a ...interface{}) {
		fs = append(fs, finding{Sig: sig, Msg: fmt.Sprintf(format, a...), Diverged: div})
	}
	mm := service.MinerManagerImpl

	// 1. lookup by id (generic and per type) against the model record
	impl := map[string]*rec{}
	for _, id := range allIDs {
		g := toRec(mm.GetMiner(unhx(id), w.db))
		p := toRec(mm.GetMinerById(unhx(id), common.MinerTypeProposer, w.db))
		v := toRec(mm.GetMinerById(unhx(id), common.MinerTypeValidator, w.db))
		if p != nil && v != nil {
			add(true, "C20:lookup-by-id:both-types", "id …%s has a proposer record %v and a validator record %v", tail(id), p, v)
		}
		one := p
		if one == nil {
			one = v
		}
		if (g == nil) != (one == nil) || (g != nil && *g != *one) {
			add(true, "C20:lookup-by-id:generic-vs-typed", "GetMiner=%v GetMinerById=%v", g, one)
		}
		if g != nil {
			impl[id] = g
		}
		want := m.Miners[id]
		switch {
		case want == nil && g != nil:
			add(true, "C20:lookup-by-id:exists", "id …%s: implementation has %v, model has no record", tail(id), g)
		case want != nil && g == nil:
			add(true, "C20:lookup-by-id:exists", "id …%s: implementation has no record, model has stake %d account …%s", tail(id), want.Stake(), tail(want.Account))
		case want != nil:
			if g.Stake != want.Stake() {
				add(true, "C20:lookup-by-id:stake", "id …%s: stake %d, expected applied %d + added %d - refunded %d = %d", tail(id), g.Stake, want.Applied, want.Added, want.Refunded, want.Stake())
			}
			if g.Account != want.Account {
				add(true, "C20:lookup-by-id:account", "id …%s: account …%s, expected …%s", tail(id), tail(g.Account), tail(want.Account))
			}
			if g.Type != want.Type || (p != nil) != (want.Type == refminers.TypeProp) {
				add(true, "C20:lookup-by-id:type", "id …%s: type %d (proposer db: %v), expected %d", tail(id), g.Type, p != nil, want.Type)
			}
			if g.Status != want.Status {
				add(true, "C20:lookup-by-id:status", "id …%s: status %d, expected %d (stake %d)", tail(id), g.Status, want.Status, g.Stake)
			}
			if g.ApplyHeight != want.ApplyHeight {
				add(true, "C20:lookup-by-id:apply-height", "id …%s: applyHeight %d, expected %d", tail(id), g.ApplyHeight, want.ApplyHeight)
			}
			if g.PK != want.PK || g.VRF != want.VRF {
				add(true, "C20:lookup-by-id:keys", "id …%s: keys %s/%s, expected %s/%s", tail(id), g.PK, g.VRF, want.PK, want.VRF)
			}
		}
	}

	// 1b. the id -> public key side index agrees with the record of every registered miner
	// (entries of ids without a record are leftovers and not judged)
	for _, id := range allIDs {
		want := m.Miners[id]
		if want == nil {
			continue
		}
		v, err := mm.GetPubkey(unhx(id))
		if err != nil || hx(v) != want.PK {
			k := kindName(oc.lastKind)
			if k == "" {
				k = "block"
			}
			add(true, "C20:lookup-disagree:pkindex:"+k, "id …%s: GetPubkey returns %q (err %v), the record holds public key %s", tail(id), hx(v), err, want.PK)
		}
	}

	// 2. an account controls at most one miner (genesis multiplicities are given)
	byAcct := map[string][]string{}
	for _, id := range allIDs {
		if r := impl[id]; r != nil {
			byAcct[r.Account] = append(byAcct[r.Account], id)
		}
	}
	two := false
	for _, a := range sortedKeys(byAcct) {
		lim := 1
		if initMulti[a] > lim {
			lim = initMulti[a]
		}
		if len(byAcct[a]) > lim {
			how := "cross-block-"
			if oc.sameBlk {
				how = "same-block-"
			}
			var ts []string
			for _, id := range byAcct[a] {
				ts = append(ts, "…"+tail(id))
			}
			add(true, "C20:two-miners-one-account:"+how+kindName(oc.lastKind), "account …%s controls %d miners: %s", tail(a), len(byAcct[a]), strings.Join(ts, ","))
			two = true
		}
	}
	if two {
		// everything else is a consequence of the accepted transaction
		var out []finding
		for _, f := range fs {
			if strings.HasPrefix(f.Sig, "C20:two-miners") {
				out = append(out, f)
			}
		}
		return out
	}
	diverged := len(fs) > 0

	// 3. lookup by account
	if !diverged {
		for _, a := range watchAccts {
			got := hx(mm.GetMinerIdByAccount(unhx(a), w.db))
			want := m.ByAccount(a)
			switch {
			case len(want) == 0 && got != "":
				add(false, "C20:lookup-by-account:stale", "account …%s: lookup returns …%s, no record is controlled by it", tail(a), tail(got))
			case len(want) > 0 && !contains(want, got):
				fresh := false
				for _, id := range want {
					fresh = fresh || m.Miners[id].Fresh
				}
				if got == "" && oc.mid && fresh {
					add(false, "C20:lookup-by-account-misses-uncommitted", "account …%s: GetMinerIdByAccount returns nothing although GetMiner(…%s) returns the record controlled by it (written earlier in the same block)", tail(a), tail(want[0]))
				} else {
					add(false, "C20:lookup-by-account:mismatch", "account …%s: lookup returns %q, expected …%s", tail(a), tail(got), tail(want[0]))
				}
			}
		}
	}

	// 4./5. iteration and totals: block boundaries only (leader election reads sealed states)
	if !oc.mid && !diverged {
		seen := map[string]bool{}
		for _, typ := range []byte{common.MinerTypeProposer, common.MinerTypeValidator} {
			for _, r := range w.iterate(typ) {
				if seen[r.ID] {
					add(false, "C20:iterate:duplicate", "id …%s is yielded twice", tail(r.ID))
				}
				seen[r.ID] = true
				want := m.Miners[r.ID]
				if want == nil || want.Type != typ {
					add(false, "C20:iterate:extra", "iterator of type %d yields %v which is not in the registry", typ, r)
					continue
				}
				if r.Stake != want.Stake() || r.Account != want.Account || r.Status != want.Status || r.Type != want.Type ||
					r.ApplyHeight != want.ApplyHeight || r.PK != want.PK || r.VRF != want.VRF {
					add(false, "C20:iterate:record", "iterator yields %v, lookup by id yields %v", r, impl[r.ID])
				}
			}
		}
		for id := range m.Miners {
			if !seen[id] {
				add(false, "C20:iterate:missing", "record …%s is not yielded by the iterator", tail(id))
			}
		}
		qs := map[uint64]bool{m.Height: true, m.Height + 1: true, farHeight: true}
		for _, r := range m.Miners {
			qs[r.ApplyHeight] = true
			if r.ApplyHeight > 0 {
				qs[r.ApplyHeight-1] = true
			}
		}
		var ql []uint64
		for q := range qs {
			ql = append(ql, q)
		}
		sort.Slice(ql, func(i, j int) bool { return ql[i] < ql[j] })
		for _, q := range ql {
			tot, det := mm.GetProposerTotalStakeWithDetail(q, w.db)
			wt, wd := m.ActiveProposers(q)
			detHex := map[string]uint64{}
			for k, v := range det {
				detHex[hx(common.FromHex(k))] = v
			}
			if tot != wt || !sameU64Map(detHex, wd) {
				add(false, "C20:total-stake:proposer", "height %d: total %d over %d proposers, expected %d over %d active records", q, tot, len(det), wt, len(wd))
			}
			ps, vs := mm.GetAllMinerIdAndAccount(q, w.db)
			for i, got := range []map[string]common.Address{ps, vs} {
				typ := []byte{refminers.TypeProp, refminers.TypeVal}[i]
				want := m.Active(typ, q)
				g := map[string]string{}
				for k, v := range got {
					g[hx(common.FromHex(k))] = hx(v.Bytes())
				}
				if !sameStrMap(g, want) {
					add(false, "C20:active-set:"+[]string{"proposer", "validator"}[i], "height %d: active set %v, expected %v", q, g, want)
				}
			}
		}
		// stake of a validator group (all known ids as members): sum over the existing validator records
		var members [][]byte
		wtot := uint64(0)
		wdet := map[string]uint64{}
		for _, id := range allIDs {
			members = append(members, unhx(id))
			if r := m.Miners[id]; r != nil && r.Type == refminers.TypeVal && r.Stake() > 0 {
				wtot += r.Stake()
				wdet[r.Account] += r.Stake()
			}
		}
		vt, vd := mm.GetValidatorsStake(members, w.db)
		gd := map[string]uint64{}
		for k, v := range vd {
			gd[hx(k.Bytes())] = v
		}
		if vt != wtot || !sameU64Map(gd, wdet) {
			add(false, "C20:validators-stake", "group stake %d %v, expected %d %v", vt, gd, wtot, wdet)
		}
	}

	// 6. conservation (implementation observations only) and the per-account ledger.
	// A conservation failure is reported under the more specific ledger signature when the
	// escrow or a balance explains it.
	consMsg := ""
	if got := w.totalTokens(); got.Cmp(initTotal) != 0 {
		consMsg = fmt.Sprintf("liquid + stake*10^18 + escrow = %s, initially %s (difference %s)", got, initTotal, new(big.Int).Sub(got, initTotal))
	}
	specific := false
	if !diverged {
		gotE := map[string]string{}
		for _, d := range w.dueHeights() {
			for a, v := range w.escrow(d) {
				gotE[fmt.Sprintf("due %d …%s", d, tail(a))] = v.String()
			}
		}
		for h, l := range w.pendingRefunds() {
			for a, v := range l {
				gotE[fmt.Sprintf("pending for %d …%s", h, tail(a))] = v.String()
			}
		}
		wantE := map[string]string{}
		for h, l := range m.Escrow {
			for a, v := range l {
				wantE[fmt.Sprintf("due %d …%s", h, tail(a))] = v.String()
			}
		}
		for h, l := range m.Pending {
			for a, v := range l {
				wantE[fmt.Sprintf("pending for %d …%s", h, tail(a))] = v.String()
			}
		}
		if !sameStrMap(gotE, wantE) {
			class := "amount"
			for k := range wantE {
				if _, ok := gotE[k]; !ok {
					class = "refund-lost"
				}
			}
			for k := range gotE {
				if _, ok := wantE[k]; !ok {
					class = "unexpected-entry"
				}
			}
			if oc.sameBlk {
				class += ":same-block"
			}
			add(true, "C20:escrow:"+class, "scheduled refunds %v, expected %v; %s", gotE, wantE, consMsg)
			specific = true
		}
		for _, a := range watchAccts {
			if got, want := w.db.GetBalance(addrOf(a)), m.Bal[a]; got.Cmp(want) != 0 {
				add(true, "C20:balance", "account …%s: balance %s, expected %s; %s", tail(a), got, want, consMsg)
				specific = true
				break
			}
		}
	}
	if consMsg != "" && !specific && !diverged {
		add(true, "C20:conservation", "%s", consMsg)
	}
	return fs
}

func sortedKeys(m map[string][]string) []string {
	var k []string
	for x := range m {
		k = append(k, x)
	}
	sort.Strings(k)
	return k
}
func contains(l []string, s string) bool {
	for _, x := range l {
		if x == s {
			return true
		}
	}
	return false
}
func sameU64Map(a, b map[string]uint64) bool {
	if len(a) != len(b) {
		return false
	}
	for k, v := range a {
		if w, ok := b[k]; !ok || w != v {
			return false
		}
	}
	return true
}
func sameStrMap(a, b map[string]string) bool {
	if len(a) != len(b) {
		return false
	}
	for k, v := range a {
		if w, ok := b[k]; !ok || w != v {
			return false
		}
	}
	return true
}

// unchangedButFee compares two dumps around a transaction that must not change anything
// but the fee (and the sender's nonce).
// releaseAt != 0: the block that carried the transaction has that height, so whatever was
// scheduled for it is paid out by the block itself (not an effect of the transaction).
func unchangedButFee(before, after map[string]string, src string, releaseAt uint64) string {
	var diffs []string
	keys := map[string]bool{}
	for k := range before {
		keys[k] = true
	}
	for k := range after {
		keys[k] = true
	}
	var ks []string
	for k := range keys {
		ks = append(ks, k)
	}
	sort.Strings(ks)
	num := func(s string) *big.Int {
		a, _ := new(big.Int).SetString(s, 10)
		if a == nil {
			a = new(big.Int)
		}
		return a
	}
	// expected balance changes
	exp := map[string]*big.Int{}
	addExp := func(a string, v *big.Int) {
		if exp[a] == nil {
			exp[a] = new(big.Int)
		}
		exp[a].Add(exp[a], v)
	}
	addExp(src, new(big.Int).Neg(fee))
	addExp(feeHex, fee)
	relPrefix := ""
	if releaseAt != 0 {
		relPrefix = fmt.Sprintf("esc:%d:", releaseAt)
		for k, v := range before {
			if strings.HasPrefix(k, relPrefix) {
				addExp(k[len(relPrefix):], num(v))
			}
		}
	}
	for _, k := range ks {
		switch {
		case strings.HasPrefix(k, "bal:"):
			d := new(big.Int).Sub(num(after[k]), num(before[k]))
			x := exp[k[4:]]
			if x == nil {
				x = new(big.Int)
			}
			if d.Cmp(x) != 0 {
				diffs = append(diffs, fmt.Sprintf("balance of %s changed by %s, expected %s", tail(k[4:]), d, x))
			}
		case k == "nonce:"+src:
		case relPrefix != "" && strings.HasPrefix(k, relPrefix):
			if after[k] != "" {
				diffs = append(diffs, fmt.Sprintf("%s not released: %q", k, after[k]))
			}
		default:
			if before[k] != after[k] {
				diffs = append(diffs, fmt.Sprintf("%s: %q -> %q", k, short(before[k]), short(after[k])))
			}
		}
	}
	return strings.Join(diffs, "; ")
}

func short(s string) string {
	if len(s) > 0 && (s[0] < 0x20 || s[0] > 0x7e || len(s) <= 20) && !isDigits(s) {
		return "0x" + hx([]byte(s))
	}
	if len(s) > 80 {
		return s[:80] + "…"
	}
	return s
}
func isDigits(s string) bool {
	for _, c := range s {
		if c < '0' || c > '9' {
			return false
		}
	}
	return len(s) > 0
}

// ---------------------------------------------------------------------------------
// running one history

type Case struct {
	Hist []Op   `json:"hist"`
	Open int    `json:"open"` // index of the first operation of the shared last block; -1: every operation has its own block
	Text string `json:"text,omitempty"`
	Cfg  string `json:"cfg,omitempty"` // configuration name ("" = p012)
	// refund-schedule family (service level): sequence of RefundManager.Add calls
	Sched []addStep `json:"sched,omitempty"`
	Flush bool      `json:"flush,omitempty"`
	// election-reader family: two sibling histories (one transaction per block, same final
	// height); the production reader is asked about A, B, A
	RA []Op `json:"ra,omitempty"`
	RB []Op `json:"rb,omitempty"`
}

type nodeResult struct {
	disabled bool
	findings []finding
	diverged bool
	key      string
	dump     map[string]string // state in which the next operation of this packing executes
	sealDump map[string]string // state after the last block
	outcome  string
	nontriv  bool
	blocks   int
}

type blockRec struct {
	h   uint64
	txs []*types.Transaction
}

// runNode executes hist on fresh state(s) and applies the oracle after the last
// operation.  pre/preSeal are the dumps of the parent node (nil: not compared).
func runNode(hist []Op, open int, pre, preSeal map[string]string) nodeResult {
	var res nodeResult
	w := newWorld()
	m := cloneModel(template)
	next := cfg.Base
	seq := uint64(0)
	nClosed := len(hist)
	if open >= 0 {
		nClosed = open
	}
	var blocks []blockRec
	addF := func(fs []finding, part string) {
		for _, f := range fs {
			f.Msg = part + ": " + f.Msg
			res.findings = append(res.findings, f)
			res.diverged = res.diverged || f.Diverged
		}
	}
	var lastTx refminers.Tx
	var lastRes refminers.Result

	for i := 0; i < nClosed; i++ {
		o := hist[i]
		last := i == len(hist)-1
		if o.K == "release" {
			dues := m.DueHeights()
			if len(dues) == 0 {
				res.disabled = true
				return res
			}
			for _, d := range dues {
				m.BeginBlock(d)
				m.EndBlock()
				w.realBlock(d, nil)
				blocks = append(blocks, blockRec{d, nil})
				if last {
					addF(oracle(w, m, oracleCtx{}), fmt.Sprintf("after the empty block at due height %d", d))
				}
				for next <= d {
					next += cfg.Step
				}
			}
			if last {
				res.outcome = "release/closed/ok"
			}
			continue
		}
		m.BeginBlock(next)
		t := resolve(o, m)
		seq++
		tx := buildTx(t, seq)
		r := m.Exec(t)
		m.EndBlock()
		var pkBefore map[string]string
		if last {
			pkBefore = readPK()
		}
		_, acc := w.realBlock(next, []*types.Transaction{tx})
		blocks = append(blocks, blockRec{next, []*types.Transaction{tx}})
		next += cfg.Step
		if !last {
			if acc[0] != r.Accepted {
				harnessFail("prefix decision differs from the explored parent: %s", histString(hist[:i+1], -1))
			}
			continue
		}
		lastTx, lastRes = t, r
		res.outcome = fmt.Sprintf("%s/closed/%s", o.K, r.Reason)
		fs := oracle(w, m, oracleCtx{lastKind: o.K})
		if acc[0] != r.Accepted && !hasTwo(fs) {
			fs = append(fs, decision(o.K, acc[0], r))
		}
		res.dump = w.dump()
		if acc[0] == r.Accepted {
			fs = rejectedCheck(fs, preSeal, res.dump, t, r, blocks[len(blocks)-1].h)
			fs = sideIndexCheck(fs, pkBefore, t, r)
		}
		addF(fs, "after the block")
	}

	if open < 0 {
		if res.dump == nil {
			res.dump = w.dump()
		}
		res.sealDump = res.dump
		res.key = stateKey(res.dump, m)
		res.nontriv = nontrivial(m)
		res.blocks = len(blocks)
		return res
	}

	// the shared last block, transaction by transaction
	m.BeginBlock(next)
	w.openBlock(next)
	var txs []*types.Transaction
	for i := open; i < len(hist); i++ {
		o := hist[i]
		if o.K == "release" {
			res.disabled = true
			return res
		}
		last := i == len(hist)-1
		t := resolve(o, m)
		seq++
		tx := buildTx(t, seq)
		txs = append(txs, tx)
		r := m.Exec(t)
		var pkBefore map[string]string
		if last {
			pkBefore = readPK()
		}
		acc := w.stepTx(tx)
		if !last {
			if acc != r.Accepted {
				harnessFail("prefix decision differs from the explored parent: %s", histString(hist[:i+1], open))
			}
			continue
		}
		lastTx, lastRes = t, r
		res.outcome = fmt.Sprintf("%s/open/%s", o.K, r.Reason)
		fs := oracle(w, m, oracleCtx{mid: true, sameBlk: i > open, lastKind: o.K})
		if acc != r.Accepted && !hasTwo(fs) {
			fs = append(fs, decision(o.K, acc, r))
		}
		res.dump = w.dump()
		if acc == r.Accepted {
			fs = rejectedCheck(fs, pre, res.dump, t, r, 0)
			fs = sideIndexCheck(fs, pkBefore, t, r)
		}
		addF(fs, "inside the block, after its last transaction")
	}
	res.key = stateKey(res.dump, m)
	res.nontriv = nontrivial(m)
	mirrorRoot := w.sealOpen()

	// the same history with the shared block run by the real block executor
	w2 := newWorld()
	for _, b := range blocks {
		w2.realBlock(b.h, b.txs)
	}
	realRoot, racc := w2.realBlock(next, txs)
	if realRoot != mirrorRoot {
		harnessFail("transaction-by-transaction loop and block executor disagree on the state root: %s", histString(hist, open))
	}
	m.EndBlock()
	res.blocks = 2*len(blocks) + 2
	{
		// also when the state already differs inside the block: what the real block
		// executor leaves behind is the primary observation and is listed first
		midF, midDiv := res.findings, res.diverged
		res.findings = nil
		fs := oracle(w2, m, oracleCtx{sameBlk: len(hist)-open > 1, lastKind: hist[len(hist)-1].K})
		if racc[len(racc)-1] != lastRes.Accepted && !hasTwo(fs) {
			fs = append(fs, decision(hist[len(hist)-1].K, racc[len(racc)-1], lastRes))
		}
		res.sealDump = w2.dump()
		if racc[len(racc)-1] == lastRes.Accepted {
			fs = rejectedCheck(fs, preSeal, res.sealDump, lastTx, lastRes, next)
		}
		addF(fs, "after the shared block (block executor)")
		res.findings = append(res.findings, midF...)
		res.diverged = res.diverged || midDiv
	}
	// epilogue (not part of the state space): release whatever the shared block escrowed
	if !res.diverged {
		for _, d := range m.DueHeights() {
			m.BeginBlock(d)
			m.EndBlock()
			w2.realBlock(d, nil)
			res.blocks++
			addF(oracle(w2, m, oracleCtx{}), fmt.Sprintf("after the empty block at due height %d following the shared block", d))
		}
	}
	return res
}

// rejectedCheck: a transaction that is rejected (or adds nothing) must leave everything but
// the fee as it was.  When it did not, that is the finding; ledger mismatches observed at
// the same time are its consequences.
func rejectedCheck(fs []finding, before, after map[string]string, t refminers.Tx, r refminers.Result, releaseAt uint64) []finding {
	if before == nil || (r.Accepted && r.Reason != "ok-zero") {
		return fs
	}
	d := unchangedButFee(before, after, t.Source, releaseAt)
	if d == "" {
		return fs
	}
	out := []finding{{Sig: "C20:rejected-tx-changed-state:" + kindName(t.Kind), Diverged: true,
		Msg: "a transaction rejected for " + r.Reason + " changed: " + d}}
	for _, f := range fs {
		if strings.HasPrefix(f.Sig, "C20:balance") || strings.HasPrefix(f.Sig, "C20:conservation") ||
			strings.HasPrefix(f.Sig, "C20:escrow") || strings.HasPrefix(f.Sig, "C20:lookup-by-id") {
			continue
		}
		out = append(out, f)
	}
	return out
}

// readPK reads the id -> public key side index (a LevelDB outside the account state)
// through the production accessor for every known id.
func readPK() map[string]string {
	out := map[string]string{}
	for _, id := range allIDs {
		v, err := service.MinerManagerImpl.GetPubkey(unhx(id))
		if err == nil {
			out[id] = hx(v)
		}
	}
	return out
}

// sideIndexCheck: a rejected transaction (or one that adds nothing) must leave the side
// index as it was; the resulting disagreement with the record is its consequence.
func sideIndexCheck(fs []finding, before map[string]string, t refminers.Tx, r refminers.Result) []finding {
	if before == nil || (r.Accepted && r.Reason != "ok-zero") {
		return fs
	}
	after := readPK()
	var diffs []string
	for _, id := range allIDs {
		if before[id] != after[id] {
			diffs = append(diffs, fmt.Sprintf("public key index of id …%s: %q -> %q", tail(id), before[id], after[id]))
		}
	}
	if len(diffs) == 0 {
		return fs
	}
	out := []finding{{Sig: "C20:rejected-changed-side-index:" + kindName(t.Kind), Diverged: true,
		Msg: "a transaction rejected for " + r.Reason + " changed: " + strings.Join(diffs, "; ")}}
	for _, f := range fs {
		if !strings.HasPrefix(f.Sig, "C20:lookup-disagree:pkindex") {
			out = append(out, f)
		}
	}
	return out
}

func hasTwo(fs []finding) bool {
	for _, f := range fs {
		if strings.HasPrefix(f.Sig, "C20:two-miners") {
			return true
		}
	}
	return false
}

func decision(kind string, implAccepted bool, r refminers.Result) finding {
	how := "impl-rejected"
	if implAccepted {
		how = "impl-accepted"
	}
	return finding{Sig: "C20:decision:" + kindName(kind) + ":" + how, Diverged: true,
		Msg: fmt.Sprintf("transaction accepted=%v by the implementation, the model says accepted=%v (%s)", implAccepted, r.Accepted, r.Reason)}
}

func nontrivial(m *refminers.Model) bool {
	for _, id := range minerIDs {
		if m.Miners[id] != nil {
			return true
		}
	}
	return len(m.Escrow) > 0 || len(m.Pending) > 0
}

// ---------------------------------------------------------------------------------
// search

type bfsNode struct {
	hist []Op
	open int
}

func keyHash(k string) [16]byte {
	h := sha256.Sum256([]byte(k))
	var o [16]byte
	copy(o[:], h[:16])
	return o
}

var reported = map[string]int{}

func sigSet(fs []finding) string {
	var s []string
	for _, f := range fs {
		s = append(s, f.Sig)
	}
	sort.Strings(s)
	return strings.Join(s, ",")
}

func report(c *fw.Ctx, hist []Op, open int, res nodeResult, pre, preSeal map[string]string) {
	if len(res.findings) == 0 {
		return
	}
	// same input, same observation?  (only for the occurrences that are written out)
	fresh := false
	for _, f := range res.findings {
		fresh = fresh || reported[f.Sig] < 3
	}
	if fresh {
		again := runNode(hist, open, pre, preSeal)
		if sigSet(again.findings) != sigSet(res.findings) {
			harnessFail("observation not reproducible for %s: %s vs %s", histString(hist, open), sigSet(res.findings), sigSet(again.findings))
		}
	}
	seen := map[string]bool{}
	for _, f := range res.findings {
		if seen[f.Sig] {
			continue
		}
		seen[f.Sig] = true
		reported[f.Sig]++
		cs := Case{Hist: hist, Open: open, Text: histString(hist, open), Cfg: cfg.Name}
		if cfg.Name != "p012" {
			cs.Text = "(" + cfg.Name + ") " + cs.Text
		}
		c.Violation(f.Sig, "bfs", fmt.Sprintf("history %s — %s", cs.Text, f.Msg), cs)
	}
}

// trimLogs keeps the node's debug logs (written into the worker's scratch directory) small.
func trimLogs() {
	es, _ := os.ReadDir("logs")
	for _, e := range es {
		os.Truncate("logs/"+e.Name(), 0)
	}
}

// reduced alphabet for the deeper phase: validators only, stakes at / above the minimum,
// refunds by the owner, change-account by the owner.
func reducedAlphabet(thorough bool) []Op {
	var ops []Op
	for m := 0; m < 2; m++ {
		for a := 0; a < 2; a++ {
			for s := 1; s < 3; s++ {
				ops = append(ops, Op{K: "apply", M: m, A: a, T: 0, S: s})
			}
		}
		if m == 0 && thorough {
			ops = append(ops, Op{K: "apply", M: m, A: 1, T: 0, S: 1, KV: 1})
		}
		if thorough {
			// the contract account c1 at the minimum (quick has it in the full alphabet only)
			ops = append(ops, Op{K: "apply", M: m, A: 3, T: 0, S: 1})
		}
	}
	for m := 0; m < 2; m++ {
		ops = append(ops, Op{K: "add", M: m, S: 1})
		ops = append(ops, Op{K: "refund", M: m, S: 0}, Op{K: "refund", M: m, S: 1})
		for a := 0; a < 3; a++ {
			ops = append(ops, Op{K: "chg", M: m, A: a})
		}
	}
	ops = append(ops, Op{K: "release"})
	return ops
}

func run(c *fw.Ctx) {
	if pf := os.Getenv("C20_PROF"); pf != "" && c.Shard == 0 {
		f, _ := os.Create(pf)
		pprof.StartCPUProfile(f)
		defer pprof.StopCPUProfile()
	}
	setup()
	if c.Shard == 0 {
		defer func() {
			c.Note("worker0_peak_rss_mb", peakRSSMB())
			if os.Getenv("C20_MEM") != "" {
				var ms runtime.MemStats
				runtime.ReadMemStats(&ms)
				c.Note("mem", fmt.Sprintf("heapAlloc=%dMB heapInuse=%dMB heapSys=%dMB sys=%dMB numGC=%d", ms.HeapAlloc>>20, ms.HeapInuse>>20, ms.HeapSys>>20, ms.Sys>>20, ms.NumGC))
				f, _ := os.Create(os.Getenv("C20_MEM"))
				pprof.WriteHeapProfile(f)
				f.Close()
			}
		}()
	}
	d1, d2 := 3, 4
	if c.Thorough() {
		d1, d2 = 4, 5
	}
	if d := os.Getenv("C20_DEPTH"); d != "" {
		d1, _ = strconv.Atoi(d)
		d2 = 0
	}
	// family 1: the refund schedule at service level (cheap, first)
	schedFamily(c)
	// family 3: the production reader consensus uses for leader election, asked about sibling states
	readerFamily(c)
	// family 2: histories under the configurations in which refund due heights collide
	// (small alphabet; before the large phases so that a time cap never starves them)
	dc := 3
	if c.Thorough() {
		dc = 4
	}
	col := collisionAlphabet()
	c.Note("collision_phase", fmt.Sprintf("configurations pre-p012 and period-heights: alphabet of %d operation classes, all histories to depth %d", len(col), dc))
	if os.Getenv("C20_DEPTH") == "" {
		for _, name := range []string{"pre-p012", "period-heights"} {
			useConfig(name)
			phaseDeadline = time.Now().Add(time.Until(c.Deadline) * 15 / 100)
			bfs(c, "configuration "+name, col, dc, 1)
		}
	}
	useConfig("p012")
	full := alphabet(c.Thorough())
	c.Note("phase1", fmt.Sprintf("alphabet of %d operation classes, all histories to depth %d", len(full), d1))
	// the first phase may use at most 80% of the remaining time budget, the second phase the rest
	phaseDeadline = time.Now().Add(time.Until(c.Deadline) * 80 / 100)
	bfs(c, "full alphabet", full, d1, 1)
	phaseDeadline = c.Deadline
	if d2 > 0 {
		red := reducedAlphabet(c.Thorough())
		c.Note("phase2", fmt.Sprintf("reduced alphabet of %d operation classes, all histories to depth %d", len(red), d2))
		// histories up to depth d1 over the reduced alphabet are a subset of phase 1: count from d1+1
		bfs(c, "reduced alphabet", red, d2, d1+1)
	}
}

var phaseDeadline time.Time

// collisionAlphabet: proposers (their pre-Proposal012 refunds are period-aligned) and one
// validator class, refunds of 1 / everything / exactly the stake by the owner.
func collisionAlphabet() []Op {
	var ops []Op
	for m := 0; m < 2; m++ {
		for a := 0; a < 2; a++ {
			ops = append(ops, Op{K: "apply", M: m, A: a, T: 1, S: 2})
		}
		ops = append(ops, Op{K: "apply", M: m, A: 2 - 2*m, T: 0, S: 2}) // validator at 2*min: m1 by a3, m2 by a1
		ops = append(ops, Op{K: "apply", M: m, A: 3, T: 1, S: 1})
		ops = append(ops, Op{K: "add", M: m, S: 1})
		ops = append(ops, Op{K: "refund", M: m, S: 0}, Op{K: "refund", M: m, S: 1}, Op{K: "refund", M: m, S: 4})
		ops = append(ops, Op{K: "chg", M: m, A: 0}, Op{K: "chg", M: m, A: 1})
	}
	ops = append(ops, Op{K: "release"})
	return ops
}

// ---------------------------------------------------------------------------------
// family 1: RefundManager.Add / CheckAndMove at service level

type addStep struct {
	H int `json:"h"` // due height index
	A int `json:"a"` // account index (a1, a2)
	V int `json:"v"` // value index
}

var (
	schedHeights = []uint64{77000, 77001}
	schedValues  = []*big.Int{big.NewInt(1), new(big.Int).Set(unit), new(big.Int).Add(new(big.Int).Mul(big.NewInt(500), unit), big.NewInt(3))}
)

func schedString(steps []addStep, flush bool) string {
	var p []string
	for _, st := range steps {
		p = append(p, fmt.Sprintf("Add(due %d, a%d, %s)", schedHeights[st.H], st.A+1, schedValues[st.V]))
	}
	r := strings.Join(p, "; ")
	if flush {
		r += " (IntermediateRoot after every call)"
	}
	return r + "; CheckAndMove at both heights"
}

// runSched: every step is a separate RefundManager.Add call; afterwards CheckAndMove at
// each due height.  Oracle: scheduled amount per (height, account) = sum of its credits;
// CheckAndMove credits exactly that sum and clears the slot; liquid + scheduled is constant
// across CheckAndMove.
func runSched(steps []addStep, flush bool) []finding {
	var fs []finding
	add := func(sig, format string, a ...interface{}) {
		for _, f := range fs {
			if f.Sig == sig {
				return
			}
		}
		fs = append(fs, finding{Sig: sig, Msg: fmt.Sprintf(format, a...), Diverged: true})
	}
	w := newWorld()
	want := map[uint64]map[string]*big.Int{}
	for _, h := range schedHeights {
		want[h] = map[string]*big.Int{}
	}
	slots := func() map[uint64]map[string]*big.Int {
		out := map[uint64]map[string]*big.Int{}
		for _, h := range schedHeights {
			out[h] = w.escrow(h)
		}
		return out
	}
	compare := func(when string) {
		got := slots()
		for _, h := range schedHeights {
			keys := map[string]bool{}
			for a := range got[h] {
				keys[a] = true
			}
			for a := range want[h] {
				keys[a] = true
			}
			for a := range keys {
				g, x := got[h][a], want[h][a]
				if g == nil {
					g = new(big.Int)
				}
				if x == nil {
					x = new(big.Int)
				}
				if g.Cmp(x) != 0 {
					add("C20:refund-schedule:slot-sum", "%s: scheduled at due height %d for %s is %s, the credits sum to %s", when, h, tail(a), g, x)
				}
			}
		}
	}
	total := func() *big.Int {
		t := new(big.Int)
		for _, a := range watchAccts {
			t.Add(t, w.db.GetBalance(addrOf(a)))
		}
		for _, l := range slots() {
			for _, v := range l {
				t.Add(t, v)
			}
		}
		return t
	}
	for i, st := range steps {
		h, a, v := schedHeights[st.H], acctHex[st.A], schedValues[st.V]
		data := map[uint64]types.RefundInfoList{h: {List: []*types.RefundInfo{{Value: new(big.Int).Set(v), Id: unhx(a)}}}}
		service.RefundManagerImpl.Add(data, w.db)
		if flush {
			w.db.IntermediateRoot(true)
		}
		if want[h][a] == nil {
			want[h][a] = new(big.Int)
		}
		want[h][a].Add(want[h][a], v)
		compare(fmt.Sprintf("after call %d", i+1))
	}
	for _, h := range schedHeights {
		before := map[string]*big.Int{}
		for _, a := range watchAccts {
			before[a] = new(big.Int).Set(w.db.GetBalance(addrOf(a)))
		}
		t0 := total()
		scheduled := w.escrow(h)
		service.RefundManagerImpl.CheckAndMove(h, w.db)
		if flush {
			w.db.IntermediateRoot(true)
		}
		for _, a := range watchAccts {
			credited := new(big.Int).Sub(w.db.GetBalance(addrOf(a)), before[a])
			x := want[h][a]
			if x == nil {
				x = new(big.Int)
			}
			if credited.Cmp(x) != 0 {
				sc := scheduled[a]
				if sc == nil {
					sc = new(big.Int)
				}
				add("C20:refund-schedule:release", "CheckAndMove(%d) credits %s to %s, the credits sum to %s (scheduled %s)", h, credited, tail(a), x, sc)
			}
		}
		if t1 := total(); t1.Cmp(t0) != 0 {
			add("C20:refund-schedule:conservation", "liquid + scheduled changes by %s across CheckAndMove(%d)", new(big.Int).Sub(t1, t0), h)
		}
		want[h] = map[string]*big.Int{}
		compare(fmt.Sprintf("after CheckAndMove(%d)", h))
	}
	return fs
}

// ---------------------------------------------------------------------------------
// family 3: consensus/access.MinerPoolReader (the singleton the consensus asks for the
// proposer total, the proposer record and the group candidates) on committed sibling states

type sibling struct {
	hist   []Op
	root   common.Hash
	m      *refminers.Model
	height uint64
}

// buildClosed runs hist with one transaction per block, commits the state and returns its
// root with the model state (nil if model and implementation disagree on a decision: the
// search reports that).
func buildClosed(hist []Op) *sibling {
	w := newWorld()
	m := cloneModel(template)
	next := cfg.Base
	h := uint64(0)
	for i, o := range hist {
		m.BeginBlock(next)
		t := resolve(o, m)
		tx := buildTx(t, uint64(i+1))
		r := m.Exec(t)
		m.EndBlock()
		_, acc := w.realBlock(next, []*types.Transaction{tx})
		if acc[0] != r.Accepted {
			return nil
		}
		h = next
		next += cfg.Step
	}
	root, err := w.db.Commit(true)
	if err != nil {
		harnessFail("commit: %v", err)
	}
	return &sibling{hist: append([]Op{}, hist...), root: root, m: m, height: h}
}

func readerAlphabet() []Op {
	var ops []Op
	for m := 0; m < 2; m++ {
		for s := 1; s < 3; s++ {
			ops = append(ops, Op{K: "apply", M: m, A: m, T: 1, S: s})
		}
		ops = append(ops, Op{K: "apply", M: m, A: m, T: 0, S: 1})
		ops = append(ops, Op{K: "add", M: m, S: 1})
		ops = append(ops, Op{K: "refund", M: m, S: 0}, Op{K: "refund", M: m, S: 1})
		ops = append(ops, Op{K: "chg", M: m, A: 2})
	}
	return ops
}

// askOne asks the reader everything it offers about state s at height h and compares with
// the model state of s.
func askOne(rd *access.MinerPoolReader, s *sibling, h uint64, pos string, txt string) []finding {
	var fs []finding
	add := func(sig, format string, a ...interface{}) {
		fs = append(fs, finding{Sig: sig, Msg: txt + " — " + fmt.Sprintf(format, a...), Diverged: true})
	}
	_, det := s.m.ActiveProposers(h)
	if got := rd.GetTotalStake(h, s.root); got != uint64(len(det)) {
		add("C20:election-reader:total-stake:"+pos, "GetTotalStake(%d, state of %s) = %d, the state has %d active proposer records", h, histString(s.hist, -1), got, len(det))
	}
	ids := append(append([]string{}, minerIDs...), genesisIDs...)
	for _, id := range ids {
		got := rd.GetProposeMiner(groupsig.DeserializeID(unhx(id)), s.root)
		want := s.m.Miners[id]
		if want != nil && want.Type != refminers.TypeProp {
			want = nil
		}
		switch {
		case (got == nil) != (want == nil):
			add("C20:election-reader:lookup:propose-miner:"+pos, "GetProposeMiner(…%s, state of %s) found=%v, expected found=%v", tail(id), histString(s.hist, -1), got != nil, want != nil)
		case got != nil && (got.Stake != want.Stake() || got.ApplyHeight != want.ApplyHeight || got.MinerType != want.Type):
			add("C20:election-reader:lookup:propose-miner:"+pos, "GetProposeMiner(…%s, state of %s) = stake %d applyHeight %d, expected stake %d applyHeight %d", tail(id), histString(s.hist, -1), got.Stake, got.ApplyHeight, want.Stake(), want.ApplyHeight)
		}
	}
	// group candidates: validators that are not aborted and whose apply height lies below h
	// (learned: model.MinerInfo.CanJoinGroupAt is h > ApplyHeight)
	wantC := map[string]uint64{}
	for id, r := range s.m.Miners {
		if r.Type == refminers.TypeVal && r.Status == refminers.StatusNormal && h > r.ApplyHeight {
			wantC[id] = r.Stake()
		}
	}
	gotC := map[string]uint64{}
	for _, md := range rd.GetCandidateMiners(h, s.root) {
		gotC[hx(md.ID.Serialize())] = md.Stake
	}
	if !sameU64Map(gotC, wantC) {
		add("C20:election-reader:lookup:candidates:"+pos, "GetCandidateMiners(%d, state of %s) = %d validators, expected %d", h, histString(s.hist, -1), len(gotC), len(wantC))
	}
	return fs
}

// askABA: same reader object, same height: A, then its sibling B, then A again; at the
// height of the siblings' last block (what consensus passes) and at a far height.
func askABA(a, b *sibling) []finding {
	rd := access.NewMinerPoolReader()
	txt := fmt.Sprintf("(%s) reader asked about A = %s, then B = %s, then A again", cfg.Name, histString(a.hist, -1), histString(b.hist, -1))
	var fs []finding
	for _, h := range []uint64{a.height, farHeight} {
		fs = append(fs, askOne(rd, a, h, "first", txt)...)
		fs = append(fs, askOne(rd, b, h, "after-sibling", txt)...)
		fs = append(fs, askOne(rd, a, h, "back-after-sibling", txt)...)
	}
	// one finding per signature
	seen := map[string]bool{}
	var out []finding
	for _, f := range fs {
		if !seen[f.Sig] {
			seen[f.Sig] = true
			out = append(out, f)
		}
	}
	return out
}

func readerFamily(c *fw.Ctx) {
	defer useConfig("p012")
	// block heights that are multiples of the reward period: a proposer applied in the first
	// block is active at the height of the second, so siblings differ in what is asked for
	useConfig("period-heights")
	ops := readerAlphabet()
	depth := 2
	var level [][]Op
	level = append(level, nil)
	var idx int64
	pairs, states := int64(0), int64(0)
	for d := 1; d <= depth; d++ {
		var next [][]Op
		for _, h := range level {
			for _, o := range ops {
				next = append(next, append(append([]Op{}, h...), o))
			}
		}
		level = next
		// siblings of this depth: distinct committed states with the same last block height
		var sibs []*sibling
		seen := map[common.Hash]bool{}
		for _, h := range level {
			s := buildClosed(h)
			if s == nil || seen[s.root] {
				continue
			}
			seen[s.root] = true
			sibs = append(sibs, s)
		}
		if c.Shard == 0 {
			states += int64(len(sibs))
		}
		for i, a := range sibs {
			for j, b := range sibs {
				if i == j {
					continue
				}
				idx++
				if !c.Mine(idx) {
					continue
				}
				if c.Expired() {
					c.Cap("time: election-reader family not finished")
					return
				}
				fs := askABA(a, b)
				pairs++
				c.Eval(1)
				c.NontrivialN(1)
				_, da := a.m.ActiveProposers(a.height)
				_, db := b.m.ActiveProposers(b.height)
				c.Outcome(fmt.Sprintf("election-reader/depth%d/active-proposers-%d-then-%d", d, len(da), len(db)))
				if len(fs) > 0 {
					again := askABA(a, b)
					if sigSet(again) != sigSet(fs) {
						harnessFail("observation not reproducible: %s", fs[0].Msg)
					}
					for _, f := range fs {
						c.Violation(f.Sig, "election-reader", f.Msg, Case{RA: a.hist, RB: b.hist, Cfg: cfg.Name, Open: -1})
					}
				}
			}
		}
	}
	c.Count("election_reader_sibling_pairs", pairs)
	c.Count("election_reader_sibling_states", states)
}

func schedFamily(c *fw.Ctx) {
	var syms []addStep
	for h := 0; h < 2; h++ {
		for a := 0; a < 2; a++ {
			for v := 0; v < 3; v++ {
				syms = append(syms, addStep{h, a, v})
			}
		}
	}
	var idx int64
	var rec func(prefix []addStep)
	rec = func(prefix []addStep) {
		if len(prefix) > 0 {
			for _, flush := range []bool{false, true} {
				idx++
				if !c.Mine(idx) {
					continue
				}
				steps := append([]addStep{}, prefix...)
				fs := runSched(steps, flush)
				c.Eval(1)
				c.Trace(1)
				c.NontrivialN(1)
				c.Count("refund_schedule_sequences", 1)
				same := 0
				for _, st := range steps[1:] {
					if st.H == steps[0].H && st.A == steps[0].A {
						same++
					}
				}
				c.Outcome(fmt.Sprintf("refund-schedule/len%d/first-slot-hit-%d-times", len(steps), same+1))
				if len(fs) > 0 {
					again := runSched(steps, flush)
					if sigSet(again) != sigSet(fs) {
						harnessFail("observation not reproducible for %s", schedString(steps, flush))
					}
					for _, f := range fs {
						c.Violation(f.Sig, "refund-schedule", fmt.Sprintf("%s — %s", schedString(steps, flush), f.Msg), Case{Sched: steps, Flush: flush, Open: -1})
					}
				}
			}
		}
		if len(prefix) == 3 {
			return
		}
		for _, sy := range syms {
			rec(append(append([]addStep{}, prefix...), sy))
		}
	}
	rec(nil)
}

func peakRSSMB() int {
	b, _ := os.ReadFile("/proc/self/status")
	for _, l := range strings.Split(string(b), "\n") {
		if strings.HasPrefix(l, "VmHWM:") {
			f := strings.Fields(l)
			if len(f) >= 2 {
				kb, _ := strconv.Atoi(f[1])
				return kb / 1024
			}
		}
	}
	return 0
}

// bfs explores all histories over ops to the given depth; evidence is counted for levels
// >= countFrom.  It returns false when the time cap stopped it.
func bfs(c *fw.Ctx, phase string, ops []Op, depth int, countFrom int) bool {
	root := runNode(nil, -1, nil, nil)
	if c.Shard == 0 && countFrom <= 1 {
		report(c, nil, -1, root, nil, nil)
		c.State(1)
	}
	// memory: the visited set keeps 128-bit hashes of the state keys, a frontier node keeps
	// only its history (its dumps are recomputed by one more execution when it is expanded)
	visited := map[[16]byte]struct{}{keyHash(root.key): {}}
	frontier := []*bfsNode{{hist: nil, open: -1}}
	var caseIdx int64
	for d := 1; d <= depth; d++ {
		var nextF []*bfsNode
		// level 1 is computed by every worker and counted once
		count := (d > 1 || c.Shard == 0) && d >= countFrom
		for _, n := range frontier {
			var ndump, nseal map[string]string
			for _, op := range ops {
				// packings of the successor: same packing as the parent, and (for a closed
				// parent) the successor opening the shared block
				opens := []int{n.open}
				if n.open < 0 {
					opens = append(opens, len(n.hist))
				}
				for _, open := range opens {
					if op.K == "release" && open >= 0 {
						continue
					}
					caseIdx++
					if d == 2 && !c.Mine(caseIdx) {
						continue
					}
					if c.Expired() || time.Now().After(phaseDeadline) {
						c.Cap(fmt.Sprintf("time: %s, depth %d not finished", phase, d))
						return false
					}
					if ndump == nil {
						pr := runNode(n.hist, n.open, nil, nil)
						ndump, nseal = pr.dump, pr.sealDump
					}
					hist := append(append([]Op{}, n.hist...), op)
					res := runNode(hist, open, ndump, nseal)
					if caseIdx%1000 == 0 {
						trimLogs()
					}
					if res.disabled {
						continue
					}
					if d > 1 || c.Shard == 0 {
						report(c, hist, open, res, ndump, nseal)
					}
					if count {
						c.Eval(1)
						c.Transition(1)
						c.Trace(1)
						c.Count("blocks_executed", int64(res.blocks))
						c.Outcome(res.outcome)
						if len(res.findings) == 0 && res.nontriv && len(hist) >= 3 {
							c.Sample(map[string]string{"history": histString(hist, open), "outcome": res.outcome})
						}
					}
					kh := keyHash(res.key)
					if _, ok := visited[kh]; ok || res.diverged {
						continue
					}
					visited[kh] = struct{}{}
					if count {
						c.State(1)
						if res.nontriv {
							c.Nontrivial(res.key)
						}
					}
					if d < depth {
						nextF = append(nextF, &bfsNode{hist: hist, open: open})
					}
				}
			}
		}
		frontier = nextF
	}
	return true
}

func replay(c *fw.Ctx, raw json.RawMessage) {
	var cs Case
	if err := json.Unmarshal(raw, &cs); err != nil {
		harnessFail("replay: %v", err)
	}
	setup()
	if len(cs.RA) > 0 || len(cs.RB) > 0 {
		useConfig(cs.Cfg)
		a, b := buildClosed(cs.RA), buildClosed(cs.RB)
		if a == nil || b == nil {
			fmt.Println("replay: a sibling state cannot be built")
			return
		}
		for _, f := range askABA(a, b) {
			c.Violation(f.Sig, "replay", f.Msg, cs)
		}
		return
	}
	if len(cs.Sched) > 0 {
		for _, f := range runSched(cs.Sched, cs.Flush) {
			c.Violation(f.Sig, "replay", fmt.Sprintf("%s — %s", schedString(cs.Sched, cs.Flush), f.Msg), cs)
		}
		return
	}
	useConfig(cs.Cfg)
	var pre, preSeal map[string]string
	seen := map[string]bool{}
	for k := 0; k <= len(cs.Hist); k++ {
		open := cs.Open
		if open >= k {
			open = -1
		}
		res := runNode(cs.Hist[:k], open, pre, preSeal)
		if res.disabled {
			fmt.Println("replay: operation not enabled")
			return
		}
		for _, f := range res.findings {
			if seen[f.Sig] {
				continue
			}
			seen[f.Sig] = true
			c.Violation(f.Sig, "replay", fmt.Sprintf("history %s — %s", histString(cs.Hist[:k], open), f.Msg), cs)
		}
		pre, preSeal = res.dump, res.sealDump
	}
}

func main() {
	fw.Main(fw.Check{
		ID: "C20", Level: "model_checking",
		Rule: "BFS over histories of miner transactions (apply/add/refund/change-account/release over 2 miner ids x 3 plain accounts + 1 account with code, " +
			"each history in two packings: one transaction per block, or the last k transactions in one block; additionally a small alphabet under two configurations in which refund due heights collide, " +
			"all sequences of <= 3 separate RefundManager.Add calls over 2 due heights x 2 accounts x 3 values followed by CheckAndMove, " +
			"and all ordered pairs of distinct committed sibling states (histories of depth 1 and 2, same last block height) put to the consensus reader access.MinerPoolReader in the order A, B, A); a state is the canonical dump of " +
			"the registry storage (cached slots + committed trie of both registry accounts), the id->public-key side index (pkCache, read through GetPubkey) of the registered ids, escrow records and fee-free balances plus the model state; " +
			"counted as non-trivial: distinct states that hold at least one harness-created miner record or a scheduled refund " +
			"(the `states` counter is per worker, distinct_nontrivial is de-duplicated across workers)",
		Assumptions: []string{
			"dev genesis (2 proposers, 3 validators), all forks active, heights >= 1000; block headers carry no group id, so no block reward is minted",
			"extra configurations: Proposal012 inactive (proposer refunds due at the end of the reward period) and block heights that are multiples of the reward period",
			"blocks are executed by core.VerifExecuteBlock on one AccountDB with IntermediateRoot between blocks (no commit / reopen)",
			"the state between two transactions of a block is observed with a harness loop over the real executors; its final root is compared with the block executor's on every history",
			"harness accounts start with x.5 tokens: the 0.001 fees never decide a balance check, which justifies the fee-insensitive search key",
			"reference model verif/h/refminers; contract-controlled miners are driven by executor-level transactions whose source/account is an address with code; operator-node (type 7) transactions and the EVM STAKE/UNSTAKE opcodes are out of scope",
		},
		Run: run, Replay: replay,
		Budget: func(tier string) time.Duration {
			if tier == "thorough" {
				return 17 * time.Minute
			}
			return 75 * time.Second
		},
	})
}
