// C15: verifiers count only signature shares valid for the block being signed.
//
// E2 (explicit-state BFS over message histories) + literal enumeration of every
// message sequence up to a length bound, executed on the real round1 / round2 of
// src/consensus/logical (built through the verif hook VerifRoundNew), with a real
// threshold key set dealt with the repository's groupsig primitives, and compared
// after every message with a boring reference model:
//
//	model share set = first valid share per member over bh.Hash whose beacon share is
//	valid too (until the threshold is reached); every other message leaves it unchanged.
package main

import (
	"bytes"
	"crypto/sha256"
	"encoding/hex"
	"encoding/json"
	"fmt"
	"math/big"
	"sort"
	"strings"
	"syscall"
	"time"

	"verif/h/fw"
	"verif/h/node"

	"com.tuntun.rangers/node/src/common"
	"com.tuntun.rangers/node/src/consensus/access"
	"com.tuntun.rangers/node/src/consensus/groupsig"
	bn_curve "com.tuntun.rangers/node/src/consensus/groupsig/bn256"
	"com.tuntun.rangers/node/src/consensus/logical"
	"com.tuntun.rangers/node/src/consensus/logical/group_create"
	"com.tuntun.rangers/node/src/consensus/model"
	cnet "com.tuntun.rangers/node/src/consensus/net"
	"com.tuntun.rangers/node/src/core"
	middleware_pb "com.tuntun.rangers/node/src/middleware/pb"
	"com.tuntun.rangers/node/src/middleware/types"

	"github.com/gogo/protobuf/proto"
)

// ---------------------------------------------------------------------------------
// stubs (the only non-production pieces the round touches)

// chainStub: the proposed block is not on the chain yet; GenerateBlock hands the header back.
type chainStub struct {
	core.BlockChain // nil: any other call is a harness error and panics
	generated       []types.BlockHeader
}

func (c *chainStub) HasBlockByHash(common.Hash) bool           { return false }
func (c *chainStub) QueryBlockByHash(common.Hash) *types.Block { return nil }
func (c *chainStub) GenerateBlock(bh types.BlockHeader) *types.Block {
	c.generated = append(c.generated, bh)
	h := bh
	return &types.Block{Header: &h}
}
func (c *chainStub) AddBlockOnChain(*types.Block) types.AddBlockResult { return types.AddBlockSucc }

// netStub: nothing is sent anywhere.
type netStub struct{ cnet.NetworkServer }

func (netStub) SendVerifiedCast(*model.ConsensusVerifyMessage, groupsig.ID)      {}
func (netStub) BroadcastNewBlock(*model.ConsensusBlockMessage)                   {}
func (netStub) AskSignPkMessage(*model.SignPubkeyReqMessage, groupsig.ID)        {}
func (netStub) AnswerSignPkMessage(*model.SignPubKeyMessage, groupsig.ID)        {}
func (netStub) SendSignPubKey(*model.SignPubKeyMessage)                          {}
func (netStub) JoinGroupNet(string)                                              {}
func (netStub) ReleaseGroupNet(string)                                           {}
func (netStub) ReqSharePiece(*model.ReqSharePieceMessage, groupsig.ID)           {}
func (netStub) ResponseSharePiece(*model.ResponseSharePieceMessage, groupsig.ID) {}

// ---------------------------------------------------------------------------------
// deterministic key material

func det(label string) *big.Int {
	h := sha256.Sum256([]byte("verif-c15/" + label))
	return new(big.Int).SetBytes(h[:])
}
func detSk(label string) groupsig.Seckey { return *groupsig.NewSeckeyFromBigInt(det(label)) }
func detID(label string) groupsig.ID {
	h := sha256.Sum256([]byte("verif-c15/id/" + label))
	return groupsig.DeserializeID(h[:])
}

const (
	clsHon      = "hon"
	clsOther    = "otherhash"
	clsMismatch = "sigmismatch"
	clsReplay   = "replay"
	clsGarbage  = "garbagesig"
	clsBeacon   = "badbeacon"
	clsNon      = "nonmember"
	clsPair     = "correlatedpair"
	clsFields   = "hashfields"
	clsFlood    = "floodjunk"
)

type sym struct {
	Name   string
	Class  string
	Sender int // member index of the claimed signer, -1 for an outsider
	Byz    int // member that has to be faulty to send this (-1: nobody — honest message or outsider)
	Valid  bool
	// Optional: the block share IS the member's valid signature over this block's hash (and the
	// beacon share is valid) but the message is filed under another BlockHash and/or claims another
	// dataHash.  The statement neither demands nor forbids its admission (the share is not "over
	// another hash", recovery stays correct either way): the model follows the implementation.
	Optional bool
	Pattern  string // equality pattern of the three hash fields (signature detail)
	Core     bool   // member of the core alphabet (one flavour per class) used by the literal passes
	Mini     bool   // member of the reduced alphabet (messages that pass at least one signature verification)
	Wire     []byte
	// the fields the wire bytes were built from; Direct: the production decoder does not hand
	// this message over (it rejects / dies on the malformed point — wire codec totality is C09),
	// so the object round1 would have received is built from the parts with the same
	// deserialisation calls the decoder uses (groupsig.DeserializeSign, model.MakeSignInfo)
	Direct                bool
	blockHash, dataHash   common.Hash
	dataSign, signer, rnd []byte
}

type env struct {
	n, k   int
	ids    []groupsig.ID
	idHex  []string
	sks    []groupsig.Seckey
	pks    []groupsig.Pubkey
	msk    groupsig.Seckey
	gpk    groupsig.Pubkey
	gid    groupsig.ID
	group  *model.GroupInfo
	bh     types.BlockHeader
	pre    types.BlockHeader
	H, H2  common.Hash
	H3     common.Hash // a second other hash
	R, R2  []byte
	want   [2][]byte            // unique group signature over H / over R
	valid  [2]map[string][]byte // id hex -> the member's unique valid share (block / beacon)
	member map[string]int
	syms   []sym
	byName map[string]int
}

var (
	booted bool
	belong *access.JoinedGroupStorage
	envs   = map[int]*env{}
)

const maxMembers = 5

const maxFlood = 1024 // junk messages prepared per member

func boot() {
	if booted {
		return
	}
	booted = true
	if err := node.Boot(node.ForksAllOn, true); err != nil {
		panic(fmt.Sprintf("node boot: %v", err))
	}
	logical.InitConsensus()  // model.Param (threshold rule) as the node initialises it
	cnet.InitStateMachines() // installs the consensus/net package logger the decoder logs to
	self := model.SelfMinerInfo{SecKey: detSk("self-miner-key")}
	self.ID = detID("member-0")
	self.PubKey = *groupsig.GeneratePubkey(self.SecKey)
	belong = access.NewJoinedGroupStorage()
	group_create.GroupCreateProcessor.Init(self, belong)
	group_create.GroupCreateProcessor.NetServer = netStub{}
}

// getEnv deals a threshold key set for n members exactly as the node's DKG combines
// them (every member deals a degree k-1 polynomial; a member's sign key is the sum of
// the shares it receives; the group public key is the sum of the dealers' public keys),
// joins the group in the node's joined-group storage and builds the message alphabet.
func getEnv(n int) *env {
	if e, ok := envs[n]; ok {
		return e
	}
	boot()
	e := &env{n: n, k: model.Param.GetGroupK(n), member: map[string]int{}, byName: map[string]int{}}
	for i := 0; i < n; i++ {
		id := detID(fmt.Sprintf("member-%d", i))
		e.ids = append(e.ids, id)
		e.idHex = append(e.idHex, id.GetHexString())
		e.member[id.GetHexString()] = i
	}
	coeff := make([][]groupsig.Seckey, n)
	var a0 []groupsig.Seckey
	var a0pk []groupsig.Pubkey
	for j := 0; j < n; j++ {
		for d := 0; d < e.k; d++ {
			coeff[j] = append(coeff[j], detSk(fmt.Sprintf("n%d/dealer-%d/coeff-%d", n, j, d)))
		}
		a0 = append(a0, coeff[j][0])
		a0pk = append(a0pk, *groupsig.GeneratePubkey(coeff[j][0]))
	}
	for i := 0; i < n; i++ {
		var recv []groupsig.Seckey
		for j := 0; j < n; j++ {
			recv = append(recv, *groupsig.ShareSeckey(coeff[j], e.ids[i]))
		}
		sk := *groupsig.AggregateSeckeys(recv)
		e.sks = append(e.sks, sk)
		e.pks = append(e.pks, *groupsig.GeneratePubkey(sk))
	}
	e.msk = *groupsig.AggregateSeckeys(a0)
	e.gpk = *groupsig.AggregatePubkeys(a0pk)
	if !e.gpk.IsEqual(*groupsig.GeneratePubkey(e.msk)) {
		panic("harness: dealt group public key is not the public key of the dealt group secret")
	}

	ghash := common.BytesToHash(common.Sha256([]byte(fmt.Sprintf("verif-c15/group-%d", n))))
	jg := model.NewJoindGroupInfo(e.sks[0], e.gpk, ghash)
	for i := 0; i < n; i++ {
		jg.AddMemberSignPK(e.ids[i], e.pks[i])
	}
	e.gid = jg.GroupID
	belong.JoinGroup(jg, e.ids[0])
	if got := belong.GetJoinedGroupInfo(e.gid); got == nil || got.MemberSignPKNum() != n {
		panic("harness: joined group not retrievable")
	}
	e.group = model.NewGroupInfo(e.gid, e.gpk, &model.GroupInitInfo{
		GroupHeader:  &types.GroupHeader{Hash: ghash, WorkHeight: 0, DismissHeight: 1 << 40},
		GroupMembers: append([]groupsig.ID{}, e.ids...),
	})

	t0 := time.Unix(1700000000, 0).UTC()
	prevBeacon := groupsig.Sign(detSk("previous-group"), []byte("previous beacon input")).Serialize()
	e.pre = types.BlockHeader{Height: 9, PreTime: t0.Add(-2 * time.Second), CurTime: t0.Add(-time.Second),
		ProveValue: big.NewInt(7), TotalQN: 9, Castor: detID("castor-prev").Serialize(), GroupId: e.gid.Serialize(),
		Random: prevBeacon}
	e.pre.Hash = e.pre.GenHash()
	e.bh = types.BlockHeader{Height: 10, PreHash: e.pre.Hash, PreTime: e.pre.CurTime, CurTime: t0,
		ProveValue: big.NewInt(11), TotalQN: 10, Castor: detID("castor").Serialize(), GroupId: e.gid.Serialize()}
	e.bh.Hash = e.bh.GenHash()
	other := e.bh
	other.Castor = detID("castor-other").Serialize() // a competing proposal at the same height
	e.H, e.H2 = e.bh.Hash, other.GenHash()
	other.Castor = detID("castor-other-2").Serialize()
	e.H3 = other.GenHash()
	if e.H3 == e.H || e.H3 == e.H2 {
		panic("harness: alphabet hashes collide")
	}
	e.R = e.pre.Random
	e.R2 = groupsig.Sign(detSk("previous-group"), []byte("some other beacon input")).Serialize()
	if e.H == e.H2 || bytes.Equal(e.R, e.R2) {
		panic("harness: alphabet hashes collide")
	}
	e.want[0] = groupsig.Sign(e.msk, e.H.Bytes()).Serialize()
	e.want[1] = groupsig.Sign(e.msk, e.R).Serialize()
	e.valid[0], e.valid[1] = map[string][]byte{}, map[string][]byte{}
	for i := 0; i < n; i++ {
		e.valid[0][e.idHex[i]] = groupsig.Sign(e.sks[i], e.H.Bytes()).Serialize()
		e.valid[1][e.idHex[i]] = groupsig.Sign(e.sks[i], e.R).Serialize()
	}
	e.buildAlphabet()
	envs[n] = e
	return e
}

func wire(blockHash, dataHash common.Hash, dataSign, member, rnd []byte) []byte {
	v := int32(common.ConsensusVersion)
	if rnd == nil {
		rnd = []byte{}
	}
	m := &middleware_pb.ConsensusVerifyMessage{BlockHash: blockHash.Bytes(), RandomSign: rnd,
		Sign: &middleware_pb.SignData{DataHash: dataHash.Bytes(), DataSign: dataSign, SignMember: member, Version: &v}}
	b, err := proto.Marshal(m)
	if err != nil {
		panic(err)
	}
	return b
}

// w fills the wire bytes and their parts into s.
func w(s sym, blockHash, dataHash common.Hash, dataSign, member, rnd []byte) sym {
	s.Wire = wire(blockHash, dataHash, dataSign, member, rnd)
	s.blockHash, s.dataHash, s.dataSign, s.signer, s.rnd = blockHash, dataHash, dataSign, member, rnd
	return s
}

func (s *sym) message() *model.ConsensusVerifyMessage {
	if !s.Direct {
		m, err := cnet.UnMarshalConsensusVerifyMessage(s.Wire)
		if err != nil || m == nil {
			panic(fmt.Sprintf("harness: wire message %s does not decode: %v", s.Name, err))
		}
		return m
	}
	id := groupsig.ID{}
	id.Deserialize(s.signer)
	return &model.ConsensusVerifyMessage{
		BlockHash:  s.blockHash,
		RandomSign: *groupsig.DeserializeSign(s.rnd),
		SignInfo:   model.MakeSignInfo(s.dataHash, *groupsig.DeserializeSign(s.dataSign), id, int32(common.ConsensusVersion)),
		Id:         common.ToHex(common.Sha256(s.Wire)),
	}
}

func (e *env) add(s sym) {
	// does the production decoder hand this message over?
	var m *model.ConsensusVerifyMessage
	var err error
	if p, _, _ := fw.Try(func() { m, err = cnet.UnMarshalConsensusVerifyMessage(s.Wire) }); p || err != nil || m == nil {
		if s.Valid {
			panic("harness: the honest message " + s.Name + " does not decode")
		}
		s.Direct = true
	}
	if _, dup := e.byName[s.Name]; dup {
		panic("harness: duplicate symbol " + s.Name)
	}
	e.byName[s.Name] = len(e.syms)
	e.syms = append(e.syms, s)
}

var hname = [3]string{"b", "K", "K2"}

// hpattern abstracts the concrete other hashes away: b = this block's hash, x / y = other values
// in order of first appearance (filed, claimed, signed).
func hpattern(f, d, g int) string {
	lab := map[int]string{0: "b"}
	next := []string{"x", "y"}
	out := make([]string, 3)
	for i, v := range []int{f, d, g} {
		if _, ok := lab[v]; !ok {
			lab[v] = next[0]
			next = next[1:]
		}
		out[i] = lab[v]
	}
	return fmt.Sprintf("filed=%s,claimed=%s,signed=%s", out[0], out[1], out[2])
}

// G1 arithmetic on serialized points (harness side only: builds Byzantine messages whose two
// shares are wrong in a correlated way; identity is the all-zero encoding bn256 marshals).
func g1(b []byte) *bn_curve.G1 {
	p := new(bn_curve.G1)
	zero := true
	for _, x := range b {
		zero = zero && x == 0
	}
	if zero {
		return p.ScalarBaseMult(big.NewInt(0)) // identity, without going through Unmarshal
	}
	if _, err := p.Unmarshal(b); err != nil {
		panic(fmt.Sprintf("harness: not a G1 point: %v", err))
	}
	return p
}
func g1add(a, b []byte) []byte { return new(bn_curve.G1).Add(g1(a), g1(b)).Marshal() }
func g1neg(a []byte) []byte    { return new(bn_curve.G1).Neg(g1(a)).Marshal() }
func g1sub(a, b []byte) []byte { return g1add(a, g1neg(b)) }

func (e *env) buildAlphabet() {
	offCurve := make([]byte, 64)
	offCurve[31], offCurve[63] = 1, 1 // (1,1): 1 != 1+3
	infinity := make([]byte, 64)
	sig := func(sk groupsig.Seckey, m []byte) []byte { return groupsig.Sign(sk, m).Serialize() }
	H, H2, R, R2 := e.H, e.H2, e.R, e.R2
	for i := 0; i < e.n; i++ {
		id := e.ids[i].Serialize()
		sk := e.sks[i]
		nx, pv := (i+1)%e.n, (i+e.n-1)%e.n
		// the honest verify message of member i (what round0.normalPieceVerify sends)
		e.add(w(sym{Name: fmt.Sprintf("hon(%d)", i), Class: clsHon, Sender: i, Byz: -1, Valid: true, Core: true, Mini: true},
			H, H, sig(sk, H.Bytes()), id, sig(sk, R)))
		// well-signed share over a different hash, filed under this block
		e.add(w(sym{Name: fmt.Sprintf("otherhash(%d)", i), Class: clsOther, Sender: i, Byz: i, Core: true, Mini: true},
			H, H2, sig(sk, H2.Bytes()), id, sig(sk, R)))
		// claims this block's hash but the signature is the member's signature over the other hash
		e.add(w(sym{Name: fmt.Sprintf("sigmismatch(%d)", i), Class: clsMismatch, Sender: i, Byz: i},
			H, H, sig(sk, H2.Bytes()), id, sig(sk, R)))
		// another member's (valid) shares replayed under the own id
		e.add(w(sym{Name: fmt.Sprintf("replay(%d<-%d)", i, nx), Class: clsReplay, Sender: i, Byz: i, Core: true, Mini: true},
			H, H, sig(e.sks[nx], H.Bytes()), id, sig(e.sks[nx], R)))
		if pv != nx {
			e.add(w(sym{Name: fmt.Sprintf("replay(%d<-%d)", i, pv), Class: clsReplay, Sender: i, Byz: i},
				H, H, sig(e.sks[pv], H.Bytes()), id, sig(e.sks[pv], R)))
		}
		// only the block share is another member's (valid) share; the beacon share is the sender's own valid one
		e.add(w(sym{Name: fmt.Sprintf("replayblock(%d<-%d)", i, nx), Class: clsReplay, Sender: i, Byz: i},
			H, H, sig(e.sks[nx], H.Bytes()), id, sig(sk, R)))
		if pv != nx {
			e.add(w(sym{Name: fmt.Sprintf("replayblock(%d<-%d)", i, pv), Class: clsReplay, Sender: i, Byz: i},
				H, H, sig(e.sks[pv], H.Bytes()), id, sig(sk, R)))
		}
		// garbage block-signature points
		e.add(w(sym{Name: fmt.Sprintf("garbagesig:offcurve(%d)", i), Class: clsGarbage, Sender: i, Byz: i, Core: true},
			H, H, offCurve, id, sig(sk, R)))
		e.add(w(sym{Name: fmt.Sprintf("garbagesig:infinity(%d)", i), Class: clsGarbage, Sender: i, Byz: i},
			H, H, infinity, id, sig(sk, R)))
		// honest block share, bad beacon share
		e.add(w(sym{Name: fmt.Sprintf("badbeacon:othermsg(%d)", i), Class: clsBeacon, Sender: i, Byz: i, Core: true, Mini: true},
			H, H, sig(sk, H.Bytes()), id, sig(sk, R2)))
		e.add(w(sym{Name: fmt.Sprintf("badbeacon:othermember(%d)", i), Class: clsBeacon, Sender: i, Byz: i},
			H, H, sig(sk, H.Bytes()), id, sig(e.sks[nx], R)))
		e.add(w(sym{Name: fmt.Sprintf("badbeacon:blockshare(%d)", i), Class: clsBeacon, Sender: i, Byz: i},
			H, H, sig(sk, H.Bytes()), id, sig(sk, H.Bytes())))
		e.add(w(sym{Name: fmt.Sprintf("badbeacon:offcurve(%d)", i), Class: clsBeacon, Sender: i, Byz: i},
			H, H, sig(sk, H.Bytes()), id, offCurve))
		e.add(w(sym{Name: fmt.Sprintf("badbeacon:infinity(%d)", i), Class: clsBeacon, Sender: i, Byz: i},
			H, H, sig(sk, H.Bytes()), id, infinity))
		e.add(w(sym{Name: fmt.Sprintf("badbeacon:empty(%d)", i), Class: clsBeacon, Sender: i, Byz: i},
			H, H, sig(sk, H.Bytes()), id, nil))
		// the three hash-valued fields as independent dimensions: filed under (cvm.BlockHash),
		// claimed (SignInfo.dataHash), actually signed; each this block's hash b or another hash K / K2;
		// honest beacon share.  (b,b,b) is hon, (b,K,K) otherhash, (b,b,K) sigmismatch above.
		hv := []common.Hash{H, H2, e.H3}
		for f := 0; f < 3; f++ {
			for d := 0; d < 3; d++ {
				for g := 0; g < 3; g++ {
					if (f == 0 && d == 0 && g == 0) || (f == 0 && d == 1 && g == 1) || (f == 0 && d == 0 && g == 1) {
						continue
					}
					e.add(w(sym{Name: fmt.Sprintf("fields[filed=%s,claimed=%s,signed=%s](%d)", hname[f], hname[d], hname[g], i),
						Class: clsFields, Sender: i, Byz: i, Optional: g == 0, Pattern: hpattern(f, d, g)},
						hv[f], hv[d], sig(sk, hv[g].Bytes()), id, sig(sk, R)))
				}
			}
		}
		// both shares wrong in a correlated way: neither is valid for what it is filed under, but
		// sums / linear combinations of the pair are (defeats any check that binds only a combination)
		s1, s2 := sig(sk, H.Bytes()), sig(sk, R)
		gen := new(bn_curve.G1).ScalarBaseMult(big.NewInt(1)).Marshal()
		identity := make([]byte, 64)
		pair := func(name string, core bool, a, b []byte) {
			e.add(w(sym{Name: fmt.Sprintf("pair:%s(%d)", name, i), Class: clsPair, Sender: i, Byz: i, Core: core},
				H, H, a, id, b))
		}
		pair("swapped", false, s2, s1)
		pair("offset-generator", true, g1add(s1, gen), g1sub(s2, gen))
		pair("offset-othershare", false, g1add(s1, sig(e.sks[nx], H.Bytes())), g1sub(s2, sig(e.sks[nx], H.Bytes())))
		pair("sum-identity", false, g1add(s1, s2), identity)
		pair("identity-sum", false, identity, g1add(s1, s2))
		pair("negated", false, g1neg(s1), g1neg(s2))
		// flood junk (volume dimension, flood.go): distinct messages (own message id each) of member i
		// that reuse one signature over another hash and differ in the claimed hash only
		sigK := sig(sk, H2.Bytes())
		for j := 0; j < maxFlood; j++ {
			dh := common.BytesToHash(common.Sha256([]byte(fmt.Sprintf("verif-c15/junk/%d/%d", i, j))))
			if j == 0 {
				dh = H2 // the first one is well-signed for the hash it claims
			}
			e.add(w(sym{Name: fmt.Sprintf("junk(%d)#%d", i, j), Class: clsFlood, Sender: i, Byz: i}, H, dh, sigK, id, s2))
		}
	}
	// senders that are not members of the group
	xid, xsk := detID("outsider"), detSk("outsider-key")
	e.add(w(sym{Name: "nonmember:ownkey", Class: clsNon, Sender: -1, Byz: -1, Core: true},
		H, H, sig(xsk, H.Bytes()), xid.Serialize(), sig(xsk, R)))
	e.add(w(sym{Name: "nonmember:replay", Class: clsNon, Sender: -1, Byz: -1},
		H, H, sig(e.sks[1], H.Bytes()), xid.Serialize(), sig(e.sks[1], R)))
	e.add(w(sym{Name: "nonmember:zeroid", Class: clsNon, Sender: -1, Byz: -1},
		H, H, sig(e.sks[1], H.Bytes()), make([]byte, 32), sig(e.sks[1], R)))
}

// ---------------------------------------------------------------------------------
// one execution

type kase struct {
	N     int      `json:"n"`
	Seq   []string `json:"seq"` // messages delivered after round1 has started
	Party bool     `json:"party"`
	// phased histories: Parked are delivered through baseParty.Update while the party is still in
	// round0 (they are parked in futureMessages), then the transition round0 -> round1
	// (round1.Start replays them), then Seq
	Phased bool     `json:"phased,omitempty"`
	Parked []string `json:"parked,omitempty"`
	// volume histories (flood.go): regenerated from the description
	Flood *floodCase `json:"flood,omitempty"`
	// Warm: every member's honest message was verified in this process before the case ran
	Warm bool `json:"warm,omitempty"`
}

type finding struct {
	Sig, Part, Msg string
	Step           int
	Admits         bool
}

type result struct {
	keys     []string // canonical state after every message
	outcomes []string // model-side classification of every message
	f        *finding
	admitted int
	refused  int
}

type instance struct {
	e     *env
	v     *logical.VerifRound
	chain *chainStub
	done  int
	errs  []string
	// round2.checkSignature is re-run whenever the header's Signature/Random bytes differ
	// from the ones it was last run on in this instance
	checkedOn  string
	checkedErr error
	// phased histories
	delivered []sym // every message handed to this instance so far (to name the culprit of an admitted entry)
	// flex comparison (a batch replayed in map order and/or optional messages): the held set may be
	// any S with S within A (valid entries only), |S| >= min(k, |flexMust|), and flexMust within S while |S| < k
	flexM       bool
	flexMust    map[int]bool
	flexPresent map[int]bool // the members whose block share is held, observed under flexM
}

// culprit names the class of the delivered message an inadmissible share-set entry came from.
func (in *instance) culprit(sh logical.VerifRoundShare, which int, cur sym) sym {
	for _, d := range in.delivered {
		b := d.dataSign
		if which == 1 {
			b = d.rnd
		}
		if bytes.Equal(b, sh.Sig) && groupsig.DeserializeID(d.signer).GetHexString() == sh.Id {
			return d
		}
	}
	return cur
}

func admitSigFor(d sym) string {
	if d.Class == clsFields {
		return "C15:admits-share-not-over-block-hash:" + d.Pattern
	}
	return admitSig(d.Class)
}

func (e *env) freshRound0() *instance {
	bh, pre := e.bh, e.pre
	ch := &chainStub{}
	v := logical.VerifRoundNewInRound0(belong, ch, netStub{}, e.ids[0], e.group, &bh, &pre)
	if v == nil {
		panic("harness: party could not be constructed")
	}
	return &instance{e: e, v: v, chain: ch}
}

func (e *env) fresh() *instance {
	bh, pre := e.bh, e.pre
	ch := &chainStub{}
	v := logical.VerifRoundNew(belong, ch, netStub{}, e.ids[0], e.group, &bh, &pre)
	if v == nil {
		panic("harness: round1 could not be constructed")
	}
	return &instance{e: e, v: v, chain: ch}
}

func sharesStr(s []logical.VerifRoundShare) string {
	var b strings.Builder
	for _, x := range s {
		b.WriteString(x.Id)
		b.WriteByte('=')
		b.WriteString(hex.EncodeToString(x.Sig))
		b.WriteByte(';')
	}
	return b.String()
}

func (in *instance) key() string {
	blk, bea := in.v.VerifRoundBlockShares(), in.v.VerifRoundBeaconShares()
	rs, rr := in.v.VerifRoundRecovered()
	h := in.v.VerifRoundHeader()
	p, f, st := in.v.VerifRoundBookkeeping()
	return fmt.Sprintf("B[%s]R[%s]cp=%v rec=%x/%x hdr=%x/%x proc=%v fut=%v started=%v rnd=%d fin=%v done=%d errs=%d gen=%d",
		sharesStr(blk), sharesStr(bea), in.v.VerifRoundCanProceed(), rs, rr, h.Signature, h.Random, p, f, st,
		in.v.VerifRoundNumber(), in.v.VerifRoundFinished(), in.done, len(in.errs), len(in.chain.generated))
}

func admitSig(class string) string {
	switch class {
	case clsOther, clsFlood:
		return "C15:admits-share-over-other-hash"
	case clsReplay:
		return "C15:admits-replayed-share"
	case clsMismatch, clsGarbage:
		return "C15:admits-invalid-share"
	case clsBeacon:
		return "C15:admits-share-with-invalid-beacon"
	case clsNon:
		return "C15:admits-non-member"
	case clsPair:
		return "C15:admits-correlated-share-pair"
	}
	return "C15:share-set-corrupt"
}

func setNames(m map[int]bool) []int {
	var o []int
	for i := range m {
		o = append(o, i)
	}
	sort.Ints(o)
	return o
}

// compare checks one instance against the model after message s.
//
//	M = first valid share per member until the threshold was reached (must be present)
//	A = every member that has sent a valid message so far (nothing else may be present)
func (in *instance) compare(part string, step int, s sym, M, A map[int]bool) *finding {
	e := in.e
	sets := [2][]logical.VerifRoundShare{in.v.VerifRoundBlockShares(), in.v.VerifRoundBeaconShares()}
	names := [2]string{"block-signature", "random-beacon"}
	for w := 0; w < 2; w++ {
		present := map[int]bool{}
		for _, sh := range sets[w] {
			idx, isMember := e.member[sh.Id]
			ok := isMember && A[idx] && bytes.Equal(sh.Sig, e.valid[w][sh.Id])
			if ok && !present[idx] {
				present[idx] = true
				continue
			}
			why := "is not the sender's valid share"
			if !isMember {
				why = "is filed under an id that is not a group member"
			} else if present[idx] {
				why = "counts a member twice"
			} else if !A[idx] {
				why = fmt.Sprintf("belongs to member %d who has not sent a valid message", idx)
			}
			return &finding{Sig: admitSigFor(in.culprit(sh, w, s)), Part: part, Step: step, Admits: true,
				Msg: fmt.Sprintf("after message %d (%s) the %s share set holds an entry %s=%x… that %s; model set = members %v",
					step+1, s.Name, names[w], sh.Id, sh.Sig[:min(8, len(sh.Sig))], why, setNames(M))}
		}
		if in.flexM {
			if need := min(e.k, len(in.flexMust)); len(present) < need {
				return &finding{Sig: "C15:drops-valid-share", Part: part, Step: step,
					Msg: fmt.Sprintf("after %s the %s share set holds %d valid shares, at least %d expected (members with a valid message: %v, k=%d); implementation set = [%s]",
						s.Name, names[w], len(present), need, setNames(in.flexMust), e.k, sharesStr(sets[w]))}
			}
			if len(present) < e.k {
				for idx := range in.flexMust {
					if !present[idx] {
						sig := "C15:drops-valid-share"
						if s.Valid && s.Sender == idx {
							sig = "C15:rejects-valid-share"
						}
						return &finding{Sig: sig, Part: part, Step: step,
							Msg: fmt.Sprintf("after %s the %s share set lacks the valid share of member %d and holds fewer than k=%d shares; implementation set = [%s]",
								s.Name, names[w], idx, e.k, sharesStr(sets[w]))}
					}
				}
			}
			if w == 0 {
				in.flexPresent = present
			}
			continue
		}
		for idx := range M {
			if !present[idx] {
				sig := "C15:drops-valid-share"
				if s.Valid && s.Sender == idx {
					sig = "C15:rejects-valid-share"
				}
				return &finding{Sig: sig, Part: part, Step: step,
					Msg: fmt.Sprintf("after message %d (%s) the %s share set lacks the valid share of member %d; model set = members %v, implementation set = [%s]",
						step+1, s.Name, names[w], idx, setNames(M), sharesStr(sets[w]))}
			}
		}
	}
	cp := in.v.VerifRoundCanProceed()
	if len(M) >= e.k && !cp {
		return &finding{Sig: "C15:threshold-reached-cannot-proceed", Part: part, Step: step,
			Msg: fmt.Sprintf("after message %d (%s) %d >= k=%d valid shares are held (members %v) but CanProceed is false",
				step+1, s.Name, len(M), e.k, setNames(M))}
	}
	if cp {
		h := in.v.VerifRoundHeader()
		if on := fmt.Sprintf("%x|%x", h.Signature, h.Random); on != in.checkedOn {
			if p, val, site := fw.Try(func() { in.checkedErr = in.v.VerifRoundCheckSignature() }); p {
				return &finding{Sig: "C15:panic:" + site, Part: part, Step: step,
					Msg: fmt.Sprintf("round2.checkSignature panicked after message %d (%s): %v", step+1, s.Name, val)}
			}
			in.checkedOn = on
		}
		cerr := in.checkedErr
		bad := ""
		switch {
		case cerr != nil:
			bad = "round2.checkSignature: " + cerr.Error()
		case !bytes.Equal(h.Signature, e.want[0]):
			bad = "bh.Signature is not the group's (unique) signature over bh.Hash"
		case !bytes.Equal(h.Random, e.want[1]):
			bad = "bh.Random is not the group's (unique) signature over the previous beacon value"
		}
		if bad != "" {
			return &finding{Sig: "C15:recovered-signature-invalid", Part: part, Step: step,
				Msg: fmt.Sprintf("after message %d (%s) the round can proceed (model holds %d valid shares, k=%d) but %s",
					step+1, s.Name, len(M), e.k, bad)}
		}
	}
	return nil
}

// exec runs one message sequence on fresh instances (a round-level one driven through
// round1.Update; with party also a second one driven through baseParty.Update, which is
// what Processor.OnMessageVerify calls) and compares with the model after every message.
func (e *env) exec(seq []int, party bool) result {
	var res result
	ra := e.fresh()
	var pa *instance
	if party {
		pa = e.fresh()
	}
	M, A := map[int]bool{}, map[int]bool{}
	if th := ra.v.VerifRoundThreshold(); th != e.k {
		res.f = &finding{Sig: "C15:threshold", Part: "round", Msg: fmt.Sprintf("generator threshold %d, GetGroupK(%d)=%d", th, e.n, e.k)}
		return res
	}
	for step, si := range seq {
		s := e.syms[si]
		// model
		pending := e.modelStep(s, M, A, &res)
		// implementation, round level
		var uerr error
		msg := s.message()
		if p, val, site := fw.Try(func() { uerr = ra.v.VerifRoundUpdate(msg) }); p {
			res.f = &finding{Sig: "C15:panic:" + site, Part: "round", Step: step,
				Msg: fmt.Sprintf("round1.Update panicked on message %d (%s): %v", step+1, s.Name, val)}
			return res
		}
		if uerr != nil {
			res.f = &finding{Sig: "C15:update-error", Part: "round", Step: step,
				Msg: fmt.Sprintf("round1.Update returned an error on message %d (%s): %v", step+1, s.Name, uerr)}
			return res
		}
		if pending {
			if res.f = e.resolveOptional(ra, "round", step, s, M, A, &res); res.f != nil {
				return res
			}
		}
		if res.f = ra.compare("round", step, s, M, A); res.f != nil {
			return res
		}
		k := ra.key()
		// implementation, party level
		if pa != nil {
			msg2 := s.message()
			if p, val, site := fw.Try(func() { pa.v.VerifRoundPartyUpdate(msg2) }); p {
				res.f = &finding{Sig: "C15:panic:" + site, Part: "party", Step: step,
					Msg: fmt.Sprintf("party.Update panicked on message %d (%s): %v", step+1, s.Name, val)}
				return res
			}
			d, perr := pa.v.VerifRoundPartyResult()
			if d {
				pa.done++
			}
			if perr != nil {
				pa.errs = append(pa.errs, perr.Error())
			}
			if res.f = pa.compare("party", step, s, M, A); res.f != nil {
				return res
			}
			wantDone := 0
			if len(M) >= e.k {
				wantDone = 1
			}
			okGen := len(pa.chain.generated) == wantDone
			if okGen && wantDone == 1 {
				g := pa.chain.generated[0]
				okGen = bytes.Equal(g.Signature, e.want[0]) && bytes.Equal(g.Random, e.want[1]) && g.Hash == e.H
			}
			if len(pa.errs) > 0 || pa.done != wantDone || !okGen {
				res.f = &finding{Sig: "C15:party-not-finalised", Part: "party", Step: step,
					Msg: fmt.Sprintf("after message %d (%s) the model holds %d valid shares (k=%d): expected done=%d and %d generated block(s) carrying the group signatures; party reports done=%d errors=%v generated=%d",
						step+1, s.Name, len(M), e.k, wantDone, wantDone, pa.done, pa.errs, len(pa.chain.generated))}
				return res
			}
			k += " || " + pa.key()
		}
		res.keys = append(res.keys, fmt.Sprintf("%s || M=%v A=%v", k, setNames(M), setNames(A)))
	}
	return res
}

// consequence continues a sequence that made the implementation admit an invalid share
// with the honest messages of all members and says whether the block can still finalise.
func (e *env) consequence(seq []int) string {
	in := e.fresh()
	out := ""
	p, val, _ := fw.Try(func() {
		for _, si := range seq {
			in.v.VerifRoundUpdate(e.syms[si].message())
		}
		for i := 0; i < e.n; i++ {
			in.v.VerifRoundUpdate(e.syms[e.byName[fmt.Sprintf("hon(%d)", i)]].message())
		}
		if !in.v.VerifRoundCanProceed() {
			out = "the round cannot proceed"
			return
		}
		if err := in.v.VerifRoundCheckSignature(); err != nil {
			out = fmt.Sprintf("the round proceeds with %d block shares but round2.checkSignature fails (%v): the block cannot finalise although all %d members sent their honest message afterwards",
				len(in.v.VerifRoundBlockShares()), err, e.n)
			return
		}
		out = "the round still finalises"
	})
	if p {
		return fmt.Sprintf("panic %v", val)
	}
	return out
}

func (e *env) names(seq []int) []string {
	o := make([]string, len(seq))
	for i, s := range seq {
		o[i] = e.syms[s].Name
	}
	return o
}

// report re-runs the failing sequence and records the violation if it fails identically.
func (e *env) report(c *fw.Ctx, seq []int, party bool, f *finding) {
	seq = append([]int{}, seq[:f.Step+1]...)
	again := e.exec(seq, party)
	if again.f == nil || again.f.Sig != f.Sig || again.f.Step != f.Step {
		c.Count("unreproduced_findings", 1)
		return
	}
	msg := fmt.Sprintf("n=%d k=%d sequence=%v: %s", e.n, e.k, e.names(seq), f.Msg)
	if f.Admits {
		msg += "; consequence when every member's honest message follows: " + e.consequence(seq)
	}
	c.Violation(f.Sig, f.Part, msg, kase{N: e.n, Seq: e.names(seq), Party: party})
}

func byzOf(e *env, seq []int) map[int]bool {
	b := map[int]bool{}
	for _, si := range seq {
		if x := e.syms[si].Byz; x >= 0 {
			b[x] = true
		}
	}
	return b
}

func (e *env) account(c *fw.Ctx, seq []int, res result) {
	c.Eval(1)
	c.Trace(1)
	c.Transition(int64(len(res.keys)))
	for _, o := range res.outcomes[:min(len(res.outcomes), len(res.keys)+1)] {
		c.Outcome(o)
	}
	if res.f == nil && len(seq) >= 3 && res.admitted > 0 && res.refused > 0 {
		c.Sample(map[string]interface{}{"n": e.n, "k": e.k, "messages": e.names(seq), "model": res.outcomes,
			"final_state": res.keys[len(res.keys)-1]})
	}
	if res.f == nil && res.admitted > 0 && res.refused > 0 {
		c.Nontrivial(fmt.Sprintf("%d|%s", e.n, strings.Join(e.names(seq), ",")))
	}
}

// ---------------------------------------------------------------------------------
// part A: BFS over histories, full alphabet restricted to one Byzantine set

func (e *env) bfs(c *fw.Ctx, byz []int, depth int, coreOnly bool) {
	isB := map[int]bool{}
	for _, b := range byz {
		isB[b] = true
	}
	var alpha []int
	for i, s := range e.syms {
		if s.Class != clsFlood && (s.Byz < 0 || isB[s.Byz]) && (!coreOnly || s.Core) {
			alpha = append(alpha, i)
		}
	}
	seen := map[string]bool{"": true}
	frontier := [][]int{{}}
	c.State(1)
	for d := 1; d <= depth && len(frontier) > 0; d++ {
		var next [][]int
		for _, h := range frontier {
			for _, a := range alpha {
				if c.Expired() {
					c.Cap(fmt.Sprintf("bfs n=%d stopped by the time budget", e.n))
					return
				}
				seq := append(append([]int{}, h...), a)
				res := e.exec(seq, true)
				e.account(c, seq, res)
				if res.f != nil {
					e.report(c, seq, true, res.f)
					continue // diverged from the model: not extended
				}
				k := res.keys[len(res.keys)-1]
				if !seen[k] {
					seen[k] = true
					c.State(1)
					next = append(next, seq)
				}
			}
		}
		frontier = next
	}
	if len(frontier) == 0 {
		c.Count(fmt.Sprintf("bfs_n%d_fixpoints", e.n), 1) // no new state: closed under every longer history too
	}
}

func subsets(n, size int) [][]int {
	var out [][]int
	var rec func(start int, cur []int)
	rec = func(start int, cur []int) {
		if len(cur) == size {
			out = append(out, append([]int{}, cur...))
			return
		}
		for i := start; i < n; i++ {
			rec(i+1, append(cur, i))
		}
	}
	rec(0, nil)
	return out
}

// ---------------------------------------------------------------------------------
// part B: every sequence of exactly length L over the core alphabet (all shorter ones
// are its prefixes and are checked on the way), at most maxByz distinct Byzantine members

func (e *env) literal(c *fw.Ctx, idx *int64, mini bool, L, moreThanByz, maxByz int) {
	var alpha []int
	name := "core"
	if mini {
		name = "mini"
	}
	for i, s := range e.syms {
		if (!mini && s.Core) || (mini && s.Mini) {
			alpha = append(alpha, i)
		}
	}
	od := make([]int, L)
	seq := make([]int, L)
	for {
		for i := range od {
			seq[i] = alpha[od[i]]
		}
		if nb := len(byzOf(e, seq)); nb > moreThanByz && nb <= maxByz {
			*idx++
			if c.Mine(*idx) {
				if c.Expired() {
					c.Cap(fmt.Sprintf("literal n=%d %s alphabet L=%d %d<byz<=%d not finished within the time budget", e.n, name, L, moreThanByz, maxByz))
					return
				}
				res := e.exec(seq, false)
				e.account(c, seq, res)
				if res.f != nil {
					e.report(c, seq, false, res.f)
				}
			}
		}
		// next
		p := L - 1
		for p >= 0 {
			od[p]++
			if od[p] < len(alpha) {
				break
			}
			od[p] = 0
			p--
		}
		if p < 0 {
			return
		}
	}
}

type litPass struct {
	mini          bool // reduced alphabet instead of the core alphabet
	length        int
	gtByz, maxByz int // sequences with more than gtByz and at most maxByz distinct Byzantine members
}

type plan struct {
	n                int
	bfsByz, bfsDepth int  // BFS: one task per set of bfsByz possibly-Byzantine members (covers fewer), depth n+2
	bfsCore          bool // BFS over the core alphabet only (one flavour per message class)
	lit              []litPass
	// phased histories (parked in round0 / transition / live): one Byzantine member at a time,
	// live BFS depth phLive (-1: no phased pass), phParty: party-level instance in lock-step
	phLive  int
	phParty bool
	phCore  bool // live alphabet of the phased pass: core alphabet (else honest messages + the parked extra)
}

func plans(thorough bool) []plan {
	if !thorough {
		return []plan{
			{n: 3, bfsByz: 1, bfsDepth: 5, lit: []litPass{{false, 3, -1, 1}}, phLive: 1},
			{n: 4, bfsByz: 1, bfsDepth: 6, bfsCore: true, phLive: -1},
		}
	}
	return []plan{
		{n: 3, bfsByz: 2, bfsDepth: 5, lit: []litPass{{false, 4, -1, 1}, {false, 3, 1, 2}, {true, 5, -1, 1}}, phLive: 2, phParty: true, phCore: true},
		{n: 4, bfsByz: 2, bfsDepth: 6, phLive: 1, phCore: true},
		{n: 5, bfsByz: 2, bfsDepth: 7, lit: []litPass{{false, 3, -1, 1}, {true, 4, -1, 1}}, phLive: 0},
	}
}

func cpuMs() int64 {
	var ru syscall.Rusage
	syscall.Getrusage(syscall.RUSAGE_SELF, &ru)
	return (ru.Utime.Nano() + ru.Stime.Nano()) / 1e6
}

func run(c *fw.Ctx) {
	var idx int64
	defer func() { c.Count("worker_cpu_ms", cpuMs()) }()
	ps := plans(c.Thorough())
	// phase 1: BFS over histories, one task per Byzantine set
	for _, p := range ps {
		e := getEnv(p.n)
		c.Note(fmt.Sprintf("n%d", p.n), map[string]interface{}{"k": e.k, "alphabet": len(e.syms),
			"bfs_byzantine": p.bfsByz, "bfs_depth": p.bfsDepth, "literal_passes(mini,len,gtByz,maxByz)": fmt.Sprint(p.lit)})
		var direct []string
		for _, sy := range e.syms {
			if sy.Direct {
				direct = append(direct, sy.Name)
			}
		}
		c.Note(fmt.Sprintf("n%d_messages_not_handed_over_by_the_wire_decoder_built_directly", p.n), direct)
		for _, b := range subsets(p.n, p.bfsByz) {
			idx++
			if c.Mine(idx) {
				e.bfs(c, b, p.bfsDepth, p.bfsCore)
			}
		}
	}
	// phase 1b: delivery phase as a dimension (parked in round0 / transition / live)
	for _, p := range ps {
		if p.phLive < 0 {
			continue
		}
		e := getEnv(p.n)
		for _, b := range subsets(p.n, 1) {
			e.phased(c, &idx, b, p.phLive, p.phParty, p.phCore)
		}
	}
	// phase 1c: volume (one faulty member floods with distinct junk messages)
	ladder := []int{1, 70, 300}
	floodN := []int{3, 5}
	if c.Thorough() {
		ladder = []int{1, 8, 64, 256, maxFlood}
		floodN = []int{3, 4, 5}
	}
	for _, n := range floodN {
		getEnv(n).floods(c, &idx, ladder)
	}
	// phase 1d: warm process state
	for _, p := range ps {
		if p.phLive >= 0 {
			getEnv(p.n).warm(c, &idx)
		}
	}
	// phase 2: literal enumeration
	for _, p := range ps {
		e := getEnv(p.n)
		for _, l := range p.lit {
			e.literal(c, &idx, l.mini, l.length, l.gtByz, l.maxByz)
		}
	}
}

func replay(c *fw.Ctx, raw json.RawMessage) {
	var k kase
	if err := json.Unmarshal(raw, &k); err != nil {
		panic(err)
	}
	if k.N < 2 || k.N > maxMembers {
		panic("replay: bad n")
	}
	e := getEnv(k.N)
	var seq []int
	for _, nm := range k.Seq {
		i, ok := e.byName[nm]
		if !ok {
			panic("replay: unknown message " + nm)
		}
		seq = append(seq, i)
	}
	if k.Warm {
		e.warmUp()
	}
	if k.Flood != nil {
		if f := e.runFlood(*k.Flood); f != nil {
			c.Violation(f.Sig, f.Part, f.Msg, k)
		}
		return
	}
	if k.Phased {
		var parked []int
		for _, nm := range k.Parked {
			i, ok := e.byName[nm]
			if !ok {
				panic("replay: unknown message " + nm)
			}
			parked = append(parked, i)
		}
		res := e.execPhased(parked, seq, k.Party)
		fmt.Printf("  parked %v, transition, live %v; model: %v\n", k.Parked, k.Seq, res.outcomes)
		if res.f != nil {
			msg := res.f.Msg
			if res.f.Admits {
				msg += "; consequence when every member's honest message follows: " + e.consequencePhased(parked, seq)
			}
			c.Violation(res.f.Sig, res.f.Part, msg, k)
		}
		return
	}
	res := e.exec(seq, k.Party)
	for i, o := range res.outcomes {
		fmt.Printf("  message %d %-28s model: %s\n", i+1, k.Seq[i], o)
	}
	if res.f != nil {
		msg := res.f.Msg
		if res.f.Admits {
			msg += "; consequence when every member's honest message follows: " + e.consequence(seq[:res.f.Step+1])
		}
		c.Violation(res.f.Sig, res.f.Part, msg, k)
	}
}

func main() {
	fw.Main(fw.Check{
		ID: "C15", Level: "model_checking",
		Rule: "a case is one verify-message history executed on a fresh real SignParty (fresh rounds, share generators, header): live-only histories, and phased histories = messages parked while the party is in round0, the transition round0->round1 (round1.Start replays them), live messages; " +
			"histories are distinct as symbol sequences (BFS histories are counted only outside the literally enumerated space); " +
			"non-trivial = the reference model admits at least one share and refuses (invalid / duplicate / after recovery) at least one message of the history",
		Assumptions: []string{
			"the repository's BN256 arithmetic (groupsig.Sign / GeneratePubkey / ShareSeckey) is used to deal keys and to produce the messages; the oracle uses it only through uniqueness: the recovered signature must equal Sign(group secret, message) byte for byte, in addition to round2.checkSignature",
			"threshold keys are dealt in the harness with the repository's primitives the way the DKG combines them (sum of n degree-(k-1) polynomial dealings); key generation itself is C13",
			"chain stub: proposed block not yet on chain, GenerateBlock echoes the header; network stub: sends nothing; proposal checks of round0 (castor, VRF, group selection, VerifyBlock) are assumed passed — the hook installs bh/preBH/group as round0 leaves them",
			"messages enter as wire bytes through net.UnMarshalConsensusVerifyMessage (the production decoder); processor-level routing by BlockHash and the 10 s party timeout are outside",
			"BFS merges histories whose complete implementation state (both share maps with values, recovered signatures, header Signature/Random, flags, bookkeeping maps, party round/done/err) and model state coincide",
		},
		Run: run, Replay: replay,
		Budget: func(tier string) time.Duration {
			if tier == "thorough" {
				return 17 * time.Minute
			}
			return 70 * time.Second
		},
	})
}
