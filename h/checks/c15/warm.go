// C15, process-state dimension: package-level state of the node (anything a verification
// path may remember across messages and parties) is never re-initialised inside a worker
// process, so all histories of a worker already share one process state.  This pass makes
// the "warm" case explicit and deterministic: every worker first lets a party verify the
// honest message of every member (live and through the parked/replay path), then re-runs a
// slice of the histories in the same process — every message of the full alphabet alone,
// live and parked+transition, and after each honest original — with the unchanged oracle.
package main

import (
	"fmt"

	"verif/h/fw"
)

// warmUp lets a party verify every member's honest message once, live and through the parked path.
func (e *env) warmUp() {
	for i := 0; i < e.n; i++ {
		h := e.byName[fmt.Sprintf("hon(%d)", i)]
		e.exec([]int{h}, true)
		e.execPhased([]int{h}, nil, true)
	}
}

func (e *env) warm(c *fw.Ctx, idx *int64) {
	var hon []int
	for i := 0; i < e.n; i++ {
		hon = append(hon, e.byName[fmt.Sprintf("hon(%d)", i)])
	}
	e.warmUp()
	for si, s := range e.syms {
		if s.Class == clsFlood && si != e.byName[fmt.Sprintf("junk(%d)#0", s.Sender)] {
			continue
		}
		// alone (live / parked), and right after the honest message of every member (same party)
		cases := [][2][]int{{nil, {si}}, {{si}, nil}}
		for _, h := range hon {
			cases = append(cases, [2][]int{nil, {h, si}}, [2][]int{{h}, {si}}, [2][]int{{h, si}, nil})
		}
		for _, cs := range cases {
			*idx++
			if !c.Mine(*idx) {
				continue
			}
			if c.Expired() {
				c.Cap(fmt.Sprintf("warm n=%d not finished within the time budget", e.n))
				return
			}
			parked, live := cs[0], cs[1]
			var res result
			phased := len(parked) > 0
			if phased {
				res = e.execPhased(parked, live, true)
			} else {
				res = e.exec(live, true)
			}
			c.Eval(1)
			c.Trace(1)
			c.Transition(int64(len(res.keys)))
			c.Count("warm_histories", 1)
			if res.f != nil {
				e.reportTagged(c, phased, parked, live, res.f)
			} else if res.admitted > 0 && res.refused > 0 {
				c.Nontrivial(fmt.Sprintf("%d|warm|%v|%v", e.n, e.names(parked), e.names(live)))
			}
		}
	}
}

// reportTagged records a finding of the warm pass (re-run first; sig tagged ":warm").
func (e *env) reportTagged(c *fw.Ctx, phased bool, parked, live []int, f *finding) {
	var again result
	if phased {
		again = e.execPhased(parked, live, true)
	} else {
		again = e.exec(live, true)
	}
	if again.f == nil || again.f.Sig != f.Sig {
		c.Count("unreproduced_findings", 1)
		return
	}
	msg := fmt.Sprintf("n=%d k=%d (process state warm: every member's honest message was verified before in this process) parked=%v live=%v: %s",
		e.n, e.k, e.names(parked), e.names(live), f.Msg)
	c.Violation(f.Sig+":warm", f.Part, msg, kase{N: e.n, Phased: phased, Parked: e.names(parked), Seq: e.names(live), Party: true, Warm: true})
}
