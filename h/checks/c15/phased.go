// C15, delivery phase as a dimension: every message of the alphabet can reach the party
// (a) while it is still in round0 — baseParty.Update parks it in futureMessages
// (round0.CanAccept == 1) and round1.Start replays it at the transition — or (b) after
// round1 has started.  Histories: parked set, transition, live sequence.  Same model, same
// oracle: after every step at which shares can be admitted both share sets obey the
// reference admission rule, and at the threshold the recovered signatures are the group's.
package main

import (
	"bytes"
	"fmt"
	"strings"

	"verif/h/fw"
)

// modelStep classifies one live message and updates M (held) / A (members with a valid message).
// pending: s is an optional message that can be admitted now (sender not yet counted, threshold
// not reached); A tentatively contains the sender, resolveOptional settles it from the implementation.
func (e *env) modelStep(s sym, M, A map[int]bool, res *result) (pending bool) {
	switch {
	case s.Optional && (A[s.Sender] || len(M) >= e.k):
		res.outcomes = append(res.outcomes, "optional:no-effect-possible")
		res.refused++
	case s.Optional:
		A[s.Sender] = true
		return true
	case !s.Valid:
		res.outcomes = append(res.outcomes, "reject:"+s.Class)
		res.refused++
	case A[s.Sender]:
		res.outcomes = append(res.outcomes, "ignore:duplicate")
		res.refused++
	case len(M) >= e.k:
		res.outcomes = append(res.outcomes, "ignore:after-recovery")
		A[s.Sender] = true
		res.refused++
	default:
		M[s.Sender], A[s.Sender] = true, true
		res.admitted++
		if len(M) == e.k {
			res.outcomes = append(res.outcomes, "admit+recover")
		} else {
			res.outcomes = append(res.outcomes, "admit")
		}
	}
	return false
}

// resolveOptional: after the implementation handled the optional message s, accept either
// decision (everything else must still hold) and make the model follow it.
func (e *env) resolveOptional(in *instance, part string, step int, s sym, M, A map[int]bool, res *result) *finding {
	in.flexM, in.flexMust = true, copySet(M)
	f := in.compare(part, step, s, M, A)
	in.flexM, in.flexMust = false, nil
	if f != nil {
		return f
	}
	if in.flexPresent[s.Sender] {
		M[s.Sender] = true
		res.admitted++
		res.outcomes = append(res.outcomes, "optional:admitted:"+s.Pattern)
	} else {
		delete(A, s.Sender)
		res.refused++
		res.outcomes = append(res.outcomes, "optional:ignored:"+s.Pattern)
	}
	return nil
}

func copySet(m map[int]bool) map[int]bool {
	o := map[int]bool{}
	for k, v := range m {
		o[k] = v
	}
	return o
}

// partyOutcome checks what the party reports against the model (done exactly when >= k valid shares).
func (e *env) partyOutcome(pa *instance, step int, what string, held int) *finding {
	d, perr := pa.v.VerifRoundPartyResult()
	if d {
		pa.done++
	}
	if perr != nil {
		pa.errs = append(pa.errs, perr.Error())
	}
	wantDone := 0
	if held >= e.k {
		wantDone = 1
	}
	okGen := len(pa.chain.generated) == wantDone
	if okGen && wantDone == 1 {
		g := pa.chain.generated[0]
		okGen = bytes.Equal(g.Signature, e.want[0]) && bytes.Equal(g.Random, e.want[1]) && g.Hash == e.H
	}
	if len(pa.errs) > 0 || pa.done != wantDone || !okGen {
		return &finding{Sig: "C15:party-not-finalised", Part: "party", Step: step,
			Msg: fmt.Sprintf("after %s the model holds %d valid shares (k=%d): expected done=%d and %d generated block(s) carrying the group signatures; party reports done=%d errors=%v generated=%d",
				what, held, e.k, wantDone, wantDone, pa.done, pa.errs, len(pa.chain.generated))}
	}
	return nil
}

// execPhased: parked messages go through baseParty.Update while the party stands in round0,
// then the transition (round1.Start replays them), then the live messages.
//
// round-level instance: transition = hook EnterRound1 (checkBlock's success + advance +
// round1.Start, one iteration of the party loop) so that round1 stays observable; live
// messages pass round1.CanAccept and then round1.Update, as in baseParty.Update.
// party-level instance (optional): everything through baseParty.Update; the proposal check
// completes just before the last parked message (or the first live one), whose Update
// parks it and lets the party's own loop make the transition, as in production.
//
// Steps are numbered: 0..len(parked)-1 parking, len(parked) the transition, then live.
func (e *env) execPhased(parked, live []int, party bool) result {
	var res result
	ra := e.freshRound0()
	var pa *instance
	if party {
		pa = e.freshRound0()
	}
	fail := func(f *finding) result { res.f = f; return res }

	// ---- parking
	seenWire := map[string]bool{}
	var P []int // distinct members with a valid parked message
	inP := map[int]bool{}
	optP := map[int]bool{} // senders of parked optional messages
	for step, si := range parked {
		s := e.syms[si]
		res.outcomes = append(res.outcomes, "park:"+s.Class)
		if !seenWire[string(s.Wire)] && s.Valid && !inP[s.Sender] {
			inP[s.Sender] = true
			P = append(P, s.Sender)
		}
		if s.Optional {
			optP[s.Sender] = true
		}
		seenWire[string(s.Wire)] = true
		msg := s.message()
		if p, val, site := fw.Try(func() { ra.v.VerifRoundPartyUpdate(msg) }); p {
			return fail(&finding{Sig: "C15:panic:" + site, Part: "round", Step: step,
				Msg: fmt.Sprintf("party.Update panicked while parking %s: %v", s.Name, val)})
		}
		ra.delivered = append(ra.delivered, s)
		if ra.v.VerifRoundNumber() != 0 {
			return fail(&finding{Sig: "C15:harness-not-in-round0", Part: "round", Step: step, Msg: "party left round0 while parking"})
		}
		if pa != nil {
			if step == len(parked)-1 {
				pa.v.VerifRoundProposalChecked()
			}
			msg2 := s.message()
			if p, val, site := fw.Try(func() { pa.v.VerifRoundPartyUpdate(msg2) }); p {
				return fail(&finding{Sig: "C15:panic:" + site, Part: "party", Step: step,
					Msg: fmt.Sprintf("party.Update panicked while parking %s: %v", s.Name, val)})
			}
			pa.delivered = append(pa.delivered, s)
		}
	}
	nParkedIds := len(ra.v.VerifRoundParked())

	// ---- transition
	step := len(parked)
	pn := fmt.Sprint(e.names(parked))
	if len(parked) > 8 {
		pn = fmt.Sprintf("[%s … %s] (%d messages)", strings.Join(e.names(parked[:3]), " "), strings.Join(e.names(parked[len(parked)-3:]), " "), len(parked))
	}
	startSym := sym{Name: "the transition round0->round1 replaying the parked messages " + pn, Class: "start", Sender: -1}
	var serr error
	if p, val, site := fw.Try(func() { serr = ra.v.VerifRoundEnterRound1() }); p {
		return fail(&finding{Sig: "C15:panic:" + site + ":parked", Part: "round", Step: step,
			Msg: fmt.Sprintf("round1.Start panicked replaying %v: %v", e.names(parked), val)})
	}
	if serr != nil {
		return fail(&finding{Sig: "C15:start-error", Part: "round", Step: step,
			Msg: fmt.Sprintf("round1.Start returned an error replaying %v: %v", e.names(parked), serr)})
	}
	if th := ra.v.VerifRoundThreshold(); th != e.k {
		return fail(&finding{Sig: "C15:threshold", Part: "round", Msg: fmt.Sprintf("generator threshold %d, GetGroupK(%d)=%d", th, e.n, e.k)})
	}
	// the batch is replayed in map order and may contain optional messages: the held set may be any
	// S within A = definite + optional senders, |S| >= min(k, definite), definite within S while |S| < k
	M, A := map[int]bool{}, map[int]bool{}
	must := map[int]bool{}
	for _, m := range P {
		A[m], must[m] = true, true
	}
	for m := range optP {
		A[m] = true
	}
	switch {
	case len(P) >= e.k:
		res.outcomes = append(res.outcomes, "start:recover")
	case len(P) > 0:
		res.outcomes = append(res.outcomes, "start:admit")
	default:
		res.outcomes = append(res.outcomes, "start:nothing-definitely-admissible")
	}
	settle := func(in *instance, part string) (map[int]bool, *finding) {
		in.flexM, in.flexMust = true, must
		f := in.compare(part, step, startSym, M, A)
		in.flexM, in.flexMust = false, nil
		if f != nil {
			return nil, f
		}
		held := copySet(in.flexPresent)
		// with the held set known, everything else (beacon set, CanProceed, recovered signatures)
		return held, in.compare(part, step, startSym, held, A)
	}
	M, f := settle(ra, "round")
	if f != nil {
		f.Sig += ":parked"
		return fail(f)
	}
	for m := range optP {
		if !must[m] {
			if M[m] {
				res.outcomes = append(res.outcomes, "optional:admitted-at-start")
			} else {
				res.outcomes = append(res.outcomes, "optional:ignored-at-start")
				if len(M) < e.k {
					delete(A, m)
				}
			}
		}
	}
	res.admitted += len(M)
	res.refused += len(parked) - min(len(M), len(parked))
	Mp := M
	attached := false
	if pa != nil {
		if len(parked) == 0 {
			pa.v.VerifRoundProposalChecked() // the first live message will be parked and replayed at once
		} else {
			attached = pa.v.VerifRoundAttach()
			if attached {
				held, f := settle(pa, "party")
				if f != nil {
					f.Sig += ":parked"
					return fail(f)
				}
				Mp = held
			}
			if f := e.partyOutcome(pa, step, startSym.Name, len(M)); f != nil {
				f.Sig += ":parked"
				return fail(f)
			}
		}
	}
	key := func() string {
		k := fmt.Sprintf("parked=%d %s", nParkedIds, ra.key())
		if pa != nil {
			k += fmt.Sprintf(" || party attached=%v rnd=%d done=%d errs=%d gen=%d", attached, pa.v.VerifRoundNumber(), pa.done, len(pa.errs), len(pa.chain.generated))
			if attached {
				k += " " + pa.key()
			}
		}
		return fmt.Sprintf("%s || M=%v A=%v", k, setNames(M), setNames(A))
	}
	res.keys = append(res.keys, key())

	// ---- live
	for j, si := range live {
		step := len(parked) + 1 + j
		s := e.syms[si]
		frozen := len(M) >= e.k
		pending := e.modelStep(s, M, A, &res)
		msg := s.message()
		var uerr error
		if p, val, site := fw.Try(func() {
			if ra.v.VerifRoundCanAccept(msg) == 0 {
				uerr = ra.v.VerifRoundUpdate(msg)
			}
		}); p {
			return fail(&finding{Sig: "C15:panic:" + site, Part: "round", Step: step,
				Msg: fmt.Sprintf("round1.Update panicked on live message %s: %v", s.Name, val)})
		}
		if uerr != nil {
			return fail(&finding{Sig: "C15:update-error", Part: "round", Step: step,
				Msg: fmt.Sprintf("round1.Update returned an error on live message %s: %v", s.Name, uerr)})
		}
		ra.delivered = append(ra.delivered, s)
		if pending {
			if f := e.resolveOptional(ra, "round", step, s, M, A, &res); f != nil {
				return fail(f)
			}
		}
		if !frozen && M[s.Sender] { // same decision for the party instance's own held set
			Mp[s.Sender] = true
		}
		if f := ra.compare("round", step, s, M, A); f != nil {
			return fail(f)
		}
		if pa != nil {
			msg2 := s.message()
			if p, val, site := fw.Try(func() { pa.v.VerifRoundPartyUpdate(msg2) }); p {
				return fail(&finding{Sig: "C15:panic:" + site, Part: "party", Step: step,
					Msg: fmt.Sprintf("party.Update panicked on live message %s: %v", s.Name, val)})
			}
			pa.delivered = append(pa.delivered, s)
			if !attached {
				attached = pa.v.VerifRoundAttach()
			}
			if attached {
				if f := pa.compare("party", step, s, Mp, A); f != nil {
					return fail(f)
				}
			}
			if f := e.partyOutcome(pa, step, "live message "+s.Name, len(M)); f != nil {
				return fail(f)
			}
		}
		res.keys = append(res.keys, key())
	}
	return res
}

func (e *env) consequencePhased(parked, live []int) string {
	out := ""
	p, val, _ := fw.Try(func() {
		in := e.freshRound0()
		for _, si := range parked {
			in.v.VerifRoundPartyUpdate(e.syms[si].message())
		}
		in.v.VerifRoundEnterRound1()
		deliver := func(si int) {
			if m := e.syms[si].message(); in.v.VerifRoundCanAccept(m) == 0 {
				in.v.VerifRoundUpdate(m)
			}
		}
		for _, si := range live {
			deliver(si)
		}
		for i := 0; i < e.n; i++ {
			deliver(e.byName[fmt.Sprintf("hon(%d)", i)])
		}
		if !in.v.VerifRoundCanProceed() {
			out = "the round cannot proceed"
			return
		}
		if err := in.v.VerifRoundCheckSignature(); err != nil {
			out = fmt.Sprintf("the round proceeds with %d block shares but round2.checkSignature fails (%v): the block cannot finalise although all %d members sent their honest message afterwards",
				len(in.v.VerifRoundBlockShares()), err, e.n)
			return
		}
		out = "the round still finalises"
	})
	if p {
		return fmt.Sprintf("panic %v", val)
	}
	return out
}

func (e *env) reportPhased(c *fw.Ctx, parked, live []int, party bool, f *finding) {
	cut := f.Step - len(parked)
	if cut < 0 {
		cut = 0
	}
	live = append([]int{}, live[:min(cut, len(live))]...)
	again := e.execPhased(parked, live, party)
	if again.f == nil || again.f.Sig != f.Sig || again.f.Step != f.Step {
		c.Count("unreproduced_findings", 1)
		return
	}
	msg := fmt.Sprintf("n=%d k=%d parked(in round0)=%v then transition then live=%v: %s", e.n, e.k, e.names(parked), e.names(live), f.Msg)
	if f.Admits {
		msg += "; consequence when every member's honest message follows: " + e.consequencePhased(parked, live)
	}
	c.Violation(f.Sig, f.Part, msg, kase{N: e.n, Phased: true, Parked: e.names(parked), Seq: e.names(live), Party: party})
}

// phased enumerates, for one set of possibly-Byzantine members: every parked set made of any
// subset of the honest messages plus at most one other message of the full alphabet (every
// Byzantine variant and every non-member message gets parked, alone and next to every
// honest subset), the transition, and then a BFS over live messages (core alphabet of the
// Byzantine set — or, without coreLive, just the honest messages — plus the parked extra message
// itself, so that the same message / the same member arrives in both phases) to liveDepth,
// merging on the full implementation state.
func (e *env) phased(c *fw.Ctx, idx *int64, byz []int, liveDepth int, party, coreLive bool) {
	isB := map[int]bool{}
	for _, b := range byz {
		isB[b] = true
	}
	var hon, extra, liveAlpha []int
	for i, s := range e.syms {
		if (s.Byz >= 0 && !isB[s.Byz]) || s.Class == clsFlood {
			continue
		}
		if s.Class == clsHon {
			hon = append(hon, i)
		} else {
			extra = append(extra, i)
		}
		if (coreLive && s.Core) || s.Class == clsHon {
			liveAlpha = append(liveAlpha, i)
		}
	}
	for mask := 0; mask < 1<<len(hon); mask++ {
		for xi := -1; xi < len(extra); xi++ {
			if mask == 0 && xi < 0 {
				continue // nothing parked: that is the live-only BFS
			}
			*idx++
			if !c.Mine(*idx) {
				continue
			}
			var parked []int
			for b, h := range hon {
				if mask&(1<<b) != 0 {
					parked = append(parked, h)
				}
			}
			alpha := liveAlpha
			if xi >= 0 {
				parked = append(parked, extra[xi])
				if !e.syms[extra[xi]].Core {
					alpha = append(append([]int{}, liveAlpha...), extra[xi])
				}
			}
			seen := map[string]bool{}
			frontier := [][]int{nil}
			for d := 0; d <= liveDepth && len(frontier) > 0; d++ {
				var next [][]int
				for _, h := range frontier {
					var exts [][]int
					if d == 0 {
						exts = [][]int{nil}
					} else {
						for _, a := range alpha {
							exts = append(exts, append(append([]int{}, h...), a))
						}
					}
					for _, live := range exts {
						if c.Expired() {
							c.Cap(fmt.Sprintf("phased n=%d not finished within the time budget", e.n))
							return
						}
						res := e.execPhased(parked, live, party)
						c.Eval(1)
						c.Trace(1)
						c.Transition(int64(len(res.keys)))
						for _, o := range res.outcomes {
							c.Outcome(o)
						}
						if res.f != nil {
							e.reportPhased(c, parked, live, party, res.f)
							continue
						}
						if res.admitted > 0 && res.refused > 0 {
							c.Nontrivial(fmt.Sprintf("%d|parked:%s|live:%s", e.n, strings.Join(e.names(parked), ","), strings.Join(e.names(live), ",")))
						}
						c.Count("phased_histories", 1)
						k := res.keys[len(res.keys)-1]
						if !seen[k] {
							seen[k] = true
							c.State(1)
							next = append(next, live)
						}
					}
				}
				frontier = next
			}
		}
	}
}
