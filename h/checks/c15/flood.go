// C15, volume dimension: one faulty member sends N distinct junk verify messages (own message
// id each; one reused signature over another hash, differing claimed hash) before / interleaved
// with / after the honest shares of all other members, in the round0-parking phase, in round1,
// or split over the two phases.  Oracle unchanged (the same per-step comparison as everywhere):
// no junk is counted, and with >= k honest shares delivered the round proceeds with the group's
// signature and beacon value (party level: done, one generated block carrying them).
package main

import (
	"fmt"
	"strings"

	"verif/h/fw"
)

type floodCase struct {
	Phase string `json:"phase"` // parked | live | junk-parked-honest-live | honest-parked-junk-live
	N     int    `json:"junk"`
	Pos   string `json:"position"` // before | interleaved | after (same-phase cases), "-" otherwise
	Byz   int    `json:"faulty_member"`
}

func (fc floodCase) String() string {
	return fmt.Sprintf("%s:%d:%s", fc.Phase, fc.N, fc.Pos)
}

// floodOrder merges the junk of member b with the honest messages of all other members.
func (e *env) floodOrder(fc floodCase) (junk, hon, merged []int) {
	for j := 0; j < fc.N; j++ {
		junk = append(junk, e.byName[fmt.Sprintf("junk(%d)#%d", fc.Byz, j)])
	}
	for i := 0; i < e.n; i++ {
		if i != fc.Byz {
			hon = append(hon, e.byName[fmt.Sprintf("hon(%d)", i)])
		}
	}
	switch fc.Pos {
	case "before":
		merged = append(append(merged, junk...), hon...)
	case "after":
		merged = append(append(merged, hon...), junk...)
	default: // interleaved: equal junk runs around every honest message
		parts := len(hon) + 1
		at := 0
		for p := 0; p < parts; p++ {
			end := fc.N * (p + 1) / parts
			merged = append(merged, junk[at:end]...)
			at = end
			if p < len(hon) {
				merged = append(merged, hon[p])
			}
		}
	}
	return
}

func (e *env) runFlood(fc floodCase) *finding {
	junk, hon, merged := e.floodOrder(fc)
	var parked, live []int
	switch fc.Phase {
	case "parked":
		parked = merged
	case "live":
		live = merged
	case "junk-parked-honest-live":
		parked, live = junk, hon
	case "honest-parked-junk-live":
		parked, live = hon, junk
	default:
		panic("flood: unknown phase " + fc.Phase)
	}
	res := e.execPhased(parked, live, true)
	if res.f == nil {
		return nil
	}
	f := *res.f
	tail := strings.TrimSuffix(strings.TrimPrefix(f.Sig, "C15:"), ":parked")
	switch tail {
	case "drops-valid-share", "rejects-valid-share", "threshold-reached-cannot-proceed", "party-not-finalised":
		tail = "not-finalised"
	}
	f.Sig = "C15:flood:" + fc.String() + ":" + tail
	f.Msg = fmt.Sprintf("n=%d k=%d faulty member %d sends %d distinct junk verify messages (%s, position %s), every other member sends its honest message (%d >= k): %s",
		e.n, e.k, fc.Byz, fc.N, fc.Phase, fc.Pos, len(hon), shorten(f.Msg, 700))
	return &f
}

func shorten(s string, n int) string {
	if len(s) > n {
		return s[:n] + "…"
	}
	return s
}

func (e *env) floods(c *fw.Ctx, idx *int64, ladder []int) {
	type pp struct{ phase, pos string }
	var combos []pp
	for _, ph := range []string{"parked", "live"} {
		for _, pos := range []string{"before", "interleaved", "after"} {
			combos = append(combos, pp{ph, pos})
		}
	}
	combos = append(combos, pp{"junk-parked-honest-live", "-"}, pp{"honest-parked-junk-live", "-"})
	for b := 0; b < e.n; b++ {
		for _, n := range ladder {
			for _, cb := range combos {
				*idx++
				if !c.Mine(*idx) {
					continue
				}
				if c.Expired() {
					c.Cap(fmt.Sprintf("flood n=%d not finished within the time budget", e.n))
					return
				}
				fc := floodCase{Phase: cb.phase, N: n, Pos: cb.pos, Byz: b}
				f := e.runFlood(fc)
				c.Eval(1)
				c.Trace(1)
				c.Transition(int64(n + e.n))
				c.Count("flood_histories", 1)
				c.Count("flood_junk_messages", int64(n))
				c.Outcome("flood:" + cb.phase + ":" + cb.pos)
				if f == nil {
					c.Nontrivial(fmt.Sprintf("%d|flood|%d|%s", e.n, b, fc))
					continue
				}
				again := e.runFlood(fc)
				if again == nil || again.Sig != f.Sig {
					c.Count("unreproduced_findings", 1)
					continue
				}
				c.Violation(f.Sig, f.Part, f.Msg, kase{N: e.n, Flood: &fc})
			}
		}
	}
}
