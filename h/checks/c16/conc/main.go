// Companion of C16: proving and verifying on two goroutines (as the node does: proposal
// ticker vs. block verification) must give each caller what it gets alone.
package main

import (
	"bytes"
	"fmt"

	"verif/h/conc"

	"com.tuntun.rangers/node/src/consensus/vrf"
)

func kp(seed byte) (vrf.VRFPublicKey, vrf.VRFPrivateKey) {
	var s [64]byte
	for i := range s {
		s[i] = seed + byte(i)
	}
	pk, sk, err := vrf.VRFGenerateKey(bytes.NewReader(s[:]))
	if err != nil {
		panic(err)
	}
	return pk, sk
}

func proveVerify(seed byte, msg string) func() string {
	pk, sk := kp(seed) // key generation is not part of the property: outside the scheduled body
	return func() string {
		pi, err := vrf.VRFGenProve(pk, sk, []byte(msg))
		if err != nil {
			return "prove error: " + err.Error()
		}
		ok, verr := vrf.VRFVerify(pk, pi, []byte(msg))
		return fmt.Sprintf("proof=%x ok=%v err=%v out=%x", []byte(pi), ok, verr, []byte(vrf.VRFProof2Hash(pi)))
	}
}

func verifyOnly(seed byte, msg string) func() string {
	pk, sk := kp(seed)
	pi, _ := vrf.VRFGenProve(pk, sk, []byte(msg))
	return func() string {
		ok, verr := vrf.VRFVerify(pk, pi, []byte(msg))
		return fmt.Sprintf("ok=%v err=%v out=%x", ok, verr, []byte(vrf.VRFProof2Hash(pi)))
	}
}

func main() {
	conc.Main([]conc.Scenario{
		{Name: "prove-verify||prove-verify", Mk: func() []func() string {
			return []func() string{proveVerify(1, "message-one"), proveVerify(77, "another message")}
		}},
		{Name: "verify||verify-same-proof", Mk: func() []func() string {
			return []func() string{verifyOnly(5, "m"), verifyOnly(5, "m")}
		}},
		{Name: "prove||verify", Mk: func() []func() string {
			return []func() string{proveVerify(9, "proposer"), verifyOnly(33, "verifier")}
		}},
	})
}
