// C16, order oracle: history-independence of EVERY verdict (reject as well as accept) at every layer
// (ed25519.ECVRFVerify, vrf.VRFVerify, logical.verifyBlockVRF on a marshalled header).
//
// For a base (key, message, proof) that this process has not verified before:
//
//	phase R  every mutant first: all single-bit flips of the message (verifyBlockVRF: of preBH.Random), other deltas /
//	         an unrelated previous header (other message), all single-bit flips of the public key and of the
//	         proof - each must be rejected;
//	         then the honest triple - must be accepted;
//	phase A  the same mutants again, group by group, the honest triple repeated in between - every mutant must
//	         still be rejected, the honest triple must still be accepted.
//
// At the verifyBlockVRF layer the header's TotalQN is always made consistent with the qn of the carried proof and
// the stake ratio is 1, so the verdict is decided by the VRF verification alone.
package main

import (
	"fmt"
	"time"

	"verif/h/fw"

	"com.tuntun.rangers/node/src/common"
	"com.tuntun.rangers/node/src/common/ed25519"
	"com.tuntun.rangers/node/src/consensus/logical"
	"com.tuntun.rangers/node/src/consensus/model"
	"com.tuntun.rangers/node/src/consensus/vrf"
	"com.tuntun.rangers/node/src/middleware/types"
)

var orderLayers = []string{"ECVRFVerify", "VRFVerify", "verifyBlockVRF"}

// triple is what one layer is asked to judge.
type triple struct {
	pk     []byte
	proof  []byte
	random []byte // verifyBlockVRF: preBH.Random; the other layers: unused
	delta  int
	msg    []byte // ECVRFVerify / VRFVerify: the message
}

func layerVerdict(layer string, t triple) bool {
	switch layer {
	case "ECVRFVerify":
		ok, _ := ed25519.ECVRFVerify(ed25519.PublicKey(t.pk), ed25519.VRFProve(transport(t.proof)), t.msg)
		return ok
	case "VRFVerify":
		ok, _ := vrf.VRFVerify(vrf.VRFPublicKey(t.pk), transport(t.proof), t.msg)
		return ok
	}
	// verifyBlockVRF on a header that went over the wire
	_, qn := logical.VerifVrfValidateProve(transport(t.proof), 42, 0, nodeStake)
	pre := &types.BlockHeader{Height: 41, Random: t.random, CurTime: t0, PreTime: t0.Add(-2 * time.Second), TotalQN: 17,
		ProveValue: vrf.VRFProve([]byte{1}).Big(), Hash: common.BytesToHash([]byte{0x11})}
	castTime := t0.Add(time.Duration((t.delta-1)*model.MAX_GROUP_BLOCK_TIME) * time.Second)
	bh := &types.BlockHeader{Height: 42, PreHash: pre.Hash, PreTime: pre.CurTime, CurTime: castTime,
		ProveValue: vrf.VRFProve(t.proof).Big(), TotalQN: pre.TotalQN + qn, Castor: []byte{1, 2, 3}, GroupId: []byte{4, 5},
		Signature: []byte{6}, Nonce: 2, Random: []byte{7, 8, 9}, Hash: common.BytesToHash([]byte{0x22})}
	raw, err := types.MarshalBlockHeader(bh)
	if err != nil || raw == nil {
		panic(fmt.Sprintf("MarshalBlockHeader: %v", err))
	}
	bh2, err := types.UnMarshalBlockHeader(raw)
	if err != nil || bh2 == nil {
		panic(fmt.Sprintf("UnMarshalBlockHeader: %v", err))
	}
	ok, _ := logical.VerifVrfVerifyBlock(bh2, pre, &model.MinerInfo{VrfPK: vrf.VRFPublicKey(t.pk)}, nodeStake)
	return ok
}

type mutant struct {
	group string
	what  string
	t     triple
}

// orderMutants lists the mutants of one base for one layer, grouped.
func orderMutants(layer string, k int, series string, i int64, h triple) [][]mutant {
	var msgG, otherG, pkG, proofG []mutant
	with := func(f func(t *triple)) triple {
		t := h
		t.pk, t.proof, t.random, t.msg = cp(h.pk), cp(h.proof), cp(h.random), cp(h.msg)
		f(&t)
		return t
	}
	if layer == "verifyBlockVRF" {
		for bit := 0; bit < 8*len(h.random); bit++ {
			bit := bit
			msgG = append(msgG, mutant{"message", fmt.Sprintf("preBH.Random bit %d flipped", bit), with(func(t *triple) { t.random = flipBit(t.random, bit) })})
		}
		for d := 1; d <= 4; d++ {
			if d != h.delta {
				d := d
				otherG = append(otherG, mutant{"other-message", fmt.Sprintf("delta %d instead of %d (other height/time gap)", d, h.delta), with(func(t *triple) { t.delta = d })})
			}
		}
		for _, d := range []int{h.delta, h.delta%4 + 1} {
			d := d
			otherG = append(otherG, mutant{"other-message", fmt.Sprintf("unrelated previous header, delta %d", d),
				with(func(t *triple) { t.random = randomFor((k+1)%nKeys, "ctr", i+7); t.delta = d })})
		}
	} else {
		for bit := 0; bit < 8*len(h.msg); bit++ {
			bit := bit
			msgG = append(msgG, mutant{"message", fmt.Sprintf("message bit %d flipped", bit), with(func(t *triple) { t.msg = flipBit(t.msg, bit) })})
		}
		for d := 1; d <= 4; d++ {
			if d != h.delta {
				d := d
				otherG = append(otherG, mutant{"other-message", fmt.Sprintf("message genVrfMsg(random, %d) instead of delta %d", d, h.delta),
					with(func(t *triple) { t.msg = logical.VerifVrfGenMsg(h.random, d) })})
			}
		}
		otherG = append(otherG, mutant{"other-message", "unrelated message", with(func(t *triple) { t.msg = randomFor((k+1)%nKeys, "ctr", i+7) })})
	}
	for bit := 0; bit < 8*len(h.pk); bit++ {
		bit := bit
		pkG = append(pkG, mutant{"pk", fmt.Sprintf("public key bit %d flipped", bit), with(func(t *triple) { t.pk = flipBit(t.pk, bit) })})
	}
	for bit := 0; bit < 8*len(h.proof); bit++ {
		bit := bit
		proofG = append(proofG, mutant{"proof", fmt.Sprintf("proof bit %d flipped", bit), with(func(t *triple) { t.proof = flipBit(t.proof, bit) })})
	}
	return [][]mutant{msgG, otherG, pkG, proofG}
}

// orderCase runs the whole procedure for one base and one layer.  The proof is produced by VRFGenProve only
// (no verification), so that in a process that starts with this case phase R really precedes any acceptance.
func orderCase(k int, series string, i int64, layer string) (result, int) {
	var r result
	lz := 0
	panicked, val, site := fw.Try(func() {
		kp := keys[k]
		random := randomFor(k, series, i)
		delta := deltaFor(series, i)
		msg := logical.VerifVrfGenMsg(random, delta)
		proof, err := vrf.VRFGenProve(kp.pk, kp.sk, msg)
		if err != nil {
			r.fail("C16:prove:error", "order", "VRFGenProve failed: %v", err)
			return
		}
		lz = len(proof) - len(transport(proof))
		h := triple{pk: cp(kp.pk), proof: cp(proof), random: cp(random), delta: delta, msg: cp(msg)}
		groups := orderMutants(layer, k, series, i, h)
		id := fmt.Sprintf("layer %s, key %d, %s message %d (%d leading zero byte(s))", layer, k, series, i, lz)
		verdict := func(t triple) bool {
			r.evals++
			r.nontriv++
			return layerVerdict(layer, t)
		}
		honestAt := func(when string) {
			if !verdict(h) {
				r.fail("C16:seq:history-dependent:"+layer, "order", "%s: the honest triple is rejected %s", id, when)
			}
		}
		sweep := func(phase string, g []mutant) (accepted int, first string) {
			for _, m := range g {
				if verdict(m.t) {
					if accepted == 0 {
						first = m.what
					}
					accepted++
				}
			}
			return
		}
		// phase R
		for _, g := range groups {
			if len(g) == 0 {
				continue
			}
			if n, first := sweep("R", g); n > 0 {
				r.fail("C16:mutation:accepted:"+g[0].group+":"+layer, "order",
					"%s: before the honest triple was ever presented, %d of %d %s mutants are accepted (first: %s)", id, n, len(g), g[0].group, first)
			}
		}
		honestAt("after all its mutants had been presented (and rejected)")
		// phase A
		for _, g := range groups {
			if len(g) == 0 {
				continue
			}
			if n, first := sweep("A", g); n > 0 {
				r.fail("C16:seq:history-dependent:"+layer, "order",
					"%s: after the honest triple was accepted, %d of %d %s mutants are accepted (first: %s); every reject verdict must be the one a fresh process gives", id, n, len(g), g[0].group, first)
			}
			honestAt("when repeated after its " + g[0].group + " mutants")
		}
	})
	if panicked {
		r.fail("C16:seq:panic:"+site, "order", "layer %s key %d %s %d: panic %v", layer, k, series, i, val)
	}
	if len(r.finds) == 0 {
		r.out("order:every-verdict-history-independent")
	}
	return r, lz
}

type orderBase struct {
	k      int
	series string
	i      int64
}

func orderBases(sz sizes) []orderBase {
	var bs []orderBase
	for _, w := range witnesses {
		bs = append(bs, orderBase{w.k, w.series, w.i})
	}
	for k := 0; k < nKeys; k++ {
		for i := int64(0); i < sz.G; i++ {
			bs = append(bs, orderBase{k, "ctr", i})
		}
	}
	return bs
}

// runOrder must be the first part a worker executes (nothing has been accepted in the process yet).
func runOrder(c *fw.Ctx, sz sizes, idx *int64) bool {
	for _, b := range orderBases(sz) {
		for _, layer := range orderLayers {
			*idx++
			if !c.Mine(*idx) {
				continue
			}
			if c.Expired() {
				return false
			}
			b, layer := b, layer
			ks := kase{Kind: "order", Key: b.k, Series: b.series, I: b.i, Fn: layer}
			r, lz := orderCase(b.k, b.series, b.i, layer)
			report(c, ks, r, func() result { r2, _ := orderCase(b.k, b.series, b.i, layer); return r2 })
			c.Count(fmt.Sprintf("order_cases_lz%d", lz), 1)
		}
	}
	return true
}
