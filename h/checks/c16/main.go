// C16: VRF proofs are complete, mutation-proof and survive header transport.
//
// Bounded exhaustive enumeration (E4) on the real VRF / qualification code:
//
//	honest   3 deterministic key pairs x messages m0..mN-1 in order (+ a length series): prove twice,
//	         verify, carry through big.Int exactly as CastBlock / the wire / verifyBlockVRF do, re-verify,
//	         proposer path (vrfWorker.genProve) -> header -> Marshal/UnMarshalBlockHeader -> verifyBlockVRF.
//	flip     every single-bit flip of proof (640), public key (256) and message for the base proofs
//	         (first B messages of every key + every proof with a leading zero byte): must be rejected,
//	         directly and after big.Int transport.
//	torsion  adversarial prover (hook H5): for each of the 8 small-order points T, nonces k=1..K and every
//	         guess j of c*T: proof with Gamma+T; if the verifier accepts it, its lottery output must be
//	         the honest one.  Also s+L (same Gamma, other encoding of s).
//	qn       verified proofs x height x workingMiners x totalStake grid: validateProve is pure, survives
//	         transport, ok => 1 <= qn <= MaxQN, and agrees with an exact big.Rat model of floor(ratio/step)+1.
//	nodegrid same grid through the node: vrfWorker.genProve (proposer) against verifyBlockVRF on the marshalled
//	         header (verifier) must reach the same qualification verdict and qn.
//	witness  stored (key, message index) pairs known to give proofs with two leading zero bytes: regenerated,
//	         shape re-checked, then all of the above (this is how quick reaches the 78-byte padding path).
package main

import (
	"bytes"
	"crypto/sha256"
	"encoding/binary"
	"encoding/hex"
	"encoding/json"
	"fmt"
	"math/big"
	"time"

	"verif/h/fw"

	"com.tuntun.rangers/node/src/common"
	"com.tuntun.rangers/node/src/common/ed25519"
	ed "com.tuntun.rangers/node/src/common/ed25519/edwards25519"
	"com.tuntun.rangers/node/src/consensus"
	"com.tuntun.rangers/node/src/consensus/logical"
	"com.tuntun.rangers/node/src/consensus/model"
	"com.tuntun.rangers/node/src/consensus/vrf"
	"com.tuntun.rangers/node/src/middleware/types"
)

// ---------------------------------------------------------------------------------------------
// case description (also the replay format)

type kase struct {
	Kind   string `json:"kind"` // honest | flip | torsion | alts | qn | nodegrid | seq | dirty | order | mlen | deform | smallkey
	Key    int    `json:"key"`
	Series string `json:"series"` // ctr | len
	I      int64  `json:"i"`
	// flip
	Target string `json:"target,omitempty"` // proof | pk | msg
	Bit    int    `json:"bit,omitempty"`
	// torsion
	TIdx  int    `json:"t_idx,omitempty"` // index into the torsion table (multiple of the order-8 generator)
	TEnc  string `json:"t_enc,omitempty"` // encoding of the point added to Gamma (informative)
	TOrd  int    `json:"t_ord,omitempty"`
	Nonce uint64 `json:"nonce,omitempty"`
	J     int    `json:"j,omitempty"`
	// qn
	Height uint64 `json:"height,omitempty"`
	WM     uint64 `json:"working_miners,omitempty"`
	TS     uint64 `json:"total_stake,omitempty"`
	// seq / dirty
	Fn  string `json:"fn,omitempty"`
	Seq []int  `json:"seq,omitempty"` // seq: pool entries A,B[,C] (entry = 2*item+variant); dirty: destination content, decoded value
	// seq: the sequences this worker ran before (they define the state the case starts from)
	History []histEntry `json:"history,omitempty"`
	// informative
	PK    string `json:"pk,omitempty"`
	Msg   string `json:"msg,omitempty"`
	Proof string `json:"proof,omitempty"`
}

type finding struct{ sig, part, msg string }

type result struct {
	finds    []finding
	outcomes []string
	evals    int64
	nontriv  int64
}

func (r *result) fail(sig, part, format string, a ...interface{}) {
	r.finds = append(r.finds, finding{sig, part, fmt.Sprintf(format, a...)})
}
func (r *result) out(o string) { r.outcomes = append(r.outcomes, o) }

// report books one executed case; a failing case is re-run and must fail identically.
func report(c *fw.Ctx, ks kase, r result, again func() result) {
	c.Eval(r.evals)
	c.NontrivialN(r.nontriv)
	for _, o := range r.outcomes {
		c.Outcome(o)
	}
	if len(r.finds) == 0 {
		return
	}
	r2 := again()
	for _, f := range r.finds {
		same := false
		for _, g := range r2.finds {
			same = same || f == g
		}
		if same {
			c.Violation(f.sig, f.part, f.msg, ks)
		} else {
			c.Count("unstable_observations", 1)
		}
	}
}

// ---------------------------------------------------------------------------------------------
// keys and messages

const nKeys = 3

type keyPair struct {
	pk vrf.VRFPublicKey
	sk vrf.VRFPrivateKey
}

var keys [nKeys]keyPair

var lenSeries = []int{0, 1, 2, 31, 33, 63, 64, 65, 127, 128, 129, 255, 1000}

func randomFor(k int, series string, i int64) []byte {
	if series == "mlen" { // message-length family: i is the length itself
		m := make([]byte, i)
		for j := range m {
			m[j] = byte(j*7 + k + 1)
		}
		return m
	}
	if series == "len" {
		m := make([]byte, lenSeries[i])
		for j := range m {
			m[j] = byte(j*7 + k + 1)
		}
		return m
	}
	m := make([]byte, 32)
	m[0] = 0xC1
	m[1] = byte(k)
	binary.BigEndian.PutUint64(m[24:], uint64(i))
	return m
}

func deltaFor(series string, i int64) int {
	if series == "len" || series == "mlen" {
		return 1
	}
	return 1 + int(i%3)
}

var (
	helper  = &consensus.ConsensusHelperImpl{}
	t0      = time.Unix(1700000000, 0).UTC()
	maxQN   uint64
	p025Cut uint64
)

func setup() {
	common.Init(0, "1.ini", "dev")
	logical.InitConsensus()
	types.InitSerialzation()
	maxQN = uint64(model.Param.MaxQN)
	p025Cut = common.LocalChainConfig.Proposal025Block + common.GetRewardBlocks()
	for k := 0; k < nKeys; k++ {
		seed := sha256.Sum256([]byte(fmt.Sprintf("verif-C16-key-%d", k)))
		pk, sk, err := vrf.VRFGenerateKey(bytes.NewReader(seed[:]))
		if err != nil {
			panic(err)
		}
		keys[k] = keyPair{pk, sk}
	}
}

// transport is what happens to a proof between proposer and verifier: CastBlock stores pi.Big(),
// BlockHeaderToPb sends ProveValue.Bytes(), PbToBlockHeader does SetBytes, verifyBlockVRF takes Bytes().
func transport(p []byte) vrf.VRFProve {
	return vrf.VRFProve(new(big.Int).SetBytes(new(big.Int).SetBytes(p).Bytes()).Bytes())
}

// ---------------------------------------------------------------------------------------------
// honest proofs

type base struct {
	k      int
	series string
	i      int64
	kp     keyPair
	random []byte
	delta  int
	msg    []byte
	proof  vrf.VRFProve
	lz     int
	qn     uint64
	ok     bool // the proof exists and verifies directly and after transport: usable by the follow-up parts
	full   bool // the whole honest pipeline passed
}

func (b *base) kase(kind string) kase {
	return kase{Kind: kind, Key: b.k, Series: b.series, I: b.i, PK: hex.EncodeToString(b.kp.pk),
		Msg: hex.EncodeToString(b.msg), Proof: hex.EncodeToString(b.proof)}
}

func nodeHeaders(b *base, prove vrf.VRFProve, qn uint64, h uint64) (bh, pre *types.BlockHeader, castTime time.Time) {
	pre = &types.BlockHeader{Height: h, Random: b.random, CurTime: t0, PreTime: t0.Add(-2 * time.Second), TotalQN: 17,
		ProveValue: big.NewInt(1), Hash: common.BytesToHash([]byte{0x11})}
	castTime = t0.Add(time.Duration((b.delta-1)*model.MAX_GROUP_BLOCK_TIME) * time.Second)
	bh = &types.BlockHeader{Height: h + 1, PreHash: pre.Hash, PreTime: pre.CurTime, CurTime: castTime,
		ProveValue: prove.Big(), TotalQN: pre.TotalQN + qn, Castor: []byte{1, 2, 3}, GroupId: []byte{4, 5},
		Signature: []byte{6}, Nonce: 2, Random: []byte{7, 8, 9}, Hash: common.BytesToHash([]byte{0x22})}
	return
}

const nodeStake = 3 // stake ratio 1: every proof is qualified, so verifyBlockVRF decides on proof + qn only

func honest(k int, series string, i int64) (*base, result) {
	var r result
	r.evals, r.nontriv = 1, 1
	b := &base{k: k, series: series, i: i, kp: keys[k]}
	b.random = randomFor(k, series, i)
	b.delta = deltaFor(series, i)
	pk, sk := b.kp.pk, b.kp.sk
	panicked, val, site := fw.Try(func() {
		b.msg = logical.VerifVrfGenMsg(b.random, b.delta)
		p1, err1 := vrf.VRFGenProve(pk, sk, b.msg)
		p2, err2 := vrf.VRFGenProve(pk, sk, b.msg)
		if err1 != nil || err2 != nil {
			r.fail("C16:prove:error", "honest", "VRFGenProve failed: %v / %v", err1, err2)
			return
		}
		b.proof = p1
		if !bytes.Equal(p1, p2) {
			r.fail("C16:prove:nondeterministic", "honest", "two proofs for the same key and message differ: %x vs %x", p1, p2)
			return
		}
		if len(p1) != ed25519.ProveSize {
			r.fail("C16:prove:length", "honest", "proof has %d bytes", len(p1))
			return
		}
		if ok, err := vrf.VRFVerify(pk, p1, b.msg); !ok {
			r.fail("C16:verify:honest-rejected", "honest", "honest proof rejected (err=%v) proof=%x", err, p1)
			return
		}
		wire := transport(p1)
		b.lz = len(p1) - len(wire)
		if ok, err := vrf.VRFVerify(pk, wire, b.msg); !ok {
			r.fail("C16:transport:honest-rejected", "transport", "honest proof with %d leading zero byte(s) rejected after big.Int transport (err=%v) proof=%x", b.lz, err, p1)
			return
		}
		b.ok = true // usable by the follow-up parts; the remaining steps only add findings
		if padded := logical.VerifVrfZeroPadding(wire); !bytes.Equal(padded, p1) {
			r.fail("C16:transport:repad-differs", "transport", "logical.tryZeroPadding: re-padded transported proof %x (%d bytes) differs from the original %x", []byte(padded), len(padded), p1)
		}
		if padded := ed25519.VerifTryZeroPadding(ed25519.VRFProve(wire)); !bytes.Equal(padded, p1) {
			r.fail("C16:transport:repad-differs-ed25519", "transport", "ed25519.tryZeroPadding: re-padded transported proof %x (%d bytes) differs from the original %x", []byte(padded), len(padded), p1)
		}
		out0 := vrf.VRFProof2Hash(p1).Big()
		if hv := helper.VRFProve2Value(vrf.VRFProve(p1).Big()); hv.Cmp(out0) != 0 {
			r.fail("C16:transport:prove2value-unpadded", "transport",
				"ConsensusHelper.VRFProve2Value(header prove value) = %x but the lottery output of the proof is %x (%d leading zero byte(s) dropped by big.Int, value taken from the unpadded bytes)",
				hv, out0, b.lz)
		}
		// proposer -> header -> wire -> verifier
		miner := &model.SelfMinerInfo{VrfSK: sk}
		miner.VrfPK = pk
		_, pre, castTime := nodeHeaders(b, p1, 0, 41)
		pi, qn, err := logical.VerifVrfGenProve(miner, pre, 42, castTime, nodeStake)
		if err != nil {
			r.fail("C16:node:genProve-failed", "node", "vrfWorker.genProve failed with stake ratio 1: %v", err)
			return
		}
		if !bytes.Equal(pi, p1) {
			r.fail("C16:node:genProve-differs", "node", "vrfWorker.genProve returned %x, VRFGenProve %x", pi, p1)
			return
		}
		b.qn = qn
		if qn < 1 || qn > maxQN {
			r.fail("C16:qn:range", "qn", "accepted proof has qn=%d outside [1,%d] (genProve, totalStake=%d)", qn, maxQN, nodeStake)
		}
		bh, pre, _ := nodeHeaders(b, pi, qn, 41)
		raw, err := types.MarshalBlockHeader(bh)
		if err != nil || raw == nil {
			r.fail("C16:node:header-marshal", "node", "MarshalBlockHeader: %v", err)
			return
		}
		bh2, err := types.UnMarshalBlockHeader(raw)
		if err != nil || bh2 == nil || bh2.ProveValue == nil {
			r.fail("C16:node:header-unmarshal", "node", "UnMarshalBlockHeader: %v", err)
			return
		}
		if bh2.ProveValue.Cmp(bh.ProveValue) != 0 {
			r.fail("C16:transport:header-value-changed", "transport", "prove value changed on the wire: %x -> %x", bh.ProveValue, bh2.ProveValue)
			return
		}
		castor := &model.MinerInfo{VrfPK: pk}
		if ok, err := logical.VerifVrfVerifyBlock(bh2, pre, castor, nodeStake); !ok {
			r.fail("C16:node:verifyBlockVRF-rejects-honest", "node", "verifyBlockVRF rejected the proposer's own header (lz=%d, qn=%d): %v", b.lz, qn, err)
			return
		}
		b.full = true
	})
	if panicked {
		r.fail("C16:panic:"+site, "honest", "panic %v", val)
	}
	if b.full {
		r.out(fmt.Sprintf("honest:accepted:lz%d", b.lz))
	}
	return b, r
}

// ---------------------------------------------------------------------------------------------
// single-bit mutations

func flipBit(src []byte, bit int) []byte {
	d := append([]byte{}, src...)
	d[bit/8] ^= 1 << uint(bit%8)
	return d
}

func flipSpace(b *base, target string) int {
	switch target {
	case "proof":
		return len(b.proof) * 8
	case "pk":
		return len(b.kp.pk) * 8
	default:
		return len(b.msg) * 8
	}
}

func flip(b *base, target string, bit int) result {
	var r result
	r.evals, r.nontriv = 1, 1
	pk, proof, msg := []byte(b.kp.pk), []byte(b.proof), b.msg
	switch target {
	case "proof":
		proof = flipBit(proof, bit)
	case "pk":
		pk = flipBit(pk, bit)
	case "msg":
		msg = flipBit(msg, bit)
	}
	panicked, val, site := fw.Try(func() {
		ok1, err1 := vrf.VRFVerify(pk, proof, msg)
		ok2, _ := vrf.VRFVerify(pk, transport(proof), msg)
		if ok1 || ok2 {
			r.fail("C16:mutation:accepted:"+target, "flip",
				"single-bit flip of %s bit %d still verifies (direct=%v, after transport=%v) pk=%x msg=%x proof=%x", target, bit, ok1, ok2, pk, msg, proof)
			return
		}
		if err1 != nil {
			r.out("flip:" + target + ":undecodable")
		} else {
			r.out("flip:" + target + ":rejected")
		}
	})
	if panicked {
		r.fail("C16:panic:"+site, "flip", "panic %v on %s bit %d", val, target, bit)
	}
	return r
}

// ---------------------------------------------------------------------------------------------
// small-order points, derived from the repository's own group law and self-checked

type tpt struct {
	pt  ed.ExtendedGroupElement
	enc [32]byte
	ord int
}

var (
	tors    []tpt // tors[i] = i*G8, G8 of order 8
	torsErr string
	orderL  = [32]byte{0xed, 0xd3, 0xf5, 0x5c, 0x1a, 0x63, 0x12, 0x58, 0xd6, 0x9c, 0xf7, 0xa2, 0xde, 0xf9, 0xde, 0x14,
		0, 0, 0, 0, 0, 0, 0, 0, 0, 0, 0, 0, 0, 0, 0, 0x10}
)

func ptIdentity() *ed.ExtendedGroupElement {
	p := new(ed.ExtendedGroupElement)
	p.Zero()
	return p
}
func ptSub(a, b *ed.ExtendedGroupElement) *ed.ExtendedGroupElement {
	var cb ed.CachedGroupElement
	var cp ed.CompletedGroupElement
	r := new(ed.ExtendedGroupElement)
	b.ToCached(&cb)
	ed.GeSub(&cp, a, &cb)
	cp.ToExtended(r)
	return r
}
func ptAdd(a, b *ed.ExtendedGroupElement) *ed.ExtendedGroupElement {
	return ptSub(a, ptSub(ptIdentity(), b))
}
func ptEnc(a *ed.ExtendedGroupElement) (s [32]byte) { a.ToBytes(&s); return }

func ptOrder(a *ed.ExtendedGroupElement, max int) int {
	id := ptEnc(ptIdentity())
	acc := ptIdentity()
	for n := 1; n <= max; n++ {
		acc = ptAdd(acc, a)
		if ptEnc(acc) == id {
			return n
		}
	}
	return 0
}

func buildTorsion() {
	var gen *ed.ExtendedGroupElement
	for y := 2; y < 256 && gen == nil; y++ {
		var s [32]byte
		s[0] = byte(y)
		p := new(ed.ExtendedGroupElement)
		if !p.FromBytes(&s) {
			continue
		}
		q := ed.GeScalarMult(p, &orderL) // L*P lies in the 8-torsion subgroup
		if ptOrder(q, 8) == 8 {
			gen = q
		}
	}
	if gen == nil {
		torsErr = "no point of order 8 found"
		return
	}
	acc := ptIdentity()
	seen := map[[32]byte]bool{}
	for i := 0; i < 8; i++ {
		t := tpt{pt: *acc, enc: ptEnc(acc)}
		t.ord = ptOrder(acc, 8)
		want := 8
		for g := i; g != 0 && g%2 == 0 && want > 1; g /= 2 {
			want /= 2
		}
		if i == 0 {
			want = 1
		}
		if t.ord != want || seen[t.enc] {
			torsErr = fmt.Sprintf("torsion table inconsistent at %d: ord %d want %d enc %x", i, t.ord, want, t.enc)
			return
		}
		seen[t.enc] = true
		tors = append(tors, t)
		acc = ptAdd(acc, gen)
	}
	if ptEnc(acc) != tors[0].enc {
		torsErr = "8*G8 is not the identity"
		return
	}
	minusOne, _ := hex.DecodeString("ecffffffffffffffffffffffffffffffffffffffffffffffffffffffffffff7f")
	if !bytes.Equal(tors[4].enc[:], minusOne) || tors[0].enc != [32]byte{1} {
		torsErr = fmt.Sprintf("unexpected encodings: identity %x, order-2 point %x", tors[0].enc, tors[4].enc)
	}
}

func scalarOf(k uint64) *[32]byte {
	s := new([32]byte)
	binary.LittleEndian.PutUint64(s[:8], k)
	return s
}

type advCtx struct {
	x     *[32]byte
	h     ed.ExtendedGroupElement
	gamma *ed.ExtendedGroupElement
	out0  []byte
}

func newAdvCtx(b *base) *advCtx {
	a := &advCtx{}
	a.x, _ = ed25519.VerifExpandSecret(ed25519.PrivateKey(b.kp.sk))
	hb := ed25519.VerifHashToCurve(b.msg, ed25519.PublicKey(b.kp.pk))
	a.h.FromBytes(&hb)
	a.gamma = ed.GeScalarMult(&a.h, a.x)
	a.out0 = vrf.VRFProof2Hash(b.proof)
	return a
}

// acceptance of a crafted proof + its lottery output, through the paths the node uses
func judge(b *base, proof []byte) (acc1, acc2 bool, out []byte, nodeOK bool, nodeQN uint64, nodeErr error) {
	acc1, _ = vrf.VRFVerify(b.kp.pk, proof, b.msg)
	wire := transport(proof)
	acc2, _ = vrf.VRFVerify(b.kp.pk, wire, b.msg)
	out = vrf.VRFProof2Hash(logical.VerifVrfZeroPadding(wire))
	if acc2 {
		_, nodeQN = logical.VerifVrfValidateProve(wire, 42, 0, nodeStake)
		bh, pre, _ := nodeHeaders(b, vrf.VRFProve(proof), nodeQN, 41)
		if raw, err := types.MarshalBlockHeader(bh); err == nil && raw != nil {
			if bh2, err := types.UnMarshalBlockHeader(raw); err == nil && bh2 != nil {
				nodeOK, nodeErr = logical.VerifVrfVerifyBlock(bh2, pre, &model.MinerInfo{VrfPK: b.kp.pk}, nodeStake)
			}
		}
	}
	return
}

// torsion builds the proof (Gamma+T, c, c*x+k) for the guess c*T = j*T and submits it.
func torsion(b *base, a *advCtx, ti int, k uint64, j int) result {
	var r result
	r.evals = 1
	t := tors[ti]
	panicked, val, site := fw.Try(func() {
		ks := scalarOf(k)
		var kB ed.ExtendedGroupElement
		ed.GeScalarMultBase(&kB, ks)
		kH := ed.GeScalarMult(&a.h, ks)
		gp := ptAdd(a.gamma, &t.pt)
		jT := &tors[(ti*j)%8].pt
		v := ptSub(kH, jT) // what the verifier will compute as s*H - c*(Gamma+T) if c*T == j*T
		c := ed25519.VerifHashPoints(a.h, *gp, kB, *v)
		if int(c[0])&(t.ord-1) != j {
			r.out(fmt.Sprintf("torsion:ord%d:challenge-inconsistent-with-guess", t.ord))
			return
		}
		r.nontriv = 1
		var c32, s [32]byte
		copy(c32[:], c[:])
		ed.ScMulAdd(&s, &c32, a.x, ks)
		genc := ptEnc(gp)
		proof := append(append(append([]byte{}, genc[:]...), c[:]...), s[:]...)
		acc1, acc2, out, nodeOK, nodeQN, nodeErr := judge(b, proof)
		if acc1 != acc2 {
			r.fail("C16:transport:accept-differs", "torsion", "crafted proof %x: direct=%v after transport=%v", proof, acc1, acc2)
		}
		if !(acc1 || acc2) {
			r.out(fmt.Sprintf("torsion:ord%d:rejected", t.ord))
			return
		}
		if bytes.Equal(out, a.out0) {
			r.out(fmt.Sprintf("torsion:ord%d:accepted-same-output", t.ord))
			return
		}
		r.out(fmt.Sprintf("torsion:ord%d:accepted-other-output", t.ord))
		r.fail("C16:output-malleable:gamma-plus-torsion", "torsion",
			"key %x msg %x: proof with Gamma+T (T=%x of order %d, nonce k=%d, c=%x, c*T=%d*T) verifies (direct=%v, transported=%v) but its lottery output %x differs from the honest output %x; "+
				"verifyBlockVRF on a header carrying it: accepted=%v err=%v with qn=%d (honest proof: qn=%d). crafted proof=%x honest proof=%x",
			[]byte(b.kp.pk), b.msg, t.enc, t.ord, k, c, j, acc1, acc2, out, a.out0, nodeOK, nodeErr, nodeQN, b.qn, proof, []byte(b.proof))
	})
	if panicked {
		r.fail("C16:panic:"+site, "torsion", "panic %v (T index %d, k=%d, j=%d)", val, ti, k, j)
	}
	return r
}

// altS: same Gamma and c, s replaced by s+L (the verifier reduces s mod L): accepted, and must carry the same output.
func altS(b *base, a *advCtx) result {
	var r result
	r.evals, r.nontriv = 1, 1
	panicked, val, site := fw.Try(func() {
		proof := append([]byte{}, b.proof...)
		carry := 0
		for i := 0; i < 32; i++ {
			v := int(proof[48+i]) + int(orderL[i]) + carry
			proof[48+i] = byte(v)
			carry = v >> 8
		}
		if carry != 0 {
			r.out("alts:overflow")
			return
		}
		acc1, acc2, out, _, _, _ := judge(b, proof)
		if acc1 != acc2 {
			r.fail("C16:transport:accept-differs", "alts", "proof with s+L %x: direct=%v after transport=%v", proof, acc1, acc2)
		}
		if !(acc1 || acc2) {
			r.out("alts:rejected")
			return
		}
		if !bytes.Equal(out, a.out0) {
			r.fail("C16:output-malleable:s-plus-L", "alts", "proof with s+L accepted with output %x, honest %x", out, a.out0)
			return
		}
		r.out("alts:accepted-same-output")
	})
	if panicked {
		r.fail("C16:panic:"+site, "alts", "panic %v", val)
	}
	return r
}

// ---------------------------------------------------------------------------------------------
// qualification

func gridValues() (heights, wms, tss []uint64) {
	v := []uint64{1, 3, 5, 100, 1000000, 1 << 63}
	heights = append(append([]uint64{}, v...), p025Cut, p025Cut+1)
	wms = append([]uint64{0}, v...)
	// 1000 / 10^4 / 10^5: stake ratios 5e-3 / 5e-4 / 5e-5, between the value ratio of a proof with k leading zero
	// bytes (< 256^-k) and the same value shifted by one byte, so a mis-padded proof changes verdict or qn here
	tss = append([]uint64{0, 1000, 10000, 100000}, v...)
	return
}

func qnCase(b *base, height, wm, ts uint64) result {
	var r result
	r.evals, r.nontriv = 1, 1
	var ok1, ok2, ok3 bool
	var q1, q2, q3 uint64
	panicked, val, site := fw.Try(func() {
		ok1, q1 = logical.VerifVrfValidateProve(b.proof, height, wm, ts)
		ok2, q2 = logical.VerifVrfValidateProve(b.proof, height, wm, ts)
		ok3, q3 = logical.VerifVrfValidateProve(transport(b.proof), height, wm, ts)
	})
	if panicked {
		if ts != 0 && wm > ts && height > p025Cut {
			// difficulty = totalStake/workingMiners = 0: more working miners than units of stake is not a
			// reachable chain state (every working miner holds stake); observed, not demanded by the property.
			r.nontriv = 0
			r.out("qn:panic-on-unreachable-input(workingMiners>totalStake)")
			return r
		}
		r.fail("C16:qn:panic:"+site, "qn", "validateProve panicked: %v (height=%d workingMiners=%d totalStake=%d)", val, height, wm, ts)
		return r
	}
	if ok1 != ok2 || q1 != q2 {
		r.fail("C16:qn:impure", "qn", "validateProve twice on the same input: (%v,%d) then (%v,%d) (height=%d wm=%d ts=%d)", ok1, q1, ok2, q2, height, wm, ts)
	}
	if ok1 != ok3 || q1 != q3 {
		r.fail("C16:qn:transport-differs", "qn", "validateProve on the proof (%v,%d) and on its transported form (%v,%d) (lz=%d height=%d wm=%d ts=%d)", ok1, q1, ok3, q3, b.lz, height, wm, ts)
	}
	if ok1 && (q1 < 1 || q1 > maxQN) {
		r.fail("C16:qn:range", "qn", "accepted proof has qn=%d outside [1,%d] (height=%d wm=%d ts=%d proof=%x)", q1, maxQN, height, wm, ts, []byte(b.proof))
	}
	if ts == 0 {
		if ok1 {
			r.fail("C16:qn:ok-mismatch-model", "qn", "qualified with total stake 0")
		}
		r.out("qn:total-stake-0")
		return r
	}
	// exact model of the rule: qualified iff value ratio < stake ratio; qn = floor(ratio / (min(stakeRatio,1)/MaxQN)) + 1
	difficulty := uint64(1)
	if wm != 0 && height > p025Cut {
		difficulty = ts / wm
	}
	sr := logical.VerifVrfStakeRatio(difficulty, ts)
	vr := logical.VerifVrfValueRatio(b.proof)
	okM := vr.Cmp(sr) < 0
	if okM != ok1 {
		r.fail("C16:qn:ok-mismatch-model", "qn", "validateProve ok=%v, rule (value ratio %s < stake ratio %s) says %v (height=%d wm=%d ts=%d)", ok1, vr.FloatString(12), sr.FloatString(12), okM, height, wm, ts)
	}
	if !ok1 {
		r.out("qn:not-qualified")
		return r
	}
	one := big.NewRat(1, 1)
	if sr.Cmp(one) > 0 {
		sr = one
	}
	quo := new(big.Rat).Quo(vr, new(big.Rat).Quo(sr, new(big.Rat).SetInt64(int64(maxQN))))
	fl := new(big.Int).Quo(quo.Num(), quo.Denom())
	frac := new(big.Rat).Sub(quo, new(big.Rat).SetInt(fl))
	eps := big.NewRat(1, 1000000000)
	nearInt := frac.Cmp(eps) < 0 || new(big.Rat).Sub(one, frac).Cmp(eps) < 0
	if !nearInt && (!fl.IsUint64() || fl.Uint64()+1 != q1) {
		r.fail("C16:qn:value-mismatch-model", "qn", "validateProve qn=%d, rule floor(%s)+1 (height=%d wm=%d ts=%d)", q1, quo.FloatString(9), height, wm, ts)
	}
	r.out(fmt.Sprintf("qn:qualified:qn%d", q1))
	return r
}

// nodeGridCase: proposer side (vrfWorker.genProve on the 80-byte proof) against verifier side (verifyBlockVRF on the
// header that went through MarshalBlockHeader/UnMarshalBlockHeader) for one (height, workingMiners, totalStake).
func nodeGridCase(b *base, h, wm, ts uint64) result {
	var r result
	r.evals, r.nontriv = 1, 1
	pk, sk := b.kp.pk, b.kp.sk
	panicked, val, site := fw.Try(func() {
		miner := &model.SelfMinerInfo{VrfSK: sk}
		miner.VrfPK = pk
		miner.WorkingMiners = wm
		castor := &model.MinerInfo{VrfPK: pk, WorkingMiners: wm}
		_, pre, castTime := nodeHeaders(b, b.proof, 0, h)
		pi, qnP, err := logical.VerifVrfGenProve(miner, pre, h+1, castTime, ts)
		okP := err == nil
		if okP && !bytes.Equal(pi, b.proof) {
			r.fail("C16:node:genProve-differs", "nodegrid", "vrfWorker.genProve returned %x, VRFGenProve %x", []byte(pi), []byte(b.proof))
			return
		}
		if okP && (qnP < 1 || qnP > maxQN) {
			r.fail("C16:qn:range", "nodegrid", "genProve accepted with qn=%d outside [1,%d] (height=%d wm=%d ts=%d)", qnP, maxQN, h, wm, ts)
		}
		qnHdr := qnP
		if !okP {
			// the proposer would not propose; give the header the qn the verifier itself derives, so that only
			// the verifier's qualification verdict decides
			_, qnHdr = logical.VerifVrfValidateProve(transport(b.proof), h+1, wm, ts)
		}
		bh, pre, _ := nodeHeaders(b, b.proof, qnHdr, h)
		raw, err := types.MarshalBlockHeader(bh)
		if err != nil || raw == nil {
			r.fail("C16:node:header-marshal", "nodegrid", "MarshalBlockHeader: %v", err)
			return
		}
		bh2, err := types.UnMarshalBlockHeader(raw)
		if err != nil || bh2 == nil || bh2.ProveValue == nil {
			r.fail("C16:node:header-unmarshal", "nodegrid", "UnMarshalBlockHeader: %v", err)
			return
		}
		okV, errV := logical.VerifVrfVerifyBlock(bh2, pre, castor, ts)
		if wm != 0 && h == p025Cut {
			// genProve evaluates the rule at the base height, verifyBlockVRF at the new height: at the fork boundary the
			// two sides use different difficulties by construction of the repository; observed, not compared
			r.nontriv = 0
			r.out("nodegrid:fork-boundary-height-skew(not compared)")
			return
		}
		switch {
		case okP && !okV:
			r.fail("C16:node:verifyBlockVRF-rejects-honest", "nodegrid",
				"proposer side genProve: qualified, qn=%d; verifier side verifyBlockVRF on the transported header: rejected (%v) (lz=%d height=%d wm=%d ts=%d proof=%x)", qnP, errV, b.lz, h, wm, ts, []byte(b.proof))
		case !okP && okV:
			r.fail("C16:node:verifier-qualifies-unqualified", "nodegrid",
				"proposer side genProve: not qualified; verifier side verifyBlockVRF on the transported header: accepted with qn=%d (lz=%d height=%d wm=%d ts=%d proof=%x)", qnHdr, b.lz, h, wm, ts, []byte(b.proof))
		case okP:
			r.out("nodegrid:both-qualified")
		default:
			r.out("nodegrid:both-unqualified")
		}
	})
	if panicked {
		if ts != 0 && wm > ts && h+1 > p025Cut {
			r.nontriv = 0
			r.out("nodegrid:panic-on-unreachable-input(workingMiners>totalStake)")
			return r
		}
		r.fail("C16:qn:panic:"+site, "nodegrid", "panic %v (height=%d workingMiners=%d totalStake=%d)", val, h, wm, ts)
	}
	return r
}

// ---------------------------------------------------------------------------------------------
// stored witnesses: (key, series, i) found by an offline scan of the message series (first 2^17 counter messages
// per key) to give proofs with two leading zero bytes, and one proof with a leading zero byte followed by a byte
// >= 0x80.  They are regenerated and re-checked at run time; a witness that no longer has the expected shape is
// counted as skipped (the proof is still an ordinary honest case), never a failure.

type witness struct {
	k      int
	series string
	i      int64
	lz     int
	hiNext bool
}

var witnesses = []witness{
	{2, "ctr", 4870, 2, false},
	{0, "ctr", 33003, 2, false},
	{1, "ctr", 66940, 2, false},
	{1, "ctr", 69341, 2, false},
	{2, "ctr", 99449, 2, false},
	{0, "ctr", 119845, 2, false},
	{0, "ctr", 479, 1, true}, // 00 c1 99 ...
}

// ---------------------------------------------------------------------------------------------
// driver

type sizes struct {
	N     int64  // counter messages per key
	B     int64  // flip bases per key (plus every leading-zero proof)
	A     int64  // adversarial-prover bases per key (plus the first lzCap leading-zero proofs of every worker)
	K     uint64 // nonces per (base, T)
	Q     int64  // qualification bases per key (plus every leading-zero proof)
	G     int64  // proposer/verifier grid bases per key
	lzCap int64  // one-leading-zero proofs per worker that also get the adversarial prover and the proposer/verifier grid
}

func sizesFor(thorough bool) sizes {
	if thorough {
		// N covers (key 0, i=33003) and (key 2, i=4870): proofs with two leading zero bytes
		return sizes{N: 40960, B: 48, A: 32, K: 64, Q: 64, G: 4, lzCap: 8}
	}
	// ~24 proofs with one leading zero byte (17 within the first 1024 messages per key); two leading zero bytes: thorough only
	return sizes{N: 2048, B: 4, A: 4, K: 16, Q: 8, G: 1, lzCap: 1}
}

func runFlips(c *fw.Ctx, b *base) bool {
	for _, target := range []string{"proof", "pk", "msg"} {
		n := flipSpace(b, target)
		for bit := 0; bit < n; bit++ {
			ks := b.kase("flip")
			ks.Target, ks.Bit = target, bit
			report(c, ks, flip(b, target, bit), func() result { return flip(b, target, bit) })
		}
		if c.Expired() {
			return false
		}
	}
	c.Count("flip_bases", 1)
	return true
}

func runAdversary(c *fw.Ctx, b *base, K uint64) bool {
	a := newAdvCtx(b)
	report(c, b.kase("alts"), altS(b, a), func() result { return altS(b, a) })
	for ti := range tors {
		for k := uint64(1); k <= K; k++ {
			for j := 0; j < tors[ti].ord; j++ {
				ks := b.kase("torsion")
				ks.TIdx, ks.TEnc, ks.TOrd, ks.Nonce, ks.J = ti, hex.EncodeToString(tors[ti].enc[:]), tors[ti].ord, k, j
				ti, k, j := ti, k, j
				report(c, ks, torsion(b, a, ti, k, j), func() result { return torsion(b, a, ti, k, j) })
			}
		}
		if c.Expired() {
			return false
		}
	}
	c.Count("adversary_bases", 1)
	return true
}

func runQn(c *fw.Ctx, b *base) bool {
	hs, wms, tss := gridValues()
	for _, h := range hs {
		for _, wm := range wms {
			for _, ts := range tss {
				ks := b.kase("qn")
				ks.Height, ks.WM, ks.TS = h, wm, ts
				h, wm, ts := h, wm, ts
				report(c, ks, qnCase(b, h, wm, ts), func() result { return qnCase(b, h, wm, ts) })
			}
		}
		if c.Expired() {
			return false
		}
	}
	c.Count("qn_bases", 1)
	return true
}

func runNodeGrid(c *fw.Ctx, b *base) bool {
	hs, wms, tss := gridValues()
	for _, h := range hs {
		for _, wm := range wms {
			for _, ts := range tss {
				ks := b.kase("nodegrid")
				ks.Height, ks.WM, ks.TS = h, wm, ts
				h, wm, ts := h, wm, ts
				report(c, ks, nodeGridCase(b, h, wm, ts), func() result { return nodeGridCase(b, h, wm, ts) })
			}
		}
		if c.Expired() {
			return false
		}
	}
	c.Count("nodegrid_bases", 1)
	return true
}

func run(c *fw.Ctx) {
	c.ConcPart() // schedule part first: it has its own (small) share of the budget
	setup()
	buildTorsion()
	if torsErr != "" {
		// the table is derived with the repository's own group law; if it is inconsistent the curve
		// arithmetic under test is broken (or the harness is): report, do not continue silently.
		c.Violation("C16:curve:torsion-selfcheck", "torsion", torsErr, kase{Kind: "selfcheck"})
		tors = nil
	}
	sz := sizesFor(c.Thorough())
	var idx int64
	capped := false
	stop := func(what string) {
		if !capped {
			c.Cap(what)
			capped = true
		}
	}
	sampled := 0
	var lzAdv int64
	// treat runs the follow-up parts on one verified honest proof; every proof with a leading zero byte gets
	// flips + qualification grid, the first lzCap of them per worker (and every proof with two leading zero
	// bytes, and every stored witness) also the adversarial prover and the proposer/verifier grid.
	treat := func(b *base, doFlip, doAdv, doQn, doGrid, witness bool) bool {
		lzFull := b.lz > 1 || witness
		if !lzFull && b.lz == 1 && lzAdv < sz.lzCap {
			lzAdv++
			lzFull = true
		}
		if doFlip || b.lz > 0 {
			if !runFlips(c, b) {
				stop("time budget: single-bit mutation part incomplete")
				return false
			}
		}
		if tors != nil && (doAdv || lzFull) {
			if !runAdversary(c, b, sz.K) {
				stop("time budget: adversarial prover part incomplete")
				return false
			}
		}
		if doQn || b.lz > 0 {
			if !runQn(c, b) {
				stop("time budget: qualification grid incomplete")
				return false
			}
		}
		if doGrid || lzFull {
			if !runNodeGrid(c, b) {
				stop("time budget: proposer/verifier grid incomplete")
				return false
			}
		}
		return true
	}
	// order oracle first: its phase R needs a process in which the base proofs have never been accepted
	if !runOrder(c, sz, &idx) {
		stop("time budget: order oracle incomplete")
	}
	if !capped && !runDeform(c, sz, &idx) {
		stop("time budget: length deformations incomplete")
	}
	if !capped && !runLengths(c, &idx) {
		stop("time budget: message-length family incomplete")
	}
	if !capped && !runSmallKeys(c, &idx) {
		stop("time budget: small-order key family incomplete")
	}
	// stored witnesses next (cheap, and the part of quick that reaches the two-leading-zero padding path)
	for _, w := range witnesses {
		idx++
		if w.series == "ctr" && w.i < sz.N {
			continue // inside the enumerated range of this tier: handled there
		}
		if !c.Mine(idx) || capped {
			continue
		}
		if c.Expired() {
			stop("time budget: stored witnesses incomplete")
			break
		}
		b, r := honest(w.k, w.series, w.i)
		w := w
		report(c, b.kase("honest"), r, func() result { _, r2 := honest(w.k, w.series, w.i); return r2 })
		if !b.ok {
			continue
		}
		if b.lz != w.lz || (w.hiNext && b.proof[w.lz] < 0x80) {
			c.Count("witnesses_skipped(shape changed)", 1)
		} else {
			c.Count(fmt.Sprintf("witnesses_used_lz%d", b.lz), 1)
			c.Count(fmt.Sprintf("leading_zero_%d_proofs", b.lz), 1)
		}
		if b.lz > 0 {
			if !treat(b, true, true, true, true, true) {
				break
			}
		}
	}
	if !capped && !runSeq(c, &idx) {
		stop("time budget: sequence oracles incomplete")
	}
	for k := 0; k < nKeys && !capped; k++ {
		for _, series := range []string{"ctr", "len"} {
			n := sz.N
			if series == "len" {
				n = int64(len(lenSeries))
			}
			for i := int64(0); i < n; i++ {
				idx++
				if !c.Mine(idx) {
					continue
				}
				if c.Expired() {
					stop(fmt.Sprintf("time budget: honest enumeration stopped at key %d series %s message %d", k, series, i))
					break
				}
				b, r := honest(k, series, i)
				kk, ss, ii := k, series, i
				report(c, b.kase("honest"), r, func() result { _, r2 := honest(kk, ss, ii); return r2 })
				if !b.ok {
					continue
				}
				if b.lz > 0 {
					c.Count(fmt.Sprintf("leading_zero_%d_proofs", b.lz), 1)
					if sampled < 2 {
						c.Sample(b.kase("honest"))
						sampled++
					}
				}
				if !treat(b, series == "ctr" && i < sz.B, series == "ctr" && i < sz.A, series == "ctr" && i < sz.Q, series == "ctr" && i < sz.G, false) {
					break
				}
			}
			if capped {
				break
			}
		}
	}
	c.Note("messages_per_key", sz.N+int64(len(lenSeries)))
	c.Note("nonces_per_base_and_point", sz.K)
	c.Note("max_qn", maxQN)
	c.Note("outside_bound", "multi-bit forgeries; keys other than the 3 seeded ones; stakes/heights outside the grid; public keys that are not honestly generated (small-order keys)")
}

func replay(c *fw.Ctx, raw json.RawMessage) {
	if c.ConcReplay(raw) {
		return
	}
	var ks kase
	if err := json.Unmarshal(raw, &ks); err != nil {
		panic(err)
	}
	setup()
	buildTorsion()
	if ks.Kind == "seq" || ks.Kind == "dirty" {
		replaySeq(c, ks)
		return
	}
	if ks.Kind == "deform" {
		replayDeform(c, ks)
		return
	}
	if ks.Kind == "smallkey" {
		replaySmallKey(c, ks)
		return
	}
	if ks.Kind == "mlen" {
		replayLengths(c, ks)
		return
	}
	if ks.Kind == "order" {
		r, _ := orderCase(ks.Key, ks.Series, ks.I, ks.Fn)
		report(c, ks, r, func() result { r2, _ := orderCase(ks.Key, ks.Series, ks.I, ks.Fn); return r2 })
		return
	}
	if ks.Kind == "selfcheck" {
		if torsErr != "" {
			c.Violation("C16:curve:torsion-selfcheck", "torsion", torsErr, ks)
		}
		return
	}
	b, r := honest(ks.Key, ks.Series, ks.I)
	if ks.Kind == "honest" || b.proof == nil {
		report(c, ks, r, func() result { _, r2 := honest(ks.Key, ks.Series, ks.I); return r2 })
		return
	}
	switch ks.Kind {
	case "flip":
		report(c, ks, flip(b, ks.Target, ks.Bit), func() result { return flip(b, ks.Target, ks.Bit) })
	case "alts":
		a := newAdvCtx(b)
		report(c, ks, altS(b, a), func() result { return altS(b, a) })
	case "torsion":
		if torsErr != "" {
			c.Violation("C16:curve:torsion-selfcheck", "torsion", torsErr, ks)
			return
		}
		a := newAdvCtx(b)
		report(c, ks, torsion(b, a, ks.TIdx, ks.Nonce, ks.J), func() result { return torsion(b, a, ks.TIdx, ks.Nonce, ks.J) })
	case "qn":
		report(c, ks, qnCase(b, ks.Height, ks.WM, ks.TS), func() result { return qnCase(b, ks.Height, ks.WM, ks.TS) })
	case "nodegrid":
		report(c, ks, nodeGridCase(b, ks.Height, ks.WM, ks.TS), func() result { return nodeGridCase(b, ks.Height, ks.WM, ks.TS) })
	}
}

func main() {
	fw.Main(fw.Check{
		ID: "C16", Level: "exploration",
		Rule: "3 seeded key pairs x messages m0..mN-1 in order (32-byte counter messages, VRF message = genVrfMsg(m, 1+i%3)) plus 13 message lengths 0..1000: " +
			"each proof generated twice, verified, carried through big.Int/header marshalling and re-verified by VRFVerify and verifyBlockVRF; " +
			"for the first B messages of every key and every proof with a leading zero byte: all single-bit flips of proof/public key/message (direct and transported); " +
			"adversarial prover: 8 small-order points x nonces 1..K x every guess of c*T, plus s+L; small-order keys: 10 key strings (8 torsion points, second encodings of the two x=0 points) x 8 small-order Gamma x 2 messages, " +
			"proof crafted without a secret (first nonce <= 64 with challenge = 0 mod 8), every single-bit flip of key/proof/message of every accepted base (direct and transported); qualification grid 8 heights x 7 workingMiners x 10 totalStakes " +
			"against an exact big.Rat model, and the same grid proposer (genProve) against verifier (verifyBlockVRF on the marshalled header); " +
			"7 stored witnesses (6 proofs with two leading zero bytes, 1 with 00 followed by a byte >= 0x80) regenerated and taken through every part; " +
			"sequence oracles: for 13 functions all ordered pairs over 12 pool entries and all ordered triples over 4 (result stability after later calls and caller-side overwrites, arguments unchanged, " +
			"same result on re-use), order oracle: for the 7 witnesses and the first G messages of every key, at each of the layers ECVRFVerify / VRFVerify / verifyBlockVRF: every single-bit mutant of " +
			"message (preBH.Random), public key and proof plus other deltas / an unrelated previous header presented before the honest triple, the honest triple, then all mutants again with the honest triple in between " +
			"(every reject and accept verdict history-independent); message-length family: 2 keys x 20 message lengths 0..1000: honest pipeline, every single-bit flip of the message at all byte positions (L<=257; " +
			"L=1000: first/middle/last 2 bytes and every 64th byte) through ECVRFVerify and VRFVerify, one-byte extensions (00, ff), one-byte truncation and same-prefix-different-tail siblings must be rejected, and proofs/outputs " +
			"are pairwise distinct over all distinct messages of the family; length deformations of honest proofs (prefix junk J||P with |J| in 1,2,16,32,48 in three patterns plus two qualification-threshold values, " +
			"suffix junk, both, front/back truncations) for the witnesses and the first A messages of every key: every form accepted by VRFVerify or by verifyBlockVRF as header ProveValue must carry the honest lottery output " +
			"for every production reader and qn in 1..MaxQN; and dirty-destination decoding of points over all ordered pairs of a pool of valid/invalid encodings. Every case is distinct by construction; non-trivial = an honest proof taken through both paths, a mutant submitted to the verifier, " +
			"a crafted proof whose challenge is consistent with the guess (i.e. actually submitted), a grid point evaluated (panics on workingMiners>totalStake excluded).",
		Assumptions: []string{
			"the repository's own curve/scalar arithmetic is used to build adversarial proofs (only through the group law; small-order table self-checked by repeated addition)",
			"SHA-512 challenge collisions have negligible probability, so 'no flip verifies' is decidable by running the verifier",
			"workingMiners <= totalStake in every reachable chain state (validateProve divides by zero otherwise; observed, not flagged)",
			"math/big arithmetic is exact",
		},
		Run: run, Replay: replay,
		Budget: func(t string) time.Duration {
			if t == "thorough" {
				return 18 * time.Minute
			}
			return 80 * time.Second
		},
	})
}
