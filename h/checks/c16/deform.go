// C16, length deformations of an honest proof P (adversarial proofs that differ from P in LENGTH):
//
//	prefix junk   J||P, |J| in {1,2,16,32,48}, J[0] != 0 (so the header's big integer keeps it); patterns low / high / mixed,
//	              and for |J| = 32 the value just below the qualification threshold of two stake ratios
//	suffix junk   P||J, same lengths and patterns
//	both          J||P||J'
//	truncations   P[n:] and P[:80-n], n in {1,2,16,32,48}, and the empty string
//
// Rejected forms are fine.  For EVERY form that vrf.VRFVerify accepts, or that verifyBlockVRF accepts when the form is
// carried as the header's ProveValue over the wire: (a) the lottery output seen by every production reader
// (VRFProof2Hash of the re-padded bytes, the value ratio used by validateProve, ConsensusHelper.VRFProve2Value) must be
// the output of the honest proof P, (b) wherever validateProve qualifies it, 1 <= qn <= MaxQN.
package main

import (
	"fmt"
	"math/big"

	"verif/h/fw"

	"com.tuntun.rangers/node/src/common/ed25519"
	"com.tuntun.rangers/node/src/consensus/logical"
	"com.tuntun.rangers/node/src/consensus/model"
	"com.tuntun.rangers/node/src/consensus/vrf"
	"com.tuntun.rangers/node/src/middleware/types"
)

type form struct {
	id    string // e.g. prefix-junk:32:threshold-ts100
	class string // prefix-junk | suffix-junk | both | truncated-front | truncated-back
	bytes []byte
}

var (
	junkLens    = []int{1, 2, 16, 32, 48}
	deformStake = []uint64{nodeStake, 100, 1000, 10000}
)

func junk(n int, pattern string) []byte {
	j := make([]byte, n)
	switch pattern {
	case "low":
		j[0] = 1
	case "high":
		for i := range j {
			j[i] = 0xff
		}
	default: // mixed
		for i := range j {
			j[i] = byte(i*37 + 1)
		}
	}
	return j
}

// thresholdJunk: the 32-byte value just below stakeRatio(totalStake) * (2^256-1).
func thresholdJunk(ts uint64) []byte {
	sr := logical.VerifVrfStakeRatio(1, ts)
	max := new(big.Int).Sub(new(big.Int).Lsh(big.NewInt(1), 256), big.NewInt(1))
	v := new(big.Rat).Mul(sr, new(big.Rat).SetInt(max))
	fl := new(big.Int).Quo(v.Num(), v.Denom())
	fl.Sub(fl, big.NewInt(1))
	if fl.Sign() <= 0 || fl.BitLen() > 256 {
		return junk(32, "mixed")
	}
	out := make([]byte, 32)
	fl.FillBytes(out)
	if out[0] == 0 {
		out[0] = 1
	}
	return out
}

func deformations(p []byte) []form {
	var fs []form
	cat := func(parts ...[]byte) []byte {
		var o []byte
		for _, x := range parts {
			o = append(o, x...)
		}
		return o
	}
	for _, n := range junkLens {
		for _, pat := range []string{"low", "high", "mixed"} {
			fs = append(fs, form{fmt.Sprintf("prefix-junk:%d:%s", n, pat), "prefix-junk", cat(junk(n, pat), p)})
			fs = append(fs, form{fmt.Sprintf("suffix-junk:%d:%s", n, pat), "suffix-junk", cat(p, junk(n, pat))})
		}
		fs = append(fs, form{fmt.Sprintf("both:%d", n), "both", cat(junk(n, "mixed"), p, junk(n, "high"))})
		fs = append(fs, form{fmt.Sprintf("truncated-front:%d", n), "truncated-front", cp(p[n:])})
		fs = append(fs, form{fmt.Sprintf("truncated-back:%d", n), "truncated-back", cp(p[:len(p)-n])})
	}
	for _, ts := range []uint64{100, 1000} {
		fs = append(fs, form{fmt.Sprintf("prefix-junk:32:threshold-ts%d", ts), "prefix-junk", cat(thresholdJunk(ts), p)})
	}
	fs = append(fs, form{"truncated-back:80", "truncated-back", []byte{}})
	return fs
}

func deformCase(b *base, f form) result {
	var r result
	r.evals, r.nontriv = 1, 1
	pk := b.kp.pk
	panicked, val, site := fw.Try(func() {
		F := f.bytes
		direct, _ := vrf.VRFVerify(pk, vrf.VRFProve(cp(F)), b.msg)
		edLayer, _ := ed25519.ECVRFVerify(ed25519.PublicKey(pk), ed25519.VRFProve(cp(F)), b.msg)
		// header level: the form as the header's big integer, over the wire, TotalQN consistent with the verifier's own qn
		var wire []byte
		hdr := false
		var hdrErr error
		{
			pv := new(big.Int).SetBytes(F)
			_, qnV := logical.VerifVrfValidateProve(vrf.VRFProve(pv.Bytes()), 42, 0, nodeStake)
			bh, pre, _ := nodeHeaders(b, vrf.VRFProve(F), qnV, 41)
			raw, err := types.MarshalBlockHeader(bh)
			if err == nil && raw != nil {
				if bh2, err := types.UnMarshalBlockHeader(raw); err == nil && bh2 != nil && bh2.ProveValue != nil {
					wire = bh2.ProveValue.Bytes()
					hdr, hdrErr = logical.VerifVrfVerifyBlock(bh2, pre, &model.MinerInfo{VrfPK: pk}, nodeStake)
				}
			}
		}
		_ = hdrErr
		_ = edLayer
		if !direct && !hdr {
			r.out("deform:rejected")
			return
		}
		out0 := vrf.VRFProof2Hash(b.proof).Big()
		ratio0 := logical.VerifVrfValueRatio(b.proof)
		// X: the bytes the accepting path was given.  ConsensusHelper.VRFProve2Value reads the header's big integer, so it
		// is a reader of the header path only (a byte string with leading zero bytes never comes out of a big integer).
		judgeBytes := func(path string, X []byte, fromHeader bool) {
			padded := logical.VerifVrfZeroPadding(vrf.VRFProve(cp(X)))
			type reader struct {
				name string
				v    *big.Int
			}
			readers := []reader{{"VRFProof2Hash(re-padded bytes)", vrf.VRFProof2Hash(padded).Big()}}
			if fromHeader {
				readers = append(readers, reader{"ConsensusHelper.VRFProve2Value", helper.VRFProve2Value(new(big.Int).SetBytes(X))})
			}
			for _, rd := range readers {
				if rd.v.Cmp(out0) != 0 {
					r.fail("C16:len:"+f.class+":accepted-with-different-output", "deform",
						"key %d %s message %d, form %s (%d bytes) accepted by %s: lottery output read by %s is %x, output of the honest proof %x (form=%x)",
						b.k, b.series, b.i, f.id, len(F), path, rd.name, rd.v, out0, F)
				}
			}
			if rt := logical.VerifVrfValueRatio(padded); rt.Cmp(ratio0) != 0 {
				r.fail("C16:len:"+f.class+":accepted-with-different-output", "deform",
					"key %d %s message %d, form %s (%d bytes) accepted by %s: value ratio used by validateProve is %s, for the honest proof %s (form=%x)",
					b.k, b.series, b.i, f.id, len(F), path, rt.FloatString(20), ratio0.FloatString(20), F)
			}
			for _, ts := range deformStake {
				ok, qn := logical.VerifVrfValidateProve(vrf.VRFProve(cp(X)), 42, 0, ts)
				if ok && (qn < 1 || qn > maxQN) {
					r.fail("C16:len:"+f.class+":qn-out-of-range", "deform",
						"key %d %s message %d, form %s accepted by %s and qualified at totalStake=%d with qn=%d outside [1,%d] (form=%x)",
						b.k, b.series, b.i, f.id, path, ts, qn, maxQN, F)
				}
			}
		}
		if direct {
			judgeBytes("vrf.VRFVerify", F, false)
		}
		if hdr {
			judgeBytes("verifyBlockVRF (header ProveValue over the wire)", wire, true)
		}
		if len(r.finds) == 0 {
			r.out(fmt.Sprintf("deform:%s:accepted-same-output", f.class))
		}
	})
	if panicked {
		r.fail("C16:len:panic:"+site, "deform", "form %s: panic %v", f.id, val)
	}
	return r
}

func runDeform(c *fw.Ctx, sz sizes, idx *int64) bool {
	bases := orderBases(sizes{G: sz.A})
	for _, ob := range bases {
		*idx++
		if !c.Mine(*idx) {
			continue
		}
		if c.Expired() {
			return false
		}
		b, _ := honest(ob.k, ob.series, ob.i) // findings of the honest pipeline are reported where the base is enumerated
		if !b.ok {
			continue
		}
		for _, f := range deformations(b.proof) {
			f := f
			ks := b.kase("deform")
			ks.Target = f.id
			report(c, ks, deformCase(b, f), func() result { return deformCase(b, f) })
		}
		c.Count("deform_bases", 1)
	}
	return true
}

func replayDeform(c *fw.Ctx, ks kase) {
	b, r := honest(ks.Key, ks.Series, ks.I)
	if !b.ok {
		report(c, ks, r, func() result { _, r2 := honest(ks.Key, ks.Series, ks.I); return r2 })
		return
	}
	for _, f := range deformations(b.proof) {
		if f.id == ks.Target {
			f := f
			report(c, ks, deformCase(b, f), func() result { return deformCase(b, f) })
		}
	}
}
