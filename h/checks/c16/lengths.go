// C16, message-length family: the message binding of a proof must hold for every message length and at every
// byte position (the other parts flip message bits only in 32-byte messages).
//
// 2 keys x lengths {0,1,31,32,33,63,64,65,93,94,95,96,127,128,129,200,255,256,257,1000}:
//
//	honest   the full honest pipeline (prove twice, verify, transport, genProve -> header -> verifyBlockVRF; the
//	         header-derived message is genVrfMsg(random, 1) = the message itself)
//	flip     every single-bit flip at all byte positions (L <= 257; L = 1000: first 2, middle 2, last 2 bytes and
//	         every 64th byte): rejected by ECVRFVerify and by VRFVerify on the transported proof
//	sibling  message extended by 00 / by ff, truncated by one byte, last byte inverted, second half inverted:
//	         rejected for the original proof
//	inject   proofs and lottery outputs are pairwise different over all DISTINCT messages of the family of a key
//	         (base messages and their siblings)
package main

import (
	"bytes"
	"fmt"

	"verif/h/fw"

	"com.tuntun.rangers/node/src/common/ed25519"
	"com.tuntun.rangers/node/src/consensus/vrf"
)

var (
	mlenLengths = []int64{0, 1, 31, 32, 33, 63, 64, 65, 93, 94, 95, 96, 127, 128, 129, 200, 255, 256, 257, 1000}
	mlenKeys    = []int{0, 1}
	siblingKind = []string{"ext00", "extff", "trunc", "last-byte-inverted", "second-half-inverted"}
)

func mlenSibling(m []byte, kind string) ([]byte, bool) {
	switch kind {
	case "ext00":
		return append(cp(m), 0x00), true
	case "extff":
		return append(cp(m), 0xff), true
	case "trunc":
		if len(m) == 0 {
			return nil, false
		}
		return cp(m[:len(m)-1]), true
	case "last-byte-inverted":
		if len(m) == 0 {
			return nil, false
		}
		s := cp(m)
		s[len(s)-1] ^= 0xff
		return s, true
	case "second-half-inverted":
		if len(m) < 2 {
			return nil, false
		}
		s := cp(m)
		inv(s[len(s)/2:])
		return s, true
	}
	return nil, false
}

func mlenFlipBits(L int64) []int {
	var bits []int
	addByte := func(b int64) {
		if b >= 0 && b < L {
			for i := 0; i < 8; i++ {
				bits = append(bits, int(b)*8+i)
			}
		}
	}
	if L <= 257 {
		for b := int64(0); b < L; b++ {
			addByte(b)
		}
		return bits
	}
	seen := map[int64]bool{}
	for _, b := range []int64{0, 1, L/2 - 1, L / 2, L - 2, L - 1} {
		if !seen[b] {
			seen[b] = true
			addByte(b)
		}
	}
	for b := int64(64); b < L; b += 64 {
		if !seen[b] {
			seen[b] = true
			addByte(b)
		}
	}
	return bits
}

// rejectedForOtherMessage: the base proof presented with message m2 at both layers.
func mlenReject(b *base, m2 []byte, what string) result {
	var r result
	r.evals, r.nontriv = 1, 1
	panicked, val, site := fw.Try(func() {
		ok1, _ := ed25519.ECVRFVerify(ed25519.PublicKey(b.kp.pk), ed25519.VRFProve(b.proof), m2)
		ok2, _ := vrf.VRFVerify(b.kp.pk, transport(b.proof), m2)
		if ok1 || ok2 {
			sig := "C16:mutation:accepted:msg"
			if what[:4] != "flip" {
				sig = "C16:message:sibling-accepted"
			}
			r.fail(sig, "mlen", "key %d, %d-byte message: the proof still verifies for the message with %s (ECVRFVerify=%v, VRFVerify after transport=%v)", b.k, len(b.msg), what, ok1, ok2)
			return
		}
		r.out("mlen:other-message-rejected")
	})
	if panicked {
		r.fail("C16:panic:"+site, "mlen", "panic %v (key %d, %d-byte message, %s)", val, b.k, len(b.msg), what)
	}
	return r
}

type famEntry struct {
	desc  string
	msg   []byte
	proof []byte
}

var mlenFamily = map[int][]famEntry{}

// family of a key: base messages and siblings with their honestly generated proofs (built once per worker).
func buildFamily(k int) []famEntry {
	if f, ok := mlenFamily[k]; ok {
		return f
	}
	var f []famEntry
	add := func(desc string, m []byte) {
		p, err := vrf.VRFGenProve(keys[k].pk, keys[k].sk, m)
		if err != nil {
			panic(fmt.Sprintf("VRFGenProve(%s): %v", desc, err))
		}
		f = append(f, famEntry{desc, m, p})
	}
	for _, L := range mlenLengths {
		m := randomFor(k, "mlen", L)
		add(fmt.Sprintf("L=%d", L), m)
		for _, kind := range siblingKind {
			if s, ok := mlenSibling(m, kind); ok {
				add(fmt.Sprintf("L=%d %s", L, kind), s)
			}
		}
	}
	mlenFamily[k] = f
	return f
}

// mlenInject: the proofs of the base message L and of its siblings against every distinct message of the family.
func mlenInject(k int, L int64) result {
	var r result
	panicked, val, site := fw.Try(func() {
		fam := buildFamily(k)
		prefix := fmt.Sprintf("L=%d", L)
		for _, a := range fam {
			if a.desc != prefix && !(len(a.desc) > len(prefix) && a.desc[:len(prefix)+1] == prefix+" ") {
				continue
			}
			for _, o := range fam {
				if bytes.Equal(a.msg, o.msg) {
					continue
				}
				r.evals++
				r.nontriv++
				if bytes.Equal(a.proof, o.proof) {
					r.fail("C16:message:proof-collision", "mlen", "key %d: distinct messages [%s] (%d bytes) and [%s] (%d bytes) get the identical proof %x", k, a.desc, len(a.msg), o.desc, len(o.msg), a.proof)
					return
				}
				if bytes.Equal(vrf.VRFProof2Hash(a.proof), vrf.VRFProof2Hash(o.proof)) {
					r.fail("C16:message:output-collision", "mlen", "key %d: distinct messages [%s] and [%s] get the identical lottery output %x", k, a.desc, o.desc, []byte(vrf.VRFProof2Hash(a.proof)))
					return
				}
			}
		}
		r.out("mlen:proofs-and-outputs-distinct")
	})
	if panicked {
		r.fail("C16:panic:"+site, "mlen", "panic %v (key %d, L=%d)", val, k, L)
	}
	return r
}

func runLengths(c *fw.Ctx, idx *int64) bool {
	for _, k := range mlenKeys {
		for _, L := range mlenLengths {
			*idx++
			if !c.Mine(*idx) {
				continue
			}
			if c.Expired() {
				return false
			}
			k, L := k, L
			b, r := honest(k, "mlen", L)
			report(c, b.kase("honest"), r, func() result { _, r2 := honest(k, "mlen", L); return r2 })
			if !b.ok {
				continue
			}
			for _, bit := range mlenFlipBits(L) {
				bit := bit
				ks := kase{Kind: "mlen", Key: k, I: L, Target: "flip", Bit: bit}
				what := fmt.Sprintf("flip of bit %d (byte %d)", bit, bit/8)
				report(c, ks, mlenReject(b, flipBit(b.msg, bit), what), func() result { return mlenReject(b, flipBit(b.msg, bit), what) })
			}
			for _, kind := range siblingKind {
				s, ok := mlenSibling(b.msg, kind)
				if !ok {
					continue
				}
				kind := kind
				ks := kase{Kind: "mlen", Key: k, I: L, Target: kind}
				report(c, ks, mlenReject(b, s, kind), func() result { return mlenReject(b, s, kind) })
			}
			ks := kase{Kind: "mlen", Key: k, I: L, Target: "inject"}
			report(c, ks, mlenInject(k, L), func() result { return mlenInject(k, L) })
			c.Count("mlen_bases", 1)
		}
	}
	return true
}

func replayLengths(c *fw.Ctx, ks kase) {
	k, L := ks.Key, ks.I
	if ks.Target == "inject" {
		report(c, ks, mlenInject(k, L), func() result { return mlenInject(k, L) })
		return
	}
	b, r := honest(k, "mlen", L)
	if !b.ok {
		report(c, ks, r, func() result { _, r2 := honest(k, "mlen", L); return r2 })
		return
	}
	if ks.Target == "flip" {
		what := fmt.Sprintf("flip of bit %d (byte %d)", ks.Bit, ks.Bit/8)
		report(c, ks, mlenReject(b, flipBit(b.msg, ks.Bit), what), func() result { return mlenReject(b, flipBit(b.msg, ks.Bit), what) })
		return
	}
	if s, ok := mlenSibling(b.msg, ks.Target); ok {
		report(c, ks, mlenReject(b, s, ks.Target), func() result { return mlenReject(b, s, ks.Target) })
	}
}
