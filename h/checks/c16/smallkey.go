// C16, small-order public keys: adversarially constructed proofs for keys that have no honest prover.
//
//	keys     the 8 points of the 8-torsion subgroup in canonical encoding, plus the second encoding (sign bit set) of the two
//	         points with x = 0 (identity and the point of order 2) - 10 key strings
//	Gamma    each of the 8 small-order points
//	messages 2 (32 bytes, 12 bytes)
//
// For Y and Gamma of small order and a challenge c = 0 (mod 8) the verifier computes U = s*B, V = s*H, so the prover without any
// secret takes s = k for the first nonce k in 1..64 whose challenge hashPoints(H, Gamma, k*B, k*H) is a multiple of 8 (hook H5).
// Whether the verifier accepts such a base proof is not judged here (no honest proof exists to compare an output with); for
// every base it ACCEPTS, every single-bit flip of the public key (256), of the proof (640) and of the message must be
// rejected, directly and after transport as the header's big integer.  The sign bit of a Gamma with x = 0 (identity, order-2
// point) has its own signature: the point decoder ignores it, which is a recorded finding of the unchanged tree.
package main

import (
	"fmt"

	"verif/h/fw"

	"com.tuntun.rangers/node/src/common/ed25519"
	ed "com.tuntun.rangers/node/src/common/ed25519/edwards25519"
	"com.tuntun.rangers/node/src/consensus/vrf"
)

const smallKeyNonces = 64

var smallKeyMsgs = [][]byte{
	[]byte("0123456789abcdef0123456789abcdef"),
	[]byte("demo message"),
}

func smallKeyEncodings() [][]byte {
	var out [][]byte
	for i := range tors {
		e := tors[i].enc
		out = append(out, append([]byte{}, e[:]...))
	}
	for _, i := range []int{0, 4} {
		if i < len(tors) {
			e := tors[i].enc
			e[31] ^= 0x80
			out = append(out, append([]byte{}, e[:]...))
		}
	}
	return out
}

// smallKeyBase crafts the proof; nil if no nonce in range gives a usable challenge or the key string has no point.
func smallKeyBase(pk []byte, g int, msg []byte) (proof []byte, nonce uint64) {
	hb := ed25519.VerifHashToCurve(msg, ed25519.PublicKey(pk))
	var h ed.ExtendedGroupElement
	if !h.FromBytes(&hb) {
		return nil, 0
	}
	for k := uint64(1); k <= smallKeyNonces; k++ {
		ks := scalarOf(k)
		var kB ed.ExtendedGroupElement
		ed.GeScalarMultBase(&kB, ks)
		kH := ed.GeScalarMult(&h, ks)
		c := ed25519.VerifHashPoints(h, tors[g].pt, kB, *kH)
		if c[0]&7 != 0 {
			continue
		}
		genc := tors[g].enc
		return append(append(append([]byte{}, genc[:]...), c[:]...), ks[:]...), k
	}
	return nil, 0
}

func smallKeyCase(pk []byte, g int, msg []byte, target string, bit int) result {
	var r result
	r.evals = 1
	panicked, val, site := fw.Try(func() {
		proof, _ := smallKeyBase(pk, g, msg)
		if proof == nil {
			r.out("smallkey:no-base")
			return
		}
		if target == "base" {
			ok, _ := vrf.VRFVerify(pk, proof, msg)
			if ok {
				r.out("smallkey:base-accepted")
			} else {
				r.out("smallkey:base-rejected")
			}
			return
		}
		r.nontriv = 1
		p2, pk2, m2 := proof, pk, msg
		switch target {
		case "proof":
			p2 = flipBit(proof, bit)
		case "pk":
			pk2 = flipBit(pk, bit)
		case "msg":
			m2 = flipBit(msg, bit)
		}
		ok1, _ := vrf.VRFVerify(pk2, p2, m2)
		ok2, _ := vrf.VRFVerify(pk2, transport(p2), m2)
		if ok1 || ok2 {
			sig := "C16:mutation:accepted:" + target + ":small-order-key"
			if target == "proof" && bit == 255 && (g == 0 || g == 4) {
				// Gamma is one of the two points with x = 0: the flipped bit is the sign bit of its encoding, the decoder
				// maps both strings to the same point (known finding, listed by this signature only)
				sig = "C16:mutation:accepted:proof:sign-bit-of-x0-gamma:small-order-key"
			}
			r.fail(sig, "smallkey",
				"crafted proof %x verifies for the small-order key %x and message %x; after flipping bit %d of the %s it still verifies (direct=%v, after transport=%v) pk=%x msg=%x proof=%x",
				proof, pk, msg, bit, target, ok1, ok2, pk2, m2, p2)
			return
		}
		r.out("smallkey:flip:" + target + ":rejected")
	})
	if panicked {
		r.fail("C16:panic:"+site, "smallkey", "panic %v (key %x, Gamma index %d, %s bit %d)", val, pk, g, target, bit)
	}
	return r
}

func smallKeyKase(ki, g, mi int, pk []byte, target string, bit int) kase {
	return kase{Kind: "smallkey", Key: ki, TIdx: g, I: int64(mi), Target: target, Bit: bit, PK: fmt.Sprintf("%x", pk)}
}

func runSmallKeys(c *fw.Ctx, idx *int64) bool {
	if tors == nil {
		return true
	}
	encs := smallKeyEncodings()
	for ki, pk := range encs {
		for g := range tors {
			for mi, msg := range smallKeyMsgs {
				*idx++
				if !c.Mine(*idx) {
					continue
				}
				if c.Expired() {
					return false
				}
				ki, g, mi, pk, msg := ki, g, mi, pk, msg
				proof, _ := smallKeyBase(pk, g, msg)
				report(c, smallKeyKase(ki, g, mi, pk, "base", 0), smallKeyCase(pk, g, msg, "base", 0), func() result { return smallKeyCase(pk, g, msg, "base", 0) })
				if proof == nil {
					continue
				}
				if ok, _ := vrf.VRFVerify(pk, proof, msg); !ok {
					continue
				}
				c.Count("smallkey_accepted_bases", 1)
				for _, t := range []struct {
					name string
					n    int
				}{{"pk", len(pk) * 8}, {"proof", len(proof) * 8}, {"msg", len(msg) * 8}} {
					for bit := 0; bit < t.n; bit++ {
						name, bit := t.name, bit
						report(c, smallKeyKase(ki, g, mi, pk, name, bit), smallKeyCase(pk, g, msg, name, bit), func() result { return smallKeyCase(pk, g, msg, name, bit) })
					}
				}
			}
		}
	}
	return true
}

func replaySmallKey(c *fw.Ctx, ks kase) {
	encs := smallKeyEncodings()
	if ks.Key < 0 || ks.Key >= len(encs) || ks.TIdx < 0 || ks.TIdx >= len(tors) || ks.I < 0 || int(ks.I) >= len(smallKeyMsgs) {
		return
	}
	pk, msg := encs[ks.Key], smallKeyMsgs[ks.I]
	report(c, ks, smallKeyCase(pk, ks.TIdx, msg, ks.Target, ks.Bit), func() result { return smallKeyCase(pk, ks.TIdx, msg, ks.Target, ks.Bit) })
}
