package main

import (
	"bytes"
	"crypto/sha256"
	"encoding/binary"
	"fmt"
	"sync"

	"com.tuntun.rangers/node/src/consensus/base"
	"com.tuntun.rangers/node/src/consensus/vrf"
)

func main() {
	var wg sync.WaitGroup
	var mu sync.Mutex
	for k := 0; k < 3; k++ {
		seed := sha256.Sum256([]byte(fmt.Sprintf("verif-C16-key-%d", k)))
		pk, sk, _ := vrf.VRFGenerateKey(bytes.NewReader(seed[:]))
		for w := 0; w < 8; w++ {
			wg.Add(1)
			go func(k, w int) {
				defer wg.Done()
				for i := int64(w); i < 1<<17; i += 8 {
					m := make([]byte, 32)
					m[0] = 0xC1
					m[1] = byte(k)
					binary.BigEndian.PutUint64(m[24:], uint64(i))
					for d := 1 + int(i%3); d > 1; d-- {
						m = base.Data2CommonHash(m).Bytes()
					}
					p, _ := vrf.VRFGenProve(pk, sk, m)
					if p[0] == 0 && p[1] == 0 {
						mu.Lock()
						fmt.Println("lz2 key", k, "i", i)
						mu.Unlock()
					}
				}
			}(k, w)
		}
	}
	wg.Wait()
}
