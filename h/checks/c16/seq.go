// C16, sequence oracles (generic, no special-casing of inputs):
//
//	seq    result stability / isolation over call sequences: r1 := f(A); f(B) and the sibling functions g(B)
//	       [and f(C)]; f(A) again on the SAME argument objects; then everything the caller owns of the later calls
//	       is overwritten (results zeroed / big.Int words inverted / points zeroed, input copies inverted):
//	       r1 must still equal its snapshot, the arguments of every call must be unchanged, f(A) on fresh copies
//	       must return what it returned on first use - also after r1 itself and A's copies were overwritten.
//	       All ordered pairs (incl. the same entry twice) over a pool of 12 entries (6 proofs x 2 variants) and all
//	       ordered triples over 4 entries, for every function of the property.
//	dirty  dirty destination: the point decoders that fill an existing object (stringToPoint and
//	       ExtendedGroupElement.FromBytes, as used for Gamma, H and Y) run on an object that already holds a
//	       different valid point or the residue of a failed decode: verdict and value as on a fresh object.
package main

import (
	"bytes"
	"fmt"
	"math/big"

	"verif/h/fw"

	"com.tuntun.rangers/node/src/common/ed25519"
	ed "com.tuntun.rangers/node/src/common/ed25519/edwards25519"
	"com.tuntun.rangers/node/src/consensus/logical"
	"com.tuntun.rangers/node/src/consensus/model"
	"com.tuntun.rangers/node/src/consensus/vrf"
	"com.tuntun.rangers/node/src/middleware/types"
)

type seqItem struct {
	b    *base
	mut  []byte // 80-byte proof with the last bit flipped (rejected; shares a 79-byte prefix with the honest proof)
	wire []byte // honest proof after big.Int transport (shorter for leading-zero proofs)
}

var seqSpecs = []struct {
	k      int
	series string
	i      int64
}{{0, "ctr", 0}, {1, "ctr", 1}, {2, "ctr", 2}, {0, "ctr", 479}, {2, "ctr", 4870}, {1, "len", 0}}

type histEntry struct {
	Fn  string `json:"fn"`
	Seq []int  `json:"seq"`
}

var (
	seqPool    []*seqItem
	firstUse   = map[string][]byte{}
	seqHistory []histEntry
)

func buildSeqPool() {
	seqPool = nil
	for _, sp := range seqSpecs {
		b, _ := honest(sp.k, sp.series, sp.i)
		if !b.ok {
			continue
		}
		seqPool = append(seqPool, &seqItem{b: b, mut: flipBit(b.proof, 639), wire: transport(b.proof)})
	}
}

func cp(b []byte) []byte { return append([]byte{}, b...) }
func inv(b []byte) {
	for i := range b {
		b[i] = ^b[i]
	}
}
func zero(b []byte) {
	for i := range b {
		b[i] = 0
	}
}
func scrambleBig(x *big.Int) {
	if x == nil {
		return
	}
	w := x.Bits()
	for i := range w {
		w[i] = ^w[i]
	}
	x.SetInt64(0)
}

// unchanged compares current argument bytes with their pre-call snapshots (cur0, snap0, cur1, snap1, ...).
func unchanged(names []string, pairs ...[]byte) string {
	for i := 0; i+1 < len(pairs); i += 2 {
		if !bytes.Equal(pairs[i], pairs[i+1]) {
			return fmt.Sprintf("argument %s changed from %x to %x", names[i/2], pairs[i+1], pairs[i])
		}
	}
	return ""
}

type call struct {
	snap     []byte        // serialised result right after the call
	live     func() []byte // serialisation of the result object the caller still holds
	args     func() string // "" while the argument objects equal their pre-call snapshots
	again    func() []byte // f on the same argument objects once more
	scramble func()        // overwrite the result and the caller's copies of the inputs
	aliasOwn func() bool   // does writing to the result change this call's own input (counted only)
}

type seqFn struct {
	name string
	sibs []string
	do   func(idx int) *call
}

func serErr(err error, b []byte) []byte { return append([]byte(fmt.Sprintf("%v|", err)), b...) }

func qnCfg(variant int) (h, wm, ts uint64) {
	if variant == 0 {
		return 41, 0, 1000
	}
	return 1 << 63, 3, 100000
}

func hdrSnap(bh, pre *types.BlockHeader, castor *model.MinerInfo) []byte {
	a, _ := types.MarshalBlockHeader(bh)
	b, _ := types.MarshalBlockHeader(pre)
	out := append(append(cp(a), b...), castor.VrfPK...)
	return append(out, []byte(fmt.Sprintf("|%d|%d|%d", castor.WorkingMiners, bh.TotalQN, pre.TotalQN))...)
}

var seqFns []seqFn

func seqFnByName(n string) *seqFn {
	for i := range seqFns {
		if seqFns[i].name == n {
			return &seqFns[i]
		}
	}
	return nil
}

func init() {
	item := func(idx int) (*seqItem, int) { return seqPool[idx/2], idx % 2 }

	prove := func(name string, f func(pk, sk, m []byte) ([]byte, error)) seqFn {
		return seqFn{name: name, do: func(idx int) *call {
			it, _ := item(idx)
			pk, sk, m := cp(it.b.kp.pk), cp(it.b.kp.sk), cp(it.b.msg)
			r, err := f(pk, sk, m)
			c := &call{snap: serErr(err, cp(r))}
			c.live = func() []byte { return serErr(err, cp(r)) }
			c.args = func() string {
				return unchanged([]string{"pk", "sk", "message"}, pk, it.b.kp.pk, sk, it.b.kp.sk, m, it.b.msg)
			}
			c.again = func() []byte { r2, e2 := f(pk, sk, m); return serErr(e2, r2) }
			c.scramble = func() { zero(r); inv(pk); inv(sk); inv(m) }
			return c
		}}
	}
	p1 := prove("VRFGenProve", func(pk, sk, m []byte) ([]byte, error) {
		r, e := vrf.VRFGenProve(pk, sk, m)
		return r, e
	})
	p1.sibs = []string{"ECVRFProve"}
	p2 := prove("ECVRFProve", func(pk, sk, m []byte) ([]byte, error) {
		r, e := ed25519.ECVRFProve(sk, m)
		return r, e
	})
	p2.sibs = []string{"VRFGenProve"}

	verify := func(name string, f func(pk, pi, m []byte) (bool, error)) seqFn {
		return seqFn{name: name, do: func(idx int) *call {
			it, v := item(idx)
			src := it.wire
			if v == 1 {
				src = it.mut
			}
			pk, pi, m := cp(it.b.kp.pk), cp(src), cp(it.b.msg)
			ok, err := f(pk, pi, m)
			c := &call{snap: []byte(fmt.Sprintf("%v|%v", ok, err))}
			c.live = func() []byte { return cp(c.snap) }
			c.args = func() string {
				return unchanged([]string{"pk", "proof", "message"}, pk, it.b.kp.pk, pi, src, m, it.b.msg)
			}
			c.again = func() []byte { ok2, e2 := f(pk, pi, m); return []byte(fmt.Sprintf("%v|%v", ok2, e2)) }
			c.scramble = func() { inv(pk); inv(pi); inv(m) }
			return c
		}}
	}
	v1 := verify("VRFVerify", func(pk, pi, m []byte) (bool, error) { return vrf.VRFVerify(pk, pi, m) })
	v1.sibs = []string{"ECVRFVerify", "VRFGenProve"}
	v2 := verify("ECVRFVerify", func(pk, pi, m []byte) (bool, error) { return ed25519.ECVRFVerify(pk, pi, m) })
	v2.sibs = []string{"VRFVerify"}

	// []byte -> []byte helpers
	bytesFn := func(name string, useWire bool, f func(p []byte) []byte) seqFn {
		return seqFn{name: name, do: func(idx int) *call {
			it, v := item(idx)
			src := []byte(it.b.proof)
			if v == 1 {
				src = it.mut
			}
			if useWire {
				src = transport(src)
			}
			p := cp(src)
			r := f(p)
			c := &call{snap: cp(r)}
			c.live = func() []byte { return cp(r) }
			c.args = func() string { return unchanged([]string{"proof"}, p, src) }
			c.again = func() []byte { return cp(f(p)) }
			c.scramble = func() { zero(r); inv(p) }
			c.aliasOwn = func() bool {
				if len(r) == 0 || len(p) == 0 {
					return false
				}
				before := cp(p)
				r[len(r)-1] ^= 0xff
				aliased := !bytes.Equal(before, p)
				r[len(r)-1] ^= 0xff
				return aliased
			}
			return c
		}}
	}
	h1 := bytesFn("VRFProof2Hash", false, func(p []byte) []byte { return vrf.VRFProof2Hash(p) })
	h1.sibs = []string{"VRFProve.Big", "VRFProve2Value"}
	z1 := bytesFn("logical.tryZeroPadding", true, func(p []byte) []byte { return logical.VerifVrfZeroPadding(p) })
	z1.sibs = []string{"ed25519.tryZeroPadding", "VRFProof2Hash"}
	z2 := bytesFn("ed25519.tryZeroPadding", true, func(p []byte) []byte { return ed25519.VerifTryZeroPadding(p) })
	z2.sibs = []string{"logical.tryZeroPadding"}

	bigFn := seqFn{name: "VRFProve.Big", sibs: []string{"VRFProve2Value", "VRFProof2Hash"}, do: func(idx int) *call {
		it, v := item(idx)
		src := []byte(it.b.proof)
		if v == 1 {
			src = it.mut
		}
		p := cp(src)
		r := vrf.VRFProve(p).Big()
		c := &call{snap: r.Bytes()}
		c.live = func() []byte { return r.Bytes() }
		c.args = func() string { return unchanged([]string{"proof"}, p, src) }
		c.again = func() []byte { return vrf.VRFProve(p).Big().Bytes() }
		c.scramble = func() { scrambleBig(r); inv(p) }
		return c
	}}
	p2v := seqFn{name: "VRFProve2Value", sibs: []string{"VRFProve.Big", "VRFProof2Hash"}, do: func(idx int) *call {
		it, v := item(idx)
		src := []byte(it.b.proof)
		if v == 1 {
			src = it.mut
		}
		in := new(big.Int).SetBytes(src)
		inSnap := in.Bytes()
		r := helper.VRFProve2Value(in)
		c := &call{snap: r.Bytes()}
		c.live = func() []byte { return r.Bytes() }
		c.args = func() string { return unchanged([]string{"prove value"}, in.Bytes(), inSnap) }
		c.again = func() []byte { return helper.VRFProve2Value(in).Bytes() }
		c.scramble = func() { scrambleBig(r); scrambleBig(in) }
		return c
	}}
	dec := seqFn{name: "decodeProof", sibs: []string{"VRFProof2Hash"}, do: func(idx int) *call {
		it, v := item(idx)
		src := []byte(it.b.proof)
		if v == 1 {
			src = it.mut
		}
		p := cp(src)
		ser := func(g *ed.ExtendedGroupElement, cc *[32]byte, s *[64]byte, err error) []byte {
			if err != nil || g == nil {
				return serErr(err, nil)
			}
			e := ptEnc(g)
			return serErr(err, append(append(cp(e[:]), cc[:]...), s[:]...))
		}
		g, cc, s, err := ed25519.VerifDecodeProof(p)
		c := &call{snap: ser(g, cc, s, err)}
		c.live = func() []byte { return ser(g, cc, s, err) }
		c.args = func() string { return unchanged([]string{"proof"}, p, src) }
		c.again = func() []byte { return ser(ed25519.VerifDecodeProof(p)) }
		c.scramble = func() {
			if g != nil {
				g.Zero()
				zero(cc[:])
				zero(s[:])
			}
			inv(p)
		}
		return c
	}}

	// quality-number functions
	val := seqFn{name: "validateProve", sibs: []string{"verifyBlockVRF", "genProve"}, do: func(idx int) *call {
		it, v := item(idx)
		h, wm, ts := qnCfg(v)
		p := cp(it.wire)
		ok, qn := logical.VerifVrfValidateProve(p, h, wm, ts)
		c := &call{snap: []byte(fmt.Sprintf("%v|%d", ok, qn))}
		c.live = func() []byte { return cp(c.snap) }
		c.args = func() string { return unchanged([]string{"proof"}, p, it.wire) }
		c.again = func() []byte {
			ok2, qn2 := logical.VerifVrfValidateProve(p, h, wm, ts)
			return []byte(fmt.Sprintf("%v|%d", ok2, qn2))
		}
		c.scramble = func() { inv(p) }
		return c
	}}
	vb := seqFn{name: "verifyBlockVRF", sibs: []string{"validateProve", "genProve"}, do: func(idx int) *call {
		it, v := item(idx)
		h, wm, ts := qnCfg(v)
		_, qn := logical.VerifVrfValidateProve(cp(it.b.proof), h+1, wm, ts)
		bh0, pre, _ := nodeHeaders(it.b, vrf.VRFProve(cp(it.b.proof)), qn, h)
		pre.Random = cp(it.b.random)
		raw, _ := types.MarshalBlockHeader(bh0)
		bh, _ := types.UnMarshalBlockHeader(raw)
		castor := &model.MinerInfo{VrfPK: cp(it.b.kp.pk), WorkingMiners: wm}
		before := hdrSnap(bh, pre, castor)
		ok, err := logical.VerifVrfVerifyBlock(bh, pre, castor, ts)
		c := &call{snap: []byte(fmt.Sprintf("%v|%v", ok, err))}
		c.live = func() []byte { return cp(c.snap) }
		c.args = func() string { return unchanged([]string{"header/preHeader/castor"}, hdrSnap(bh, pre, castor), before) }
		c.again = func() []byte {
			ok2, e2 := logical.VerifVrfVerifyBlock(bh, pre, castor, ts)
			return []byte(fmt.Sprintf("%v|%v", ok2, e2))
		}
		c.scramble = func() { scrambleBig(bh.ProveValue); inv(pre.Random); inv(castor.VrfPK); bh.TotalQN = ^bh.TotalQN }
		return c
	}}
	gp := seqFn{name: "genProve", sibs: []string{"verifyBlockVRF", "validateProve"}, do: func(idx int) *call {
		it, v := item(idx)
		h, wm, ts := qnCfg(v)
		miner := &model.SelfMinerInfo{VrfSK: cp(it.b.kp.sk)}
		miner.VrfPK = cp(it.b.kp.pk)
		miner.WorkingMiners = wm
		bh0, pre, castTime := nodeHeaders(it.b, it.b.proof, 0, h)
		pre.Random = cp(it.b.random)
		snapArgs := func() []byte {
			return append(append(hdrSnap(bh0, pre, &miner.MinerInfo), miner.VrfSK...), []byte(castTime.String())...)
		}
		before := snapArgs()
		ser := func(pi vrf.VRFProve, qn uint64, err error) []byte {
			return serErr(err, append([]byte(fmt.Sprintf("%d|", qn)), pi...))
		}
		pi, qn, err := logical.VerifVrfGenProve(miner, pre, h+1, castTime, ts)
		c := &call{snap: ser(cp(pi), qn, err)}
		c.live = func() []byte { return ser(pi, qn, err) }
		c.args = func() string { return unchanged([]string{"miner/baseHeader"}, snapArgs(), before) }
		c.again = func() []byte { return ser(logical.VerifVrfGenProve(miner, pre, h+1, castTime, ts)) }
		c.scramble = func() { zero(pi); inv(miner.VrfSK); inv(miner.VrfPK); inv(pre.Random) }
		return c
	}}
	seqFns = []seqFn{p1, p2, v1, v2, h1, bigFn, p2v, z1, z2, dec, val, vb, gp}
}

// seqCase runs one sequence: fn on entries idxs[0] (=A), idxs[1] (=B) [, idxs[2] (=C)].
func seqCase(fname string, idxs []int) result {
	var r result
	r.evals, r.nontriv = 1, 1
	f := seqFnByName(fname)
	if f == nil || len(idxs) < 2 {
		return r
	}
	for _, x := range idxs {
		if x < 0 || x >= 2*len(seqPool) {
			return r
		}
	}
	desc := fmt.Sprintf("%s on pool entries %v (entry = 2*item+variant; items %v)", fname, idxs, seqSpecs)
	first := func(name string, idx int, snap []byte) {
		k := fmt.Sprintf("%s|%d", name, idx)
		if old, ok := firstUse[k]; !ok {
			firstUse[k] = cp(snap)
		} else if !bytes.Equal(old, snap) {
			r.fail("C16:seq:history-dependent:"+name, "seq", "%s: %s(entry %d) returned %x, on first use in this process %x", desc, name, idx, snap, old)
		}
	}
	panicked, val, site := fw.Try(func() {
		A := idxs[0]
		cA := f.do(A)
		first(f.name, A, cA.snap)
		if s := cA.args(); s != "" {
			r.fail("C16:seq:argument-modified:"+f.name, "seq", "%s: after the call on entry %d: %s", desc, A, s)
		}
		var later []*call
		for _, X := range idxs[1:] {
			cX := f.do(X)
			first(f.name, X, cX.snap)
			if s := cX.args(); s != "" {
				r.fail("C16:seq:argument-modified:"+f.name, "seq", "%s: after the call on entry %d: %s", desc, X, s)
			}
			later = append(later, cX)
			for _, gn := range f.sibs {
				g := seqFnByName(gn)
				cG := g.do(X)
				first(g.name, X, cG.snap)
				if s := cG.args(); s != "" {
					r.fail("C16:seq:argument-modified:"+g.name, "seq", "%s: sibling %s on entry %d: %s", desc, g.name, X, s)
				}
				later = append(later, cG)
			}
		}
		if ag := cA.again(); !bytes.Equal(ag, cA.snap) {
			r.fail("C16:seq:history-dependent:"+f.name, "seq", "%s: second call on the same argument objects (after the calls on %v) returned %x, first %x", desc, idxs[1:], ag, cA.snap)
		}
		if s := cA.args(); s != "" {
			r.fail("C16:seq:argument-modified:"+f.name, "seq", "%s: after the later calls: %s", desc, s)
		}
		for _, o := range later {
			o.scramble()
		}
		if lv := cA.live(); !bytes.Equal(lv, cA.snap) {
			r.fail("C16:seq:result-aliased:"+f.name, "seq", "%s: the first result changed from %x to %x after the later calls and the caller overwriting THEIR results/inputs", desc, cA.snap, lv)
		}
		if s := cA.args(); s != "" {
			r.fail("C16:seq:result-aliased:"+f.name, "seq", "%s: overwriting the later results changed an argument of the first call: %s", desc, s)
		}
		cA2 := f.do(A)
		if !bytes.Equal(cA2.snap, cA.snap) {
			r.fail("C16:seq:history-dependent:"+f.name, "seq", "%s: f(A) after the sequence returned %x, first %x", desc, cA2.snap, cA.snap)
		}
		if cA.aliasOwn != nil && cA.aliasOwn() {
			r.out("seq:" + f.name + ":result-shares-storage-with-its-own-input(slice conversion, counted)")
		}
		cA.scramble()
		if lv := cA2.live(); !bytes.Equal(lv, cA2.snap) {
			r.fail("C16:seq:result-aliased:"+f.name, "seq", "%s: two results for the same input share storage: overwriting the first changed the second from %x to %x", desc, cA2.snap, lv)
		}
		cA3 := f.do(A)
		if !bytes.Equal(cA3.snap, cA.snap) {
			r.fail("C16:seq:history-dependent:"+f.name, "seq", "%s: f(A) after the caller overwrote its first result and inputs returned %x, first %x", desc, cA3.snap, cA.snap)
		}
	})
	if panicked {
		r.fail("C16:seq:panic:"+site, "seq", "%s: panic %v", desc, val)
	}
	if len(r.finds) == 0 {
		r.out("seq:stable")
	}
	return r
}

// ---------------------------------------------------------------------------------------------
// dirty destination

var (
	ptValid   [][32]byte // encodings that decode
	ptInvalid [][32]byte // encodings that do not
)

func buildPointPool() {
	ptValid, ptInvalid = nil, nil
	seen := map[[32]byte]bool{}
	add := func(b []byte) {
		var e [32]byte
		copy(e[:], b)
		if seen[e] {
			return
		}
		seen[e] = true
		if ed25519.VerifStringToPoint(new(ed.ExtendedGroupElement), e) {
			ptValid = append(ptValid, e)
		} else {
			ptInvalid = append(ptInvalid, e)
		}
	}
	for _, it := range seqPool {
		add(it.b.proof[:32])
		add(it.b.kp.pk)
	}
	// neighbours of the valid encodings that do not decode (first one found per base, three bases)
	for n := 0; n < len(ptValid) && len(ptInvalid) < 3; n++ {
		e := ptValid[n]
		for d := 1; d < 64; d++ {
			e[0] = ptValid[n][0] + byte(d)
			if !ed25519.VerifStringToPoint(new(ed.ExtendedGroupElement), e) {
				add(e[:])
				break
			}
		}
	}
}

var dirtyFns = map[string]func(p *ed.ExtendedGroupElement, s [32]byte) bool{
	"stringToPoint":                  func(p *ed.ExtendedGroupElement, s [32]byte) bool { return ed25519.VerifStringToPoint(p, s) },
	"ExtendedGroupElement.FromBytes": func(p *ed.ExtendedGroupElement, s [32]byte) bool { return p.FromBytes(&s) },
}

var dirtyNames = []string{"stringToPoint", "ExtendedGroupElement.FromBytes"}

func ptPoolAt(i int) ([32]byte, bool) {
	if i < len(ptValid) {
		return ptValid[i], true
	}
	i -= len(ptValid)
	if i < len(ptInvalid) {
		return ptInvalid[i], true
	}
	return [32]byte{}, false
}

// pointUse serialises everything a later computation can see of a decoded point.
func pointUse(p *ed.ExtendedGroupElement) []byte {
	e := ptEnc(p)
	m := ptEnc(ed.GeScalarMult(p, scalarOf(5)))
	d := ptEnc(ptAdd(p, p))
	return append(append(cp(e[:]), m[:]...), d[:]...)
}

// dirtyCase: the destination first receives pool entry d (valid value or failed-decode residue), then x.
func dirtyCase(fname string, d, x int) result {
	var r result
	r.evals, r.nontriv = 1, 1
	f := dirtyFns[fname]
	de, ok1 := ptPoolAt(d)
	xe, ok2 := ptPoolAt(x)
	if f == nil || !ok1 || !ok2 {
		return r
	}
	panicked, val, site := fw.Try(func() {
		fresh := new(ed.ExtendedGroupElement)
		okF := f(fresh, xe)
		dirty := new(ed.ExtendedGroupElement)
		okD0 := f(dirty, de)
		okD := f(dirty, xe)
		if okD != okF {
			r.fail("C16:dirty-destination:"+fname, "dirty", "%s(%x): fresh object -> %v, object that held %x (decode %v) -> %v", fname, xe, okF, de, okD0, okD)
			return
		}
		if okF {
			if a, b := pointUse(fresh), pointUse(dirty); !bytes.Equal(a, b) {
				r.fail("C16:dirty-destination:"+fname, "dirty", "%s(%x): value on a fresh object %x, on an object that held %x (decode %v) %x", fname, xe, a, de, okD0, b)
				return
			}
			r.out("dirty:decoded-same-as-fresh")
		} else {
			r.out("dirty:rejected-same-as-fresh")
		}
	})
	if panicked {
		r.fail("C16:seq:panic:"+site, "dirty", "%s: panic %v", fname, val)
	}
	return r
}

// runSeq enumerates the sequence and dirty-destination cases of this worker.
func runSeq(c *fw.Ctx, idx *int64) bool {
	buildSeqPool()
	buildPointPool()
	n := 2 * len(seqPool)
	c.Note("seq_pool_entries", n)
	for _, f := range seqFns {
		var seqs [][]int
		for a := 0; a < n; a++ {
			for b := 0; b < n; b++ {
				seqs = append(seqs, []int{a, b})
			}
		}
		for a := 0; a < 4 && a < n; a++ {
			for b := 0; b < 4 && b < n; b++ {
				for d := 0; d < 4 && d < n; d++ {
					seqs = append(seqs, []int{a, b, d})
				}
			}
		}
		for _, s := range seqs {
			*idx++
			if !c.Mine(*idx) {
				continue
			}
			s, name := s, f.name
			// the hidden state a sequence starts from is whatever this worker's earlier sequences left behind:
			// the case carries them, so that a replay starts from the same (non-initial) state
			ks := kase{Kind: "seq", Fn: name, Seq: s, History: append([]histEntry{}, seqHistory...)}
			report(c, ks, seqCase(name, s), func() result { return seqCase(name, s) })
			seqHistory = append(seqHistory, histEntry{Fn: name, Seq: s})
		}
		if c.Expired() {
			return false
		}
	}
	np := len(ptValid) + len(ptInvalid)
	c.Note("point_pool", fmt.Sprintf("%d decodable + %d undecodable encodings", len(ptValid), len(ptInvalid)))
	for _, name := range dirtyNames {
		for d := 0; d < np; d++ {
			for x := 0; x < np; x++ {
				*idx++
				if !c.Mine(*idx) {
					continue
				}
				d, x, name := d, x, name
				ks := kase{Kind: "dirty", Fn: name, Seq: []int{d, x}}
				report(c, ks, dirtyCase(name, d, x), func() result { return dirtyCase(name, d, x) })
			}
		}
	}
	return true
}

func replaySeq(c *fw.Ctx, ks kase) {
	buildSeqPool()
	buildPointPool()
	switch ks.Kind {
	case "seq":
		for _, h := range ks.History {
			seqCase(h.Fn, h.Seq)
		}
		report(c, ks, seqCase(ks.Fn, ks.Seq), func() result { return seqCase(ks.Fn, ks.Seq) })
	case "dirty":
		if len(ks.Seq) == 2 {
			report(c, ks, dirtyCase(ks.Fn, ks.Seq[0], ks.Seq[1]), func() result { return dirtyCase(ks.Fn, ks.Seq[0], ks.Seq[1]) })
		}
	}
}
