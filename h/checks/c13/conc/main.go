// Companion of C13: the node recovers group signatures, derives key shares and verifies on
// several goroutines (block verification, group creation, parent-group consensus).  Every
// caller must get what it gets alone: different k-subsets of one share set, share sets of
// different groups / thresholds / id families, key generation arithmetic and the share collector.
package main

import (
	"encoding/hex"
	"fmt"
	"math/big"

	"verif/h/conc"

	"com.tuntun.rangers/node/src/consensus/groupsig"
	bn "com.tuntun.rangers/node/src/consensus/groupsig/bn256"
	"com.tuntun.rangers/node/src/consensus/model"
)

type grp struct {
	k    int
	ids  []groupsig.ID
	coef []*big.Int // one dealer polynomial, coef[0] = group secret
	msg  []byte
}

func two(e uint) *big.Int { return new(big.Int).Lsh(big.NewInt(1), e) }

// group A: 3 members, threshold 2; group B: 4 members, threshold 3, ids around and above the group order.
func groupA() *grp {
	o := bn.Order
	return mk(2, []*big.Int{big.NewInt(3), big.NewInt(7), new(big.Int).Add(o, big.NewInt(2))}, 0x1234567, "c13 conc message A")
}
func groupB() *grp {
	o := bn.Order
	return mk(3, []*big.Int{new(big.Int).Sub(two(256), big.NewInt(1)), big.NewInt(11), new(big.Int).Sub(o, big.NewInt(1)), o}, 0x7654321, "c13 conc message B, longer than the other one")
}

func mk(k int, idv []*big.Int, seed int64, msg string) *grp {
	g := &grp{k: k, msg: []byte(msg)}
	for _, v := range idv {
		var id groupsig.ID
		id.SetBigInt(v)
		g.ids = append(g.ids, id)
	}
	for i := 0; i < k; i++ {
		c := new(big.Int).Mul(big.NewInt(seed+int64(i)), two(uint(180+7*i)))
		c.Add(c, big.NewInt(int64(1000+i)))
		g.coef = append(g.coef, c)
	}
	return g
}

func (g *grp) secs() []groupsig.Seckey {
	var s []groupsig.Seckey
	for _, c := range g.coef {
		s = append(s, *groupsig.NewSeckeyFromBigInt(new(big.Int).Set(c)))
	}
	return s
}

// shares (wire form) of all members, computed before the threads start
func (g *grp) shares() [][]byte {
	var out [][]byte
	for _, id := range g.ids {
		sk := groupsig.ShareSeckey(g.secs(), id)
		out = append(out, groupsig.Sign(*sk, g.msg).Serialize())
	}
	return out
}

func h(b []byte) string { return hex.EncodeToString(b) }

// recoverBody: decode the subset's shares, recover, optionally verify under the group key.
func recoverBody(g *grp, subset []int, verify bool) func() string {
	sh := g.shares()
	return func() string {
		m := map[string]groupsig.Signature{}
		for _, j := range subset {
			m[g.ids[j].GetHexString()] = *groupsig.DeserializeSign(sh[j])
		}
		s := groupsig.RecoverGroupSignature(m, g.k)
		out := "sig=" + h(s.Serialize())
		if verify {
			gpk := groupsig.GeneratePubkey(g.secs()[0])
			out += fmt.Sprintf(" verifies=%v other-message=%v", groupsig.VerifySig(*gpk, g.msg, *s), groupsig.VerifySig(*gpk, append([]byte("x"), g.msg...), *s))
		}
		for _, j := range subset { // the inputs as the caller sees them afterwards
			x := m[g.ids[j].GetHexString()]
			out += " in=" + h(x.Serialize())[:16]
		}
		return out
	}
}

// keygenBody: what a member computes during key generation and its first signature share.
func keygenBody(g *grp, member int) func() string {
	return func() string {
		secs := g.secs()
		// two dealers: the polynomial and the same one shifted; member sums the shares, group key = sum of dealer keys
		shifted := make([]groupsig.Seckey, len(secs))
		for i := range secs {
			shifted[i] = *groupsig.NewSeckeyFromBigInt(new(big.Int).Add(secs[i].GetBigInt(), big.NewInt(int64(17+i))))
		}
		a := groupsig.ShareSeckey(secs, g.ids[member])
		b := groupsig.ShareSeckey(shifted, g.ids[member])
		sk := groupsig.AggregateSeckeys([]groupsig.Seckey{*a, *b})
		gpk := groupsig.AggregatePubkeys([]groupsig.Pubkey{*groupsig.GeneratePubkey(secs[0]), *groupsig.GeneratePubkey(shifted[0])})
		share := groupsig.Sign(*sk, g.msg)
		return fmt.Sprintf("sk=%s gpk=%s gid=%s share=%s", sk.GetHexString(), h(gpk.Serialize())[:32], groupsig.NewIDFromPubkey(*gpk).GetHexString(), h(share.Serialize()))
	}
}

// collectorBody: the share collector, own instance per thread.
func collectorBody(g *grp, order []int) func() string {
	sh := g.shares()
	return func() string {
		gen := model.NewGroupSignGenerator(g.k)
		out := ""
		for _, j := range order {
			add, done := gen.AddWitnessSign(g.ids[j], *groupsig.DeserializeSign(sh[j]))
			out += fmt.Sprintf("%v/%v ", add, done)
		}
		s := gen.GetGroupSign()
		return out + "sig=" + h(s.Serialize()) + fmt.Sprintf(" recovered=%v witnesses=%d", gen.SignRecovered(), gen.WitnessCount())
	}
}

func main() {
	conc.Main([]conc.Scenario{
		// equal inputs on both threads
		{Name: "recover-same-subset||recover-same-subset", Mk: func() []func() string {
			return []func() string{recoverBody(groupA(), []int{1, 2}, false), recoverBody(groupA(), []int{1, 2}, false)}
		}},
		// different k-subsets of the same share set
		{Name: "recover-subset-01||recover-subset-02-verify", Mk: func() []func() string {
			return []func() string{recoverBody(groupA(), []int{0, 1}, false), recoverBody(groupA(), []int{2, 0}, true)}
		}},
		// different groups, thresholds, id families, message lengths
		{Name: "recover-groupA||recover-groupB", Mk: func() []func() string {
			return []func() string{recoverBody(groupA(), []int{0, 2}, false), recoverBody(groupB(), []int{3, 0, 2}, false)}
		}},
		// key generation arithmetic next to the collector of another group
		{Name: "keygen-groupB||collector-groupA", Mk: func() []func() string {
			return []func() string{keygenBody(groupB(), 0), collectorBody(groupA(), []int{2, 1, 0})}
		}},
	})
}
