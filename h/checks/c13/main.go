// C13: any threshold subset of group members yields the same valid group signature.
//
// Bounded exhaustive enumeration (E4) + choice-sequence exploration (E1) on the real code:
// the node's own DKG (group_create.groupInitContext / groupNodeInfo through the verif hook),
// groupsig.Sign / VerifySig / RecoverGroupSignature, model.GroupSignGenerator and round1's
// groupSignGenerator.  See `Rule` below for what one case is.
package main

import (
	"bytes"
	crand "crypto/rand"
	"crypto/sha256"
	"encoding/binary"
	"encoding/hex"
	"encoding/json"
	"fmt"
	"io"
	"math/big"
	"sort"
	"sync"
	"syscall"
	"time"

	"verif/h/fw"
	"verif/h/fw/mapiter"
	"verif/h/node"

	"com.tuntun.rangers/node/src/common"
	"com.tuntun.rangers/node/src/consensus/access"
	"com.tuntun.rangers/node/src/consensus/base"
	"com.tuntun.rangers/node/src/consensus/groupsig"
	bn "com.tuntun.rangers/node/src/consensus/groupsig/bn256"
	"com.tuntun.rangers/node/src/consensus/logical"
	"com.tuntun.rangers/node/src/consensus/logical/group_create"
	"com.tuntun.rangers/node/src/consensus/model"
	cnet "com.tuntun.rangers/node/src/consensus/net"
	"com.tuntun.rangers/node/src/core"
	"com.tuntun.rangers/node/src/middleware/notify"
	"com.tuntun.rangers/node/src/middleware/types"
)

// ---------------------------------------------------------------------------------------
// case description (also the replay format)

type kase struct {
	N    int      `json:"n"`
	Seed int      `json:"seed"`                // dealer seed set
	IDs  string   `json:"ids"`                 // hash | small | big
	Msg  int      `json:"msg"`                 // message index
	Part string   `json:"part"`                // dkg | share-verify | group-verify | reuse | recover | gen-model | gen-round
	K    int      `json:"k,omitempty"`         // threshold the node derived (informational)
	Mem  int      `json:"member"`              // dkg / share-verify: member index
	Ord  []int    `json:"order"`               // dkg: arrival order of dealers; recover: map insertion order (member indices); gen-*: arrival order of the first k shares
	Ch   []int    `json:"choices"`             // explorer choice sequence (random k-pick, map iteration start positions)
	IDv  []string `json:"id_values,omitempty"` // informational

	M     string `json:"message_hex,omitempty"` // sweep: the message
	Fault string `json:"fault,omitempty"`       // round1-fault: kind of the one non-counting piece
	FMem  int    `json:"fault_member,omitempty"`
	FPos  int    `json:"fault_position,omitempty"` // it is delivered before the FPos-th honest piece
	Cand  int    `json:"candidates,omitempty"`     // parent: size of the new group's candidate list (n is the parent group's size)

	minDev int // executions with fewer deviations repeat an earlier phase and are not counted again
}

type result struct {
	bad     bool
	sig     string // violation signature
	msg     string
	outcome string
	obs     string // canonical observation (compared on re-run)
}

// ---------------------------------------------------------------------------------------
// controlled crypto/rand.Reader: groupsig.getRandomKSignInfo draws its k-selection from
// base.NewRand() -> crypto/rand.Read.  While `cur` is set the reader returns those bytes, so the
// explorer decides which positions of the map iteration are selected.

type ctlReader struct {
	mu    sync.Mutex
	cur   []byte
	reads int
	orig  io.Reader
}

func (r *ctlReader) Read(p []byte) (int, error) {
	r.mu.Lock()
	cur := r.cur
	if cur != nil {
		r.reads++
	}
	r.mu.Unlock()
	if cur == nil {
		return r.orig.Read(p)
	}
	for i := range p {
		p[i] = cur[i%len(cur)]
	}
	return len(p), nil
}
func (r *ctlReader) set(b []byte) { r.mu.Lock(); r.cur = b; r.reads = 0; r.mu.Unlock() }
func (r *ctlReader) nreads() int  { r.mu.Lock(); defer r.mu.Unlock(); return r.reads }

var ctl = &ctlReader{}

type pickKey struct{ s, k int }

var pickTables = map[pickKey][][]byte{}

// pickTable returns, for a map of s entries and threshold k, one 32-byte reader answer per
// k-subset of iteration positions {0..s-1} (lexicographic order of the sorted positions).
// The repository's own base.Rand is used to *predict* the selection (steering only, never as oracle).
func pickTable(s, k int) [][]byte {
	if t, ok := pickTables[pickKey{s, k}]; ok {
		return t
	}
	cs := combos(s, k)
	found := map[string][]byte{}
	for ctr := uint64(0); len(found) < len(cs); ctr++ {
		if ctr > 5000000 {
			panic("pickTable: cannot steer the k-selection")
		}
		b := make([]byte, 32)
		binary.BigEndian.PutUint64(b[24:], ctr)
		idx := base.RandFromBytes(b).RandomPerm(s, k)
		sort.Ints(idx)
		key := fmt.Sprint(idx)
		if _, ok := found[key]; !ok {
			found[key] = b
		}
	}
	t := make([][]byte, len(cs))
	for i, c := range cs {
		t[i] = found[fmt.Sprint(c)]
	}
	pickTables[pickKey{s, k}] = t
	return t
}

// decider: every start position that yields a different iteration order.  A one-bucket map that
// was only ever inserted into (all maps of the code under test here) has its entries in slots
// 0..count-1, so offsets >= count repeat offset 0 and are not enumerated.  Larger maps: mapiter.StdDecider.
func decider(ch *fw.Chooser) mapiter.Decider {
	std := mapiter.StdDecider(ch)
	return func(count int, B uint8) (uintptr, bool) {
		if B == 0 && count <= 8 {
			v := ch.Choose(count, "map")
			return mapiter.Start(0, v, 0), true
		}
		return std(count, B)
	}
}

// ---------------------------------------------------------------------------------------
// enumeration helpers (all deterministic, lexicographic)

func perms(n int) [][]int {
	var out [][]int
	cur := make([]int, 0, n)
	used := make([]bool, n)
	var rec func()
	rec = func() {
		if len(cur) == n {
			out = append(out, append([]int{}, cur...))
			return
		}
		for i := 0; i < n; i++ {
			if !used[i] {
				used[i] = true
				cur = append(cur, i)
				rec()
				cur = cur[:len(cur)-1]
				used[i] = false
			}
		}
	}
	rec()
	return out
}

// rotrev: all rotations of 0..n-1 and of n-1..0 (duplicates removed).
func rotrev(n int) [][]int {
	var out [][]int
	seen := map[string]bool{}
	add := func(p []int) {
		k := fmt.Sprint(p)
		if !seen[k] {
			seen[k] = true
			out = append(out, p)
		}
	}
	for r := 0; r < n; r++ {
		p := make([]int, n)
		for i := range p {
			p[i] = (i + r) % n
		}
		add(p)
	}
	for r := 0; r < n; r++ {
		p := make([]int, n)
		for i := range p {
			p[i] = (n - 1 - i + r + n) % n
		}
		add(p)
	}
	return out
}

func idrev(n int) [][]int {
	a := make([]int, n)
	b := make([]int, n)
	for i := 0; i < n; i++ {
		a[i] = i
		b[i] = n - 1 - i
	}
	if n < 2 {
		return [][]int{a}
	}
	return [][]int{a, b}
}

func combos(n, s int) [][]int {
	var out [][]int
	cur := make([]int, 0, s)
	var rec func(from int)
	rec = func(from int) {
		if len(cur) == s {
			out = append(out, append([]int{}, cur...))
			return
		}
		for i := from; i <= n-(s-len(cur)); i++ {
			cur = append(cur, i)
			rec(i + 1)
			cur = cur[:len(cur)-1]
		}
	}
	rec(0)
	return out
}

func apply(sub []int, p []int) []int {
	o := make([]int, len(p))
	for i, x := range p {
		o[i] = sub[x]
	}
	return o
}

// ---------------------------------------------------------------------------------------
// group set-up: the node's own DKG

var order = bn.Order

type group struct {
	n, k   int
	seed   int
	idkind string
	ids    []groupsig.ID
	keys   []string // map keys the production code uses (ID.GetHexString())
	seeds  []base.Rand
	hash   common.Hash
	dealt  []map[string]model.SharePiece // by dealer: receiver key -> piece

	gskWant  *big.Int   // sum of the dealers' secrets mod order (harness arithmetic)
	gpkWant  []byte     // (sum of dealer secrets)*G2
	skWant   []*big.Int // per member: sum of the shares dealt to it mod order (harness arithmetic)
	signSk   []groupsig.Seckey
	memPub   []groupsig.Pubkey
	gpk      groupsig.Pubkey
	msgs     [][]byte
	shares   [][][]byte // [msg][member] serialized signature share
	expect   [][]byte   // [msg] Sign(sum of dealer secrets, m)
	geOrder  int
	zeroRes  int           // members whose id is 0 mod the order (id == order)
	sumClass [3]int64      // members whose late-reduced share sum would end in [0,order) / [order,2^256) / [2^256,2*order)
	gid      *groupsig.ID  // set once the group is in the joined-group storage
	cands    []groupsig.ID // candidate list handed to the DKG context: the members plus two more (a different size)
	setupBad []result
}

func h256(s string) []byte { h := sha256.Sum256([]byte(s)); return h[:] }

func two(e uint) *big.Int { return new(big.Int).Lsh(big.NewInt(1), e) }

// ids >= group order mixed with ids just below it and a small one; pairwise incongruent mod order.
func bigIDs() []*big.Int {
	o := order
	add := func(a, b *big.Int) *big.Int { return new(big.Int).Add(a, b) }
	sub := func(a, b *big.Int) *big.Int { return new(big.Int).Sub(a, b) }
	i := func(x int64) *big.Int { return big.NewInt(x) }
	return []*big.Int{
		sub(two(256), i(1)), // largest 32-byte id
		add(o, i(1)),        // = 1 mod order
		sub(o, i(1)),        // just below the order
		add(o, two(200)),
		i(2),
		add(o, i(3)),
		sub(two(256), i(2)),
		add(o, add(two(128), i(7))),
		sub(o, i(2)),
		add(o, i(5)),
	}
}

func minerFor(seed, i int) model.SelfMinerInfo {
	d := h256(fmt.Sprintf("c13/seed-set-%d/member-%d", seed, i))
	d[0] &= 0x7f // < 2^255 < secp256k1 order
	priv := common.HexStringToSecKey("0x" + hex.EncodeToString(d))
	return model.NewSelfMinerInfo(*priv)
}

var msgs = [][]byte{
	h256("c13 block hash"), // 32 bytes, like bh.Hash
	append(h256("c13 previous random a"), h256("c13 previous random b")...), // 64 bytes, like preBH.Random
}

func idFromBig(b *big.Int) groupsig.ID {
	var id groupsig.ID
	id.SetBigInt(b)
	return id
}

func setup(n, seed int, idkind string) *group {
	g := &group{n: n, seed: seed, idkind: idkind, msgs: msgs}
	g.k = model.Param.GetGroupK(n)
	g.hash = common.BytesToHash(h256(fmt.Sprintf("c13/group/%d", seed)))
	bigs := bigIDs()
	for i := 0; i < n; i++ {
		mi := minerFor(seed, i)
		g.seeds = append(g.seeds, mi.SecretSeed)
		var id groupsig.ID
		switch idkind {
		case "hash":
			id = mi.ID
		case "small":
			id = idFromBig(new(big.Int).SetInt64(int64(i + 1)))
		case "big":
			id = idFromBig(bigs[i])
			// exactly one member has id == group order (a valid non-zero 32-byte id that is 0 mod
			// the order); its position in the member list differs between the seed sets
			if (seed%2 == 0 && i == n-1) || (seed%2 == 1 && i == n/2) {
				id = idFromBig(order)
			}
		default:
			panic("id kind")
		}
		g.ids = append(g.ids, id)
		g.keys = append(g.keys, id.GetHexString())
		if id.GetBigInt().Cmp(order) >= 0 {
			g.geOrder++
		}
	}
	// the statement's setting: ids are non-zero (the node rejects the zero id) and pairwise incongruent mod the group order
	for i := 0; i < n; i++ {
		ri := new(big.Int).Mod(g.ids[i].GetBigInt(), order)
		if g.ids[i].GetBigInt().Sign() == 0 {
			panic("harness: zero id")
		}
		if ri.Sign() == 0 {
			g.zeroRes++
		}
		for j := 0; j < i; j++ {
			if ri.Cmp(new(big.Int).Mod(g.ids[j].GetBigInt(), order)) == 0 {
				panic("harness: congruent ids")
			}
		}
	}
	g.cands = append(append([]groupsig.ID{}, g.ids...), minerFor(seed, n).ID, minerFor(seed, n+1).ID)
	// every member deals
	g.gskWant = new(big.Int)
	for j := 0; j < n; j++ {
		nd := group_create.VerifNewNodeWithCandidates(g.seeds[j], g.ids[j], g.hash, g.ids, g.cands)
		if nd == nil {
			panic("harness: VerifNewNode returned nil")
		}
		if nd.Threshold() != g.k {
			panic("harness: threshold mismatch")
		}
		g.dealt = append(g.dealt, nd.SharesToSend())
		g.gskWant.Add(g.gskWant, nd.SeedSeckey().GetBigInt())
	}
	g.gskWant.Mod(g.gskWant, order)
	g.gpkWant = groupsig.GeneratePubkey(*groupsig.NewSeckeyFromBigInt(new(big.Int).Set(g.gskWant))).Serialize()
	for i := 0; i < n; i++ {
		s := new(big.Int)
		for j := 0; j < n; j++ {
			p, ok := g.dealt[j][g.keys[i]]
			if !ok {
				g.setupBad = append(g.setupBad, result{bad: true, sig: "C13:dkg:no-share-dealt:ids=" + idkind,
					msg: fmt.Sprintf("dealer %d produced no share for member %d (%s)", j, i, g.keys[i])})
				return g
			}
			s.Add(s, p.Share.GetBigInt())
		}
		g.skWant = append(g.skWant, s.Mod(s, order))
	}
	// canonical arrival order (aggregation iterates its pool in insertion order: start slot 0)
	ident := idrev(n)[0]
	var memSk []groupsig.Seckey
	var memPub []groupsig.Pubkey
	var memGpk groupsig.Pubkey
	for i := 0; i < n; i++ {
		nd, r := dkgRun(g, i, ident, fw.NewReplayChooser(nil))
		if r.bad {
			g.setupBad = append(g.setupBad, r)
		}
		if nd == nil {
			return g
		}
		memSk = append(memSk, nd.SignSeckey())
		memPub = append(memPub, *groupsig.GeneratePubkey(nd.SignSeckey())) // what the member announces (SignPubKeyMessage)
		if i == 0 {
			memGpk = nd.GroupPubkey()
		}
		// where the running sum of an add-then-reduce-late aggregation would end (coverage class only)
		part := new(big.Int)
		for j := 0; j < n-1; j++ {
			part.Add(part, g.dealt[j][g.keys[i]].Share.GetBigInt())
		}
		part.Mod(part, order)
		part.Add(part, g.dealt[n-1][g.keys[i]].Share.GetBigInt())
		switch {
		case part.Cmp(order) < 0:
			g.sumClass[0]++
		case part.Cmp(two(256)) < 0:
			g.sumClass[1]++
		default:
			g.sumClass[2]++
		}
	}
	// persistence: every member's key material goes through the node's joined-group store and is read
	// back by a fresh storage object (as after a restart) before it is used by any later part
	m0 := g.msgs[0]
	for i := 0; i < n; i++ {
		var re *model.JoinedGroupInfo
		p, v, site := fw.Try(func() { re = reload(g, i, memSk[i], memGpk, memPub) })
		tail := ":ids=" + idkind
		if p {
			g.setupBad = append(g.setupBad, result{bad: true, sig: "C13:panic:" + site, msg: fmt.Sprintf("panic in joined-group store/reload of member %d: %v", i, v)})
			return g
		}
		if re == nil {
			g.setupBad = append(g.setupBad, result{bad: true, sig: "C13:reload:not-found" + tail, msg: fmt.Sprintf("member %d: the stored group cannot be loaded back", i)})
			return g
		}
		g.signSk = append(g.signSk, re.SignSecKey)
		before, after := groupsig.Sign(memSk[i], m0).Serialize(), groupsig.Sign(re.SignSecKey, m0).Serialize()
		if !bytes.Equal(before, after) && !groupsig.VerifySig(memPub[i], m0, *groupsig.DeserializeSign(after)) {
			g.setupBad = append(g.setupBad, result{bad: true, sig: "C13:reload:share-verify" + tail,
				msg: fmt.Sprintf("member %d (n=%d seed=%d): after store + reload of the joined group its share %x no longer verifies under the public share it announced (sign key before %x, after reload %x)", i, n, seed, after, memSk[i].GetBigInt(), re.SignSecKey.GetBigInt())})
		}
		if i == 0 {
			g.gpk = re.GroupPK
			if !bytes.Equal(re.GroupPK.Serialize(), memGpk.Serialize()) {
				g.setupBad = append(g.setupBad, result{bad: true, sig: "C13:reload:group-key-changed" + tail,
					msg: fmt.Sprintf("group public key %x became %x through store + reload", memGpk.Serialize(), re.GroupPK.Serialize())})
			}
			for j := 0; j < n; j++ {
				pk, ok := re.GetMemberSignPK(g.ids[j])
				if !ok || !bytes.Equal(pk.Serialize(), memPub[j].Serialize()) {
					g.setupBad = append(g.setupBad, result{bad: true, sig: "C13:reload:public-share-changed" + tail,
						msg: fmt.Sprintf("public share of member %d: %x became %x (found=%v) through store + reload", j, memPub[j].Serialize(), pk.Serialize(), ok)})
					pk = memPub[j]
				}
				g.memPub = append(g.memPub, pk)
			}
		}
	}
	gsk := *groupsig.NewSeckeyFromBigInt(new(big.Int).Set(g.gskWant))
	for _, m := range g.msgs {
		var row [][]byte
		for i := 0; i < n; i++ {
			row = append(row, groupsig.Sign(g.signSk[i], m).Serialize())
		}
		g.shares = append(g.shares, row)
		g.expect = append(g.expect, groupsig.Sign(gsk, m).Serialize())
	}
	return g
}

// reload: member i's joined-group record (sign key, group key, member public shares) is saved by the
// node's JoinedGroupStorage and loaded by a second storage object over the same database.  All members
// of the harness share one process database whereas every real member has its own, so the record is
// filed under a per-member key (GroupID is only the storage key here).
func reload(g *group, i int, sk groupsig.Seckey, gpk groupsig.Pubkey, pubs []groupsig.Pubkey) *model.JoinedGroupInfo {
	jg := model.NewJoindGroupInfo(sk, gpk, g.hash)
	for j := range pubs {
		jg.AddMemberSignPK(g.ids[j], pubs[j])
	}
	jg.GroupID = groupsig.DeserializeID(h256(fmt.Sprintf("c13/joined-group-store/%s/n%d/seed%d/member%d", g.idkind, g.n, g.seed, i)))
	access.NewJoinedGroupStorage().JoinGroup(jg, g.ids[i])
	return access.NewJoinedGroupStorage().GetJoinedGroupInfo(jg.GroupID)
}

func (g *group) ready() bool { return len(g.expect) == len(g.msgs) && len(g.signSk) == g.n }

func (g *group) share(mi, j int) groupsig.Signature {
	// a fresh object per use, decoded from the wire form as the node does on receipt
	return *groupsig.DeserializeSign(g.shares[mi][j])
}

func (g *group) kase(part string, mi int) kase {
	return kase{N: g.n, Seed: g.seed, IDs: g.idkind, Msg: mi, Part: part, K: g.k}
}

// ---------------------------------------------------------------------------------------
// executions

// dkgRun: member i receives the dealers' pieces in the given order.
func dkgRun(g *group, i int, ord []int, ch *fw.Chooser) (*group_create.VerifNode, result) {
	sigp := "C13:dkg:"
	tail := ":ids=" + g.idkind
	type keys struct {
		at  int
		sk  *big.Int
		gpk []byte
	}
	var nd *group_create.VerifNode
	var rcs []int
	var adopted []keys // the keys at every moment the node reports "aggregation complete" (production adopts them then)
	p, v, site := fw.Try(func() {
		nd = group_create.VerifNewNodeWithCandidates(g.seeds[i], g.ids[i], g.hash, g.ids, g.cands)
		if ch != nil {
			mapiter.Install(decider(ch))
			defer mapiter.Uninstall()
		}
		for t, j := range ord {
			rc := nd.Receive(g.ids[j], g.dealt[j][g.keys[i]])
			rcs = append(rcs, rc)
			if rc == 1 {
				adopted = append(adopted, keys{t, nd.SignSeckey().GetBigInt(), nd.GroupPubkey().Serialize()})
			}
		}
	})
	if p {
		return nil, result{bad: true, sig: "C13:panic:" + site, msg: fmt.Sprintf("panic in DKG receive: %v", v), obs: "panic:" + site}
	}
	obs := fmt.Sprintf("rc=%v sk=%x gpk=%x", rcs, nd.SignSeckey().Serialize(), nd.GroupPubkey().Serialize())
	if len(adopted) == 0 {
		return nil, result{bad: true, sig: sigp + "incomplete" + tail, obs: obs,
			msg: fmt.Sprintf("member %d: key generation never completed after the pieces of all %d dealers arrived in order %v (return codes %v)", i, g.n, ord, rcs)}
	}
	adopted = append(adopted, keys{len(ord), nd.SignSeckey().GetBigInt(), nd.GroupPubkey().Serialize()})
	for _, a := range adopted {
		if new(big.Int).Mod(a.sk, order).Cmp(g.skWant[i]) != 0 {
			return nd, result{bad: true, sig: sigp + "sign-key-not-sum-of-shares" + tail, obs: obs,
				msg: fmt.Sprintf("member %d arrival %v (return codes %v): sign key after %d pieces %x, sum of the shares dealt to it %x", i, ord, rcs, a.at+1, a.sk, g.skWant[i])}
		}
		if !bytes.Equal(a.gpk, g.gpkWant) {
			return nd, result{bad: true, sig: sigp + "group-key-not-sum-of-dealer-keys" + tail, obs: obs,
				msg: fmt.Sprintf("member %d arrival %v (return codes %v): group pubkey after %d pieces %x, (sum of dealer secrets)*G2 = %x", i, ord, rcs, a.at+1, a.gpk, g.gpkWant)}
		}
	}
	return nd, result{outcome: "dkg:keys-agree", obs: obs}
}

// recoverRun: RecoverGroupSignature on a map holding the shares of members `ord` (insertion order).
func recoverRun(g *group, mi int, ord []int, ch *fw.Chooser) result {
	return recoverRunObjs(g, mi, ord, ch, nil)
}

// mutated returns the members of `ord` whose share object no longer serializes to the bytes it was decoded from.
func mutated(g *group, mi int, ord []int, objs []groupsig.Signature) (who []int, now string) {
	for _, j := range ord {
		var b []byte
		fw.Try(func() { b = objs[j].Serialize() })
		if !bytes.Equal(b, g.shares[mi][j]) {
			who = append(who, j)
			now += fmt.Sprintf(" member %d: %x (was %x)", j, b, g.shares[mi][j])
		}
	}
	return
}

// recoverRunObjs: objs == nil -> fresh share objects and the inputs must be left untouched by the
// recovery; objs != nil -> the caller's share objects (indexed by member) are used and judged by the caller.
func recoverRunObjs(g *group, mi int, ord []int, ch *fw.Chooser, objs []groupsig.Signature) result {
	path := "exact"
	if len(ord) > g.k {
		path = "superset"
	}
	own := objs == nil
	if own {
		objs = make([]groupsig.Signature, g.n)
		for _, j := range ord {
			objs[j] = g.share(mi, j)
		}
	}
	m := make(map[string]groupsig.Signature)
	for _, j := range ord {
		m[g.keys[j]] = objs[j]
	}
	steered := false
	if len(ord) > g.k {
		t := pickTable(len(ord), g.k)
		ctl.set(t[ch.Choose(len(t), "kpick")])
		steered = true
	}
	var sig *groupsig.Signature
	p, v, site := fw.Try(func() {
		mapiter.Install(decider(ch))
		defer mapiter.Uninstall()
		sig = groupsig.RecoverGroupSignature(m, g.k)
	})
	reads := ctl.nreads()
	ctl.set(nil)
	if p {
		return result{bad: true, sig: "C13:panic:" + site, msg: fmt.Sprintf("panic in RecoverGroupSignature: %v", v), obs: "panic:" + site}
	}
	if steered && reads != 1 {
		return result{outcome: "steering-ineffective", obs: fmt.Sprintf("reads=%d", reads)}
	}
	var got []byte
	if sig != nil {
		got = sig.Serialize()
	}
	if !bytes.Equal(got, g.expect[mi]) {
		return result{bad: true, sig: "C13:recover:" + path + ":ids=" + g.idkind, obs: hex.EncodeToString(got),
			msg: fmt.Sprintf("RecoverGroupSignature(shares of members %v, k=%d) = %x, Sign(sum of dealer secrets, m) = %x", ord, g.k, got, g.expect[mi])}
	}
	if own {
		if who, now := mutated(g, mi, ord, objs); len(who) > 0 {
			return result{bad: true, sig: "C13:recover:mutates-input-share", obs: now,
				msg: fmt.Sprintf("RecoverGroupSignature(shares of members %v, k=%d) returned the right signature but changed the caller's share objects of members %v:%s", ord, g.k, who, now)}
		}
	}
	return result{outcome: "recover-" + path + ":equal", obs: hex.EncodeToString(got)}
}

type generator interface {
	AddWitnessSign(id groupsig.ID, s groupsig.Signature) (bool, bool)
	GetGroupSign() groupsig.Signature
}

// genRun: the first k shares arrive in order `ord`, then every remaining member's share.
func genRun(g *group, which string, mi int, ord []int, ch *fw.Chooser) result {
	return genRunObjs(g, which, mi, ord, ch, nil)
}

func genRunObjs(g *group, which string, mi int, ord []int, ch *fw.Chooser, objs []groupsig.Signature) result {
	own := objs == nil
	if own {
		objs = make([]groupsig.Signature, g.n)
		for j := 0; j < g.n; j++ {
			objs[j] = g.share(mi, j)
		}
	}
	var gen generator
	if which == "gen-model" {
		gen = model.NewGroupSignGenerator(g.k)
	} else {
		gen = logical.VerifNewSignGenerator(g.k)
	}
	in := make([]bool, g.n)
	var flags []bool
	var s1, s2 []byte
	p, v, site := fw.Try(func() {
		mapiter.Install(decider(ch))
		defer mapiter.Uninstall()
		for _, j := range ord {
			in[j] = true
			_, gd := gen.AddWitnessSign(g.ids[j], objs[j])
			flags = append(flags, gd)
		}
		s := gen.GetGroupSign()
		s1 = s.Serialize()
		for j := 0; j < g.n; j++ {
			if !in[j] {
				gen.AddWitnessSign(g.ids[j], objs[j])
			}
		}
		s = gen.GetGroupSign()
		s2 = s.Serialize()
	})
	if p {
		return result{bad: true, sig: "C13:panic:" + site, msg: fmt.Sprintf("panic in %s: %v", which, v), obs: "panic:" + site}
	}
	obs := fmt.Sprintf("%v %x %x", flags, s1, s2)
	tail := ":ids=" + g.idkind
	if !flags[len(flags)-1] {
		return result{bad: true, sig: "C13:" + which + ":not-generated" + tail, obs: obs,
			msg: fmt.Sprintf("%s: no group signature after threshold=%d shares of members %v (generated flags %v)", which, g.k, ord, flags)}
	}
	if !bytes.Equal(s1, g.expect[mi]) {
		return result{bad: true, sig: "C13:" + which + ":mismatch" + tail, obs: obs,
			msg: fmt.Sprintf("%s: shares of members %v (arrival order) gave %x, Sign(sum of dealer secrets, m) = %x", which, ord, s1, g.expect[mi])}
	}
	if !bytes.Equal(s2, g.expect[mi]) {
		return result{bad: true, sig: "C13:" + which + ":changed-by-late-share" + tail, obs: obs,
			msg: fmt.Sprintf("%s: after the remaining members' shares arrived the group signature is %x, want %x", which, s2, g.expect[mi])}
	}
	if own {
		all := idrev(g.n)[0]
		if who, now := mutated(g, mi, all, objs); len(who) > 0 {
			return result{bad: true, sig: "C13:" + which + ":mutates-input-share", obs: now,
				msg: fmt.Sprintf("%s: right signature from members %v, but the share objects handed in by members %v were changed:%s", which, ord, who, now)}
		}
	}
	return result{outcome: which + ":equal", obs: obs}
}

// reuseRun: ONE set of share objects per (group, message) is used for consecutive recoveries, as a
// node does that keeps the received shares: for every k-subset S: recover S, recover S again, recover
// S plus one more member, recover all n, both collectors (S first, then the late shares).  Every result
// must be the same signature; afterwards every share must still verify under its member's public share
// and still have its bytes.
func reuseRun(g *group, mi int) result {
	objs := make([]groupsig.Signature, g.n)
	for j := 0; j < g.n; j++ {
		objs[j] = g.share(mi, j)
	}
	all := idrev(g.n)[0]
	steps := 0
	fail := func(step string, sub []int, r result) result {
		r.sig = "C13:reuse:" + step
		r.msg = fmt.Sprintf("same share objects reused, k-subset %v, step %q (recovery #%d on these objects): %s", sub, step, steps, r.msg)
		return r
	}
	for _, sub := range combos(g.n, g.k) {
		type st struct {
			name string
			run  func() result
		}
		sup := append([]int{}, sub...)
		for j := 0; j < g.n && len(sup) == len(sub); j++ {
			in := false
			for _, x := range sub {
				in = in || x == j
			}
			if !in {
				sup = append(sup, j)
			}
		}
		seq := []st{
			{"first-recovery", func() result { return recoverRunObjs(g, mi, sub, fw.NewReplayChooser(nil), objs) }},
			{"second-recovery-same-subset", func() result { return recoverRunObjs(g, mi, sub, fw.NewReplayChooser(nil), objs) }},
		}
		if len(sup) > len(sub) {
			seq = append(seq, st{"superset-after-subset", func() result { return recoverRunObjs(g, mi, sup, fw.NewReplayChooser(nil), objs) }})
		}
		if g.n > len(sup) {
			seq = append(seq, st{"all-members-after-subset", func() result { return recoverRunObjs(g, mi, all, fw.NewReplayChooser(nil), objs) }})
		}
		seq = append(seq,
			st{"round-collector", func() result { return genRunObjs(g, "gen-round", mi, sub, fw.NewReplayChooser(nil), objs) }},
			st{"model-collector", func() result { return genRunObjs(g, "gen-model", mi, sub, fw.NewReplayChooser(nil), objs) }})
		for _, s := range seq {
			steps++
			if r := s.run(); r.bad || r.outcome == "steering-ineffective" {
				if !r.bad {
					return r
				}
				return fail(s.name, sub, r)
			}
		}
	}
	for i := 0; i < g.n; i++ {
		var ok bool
		p, v, site := fw.Try(func() { ok = groupsig.VerifySig(g.memPub[i], g.msgs[mi], objs[i]) })
		if p {
			return result{bad: true, sig: "C13:panic:" + site, msg: fmt.Sprintf("panic in VerifySig after recoveries: %v", v), obs: "panic"}
		}
		if !ok {
			return result{bad: true, sig: "C13:reuse:share-no-longer-verifies", obs: fmt.Sprint(i),
				msg: fmt.Sprintf("member %d's share verified before, but not after %d recoveries that used the same object", i, steps)}
		}
	}
	if who, now := mutated(g, mi, all, objs); len(who) > 0 {
		return result{bad: true, sig: "C13:reuse:mutates-input-share", obs: now,
			msg: fmt.Sprintf("after %d recoveries the share objects of members %v changed:%s", steps, who, now)}
	}
	return result{outcome: "reuse:all-equal", obs: fmt.Sprint(steps)}
}

// ---------------------------------------------------------------------------------------
// production call sites that size a threshold collector themselves

func (g *group) groupInfo() *model.GroupInfo {
	info := &model.GroupInitInfo{GroupHeader: &types.GroupHeader{Hash: g.hash}, GroupMembers: append([]groupsig.ID{}, g.ids...)}
	return model.NewGroupInfo(*groupsig.NewIDFromPubkey(g.gpk), g.gpk, info)
}

// collect feeds the shares of message mi in arrival order `ord` (all members) through add and applies
// the oracle: whenever the collector says "recovered" its signature is Sign(sum of dealer secrets, m)
// (fewer than k shares can never give that), it says so once k = GetGroupK(group size) shares are in,
// and the value stays.
func collect(g *group, what, sigp string, mi int, ord []int, ch *fw.Chooser, add func(j int, s groupsig.Signature), recovered func() bool, get func() groupsig.Signature) result {
	var r result
	p, v, site := fw.Try(func() {
		if ch != nil {
			mapiter.Install(decider(ch))
			defer mapiter.Uninstall()
		}
		for t, j := range ord {
			add(j, g.share(mi, j))
			rec := recovered()
			var got []byte
			if rec {
				s := get()
				got = s.Serialize()
			}
			if rec && !bytes.Equal(got, g.expect[mi]) {
				r = result{bad: true, sig: sigp + ":mismatch", obs: fmt.Sprintf("%d %x", t, got),
					msg: fmt.Sprintf("%s: after %d of %d shares (arrival order %v, threshold of the group = %d) the collector reports a recovered signature %x, Sign(sum of dealer secrets, m) = %x", what, t+1, g.n, ord, g.k, got, g.expect[mi])}
				return
			}
			if !rec && t+1 >= g.k {
				r = result{bad: true, sig: sigp + ":not-recovered-at-threshold", obs: fmt.Sprint(t),
					msg: fmt.Sprintf("%s: %d valid shares of a group of %d are in (threshold %d, arrival order %v) but no group signature was recovered", what, t+1, g.n, g.k, ord)}
				return
			}
		}
		r = result{outcome: sigp[len("C13:"):] + ":equal", obs: "ok"}
	})
	if p {
		return result{bad: true, sig: "C13:panic:" + site, msg: fmt.Sprintf("panic in %s: %v", what, v), obs: "panic:" + site}
	}
	return r
}

// parentRun: the parent group (g) signs the header of a new group with `cand` candidates.
func parentRun(g *group, cand int, ord []int, ch *fw.Chooser) result {
	var cands []groupsig.ID
	for i := 0; i < cand; i++ {
		cands = append(cands, minerFor(1000+g.seed, i).ID)
	}
	bh := &types.BlockHeader{Hash: common.BytesToHash(h256("c13 base block")), Height: 100}
	pc := group_create.VerifNewParentCollector(g.groupInfo(), cands, bh, &types.Group{Id: []byte("c13 base group")})
	what := fmt.Sprintf("parent-group collector (createGroupContext: parent group of %d members, %d candidates)", g.n, cand)
	r := collect(g, what, "C13:parent", 0, ord, ch,
		func(j int, s groupsig.Signature) { pc.AcceptPiece(g.ids[j], s) }, pc.Recovered, pc.GroupSign)
	if !r.bad && !pc.VerifyGroupSign(g.gpk, g.msgs[0]) {
		return result{bad: true, sig: "C13:parent:group-verify", obs: "false",
			msg: what + ": the recovered signature does not verify under the parent group public key"}
	}
	return r
}

// round1Run: the collectors of a round1 built and started by the production code for group g.
func round1Run(g *group, mi int, ord []int, ch *fw.Chooser) result {
	bh := &types.BlockHeader{Hash: common.BytesToHash(g.msgs[0]), Height: 100}
	pre := &types.BlockHeader{Hash: common.BytesToHash(h256("c13 previous block")), Height: 99, Random: g.msgs[1]}
	vr := logical.VerifRoundNew(nil, nil, nil, g.ids[0], g.groupInfo(), bh, pre)
	if vr == nil {
		return result{bad: true, sig: "C13:round1-start:not-started", msg: "round1 could not be started", obs: "nil"}
	}
	block, beacon := vr.VerifRoundGenerators()
	gen := block
	if mi == 1 {
		gen = beacon
	}
	what := fmt.Sprintf("round1 collector #%d (round1.Start for a group of %d members)", mi, g.n)
	return collect(g, what, "C13:round1-start", mi, ord, ch,
		func(j int, s groupsig.Signature) { gen.AddWitnessSign(g.ids[j], s) }, gen.SignRecovered, gen.GetGroupSign)
}

var faultKinds = []string{"good-block+bad-beacon", "bad-block+good-beacon", "both-bad", "duplicate"}

// joined makes the group known to the node's joined-group storage (member sign public keys), which is
// where round1.Update looks the sender's key up.
func (g *group) joined() groupsig.ID {
	if g.gid == nil {
		jg := model.NewJoindGroupInfo(g.signSk[0], g.gpk, g.hash)
		for i := 0; i < g.n; i++ {
			jg.AddMemberSignPK(g.ids[i], g.memPub[i])
		}
		belong.JoinGroup(jg, g.ids[0])
		id := jg.GroupID
		g.gid = &id
	}
	return *g.gid
}

// round1FaultRun: the honest pieces of members `ord` (>= threshold of them) arrive at a production
// round1 in that order; one more piece that must not count (kind) from member fmem is delivered before
// the fpos-th honest piece.  The round must end with the one block signature and the one beacon value.
func round1FaultRun(g *group, ord []int, kind string, fmem, fpos int) result {
	var r result
	p, v, site := fw.Try(func() {
		gid := g.joined()
		bhash := common.BytesToHash(g.msgs[0]) // the block share is a signature over the block hash
		bh := &types.BlockHeader{Hash: bhash, Height: 100, GroupId: gid.Serialize()}
		pre := &types.BlockHeader{Hash: common.BytesToHash(h256("c13 previous block")), Height: 99, Random: g.msgs[1]}
		vr := logical.VerifRoundNew(belong, &chainStub{}, netStub{}, g.ids[0], g.groupInfo(), bh, pre)
		if vr == nil {
			panic("harness: round1 could not be constructed")
		}
		seq := 0
		piece := func(j int, block, beacon []byte) *model.ConsensusVerifyMessage {
			seq++
			return &model.ConsensusVerifyMessage{
				BlockHash:  bhash,
				RandomSign: *groupsig.DeserializeSign(beacon),
				SignInfo:   model.MakeSignInfo(bhash, *groupsig.DeserializeSign(block), g.ids[j], int32(common.ConsensusVersion)),
				Id:         fmt.Sprintf("c13-piece-%d-from-%d", seq, j),
			}
		}
		honest := func(j int) *model.ConsensusVerifyMessage { return piece(j, g.shares[0][j], g.shares[1][j]) }
		// a share that is the member's signature, but not over this block hash / not over preBH.Random
		badBlock := groupsig.Sign(g.signSk[fmem], h256("c13 some other block hash")).Serialize()
		badBeacon := groupsig.Sign(g.signSk[fmem], h256("c13 some other previous random")).Serialize()
		var faulty *model.ConsensusVerifyMessage
		switch kind {
		case "good-block+bad-beacon":
			faulty = piece(fmem, g.shares[0][fmem], badBeacon)
		case "bad-block+good-beacon":
			faulty = piece(fmem, badBlock, g.shares[1][fmem])
		case "both-bad":
			faulty = piece(fmem, badBlock, badBeacon)
		case "duplicate":
			faulty = honest(fmem)
		default:
			panic("fault kind")
		}
		for t := 0; t <= len(ord); t++ {
			if t == fpos {
				if err := vr.VerifRoundUpdate(faulty); err != nil {
					panic(fmt.Sprintf("harness: round1.Update returned %v", err))
				}
			}
			if t < len(ord) {
				if err := vr.VerifRoundUpdate(honest(ord[t])); err != nil {
					panic(fmt.Sprintf("harness: round1.Update returned %v", err))
				}
			}
		}
		h := vr.VerifRoundHeader()
		where := fmt.Sprintf("%s@%d", kind, fpos)
		desc := fmt.Sprintf("group of %d (threshold %d): honest pieces of members %v in this order, one %s piece from member %d delivered before honest piece #%d", g.n, g.k, ord, kind, fmem, fpos)
		if len(h.Signature) == 0 || len(h.Random) == 0 || !vr.VerifRoundCanProceed() {
			r = result{bad: true, sig: "C13:round1:faulty-piece:" + where + ":no-signature", obs: fmt.Sprintf("%x %x %v", h.Signature, h.Random, vr.VerifRoundCanProceed()),
				msg: desc + fmt.Sprintf(": the round ended without block signature / beacon (Signature=%x Random=%x canProceed=%v)", h.Signature, h.Random, vr.VerifRoundCanProceed())}
			return
		}
		if !bytes.Equal(h.Signature, g.expect[0]) || !bytes.Equal(h.Random, g.expect[1]) {
			r = result{bad: true, sig: "C13:round1:faulty-piece:" + where + ":different-signature", obs: fmt.Sprintf("%x %x", h.Signature, h.Random),
				msg: desc + fmt.Sprintf(": Signature=%x Random=%x, the all-honest run gives %x / %x", h.Signature, h.Random, g.expect[0], g.expect[1])}
			return
		}
		r = result{outcome: "round1-fault:" + kind + ":same-signature-and-beacon", obs: "ok"}
	})
	if p {
		return result{bad: true, sig: "C13:panic:" + site, msg: fmt.Sprintf("panic in round1 fault run: %v", v), obs: "panic:" + site}
	}
	return r
}

// gpkCollectorRun: members announce the group public key their DKG produced; what the collector adopts
// must be the sum of the dealers' keys, and it must have adopted one when every member has announced.
func gpkCollectorRun(g *group, ord []int, ch *fw.Chooser) result {
	var r result
	p, v, site := fw.Try(func() {
		pc := group_create.VerifNewPubkeyCollector(g.hash, g.ids)
		if ch != nil {
			mapiter.Install(decider(ch))
			defer mapiter.Uninstall()
		}
		st := int32(0)
		for t, j := range ord {
			st = pc.Handle(g.ids[j], g.gpk)
			gp := pc.GroupPK()
			if st == 1 && !bytes.Equal(gp.Serialize(), g.gpkWant) {
				r = result{bad: true, sig: "C13:gpk-collector:wrong-key", obs: fmt.Sprint(t),
					msg: fmt.Sprintf("group public key collector (group of %d) adopted %x after %d announcements, sum of dealer keys is %x", g.n, gp.Serialize(), t+1, g.gpkWant)}
				return
			}
		}
		if st != 1 {
			r = result{bad: true, sig: "C13:gpk-collector:not-adopted", obs: fmt.Sprint(st),
				msg: fmt.Sprintf("group public key collector (group of %d): all members announced the same key, status %d", g.n, st)}
			return
		}
		r = result{outcome: "gpk-collector:adopted-sum", obs: "ok"}
	})
	if p {
		return result{bad: true, sig: "C13:panic:" + site, msg: fmt.Sprintf("panic in group public key collector: %v", v), obs: "panic:" + site}
	}
	return r
}

var sweepWidths = []int{32, 1, 8, 33, 64}

// counterMsg: i as a big-endian string of `width` bytes.
func counterMsg(i, width int) []byte {
	b := make([]byte, width)
	v := uint64(i)
	for p := width - 1; p >= 0 && v > 0; p-- {
		b[p] = byte(v)
		v >>= 8
	}
	return b
}

// sweepRun: the full property for one message: every share verifies under its member's public
// share, every k-subset (direct recovery and every rotation of arrival at round1's collector) gives
// Sign(sum of dealer secrets, m), and that verifies under the group key.
func sweepRun(g *group, m []byte) result { return sweepRunOn(g, m, combos(g.n, g.k), true) }

var msgLengths = []int{0, 1, 31, 32, 33, 63, 64, 65, 100, 127, 128, 129, 255, 256, 1000, 4096}

// lenMsg: a message of length L; variant 1 starts with a zero byte.
func lenMsg(L, variant int) []byte {
	m := make([]byte, L)
	for i := range m {
		m[i] = byte(0x51 + 7*i + 13*L + 101*variant)
		if m[i] == 0 {
			m[i] = 0xa5
		}
	}
	if variant == 1 && L > 0 {
		m[0] = 0
	}
	return m
}

// msglenRun: the whole property for a message of a given length, plus: the group signature of m must
// not verify for a sibling message that shares m's first 64 bytes / m's last 32 bytes.
func msglenRun(g *group, m []byte) result {
	subsets := windows(g.n, g.k)
	if g.n <= 5 {
		subsets = combos(g.n, g.k)
	}
	L := fmt.Sprint(len(m))
	r := sweepRunOn(g, m, subsets, false)
	if r.bad {
		if len(r.sig) > len("C13:sweep:") && r.sig[:len("C13:sweep:")] == "C13:sweep:" {
			r.sig = "C13:msglen:" + L + ":" + r.sig[len("C13:sweep:"):]
		}
		return r
	}
	var sibs [][]byte
	if len(m) >= 1 { // same prefix (all but the last byte; for lengths > 64 the first 64 bytes agree)
		s1 := append([]byte{}, m...)
		s1[len(s1)-1] ^= 0x01
		sibs = append(sibs, s1)
		sibs = append(sibs, append(append([]byte{}, m...), 0x00)) // m extended by one byte
	}
	if len(m) >= 33 { // same last 32 bytes
		s2 := append([]byte{}, m...)
		s2[0] ^= 0x80
		sibs = append(sibs, s2)
	}
	var bad result
	p, v, site := fw.Try(func() {
		gsk := *groupsig.NewSeckeyFromBigInt(new(big.Int).Set(g.gskWant))
		e := groupsig.Sign(gsk, m)
		for _, sb := range sibs {
			if groupsig.VerifySig(g.gpk, sb, e) {
				bad = result{bad: true, sig: "C13:msglen:" + L + ":sibling-accepted", obs: hex.EncodeToString(sb),
					msg: fmt.Sprintf("the group signature of the %d-byte message %x also verifies under the group key for the different message %x", len(m), m, sb)}
				return
			}
		}
	})
	if p {
		return result{bad: true, sig: "C13:panic:" + site, msg: fmt.Sprintf("panic in VerifySig (message length %d): %v", len(m), v), obs: "panic"}
	}
	if bad.bad {
		return bad
	}
	return result{outcome: "msglen:holds", obs: "ok"}
}

// windows: the n threshold-size sets {i, i+1, .., i+k-1} (mod n): every member is in k of them.
func windows(n, k int) [][]int {
	var out [][]int
	for i := 0; i < n; i++ {
		var w []int
		for t := 0; t < k; t++ {
			w = append(w, (i+t)%n)
		}
		out = append(out, w)
	}
	return out
}

func sweepRunOn(g *group, m []byte, subsets [][]int, allRotations bool) result {
	var r result
	p, v, site := fw.Try(func() {
		gsk := *groupsig.NewSeckeyFromBigInt(new(big.Int).Set(g.gskWant))
		want := groupsig.Sign(gsk, m).Serialize()
		shares := make([][]byte, g.n)
		for i := 0; i < g.n; i++ {
			shares[i] = groupsig.Sign(g.signSk[i], m).Serialize()
		}
		for i := 0; i < g.n; i++ {
			if !groupsig.VerifySig(g.memPub[i], m, *groupsig.DeserializeSign(shares[i])) {
				r = result{bad: true, sig: "C13:sweep:share-verify", obs: fmt.Sprint("share ", i),
					msg: fmt.Sprintf("message %x (n=%d): member %d's share %x does not verify under its public share", m, g.n, i, shares[i])}
				return
			}
		}
		for _, sub := range subsets {
			mp := map[string]groupsig.Signature{}
			for _, j := range sub {
				mp[g.keys[j]] = *groupsig.DeserializeSign(shares[j])
			}
			var got []byte
			if s := groupsig.RecoverGroupSignature(mp, g.k); s != nil {
				got = s.Serialize()
			}
			if !bytes.Equal(got, want) {
				r = result{bad: true, sig: "C13:sweep:subset-dependent", obs: fmt.Sprintf("%v %x", sub, got),
					msg: fmt.Sprintf("message %x (n=%d): RecoverGroupSignature(members %v) = %x, Sign(sum of dealer secrets, m) = %x", m, g.n, sub, got, want)}
				return
			}
			for rot := 0; rot < g.k && (allRotations || rot == 0); rot++ {
				gen := logical.VerifNewSignGenerator(g.k)
				var ord []int
				for t := 0; t < g.k; t++ {
					j := sub[(t+rot)%g.k]
					ord = append(ord, j)
					gen.AddWitnessSign(g.ids[j], *groupsig.DeserializeSign(shares[j]))
				}
				s := gen.GetGroupSign()
				if got := s.Serialize(); !bytes.Equal(got, want) {
					r = result{bad: true, sig: "C13:sweep:subset-dependent", obs: fmt.Sprintf("%v %x", ord, got),
						msg: fmt.Sprintf("message %x (n=%d): round1 collector, shares of members %v in arrival order gave %x, Sign(sum of dealer secrets, m) = %x", m, g.n, ord, got, want)}
					return
				}
			}
		}
		if !groupsig.VerifySig(g.gpk, m, *groupsig.DeserializeSign(want)) {
			r = result{bad: true, sig: "C13:sweep:group-verify", obs: "false",
				msg: fmt.Sprintf("message %x (n=%d): the common recovered signature %x does not verify under the group key", m, g.n, want)}
			return
		}
		r = result{outcome: "sweep:holds", obs: "ok"}
	})
	if p {
		return result{bad: true, sig: "C13:panic:" + site, msg: fmt.Sprintf("panic in message sweep, message %x: %v", m, v), obs: "panic:" + site}
	}
	return r
}

func shareVerifyRun(g *group, mi, i int) result {
	var ok bool
	p, v, site := fw.Try(func() {
		ok = groupsig.VerifySig(g.memPub[i], g.msgs[mi], g.share(mi, i))
	})
	if p {
		return result{bad: true, sig: "C13:panic:" + site, msg: fmt.Sprintf("panic in VerifySig: %v", v), obs: "panic"}
	}
	if !ok {
		return result{bad: true, sig: "C13:share-verify:ids=" + g.idkind, obs: "false",
			msg: fmt.Sprintf("member %d: Sign(sk_i, m) does not verify under sk_i*G2 (sk_i=%x)", i, g.signSk[i].Serialize())}
	}
	return result{outcome: "share-verify:true", obs: "true"}
}

func groupVerifyRun(g *group, mi int) result {
	var ok, ok2 bool
	p, v, site := fw.Try(func() {
		ok = groupsig.VerifySig(g.gpk, g.msgs[mi], *groupsig.DeserializeSign(g.expect[mi]))
		gen := model.NewGroupSignGenerator(g.k)
		for j := g.n - g.k; j < g.n; j++ { // the last k members
			gen.AddWitnessSign(g.ids[j], g.share(mi, j))
		}
		ok2 = gen.VerifyGroupSign(g.gpk, g.msgs[mi])
	})
	if p {
		return result{bad: true, sig: "C13:panic:" + site, msg: fmt.Sprintf("panic in VerifySig: %v", v), obs: "panic"}
	}
	if !ok || !ok2 {
		return result{bad: true, sig: "C13:group-verify:ids=" + g.idkind, obs: fmt.Sprint(ok, ok2),
			msg: fmt.Sprintf("the common recovered signature %x does not verify under the aggregated group key %x (direct=%v, generator.VerifyGroupSign=%v)", g.expect[mi], g.gpk.Serialize(), ok, ok2)}
	}
	return result{outcome: "group-verify:true", obs: "true true"}
}

// execCase runs exactly one case.
func execCase(g *group, k *kase, ch *fw.Chooser) result {
	switch k.Part {
	case "dkg":
		_, r := dkgRun(g, k.Mem, k.Ord, ch)
		return r
	case "recover":
		return recoverRun(g, k.Msg, k.Ord, ch)
	case "gen-model", "gen-round":
		return genRun(g, k.Part, k.Msg, k.Ord, ch)
	case "reuse":
		return reuseRun(g, k.Msg)
	case "parent":
		return parentRun(g, k.Cand, k.Ord, ch)
	case "round1-fault":
		return round1FaultRun(g, k.Ord, k.Fault, k.FMem, k.FPos)
	case "msglen":
		m, err := hex.DecodeString(k.M)
		if err != nil {
			panic(err)
		}
		return msglenRun(g, m)
	case "reload-sweep":
		var r result
		if g.n <= 5 {
			r = sweepRun(g, g.msgs[0])
		} else {
			r = sweepRunOn(g, g.msgs[0], windows(g.n, g.k), false)
		}
		if r.bad && len(r.sig) > len("C13:sweep:") && r.sig[:len("C13:sweep:")] == "C13:sweep:" {
			r.sig = "C13:reload:" + r.sig[len("C13:sweep:"):]
			r.msg = fmt.Sprintf("DKG instance n=%d seed=%d, keys stored and reloaded: ", g.n, g.seed) + r.msg
		}
		if !r.bad {
			r.outcome = "reload-sweep:holds"
		}
		return r
	case "round1-start":
		return round1Run(g, k.Msg, k.Ord, ch)
	case "gpk-collector":
		return gpkCollectorRun(g, k.Ord, ch)
	case "sweep":
		m, err := hex.DecodeString(k.M)
		if err != nil {
			panic(err)
		}
		return sweepRun(g, m)
	case "share-verify":
		return shareVerifyRun(g, k.Msg, k.Mem)
	case "group-verify":
		return groupVerifyRun(g, k.Msg)
	}
	panic("unknown part " + k.Part)
}

// ---------------------------------------------------------------------------------------
// driver

var sampleParts = map[string]int{}

func record(c *fw.Ctx, g *group, k kase, choices []int, r result) {
	c.Eval(1)
	if !r.bad && k.minDev > 0 {
		dev := 0
		for _, v := range choices {
			if v != 0 {
				dev++
			}
		}
		if dev < k.minDev {
			return // this execution was already counted by an earlier phase
		}
	}
	if r.outcome == "steering-ineffective" {
		c.Cap("the random k-selection could not be steered through crypto/rand.Reader (" + r.obs + ")")
		return
	}
	if !r.bad {
		c.NontrivialN(1)
		c.Outcome(r.outcome)
		if sampleParts[k.Part+fmt.Sprint(len(k.Ord) > k.K)] == 0 && len(choices) > 0 && choices[len(choices)-1] != 0 {
			sampleParts[k.Part+fmt.Sprint(len(k.Ord) > k.K)] = 1
			k.Ch = choices
			c.Sample(k)
		}
		return
	}
	k.Ch = append([]int{}, choices...)
	for _, id := range g.ids {
		k.IDv = append(k.IDv, id.GetHexString())
	}
	// same input again: the observation must repeat
	again := result{}
	same := false
	for t := 0; t < 3 && !same; t++ {
		again = execCase(g, &k, fw.NewReplayChooser(k.Ch))
		same = again.bad && again.sig == r.sig && again.obs == r.obs
	}
	sig := r.sig
	if !same {
		// only possible where the iteration order is not fully controlled (maps > 8 entries:
		// bucket assignment depends on the per-map hash seed); the wrong value was still produced
		sig += ":not-reproduced"
	}
	c.Outcome("VIOLATION " + sig)
	c.Violation(sig, k.Part, r.msg, k)
}

func cpuMs() int64 {
	var ru syscall.Rusage
	syscall.Getrusage(syscall.RUSAGE_SELF, &ru)
	return (ru.Utime.Sec+ru.Stime.Sec)*1000 + int64(ru.Utime.Usec+ru.Stime.Usec)/1000
}

func explore(c *fw.Ctx, g *group, k kase, bound int) {
	t0 := cpuMs()
	defer func() { c.Count("cpu_ms_"+k.Part, cpuMs()-t0) }()
	var last result
	st := fw.Explore(bound,
		func(ch *fw.Chooser) { last = execCase(g, &k, ch) },
		func(ch *fw.Chooser) { record(c, g, k, ch.Choices(), last) },
		c.Expired)
	if st.Divergence != nil {
		c.Cap("explorer replay divergence: " + st.Divergence.Error())
	}
	if st.Truncated {
		c.Cap("time budget: exploration truncated")
	}
	if int64(st.MaxPoints) > maxPoints {
		maxPoints = int64(st.MaxPoints)
	}
}

var maxPoints int64

var belong *access.JoinedGroupStorage

func boot() {
	// the node services round1.Update relies on (chain singletons for the group-create processor,
	// message bus, loggers), booted as the C15 check does
	if err := node.Boot(node.ForksAllOn, true); err != nil {
		panic(fmt.Sprintf("node boot: %v", err))
	}
	logical.InitConsensus() // model.Param (threshold rule) as the node initialises it
	if notify.BUS == nil {
		notify.BUS = notify.NewBus()
	}
	self := model.SelfMinerInfo{SecKey: *groupsig.NewSeckeyFromBigInt(new(big.Int).SetBytes(h256("c13 self miner key")))}
	self.ID = groupsig.DeserializeID(h256("c13 self miner id"))
	self.PubKey = *groupsig.GeneratePubkey(self.SecKey)
	belong = access.NewJoinedGroupStorage()
	group_create.GroupCreateProcessor.Init(self, belong)
	group_create.GroupCreateProcessor.NetServer = netStub{}
	ctl.orig = crand.Reader
	crand.Reader = ctl
}

// stubs (the only non-production pieces round1 touches): the proposed block is not on the chain yet;
// nothing is sent anywhere.
type chainStub struct{ core.BlockChain }

func (c *chainStub) HasBlockByHash(common.Hash) bool           { return false }
func (c *chainStub) QueryBlockByHash(common.Hash) *types.Block { return nil }

type netStub struct{ cnet.NetworkServer }

func (netStub) SendVerifiedCast(*model.ConsensusVerifyMessage, groupsig.ID) {}
func (netStub) AskSignPkMessage(*model.SignPubkeyReqMessage, groupsig.ID)   {}

type tierParams struct {
	ns          []int
	seeds       int
	supBound    int  // deviation bound for the superset path (k-pick, 2 map iterations)
	supRev      bool // supersets also inserted in reverse order
	genBound    func(n int) int
	msgsFor     func(n, seed int) []int // message indices used for a group
	faultNs     []int                   // group sizes of the round1 fault family
	reloadNs    []int                   // persistence sweep: group sizes
	reloadSeeds int                     // and dealer seed sets per size
	sweepN      int                     // message sweep: counters 0..sweepN-1 in every width
}

func params(thorough bool) tierParams {
	if thorough {
		return tierParams{ns: []int{3, 4, 5, 6, 7, 8, 9, 10}, seeds: 2, supBound: 2, supRev: true, sweepN: 20000, faultNs: []int{3, 4, 5}, reloadNs: []int{3, 4, 5, 6, 7, 8, 9, 10}, reloadSeeds: 150,
			genBound: func(int) int { return 1 },
			msgsFor:  func(int, int) []int { return []int{0, 1} }}
	}
	// quick: the largest group uses one message per seed set and pins the collectors' map
	// iteration to the insertion order (their arrival orders are still all enumerated)
	return tierParams{ns: []int{3, 4, 5, 6, 10}, seeds: 2, supBound: 1, supRev: false, sweepN: 600, faultNs: []int{3, 4}, reloadNs: []int{3, 5, 10}, reloadSeeds: 60,
		genBound: func(n int) int {
			if n >= 8 {
				return 0
			}
			return 1
		},
		msgsFor: func(n, seed int) []int {
			if n >= 8 {
				return []int{seed % 2}
			}
			return []int{0, 1}
		}}
}

var idkinds = []string{"hash", "small", "big"}

// mapSelfTest checks the claim the decider relies on: in an insert-only one-bucket map start
// offsets 0..count-1 give the count rotations of the insertion order and offsets >= count repeat offset 0.
func mapSelfTest() error {
	m := map[string]int{}
	for i, k := range []string{"a", "b", "c", "d", "e"} {
		m[k] = i
	}
	seen := map[string]bool{}
	first := ""
	for off := 0; off < 8; off++ {
		o := off
		mapiter.Install(func(count int, B uint8) (uintptr, bool) { return mapiter.Start(0, o, B), true })
		s := ""
		for k := range m {
			s += k
		}
		mapiter.Uninstall()
		if off == 0 {
			first = s
			if s != "abcde" {
				return fmt.Errorf("offset 0 iterates %q, want insertion order", s)
			}
		}
		if off >= len(m) && s != first {
			return fmt.Errorf("offset %d iterates %q, want %q", off, s, first)
		}
		seen[s] = true
	}
	if len(seen) != len(m) {
		return fmt.Errorf("%d distinct orders, want %d", len(seen), len(m))
	}
	return nil
}

func run(c *fw.Ctx) {
	c.ConcPart()
	boot()
	if err := mapSelfTest(); err != nil {
		c.Cap("map iteration control self-test failed: " + err.Error())
	}
	tp := params(c.Thorough())
	var idx int64
	mine := func() bool { idx++; return c.Mine(idx) }
	stop := false
	expired := func() bool {
		if !stop && c.Expired() {
			stop = true
			c.Cap("time budget: remaining units not run")
		}
		return stop
	}
	type cfgT struct {
		n, seed int
		idkind  string
	}
	cache := map[cfgT]*group{}
	var groups, geOrder, zeroRes int64
	getGroup := func(n, seed int, idkind string) *group {
		g := cache[cfgT{n, seed, idkind}]
		if g == nil {
			t0 := cpuMs()
			g = setup(n, seed, idkind)
			c.Count("cpu_ms_setup", cpuMs()-t0)
			cache[cfgT{n, seed, idkind}] = g
			groups++
			geOrder += int64(g.geOrder)
			zeroRes += int64(g.zeroRes)
			for _, r := range g.setupBad {
				k := g.kase("dkg", 0)
				k.Ord = idrev(n)[0]
				c.Outcome("VIOLATION " + r.sig)
				c.Violation(r.sig, "dkg", r.msg, k)
			}
		}
		return g
	}

	// --- P. call sites that size a collector themselves, driven with sizes that differ from every
	// other size in their context: (parent group size, candidate count of the new group)
	{
		t0 := cpuMs()
		allOrders := func(n int) [][]int {
			if n <= 4 {
				return perms(n)
			}
			return rotrev(n)
		}
		for _, pcand := range [][2]int{{3, 3}, {5, 3}, {8, 6}, {10, 5}, {10, 9}, {4, 7}} {
			g := getGroup(pcand[0], 0, "hash")
			if !g.ready() {
				continue
			}
			for _, ord := range allOrders(g.n) {
				if !mine() || expired() {
					continue
				}
				ks := g.kase("parent", 0)
				ks.Cand, ks.Ord = pcand[1], ord
				explore(c, g, ks, 1)
			}
		}
		for _, n := range []int{3, 4, 5, 8, 10} {
			g := getGroup(n, 0, "hash")
			if !g.ready() {
				continue
			}
			for _, ord := range allOrders(n) {
				if !mine() || expired() {
					continue
				}
				for mi := 0; mi < 2; mi++ {
					ks := g.kase("round1-start", mi)
					ks.Ord = ord
					explore(c, g, ks, 1)
				}
				ks := g.kase("gpk-collector", 0)
				ks.Ord = ord
				explore(c, g, ks, 1)
			}
		}
		c.Count("cpu_ms_callsites", cpuMs()-t0)
	}

	// --- F. round1 with one piece that must not count: every honest subset of >= k members, arrival
	// orders, fault kind, faulty member (inside or outside the honest subset), every position
	{
		t0 := cpuMs()
		for _, n := range tp.faultNs {
			full := n == 3 || (c.Thorough() && n == 4)
			g := getGroup(n, 0, "hash")
			if !g.ready() {
				continue
			}
			for s := g.k; s <= n; s++ {
				if !full && s != g.k && s != n {
					continue
				}
				for _, sub := range combos(n, s) {
					var orders [][]int
					if full && s <= 4 {
						orders = perms(s)
					} else {
						orders = rotrev(s)[:s] // rotations
					}
					for _, p := range orders {
						ord := apply(sub, p)
						for _, kind := range faultKinds {
							var senders []int
							if kind == "duplicate" {
								senders = ord
								if !full {
									senders = ord[:1]
								}
							} else {
								for j := 0; j < n; j++ {
									senders = append(senders, j)
								}
								if !full { // one member outside the honest subset (if any) and the first one inside
									senders = []int{ord[0]}
									for j := 0; j < n; j++ {
										in := false
										for _, x := range ord {
											in = in || x == j
										}
										if !in {
											senders = append(senders, j)
											break
										}
									}
								}
							}
							for _, fm := range senders {
								if !mine() || expired() {
									continue
								}
								for pos := 0; pos <= s; pos++ {
									ks := g.kase("round1-fault", 0)
									ks.Ord, ks.Fault, ks.FMem, ks.FPos = ord, kind, fm, pos
									record(c, g, ks, nil, execCase(g, &ks, nil))
								}
							}
						}
					}
				}
			}
		}
		c.Count("cpu_ms_round1-fault", cpuMs()-t0)
	}

	// --- L. message length as a dimension: one group per size, 16 lengths x 2 contents
	{
		t0 := cpuMs()
		for _, n := range tp.ns {
			g := getGroup(n, 0, "hash")
			if !g.ready() {
				continue
			}
			for _, L := range msgLengths {
				for variant := 0; variant < 2; variant++ {
					if L == 0 && variant == 1 {
						continue
					}
					if !mine() || expired() {
						continue
					}
					ks := g.kase("msglen", 0)
					ks.M = hex.EncodeToString(lenMsg(L, variant))
					if L == 0 {
						ks.M = ""
					}
					record(c, g, ks, nil, execCase(g, &ks, nil))
				}
			}
		}
		c.Count("cpu_ms_msglen", cpuMs()-t0)
		c.Note("message_lengths", msgLengths)
	}

	// --- R. persistence sweep: many DKG instances (so that the members' share sums fall on both sides of
	// the order and of 2^256), keys stored + reloaded, then the whole property for one message
	{
		t0 := cpuMs()
		var cls [3]int64
		var inst int64
		for t := 0; t < tp.reloadSeeds; t++ {
			for _, n := range tp.reloadNs {
				if !mine() || expired() {
					continue
				}
				g := setup(n, 2000+t, "hash")
				for _, r := range g.setupBad {
					k := g.kase("reload-sweep", 0)
					c.Outcome("VIOLATION " + r.sig)
					c.Violation(r.sig, "reload-sweep", r.msg, k)
				}
				for x := range cls {
					cls[x] += g.sumClass[x]
				}
				inst++
				if !g.ready() {
					continue
				}
				ks := g.kase("reload-sweep", 0)
				record(c, g, ks, nil, execCase(g, &ks, nil))
			}
		}
		c.Count("cpu_ms_reload-sweep", cpuMs()-t0)
		c.Count("reload_dkg_instances", inst)
		c.Count("reload_members_share_sum_below_order", cls[0])
		c.Count("reload_members_share_sum_in_order_to_2^256", cls[1])
		c.Count("reload_members_share_sum_in_2^256_to_2order", cls[2])
	}

	// --- S. message sweep: the whole property for two small groups over many messages
	{
		sg := []*group{getGroup(3, 0, "hash"), getGroup(4, 0, "big")}
		t0 := cpuMs()
		var nmsg int64
		for i := 0; i < tp.sweepN; i++ {
			for fi, width := range sweepWidths {
				if width == 1 && i >= 256 {
					continue // the 1-byte form has only 256 values
				}
				if !mine() || expired() {
					continue
				}
				g := sg[(i+fi)%2]
				if !g.ready() {
					continue
				}
				ks := g.kase("sweep", 0)
				ks.M = hex.EncodeToString(counterMsg(i, width))
				record(c, g, ks, nil, execCase(g, &ks, nil))
				nmsg++
			}
		}
		c.Count("cpu_ms_sweep", cpuMs()-t0)
		c.Count("sweep_messages", nmsg)
		c.Note("sweep", fmt.Sprintf("counters 0..%d as big-endian strings of %v bytes (1-byte form: 0..255), alternating between the n=3/k=2 (hash ids) and n=4/k=3 (big ids incl. id==order) groups", tp.sweepN-1, sweepWidths))
	}
	phases := 1
	if tp.supBound > 1 || tp.supRev {
		phases = 2
	}
	// phase 0: everything, supersets with deviation bound 1 in insertion order of the member index;
	// phase 1 (thorough): supersets again with the larger deviation bound, and in reverse insertion order (bound 1).
	for phase := 0; phase < phases; phase++ {
		for _, n := range tp.ns {
			for seed := 0; seed < tp.seeds; seed++ {
				for _, idkind := range idkinds {
					if expired() {
						break
					}
					g := getGroup(n, seed, idkind)
					if !g.ready() {
						continue
					}
					k := g.k

					if phase == 1 {
						for _, mi := range tp.msgsFor(n, seed) {
							for s := k + 1; s <= n; s++ {
								for _, sub := range combos(n, s) {
									if !mine() || expired() {
										continue
									}
									for pi, p := range idrev(s) {
										if pi == 1 && !tp.supRev {
											continue
										}
										ks := g.kase("recover", mi)
										ks.Ord = apply(sub, p)
										bound := 1 // reverse insertion order: one deviation
										if pi == 0 {
											if tp.supBound < 2 {
												continue
											}
											bound = tp.supBound
											ks.minDev = 2 // <= 1 deviation was phase 0
										}
										explore(c, g, ks, bound)
									}
								}
							}
						}
						continue
					}

					// --- A. DKG: every arrival order (all permutations n<=5, rotations+reversals above), every member
					var arrivals [][]int
					if n <= 5 {
						arrivals = perms(n)
					} else {
						arrivals = rotrev(n)
					}
					for ai, ord := range arrivals {
						if !mine() || expired() {
							continue
						}
						for i := 0; i < n; i++ {
							ks := g.kase("dkg", 0)
							ks.Mem, ks.Ord = i, ord
							if ai == 0 || ai == len(arrivals)-1 {
								// additionally every start position of the two map iterations of the aggregation
								explore(c, g, ks, 1)
							} else {
								_, r := dkgRun(g, i, ord, nil)
								record(c, g, ks, nil, r)
							}
						}
					}

					for _, mi := range tp.msgsFor(n, seed) {
						// --- pairing checks: every share under the member's public share, the result under the group key
						for i := 0; i < n; i++ {
							if !mine() || expired() {
								continue
							}
							ks := g.kase("share-verify", mi)
							ks.Mem = i
							record(c, g, ks, nil, execCase(g, &ks, nil))
						}
						if mine() && !expired() {
							ks := g.kase("group-verify", mi)
							record(c, g, ks, nil, execCase(g, &ks, nil))
							controls(c, g, mi)
						}
						// --- one set of share objects reused over consecutive recoveries
						if mine() && !expired() {
							t0 := cpuMs()
							ks := g.kase("reuse", mi)
							record(c, g, ks, nil, execCase(g, &ks, nil))
							c.Count("cpu_ms_reuse", cpuMs()-t0)
						}

						// --- B1. RecoverGroupSignature on maps of every size k..n
						for s := k; s <= n; s++ {
							for _, sub := range combos(n, s) {
								if !mine() || expired() {
									continue
								}
								var ins [][]int
								switch {
								case s > k:
									ins = idrev(s)[:1]
								case k <= 4:
									ins = perms(k)
								default:
									ins = idrev(k)
								}
								for _, p := range ins {
									ks := g.kase("recover", mi)
									ks.Ord = apply(sub, p)
									explore(c, g, ks, 1)
								}
							}
						}

						// --- B2. the two share collectors, every k-subset, arrival orders
						var orders [][]int
						if k <= 4 {
							orders = perms(k)
						} else {
							orders = rotrev(k)
						}
						for _, sub := range combos(n, k) {
							for _, which := range []string{"gen-model", "gen-round"} {
								if !mine() || expired() {
									continue
								}
								for _, p := range orders {
									ks := g.kase(which, mi)
									ks.Ord = apply(sub, p)
									explore(c, g, ks, tp.genBound(n))
								}
							}
						}
					}
				}
			}
		}
	}
	c.Note("groups_per_worker", groups)
	c.Note("member_ids_ge_group_order_per_worker", geOrder)
	c.Note("member_ids_equal_group_order_per_worker", zeroRes)
	c.Note("max_choice_points_per_execution", maxPoints)
	c.Note("group_sizes", tp.ns)
	c.Note("superset_deviation_bound", tp.supBound)
	c.Note("excluded", "the literal zero id (rejected by the node) and member ids that are pairwise congruent modulo the group order are outside the statement's setting (no Shamir scheme can interpolate them) and are not generated; id == group order (0 mod order, a valid id) IS included: one member of every 'big' group")
	c.Note("map_bound", "maps with <= 8 entries: every distinct iteration order Go can produce (all occupied start slots); maps with 9..10 entries (n=9,10 supersets / DKG pools): all 16 start positions, but the bucket assignment depends on the per-map hash seed, so those orders are enumerated without being reproducible")
}

// controls: informational outcome classes only (never a violation): a share does not verify
// under another member's public share, and fewer than k shares do not give the group signature.
func controls(c *fw.Ctx, g *group, mi int) {
	fw.Try(func() {
		ok := groupsig.VerifySig(g.memPub[0], g.msgs[mi], g.share(mi, 1))
		c.Outcome(fmt.Sprintf("control:share-under-other-members-key-verifies=%v", ok))
		if g.k >= 2 {
			m := map[string]groupsig.Signature{}
			for j := 0; j < g.k-1; j++ {
				m[g.keys[j]] = g.share(mi, j)
			}
			s := groupsig.RecoverGroupSignature(m, g.k-1)
			c.Outcome(fmt.Sprintf("control:k-1-shares-give-group-signature=%v", s != nil && bytes.Equal(s.Serialize(), g.expect[mi])))
		}
	})
}

func replay(c *fw.Ctx, raw json.RawMessage) {
	var k kase
	if err := json.Unmarshal(raw, &k); err != nil {
		panic(err)
	}
	boot()
	g := setup(k.N, k.Seed, k.IDs)
	for _, r := range g.setupBad {
		c.Violation(r.sig, "dkg", r.msg, k)
	}
	if !g.ready() {
		return
	}
	r := execCase(g, &k, fw.NewReplayChooser(k.Ch))
	if r.bad {
		c.Violation(r.sig, k.Part, r.msg, k)
	}
}

func main() {
	fw.Main(fw.Check{
		ID: "C13", Level: "exploration",
		Rule: "one case = (group built by the node's own DKG: size n, dealer seed set, member-id family) x message x path " +
			"(dkg arrival order per member | share pairing check | RecoverGroupSignature on a map of s>=k shares | model.GroupSignGenerator | round1 groupSignGenerator | " +
			"one set of share objects reused over consecutive recoveries of every k-subset, its supersets and both collectors, then re-verified | " +
			"message sweep: the whole property for a fixed small group and one counter message | " +
			"message length: the whole property for one message of each length 0..4096 (two contents) and rejection of sibling messages sharing its first 64 / last 32 bytes | " +
			"persistence sweep: one DKG instance (many dealer seed sets) whose key material went through the joined-group store and back, then the whole property | " +
			"round1.Update fed the honest pieces of a subset of >= k members in an arrival order plus ONE piece that must not count (good block share + bad beacon share | bad block + good beacon | both bad | duplicate) from a member inside or outside the subset at every position | " +
			"production call sites that size a collector themselves: createGroupContext (parent size, candidate count), round1.Start, group public key collector, DKG context with a larger candidate list) " +
			"x ordered member subset x explorer choice sequence (which k iteration positions the random selection keeps, start slot of every map iteration). " +
			"Start slots beyond the occupied ones of a one-bucket map are not enumerated (same order), so counted cases differ in input or in iteration order; " +
			"every counted case combines >= 2 shares/pieces, its result was compared byte-wise with the subset-independent expectation and the share objects handed in were required to be unchanged",
		Assumptions: []string{
			"Go toolchain; runtime patched only at the map-iteration start position (mapiter overlay)",
			"crypto/rand.Reader is replaced by a harness reader only while RecoverGroupSignature draws its k-selection, so that the selection is enumerated instead of sampled; base.Rand is used to predict (steer) the selection, never as oracle",
			"oracle uses the repository's curve arithmetic only through identities: (sum a_j)*G2 = sum(a_j*G2), Sign(sum of dealer secrets, m) is the unique signature every threshold subset must give; scalar sums are recomputed with math/big",
			"model.Param initialised as logical.InitConsensus does (dev: minimum group size 3); threshold = model.Param.GetGroupK(n) as derived by the node",
			"the zero id and ids congruent to each other modulo the group order are outside the statement's setting; id == group order is inside it",
		},
		Run: run, Replay: replay,
		Budget: func(tier string) time.Duration {
			if tier == "thorough" {
				return 17 * time.Minute
			}
			return 70 * time.Second
		},
	})
}
