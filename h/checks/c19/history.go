// C19, reusable part: operations on the real group chain, the reference model
// `refGroups` (a slice), the observation of the implementation and its comparison
// with the model.  runHistory = "reset to pristine -> build history -> observe ->
// compare with model"; the crash-point part can reuse applyOp / checkAgainst /
// implState on a store it prepared itself.
package main

import (
	"bytes"
	"crypto/sha256"
	"encoding/binary"
	"encoding/hex"
	"encoding/json"
	"fmt"
	"runtime/debug"
	"sort"
	"strings"
	"time"

	"verif/h/fw"
	"verif/h/node"

	"com.tuntun.rangers/node/src/common"
	"com.tuntun.rangers/node/src/core"
	"com.tuntun.rangers/node/src/middleware/db"
	"com.tuntun.rangers/node/src/middleware/mysql"
	"com.tuntun.rangers/node/src/middleware/types"
)

// ---------------------------------------------------------------- alphabet

const (
	opAdd0     = "add0"     // valid group, alternative 0 for the next height (parent = genesis)
	opAdd1     = "add1"     // valid group, alternative 1 for the next height (parent = current last)
	opWrongPre = "wrongpre" // PreGroup = an older listed group (or an unknown id when only genesis is listed)
	opNoParent = "noparent" // Parent = id that never existed
	opDup      = "dup"      // Id = id of the current last group
	opRm       = "rm"       // remove-last (VerifGroupRemoveLast)
	opRm2      = "rm2"      // fork switch to the ancestor two below the tip (production removeFromCommonAncestor)
	opRestart  = "restart"  // VerifGroupReinit: re-run group chain initialisation over the same store

	// ID dimension of add-group: the group is otherwise valid (PreGroup = current last,
	// Parent = genesis) but its Id is byte-identical to something that lives (or will live)
	// in the same key space of the group store, or is degenerate.
	opIdH0     = "id-h0"      // Id = height-index key of height 0
	opIdHLast  = "id-hlast"   // Id = height-index key of the last existing height (count-1)
	opIdHNext  = "id-hnext"   // Id = height-index key of the next height (count), the one this add writes
	opIdHNext1 = "id-hnext1"  // Id = height-index key of count+1, written by the following add
	opIdKLast  = "id-klast"   // Id = the literal last-group pointer key
	opIdKCount = "id-kcount"  // Id = the literal count key
	opIdGen    = "id-genesis" // Id = id of the genesis group
	opIdEmpty  = "id-empty"   // empty Id
	opId1Byte  = "id-1byte"   // 1-byte Id
)

var alphabet = []string{opAdd0, opAdd1, opWrongPre, opNoParent, opDup, opRm, opRm2, opRestart,
	opIdH0, opIdHLast, opIdHNext, opIdHNext1, opIdKLast, opIdKCount, opIdGen, opIdEmpty, opId1Byte,
	opAdd0GhCount, opAdd0GhPrev, opAdd0GhNext, opAdd0GhBig, opAdd1GhNext, opAdd1GhOne, opAdd0WorkDismiss,
	// fork switch, plain branches (explored in every state)
	"sw1:add1", "sw2:add0", "sw2:add1+add0",
	// fork switch whose first branch group comes from the refused / ID / field dimensions
	"sw1:dup", "sw1:id-genesis", "sw1:id-h0", "sw1:id-hnext", "sw1:id-hnext1", "sw1:id-klast", "sw1:id-kcount", "sw1:id-empty", "sw1:id-1byte",
	"sw1:add0", "sw1:add0+add1", "sw1:wrongpre", "sw1:noparent", "sw1:add0.workdismiss", "sw1:add1+id-hnext", "sw1:add0+dup",
	"sw2:dup", "sw2:id-genesis", "sw2:id-h0", "sw2:id-hnext", "sw2:id-klast", "sw2:id-kcount", "sw2:id-empty", "sw2:noparent", "sw2:add0+id-genesis"}

// Fork switch: "sw<d>:<b1>[+<b2>]" = the production groupChainFork.triggerOnChain
// (VerifGroupForkSwitch) on the common ancestor d below the head with a branch of one or
// two groups taken from the add alphabet (built for the chain as it is after the unwind).
// Model: remove down to the ancestor, then add each branch group with the accept / refuse
// rule of AddGroup (decision taken from the implementation; a refused group stops the switch).
func isSwitch(op string) bool { return strings.HasPrefix(op, "sw") && strings.Contains(op, ":") }

func parseSwitch(op string) (d int, branch []string) {
	i := strings.IndexByte(op, ':')
	d = int(op[2] - '0')
	return d, strings.Split(op[i+1:], "+")
}

// plainSwitch: every branch group is a plain valid addition.
func plainSwitch(op string) bool {
	if op == "sw1:add0" || op == "sw1:add0+add1" {
		return false // explored close to the post-boot state only (budget)
	}
	_, br := parseSwitch(op)
	for _, b := range br {
		if b != opAdd0 && b != opAdd1 {
			return false
		}
	}
	return true
}

func switchUsesOdd(op string) bool {
	_, br := parseSwitch(op)
	for _, b := range br {
		if isOddId(b) {
			return true
		}
	}
	return false
}

// shallowOnly: ops that are applied only in states close to the post-boot state.
func shallowOnly(op string) bool {
	return isOddId(op) || (isSwitch(op) && !plainSwitch(op))
}

func applySwitch(m *refGroups, op string) stepResult {
	r := stepResult{Op: op, OddListed: m.oddListed}
	d, kinds := parseSwitch(op)
	anc := m.list[len(m.list)-1-d]
	// plan the branch on a copy of the model as it will be after the unwind
	plan := &refGroups{list: append([]*types.Group{}, m.list[:len(m.list)-d]...)}
	var branch, mcopies []*types.Group
	for _, k := range kinds {
		_, variant := splitVariant(k)
		g := plan.build(k)
		carryFields(g, variant, uint64(len(plan.list)))
		g.GroupHeight = uint64(len(plan.list)) // the fork files its groups by this field
		mg := plan.build(k)
		mg.GroupHeight = uint64(len(plan.list))
		branch, mcopies = append(branch, g), append(mcopies, mg)
		plan.list = append(plan.list, mg)
	}
	var ok bool
	accepted := 0
	keep := len(m.list) - d // length of the list after the unwind
	old := m.list
	p, v, site := fw.Try(func() {
		stored := core.GetGroupChain().GetGroupById(anc.Id)
		if stored == nil {
			stored = cloneGroup(anc)
		}
		ok = core.VerifGroupForkSwitch(stored, branch)
		// how far the switch got: the last group is the ancestor or one of the branch groups
		if lg := core.GetGroupChain().LastGroup(); lg != nil {
			for i, g := range branch {
				if bytes.Equal(lg.Id, g.Id) && (ok || i < len(branch)-1) {
					accepted = i + 1
				}
			}
		}
		if ok {
			accepted = len(branch)
		}
		// a switch that reports failure and leaves the head where it was did nothing (e.g. the
		// fork object could not find its ancestor again): the statement does not demand the
		// unwind, only a consistent chain
		if lg := core.GetGroupChain().LastGroup(); !ok && accepted == 0 && lg != nil {
			// a failed switch may also stop the unwind above the ancestor (the fork object did
			// not find its ancestor again): any prefix of the old list down to the ancestor is
			// a consistent chain; the statement does not demand the complete unwind
			for n := len(old); n > keep; n-- {
				if bytes.Equal(lg.Id, old[n-1].Id) {
					keep = n
					break
				}
			}
		}
	})
	if p {
		r.Panic, r.Err = site, fmt.Sprint(v)
		return r
	}
	r.Accepted = ok
	if keep != len(old)-d {
		r.Err = fmt.Sprintf("switch failed and unwound %d of %d groups", len(old)-keep, d)
	}
	m.shrink(len(old) - keep)
	for i := 0; i < accepted; i++ {
		m.list = append(m.list, mcopies[i])
		switch k, _ := splitVariant(kinds[i]); {
		case k == opWrongPre:
			r.Forbidden = "add-accepted-with-wrong-pregroup"
		case k == opDup || k == opIdGen:
			r.Forbidden = "add-accepted-with-listed-id"
		}
		if isOddId(kinds[i]) {
			m.oddUsed, m.oddListed, m.oddAt = true, kinds[i], len(m.list)-1
			r.OddListed = kinds[i]
		}
	}
	if !ok && r.Err == "" {
		r.Err = fmt.Sprintf("switch stopped after %d of %d branch groups", accepted, len(branch))
	}
	return r
}

// Field dimension of add-group: "<valid add>.<variant>" is the same group as the valid add
// (same id, links, header hash) but the incoming record carries values in fields that
// AddGroup does not validate and that are outside the header hash: GroupHeight (the chain
// assigns it) and WorkHeight / DismissHeight (AddGroup computes them).  The chain that is
// built must not depend on them: the model element is the one of the plain add.
const (
	opAdd0GhCount     = "add0.gh-count"    // GroupHeight = count (what the chain would assign)
	opAdd0GhPrev      = "add0.gh-prev"     // GroupHeight = count-1, the height of the current last group
	opAdd0GhNext      = "add0.gh-next"     // GroupHeight = count+1
	opAdd0GhBig       = "add0.gh-big"      // GroupHeight = 2^40
	opAdd1GhNext      = "add1.gh-next"     // alternative 1, GroupHeight = count+1
	opAdd1GhOne       = "add1.gh-1"        // alternative 1, GroupHeight = 1, an existing inner height
	opAdd0WorkDismiss = "add0.workdismiss" // WorkHeight / DismissHeight pre-filled, GroupHeight = count+2
)

// splitVariant returns the plain op and the field variant ("" for ops without one).
func splitVariant(op string) (base, variant string) {
	if i := strings.IndexByte(op, '.'); i > 0 {
		return op[:i], op[i+1:]
	}
	return op, ""
}

// carryFields sets the unvalidated fields of the incoming record g for a field variant.
func carryFields(g *types.Group, variant string, count uint64) {
	switch variant {
	case "":
	case "gh-count":
		g.GroupHeight = count
	case "gh-prev":
		g.GroupHeight = count - 1
	case "gh-next":
		g.GroupHeight = count + 1
	case "gh-big":
		g.GroupHeight = 1 << 40
	case "gh-1":
		g.GroupHeight = 1
	case "workdismiss":
		g.GroupHeight = count + 2
		g.Header.WorkHeight = 7
		g.Header.DismissHeight = 9
	default:
		panic("unknown field variant " + variant)
	}
}

// Store layout the ID dimension aims at.  These are the repository's constants
// (core.lastGroupKey, core.groupCountKey, core.generateKey = 8-byte big endian); they are
// not exported, so the check states them here and verifies them against the real store
// right after boot (verifyLayout): a different layout stops the run (exit 2, no verdict).
var (
	keyLast  = []byte("gcurrent")
	keyCount = []byte("gcount")
)

func heightKey(h uint64) []byte {
	b := make([]byte, 8)
	binary.BigEndian.PutUint64(b, h)
	return b
}

func isOddId(op string) bool { return strings.HasPrefix(op, "id-") }

func opIndex(name string) int {
	for i, a := range alphabet {
		if a == name {
			return i
		}
	}
	return -1
}

func opClass(op string, accepted bool) string {
	if isSwitch(op) {
		return "fork-switch-" + op[strings.IndexByte(op, ':')+1:]
	}
	op, _ = splitVariant(op)
	switch op {
	case opAdd0, opAdd1:
		if accepted {
			return "add"
		}
		return "rejected-add"
	case opWrongPre, opNoParent, opDup:
		if accepted {
			return "add"
		}
		return "rejected-add"
	}
	if isOddId(op) {
		if accepted {
			return "add-" + op
		}
		return "rejected-add"
	}
	switch op {
	case opRm, opRm2:
		return "remove"
	}
	return "restart"
}

// ---------------------------------------------------------------- reference model

// refGroups is the reference model: the list of groups, element 0 = genesis group.
type refGroups struct {
	list []*types.Group
	// oddUsed: an addition of the ID dimension was accepted earlier in this history (at
	// most one per history is explored); oddListed: its kind while it is still listed.
	oddUsed   bool
	oddListed string
	oddAt     int
}

func (m *refGroups) last() *types.Group { return m.list[len(m.list)-1] }

func (m *refGroups) enabled(op string) bool {
	if isSwitch(op) {
		d, _ := parseSwitch(op)
		return len(m.list) >= d+1 && !(switchUsesOdd(op) && m.oddUsed)
	}
	switch op {
	case opRm:
		return len(m.list) >= 2 // the fork switch never removes the genesis group
	case opRm2:
		return len(m.list) >= 3
	case opIdHLast:
		return !m.oddUsed && len(m.list) >= 2 // with one group it is id-h0
	case opAdd1GhOne:
		return len(m.list) >= 3 // height 1 is an inner height
	}
	if isOddId(op) {
		return !m.oddUsed
	}
	return true
}

// shrink drops the last n elements of the list.
func (m *refGroups) shrink(n int) {
	m.list = m.list[:len(m.list)-n]
	if m.oddListed != "" && m.oddAt >= len(m.list) {
		m.oddListed = ""
	}
}

func (m *refGroups) ids() []string {
	out := make([]string, len(m.list))
	for i, g := range m.list {
		out[i] = hex.EncodeToString(g.Id)
	}
	return out
}

func gid(h int, alt int) []byte {
	id := make([]byte, 32)
	for i := range id {
		id[i] = byte(i*13 + h*7 + alt*3 + 1)
	}
	id[0], id[1], id[2] = 0xC1, 0x90|byte(alt), byte(h)
	return id
}

var memberIds = [][]byte{gid(0xE0, 5), gid(0xE1, 5), gid(0xE2, 5)}

// build returns a freshly allocated group for an add-like op in the current model state.
func (m *refGroups) build(op string) *types.Group {
	op, _ = splitVariant(op) // the field variant only concerns the incoming copy (applyOp)
	h := len(m.list)
	g := &types.Group{Header: &types.GroupHeader{}}
	hd := g.Header
	hd.PreGroup = append([]byte{}, m.last().Id...)
	hd.Parent = append([]byte{}, m.list[0].Id...)
	switch op {
	case opAdd0:
		g.Id = gid(h, 0)
	case opAdd1:
		g.Id = gid(h, 1)
		hd.Parent = append([]byte{}, m.last().Id...)
	case opWrongPre:
		g.Id = gid(h, 2)
		if h >= 2 {
			hd.PreGroup = append([]byte{}, m.list[h-2].Id...)
		} else {
			hd.PreGroup = gid(0xEE, 6)
		}
	case opNoParent:
		g.Id = gid(h, 3)
		hd.Parent = gid(0xEF, 6)
	case opDup:
		g.Id = append([]byte{}, m.last().Id...)
	case opIdH0:
		g.Id = heightKey(0)
	case opIdHLast:
		g.Id = heightKey(uint64(h - 1))
	case opIdHNext:
		g.Id = heightKey(uint64(h))
	case opIdHNext1:
		g.Id = heightKey(uint64(h + 1))
	case opIdKLast:
		g.Id = append([]byte{}, keyLast...)
	case opIdKCount:
		g.Id = append([]byte{}, keyCount...)
	case opIdGen:
		g.Id = append([]byte{}, m.list[0].Id...)
	case opIdEmpty:
		g.Id = []byte{}
	case opId1Byte:
		g.Id = []byte{0x01}
	default:
		panic("build: not an add op: " + op)
	}
	hd.CreateBlockHash = gid(h, 7)
	hd.BeginTime = time.Unix(1700000000, 0).UTC()
	hd.MemberRoot = common.BytesToHash(gid(h, 8))
	hd.CreateHeight = uint64(10 * h)
	hd.ReadyHeight = uint64(10*h + 5)
	hd.Hash = hd.GenHash()
	g.PubKey = append([]byte{0x04}, g.Id...)
	g.Signature = gid(h, 9)
	g.Members = [][]byte{memberIds[0], memberIds[1], memberIds[2]}
	return g
}

// ---------------------------------------------------------------- one operation

type stepResult struct {
	Op       string `json:"op"`
	Accepted bool   `json:"accepted"`
	Err      string `json:"err,omitempty"`
	Panic    string `json:"panic,omitempty"` // repository frame of a panic inside the op
	// Forbidden is set when the implementation accepted an addition that cannot keep
	// the list a gap-free linked list with unique ids.
	Forbidden string `json:"forbidden,omitempty"`
	// OddListed: kind of the ID-dimension group that was listed before or after this op.
	OddListed string `json:"odd_listed,omitempty"`
}

// applyOp executes op on the real group chain and steps the model.  The model takes the
// accept/reject decision of additions from the implementation (the statement does not
// say which additions must be refused) except that accepting a wrong predecessor or a
// listed id is reported: no list can satisfy the statement afterwards.
func applyOp(m *refGroups, op string) stepResult {
	if isSwitch(op) {
		return applySwitch(m, op)
	}
	r := stepResult{Op: op, OddListed: m.oddListed}
	kind := op
	_, variant := splitVariant(op)
	if isOddId(op) || variant != "" {
		kind = "add"
	}
	switch kind {
	case "add", opAdd0, opAdd1, opWrongPre, opNoParent, opDup:
		g := m.build(op)
		carryFields(g, variant, uint64(len(m.list)))
		var err error
		p, v, site := fw.Try(func() { err = core.GetGroupChain().AddGroup(g) })
		if p {
			r.Panic = site
			r.Err = fmt.Sprint(v)
			return r
		}
		if err != nil {
			r.Err = err.Error()
			return r
		}
		r.Accepted = true
		mg := m.build(op) // the model keeps its own copy; the chain keeps g
		mg.GroupHeight = uint64(len(m.list))
		m.list = append(m.list, mg)
		if op == opWrongPre {
			r.Forbidden = "add-accepted-with-wrong-pregroup"
		}
		if op == opDup || op == opIdGen {
			r.Forbidden = "add-accepted-with-listed-id"
		}
		if isOddId(op) {
			m.oddUsed, m.oddListed, m.oddAt = true, op, len(m.list)-1
			r.OddListed = op
		}
	case opRm:
		var ok bool
		p, v, site := fw.Try(func() { ok = core.VerifGroupRemoveLast() })
		if p {
			r.Panic, r.Err = site, fmt.Sprint(v)
			return r
		}
		r.Accepted = ok
		if ok {
			m.shrink(1)
		}
	case opRm2:
		anc := m.list[len(m.list)-3]
		var stored *types.Group
		p, v, site := fw.Try(func() {
			// the fork switch takes the common ancestor from its own store; it is a copy of
			// the group on the chain
			stored = core.GetGroupChain().GetGroupById(anc.Id)
			if stored == nil {
				stored = cloneGroup(anc)
			}
			core.VerifGroupRemoveFromAncestor(stored)
		})
		if p {
			r.Panic, r.Err = site, fmt.Sprint(v)
			return r
		}
		r.Accepted = true
		m.shrink(2)
	case opRestart:
		p, v, site := fw.Try(func() { core.VerifGroupReinit() })
		if p {
			r.Panic, r.Err = site, fmt.Sprint(v)
			return r
		}
		r.Accepted = true
	default:
		panic("unknown op " + op)
	}
	return r
}

func cloneGroup(g *types.Group) *types.Group {
	b, _ := json.Marshal(g)
	var out *types.Group
	json.Unmarshal(b, &out)
	return out
}

// ---------------------------------------------------------------- oracle

// clauses of the statement, one bit each
const (
	clCount = iota
	clLast
	clWalk
	clHeightBelow
	clHeightAbove
	clById
	clSync
	clPanic
	nClauses
)

var clauseName = [nClauses]string{
	"count-not-list-length",
	"last-group-not-list-tail",
	"predecessor-walk-not-the-list",
	"height-lookup-below-count-wrong",
	"stale-height-index", // a lookup at or above the count returns a group
	"listed-group-not-retrievable-by-id",
	"sync-groups-unlisted",
	"panic-in-observer",
}

type failure struct {
	Clause int
	Msg    string
}

func short(id []byte) string {
	if len(id) == 0 {
		return "<empty>"
	}
	s := hex.EncodeToString(id)
	if len(s) > 8 {
		s = s[:8]
	}
	return s
}

func sameGroup(got, want *types.Group) bool {
	return got != nil && got.Header != nil && bytes.Equal(got.Id, want.Id) &&
		bytes.Equal(got.Header.PreGroup, want.Header.PreGroup) && got.Header.Hash == want.Header.Hash
}

func gdesc(g *types.Group) string {
	if g == nil {
		return "nil"
	}
	if g.Header == nil {
		return short(g.Id) + "(no header)"
	}
	return fmt.Sprintf("%s(pre %s,h%d)", short(g.Id), short(g.Header.PreGroup), g.GroupHeight)
}

// checkAgainst observes the group chain through its public interface and compares every
// observable with the list the model holds.  Only reads.
func checkAgainst(list []*types.Group) (fails []failure) {
	add := func(cl int, f string, a ...interface{}) { fails = append(fails, failure{cl, fmt.Sprintf(f, a...)}) }
	p, v, site := fw.Try(func() {
		gc := core.GetGroupChain()
		n := uint64(len(list))
		listed := map[string]*types.Group{}
		for _, g := range list {
			listed[string(g.Id)] = g
		}

		// the number of groups equals the length of the list
		if c := gc.Count(); c != n {
			add(clCount, "Count()=%d, list length %d", c, n)
		}
		// the recorded last group is the tail ...
		lg := gc.LastGroup()
		if !sameGroup(lg, list[n-1]) {
			add(clLast, "LastGroup()=%s, list tail %s", gdesc(lg), gdesc(list[n-1]))
		}
		// ... and reachable from genesis through predecessor links: walking back from it
		// (Iterator) yields exactly the list, ending at the genesis group
		it := gc.Iterator()
		var walk []*types.Group
		for g := it.Current(); g != nil && len(walk) < len(list)+3; g = it.MovePre() {
			walk = append(walk, g)
		}
		okWalk := len(walk) == len(list)
		for i := 0; okWalk && i < len(walk); i++ {
			okWalk = sameGroup(walk[i], list[len(list)-1-i])
		}
		if !okWalk {
			var ds []string
			for _, g := range walk {
				ds = append(ds, gdesc(g))
			}
			add(clWalk, "walk back from last = [%s], list has %d groups %v", strings.Join(ds, " "), n, idsOf(list))
		}
		// height index
		for i := uint64(0); i < n; i++ {
			if g := gc.GetGroupByHeight(i); !sameGroup(g, list[i]) {
				add(clHeightBelow, "GetGroupByHeight(%d)=%s, list[%d]=%s (count %d)", i, gdesc(g), i, gdesc(list[i]), n)
			}
		}
		for i := n; i <= n+2; i++ {
			if g := gc.GetGroupByHeight(i); g != nil {
				add(clHeightAbove, "GetGroupByHeight(%d)=%s although the list has only %d groups", i, gdesc(g), n)
			}
		}
		// every listed group is retrievable by id
		for i, w := range list {
			if g := gc.GetGroupById(w.Id); !sameGroup(g, w) {
				add(clById, "GetGroupById(list[%d]=%s)=%s", i, short(w.Id), gdesc(g))
			}
		}
		// GetSyncGroupsById returns only listed groups
		for i, w := range list {
			for j, g := range gc.GetSyncGroupsById(w.Id) {
				if g == nil {
					add(clSync, "GetSyncGroupsById(list[%d])[%d] = nil (list length %d)", i, j, n)
				} else if lw := listed[string(g.Id)]; lw == nil || !sameGroup(g, lw) {
					add(clSync, "GetSyncGroupsById(list[%d])[%d] = %s is not a listed group", i, j, gdesc(g))
				}
			}
		}
	})
	if p {
		add(clPanic, "panic while observing: %v at %s", v, site)
	}
	return fails
}

func idsOf(list []*types.Group) []string {
	out := make([]string, len(list))
	for i, g := range list {
		out[i] = short(g.Id)
	}
	return out
}

func failMask(fs []failure) uint32 {
	var m uint32
	for _, f := range fs {
		m |= 1 << uint(f.Clause)
	}
	return m
}

// ---------------------------------------------------------------- implementation state

var groupDB db.Database

func groupStore() db.Database {
	if groupDB == nil {
		d, err := db.NewDatabase("group") // a second handle on the chain's prefixed store
		if err != nil {
			panic(err)
		}
		groupDB = d
	}
	return groupDB
}

// storeDump lists every key/value of the group store (iterator over its prefix) plus the
// rows of the sqlite side index.  Keys of the "groupFork" store share the prefix and are
// not part of the group store.
func storeKeys() (keys [][]byte, vals [][]byte) {
	it := groupStore().NewIterator()
	defer it.Release()
	for it.Next() {
		k := append([]byte{}, it.Key()...)
		k = k[len("group"):]
		if bytes.HasPrefix(k, []byte("Fork")) {
			continue
		}
		keys = append(keys, k)
		vals = append(vals, append([]byte{}, it.Value()...))
	}
	return
}

func storeDump() string {
	var b strings.Builder
	keys, vals := storeKeys()
	for i := range keys {
		fmt.Fprintf(&b, "%x=%x\n", keys[i], vals[i])
	}
	rows := mysql.SelectValidGroups(0)
	sort.Strings(rows)
	fmt.Fprintf(&b, "side-index:%d:%s\n", mysql.CountGroups(), strings.Join(rows, ","))
	return b.String()
}

// implState is the canonical dump of the implementation state: persistent store, side
// index and the in-memory mirror (count, last group).
func implState() string {
	var b strings.Builder
	b.WriteString(storeDump())
	p, v, _ := fw.Try(func() {
		gc := core.GetGroupChain()
		lg, _ := json.Marshal(gc.LastGroup())
		fmt.Fprintf(&b, "mem:count=%d last=%s\n", gc.Count(), lg)
	})
	if p {
		fmt.Fprintf(&b, "mem:panic %v\n", v)
	}
	return b.String()
}

func stateKey(m *refGroups) string {
	h := sha256.New()
	h.Write([]byte(implState()))
	h.Write([]byte(strings.Join(m.ids(), ",")))
	if m.oddUsed {
		h.Write([]byte("|odd-id budget used"))
	}
	return string(h.Sum(nil)[:16])
}

// ---------------------------------------------------------------- fresh instance

var (
	pristineState string            // implState right after boot
	pristineKV    map[string][]byte // group store right after boot
	pristineRows  map[string][3]uint64
	pristineCount uint64
	pristineLast  []byte // JSON of the last group right after boot
	genesisList   []*types.Group
	layoutErr     error // the post-boot store does not have the layout the ID dimension assumes
)

// verifyLayout compares the post-boot store with the assumed layout: one record per
// genesis group, one height key per genesis group, the last pointer, the count, nothing else.
func verifyLayout() error {
	n := len(genesisList)
	want := map[string][]byte{
		string(keyLast):  genesisList[n-1].Id,
		string(keyCount): heightKey(uint64(n)), // the count is stored as 8-byte big endian as well
	}
	for i, g := range genesisList {
		want[string(heightKey(uint64(i)))] = g.Id
	}
	for k, v := range want {
		if got, ok := pristineKV[k]; !ok || !bytes.Equal(got, v) {
			return fmt.Errorf("group store layout: key %q holds %x after boot, assumed %x", k, got, v)
		}
	}
	for k := range pristineKV {
		if _, ok := want[k]; ok {
			continue
		}
		isRecord := false
		for _, g := range genesisList {
			isRecord = isRecord || k == string(g.Id)
		}
		if !isRecord {
			return fmt.Errorf("group store layout: unknown bookkeeping key %q after boot (ID dimension of the check needs an update)", k)
		}
	}
	return nil
}

// rowId maps the hash column of a side index row back to the id the repository's
// DeleteGroup / SelectGroup need (they apply common.ToHex, which prints the empty id as "0x0").
func rowId(hexid string) []byte {
	if hexid == common.ToHex(nil) {
		return []byte{}
	}
	return common.FromHex(hexid)
}

func sideRows() map[string][3]uint64 {
	out := map[string][3]uint64{}
	for _, hexid := range mysql.SelectValidGroups(0) {
		w, d, h := mysql.SelectGroup(rowId(hexid))
		out[hexid] = [3]uint64{w, d, h}
	}
	return out
}

// capturePristine is called once right after node.Boot.  It records the post-boot image
// and checks that the full reset (wipe + first-boot initialisation) reproduces it.
func capturePristine() error {
	// the model's genesis elements come from the consensus side (the same source the
	// chain initialisation uses), not from the chain under test
	genesisList = nil
	for i, gi := range (node.Stub{}).GenerateGenesisInfo() {
		g := cloneGroup(&gi.Group)
		g.GroupHeight = uint64(i)
		genesisList = append(genesisList, g)
	}
	if len(genesisList) == 0 {
		return fmt.Errorf("no genesis group")
	}
	gc := core.GetGroupChain()
	n := gc.Count()
	pristineState = implState()
	pristineKV = map[string][]byte{}
	keys, vals := storeKeys()
	for i := range keys {
		pristineKV[string(keys[i])] = vals[i]
	}
	layoutErr = verifyLayout()
	pristineRows = sideRows()
	if uint64(len(pristineRows)) != mysql.CountGroups() {
		return fmt.Errorf("side index rows cannot be enumerated (%d of %d)", len(pristineRows), mysql.CountGroups())
	}
	pristineCount = n
	pristineLast, _ = json.Marshal(gc.LastGroup())
	if err := resetByReinit(); err != nil {
		return err
	}
	return resetToPristine()
}

// resetByReinit: every key of the group store and every row of the side index is
// deleted, then the unmodified initialisation runs on the empty store (the same path
// as the first boot: it writes the genesis groups).  The result must be byte-identical
// to the image right after boot.  (Costs a LevelDB close/open of the joined-group
// store; used once per worker to validate the image, see resetToPristine.)
func resetByReinit() error {
	keys, _ := storeKeys()
	st := groupStore()
	for _, k := range keys {
		if err := st.Delete(k); err != nil {
			return err
		}
	}
	for hexid := range sideRows() {
		if err := mysql.DeleteGroup(rowId(hexid)); err != nil {
			return err
		}
	}
	if n := mysql.CountGroups(); n != 0 {
		return fmt.Errorf("side index still has %d rows after wipe", n)
	}
	if k, _ := storeKeys(); len(k) != 0 {
		return fmt.Errorf("group store still has %d keys after wipe", len(k))
	}
	p, v, site := fw.Try(func() { core.VerifGroupReinit() })
	if p {
		return fmt.Errorf("re-initialisation on the empty store failed: %v at %s", v, site)
	}
	if s := implState(); s != pristineState {
		return fmt.Errorf("state after wipe + initialisation differs from the state after boot:\n--- boot\n%s--- reset\n%s", pristineState, s)
	}
	return nil
}

// resetToPristine makes the group chain a fresh instance before a history: the group
// store and the side index are rewritten to their post-boot content through their
// public interfaces and the two in-memory fields of the chain object (count, last group)
// are set to their post-boot values.  The complete image (every key/value of the store,
// side index rows, memory mirror) must then be byte-identical to the post-boot image.
func resetToPristine() error {
	st := groupStore()
	keys, vals := storeKeys()
	have := map[string]bool{}
	for i, k := range keys {
		want, ok := pristineKV[string(k)]
		if !ok {
			if err := st.Delete(k); err != nil {
				return err
			}
			continue
		}
		have[string(k)] = bytes.Equal(want, vals[i])
	}
	for k, v := range pristineKV {
		if !have[k] {
			if err := st.Put([]byte(k), v); err != nil {
				return err
			}
		}
	}
	rows := sideRows()
	for hexid, r := range rows {
		if pr, ok := pristineRows[hexid]; !ok || pr != r {
			if err := mysql.DeleteGroup(rowId(hexid)); err != nil {
				return err
			}
			delete(rows, hexid)
		}
	}
	for _, g := range genesisList {
		if _, ok := rows[common.ToHex(g.Id)]; !ok {
			if err := mysql.InsertGroup(g); err != nil {
				return err
			}
		}
	}
	if n := mysql.CountGroups(); n != uint64(len(pristineRows)) {
		return fmt.Errorf("side index has %d rows after reset, %d after boot", n, len(pristineRows))
	}
	if got := sideRows(); fmt.Sprint(got) != fmt.Sprint(pristineRows) {
		return fmt.Errorf("side index rows after reset %v, after boot %v", got, pristineRows)
	}
	var last *types.Group
	if err := json.Unmarshal(pristineLast, &last); err != nil {
		return err
	}
	p, v, site := fw.Try(func() { core.VerifGroupSetMemory(pristineCount, last) })
	if p {
		return &noChainObject{fmt.Sprintf("cannot reset the chain object: %v at %s", v, site)}
	}
	if s := implState(); s != pristineState {
		return fmt.Errorf("state after reset differs from the state after boot:\n--- boot\n%s--- reset\n%s", pristineState, s)
	}
	return nil
}

// noChainObject: the process has no group chain object any more (an initialisation of an
// earlier history panicked half way).
type noChainObject struct{ msg string }

func (e *noChainObject) Error() string { return e.msg }

var jgsGeneration int

// freshInstance = resetToPristine; when an earlier restart panicked inside the
// initialisation (no chain object, and the private joined-group LevelDB it had already
// opened stays locked by this process) the chain is first rebuilt by the unmodified
// first-boot initialisation with the joined-group store pointed at a new, empty
// directory (a configuration value; that store plays no role in any history).
func freshInstance() error {
	err := resetToPristine()
	if _, dead := err.(*noChainObject); !dead {
		return err
	}
	jgsGeneration++
	// the abandoned store object keeps its 128 MiB write buffer reserved for good
	debug.SetMemoryLimit(int64(400+136*jgsGeneration) << 20)
	common.GlobalConf.SetString(common.ConfigSec, common.DefaultJoinedGroupDatabaseKey, fmt.Sprintf("jgs_c19_%d", jgsGeneration))
	if err := resetByReinit(); err != nil {
		return err
	}
	return resetToPristine()
}

func newModel() *refGroups {
	m := &refGroups{}
	for _, g := range genesisList {
		m.list = append(m.list, cloneGroup(g))
	}
	return m
}

// ---------------------------------------------------------------- history

type histResult struct {
	Steps     []stepResult
	PrefixKey string    // state key before the last op
	Key       string    // state key after the last op
	PrevFails []failure // oracle result before the last op (only when checkFrom allows)
	Fails     []failure // oracle result after the last op
	AllFails  [][]failure
	ListLen   int
	OddUsed   bool   // an ID-dimension addition was accepted in this history
	OddListed string // its kind if it is listed in the final state
	Dead      bool   // an op panicked: the process-global chain object may be unusable
	ResetErr  error
}

// runHistory: fresh instance, replay hist, observe and compare with the model after every
// op with index >= checkFrom-1 (so that the state before op checkFrom is known as well).
// checkFrom = 0 checks the initial state and every step.
func runHistory(hist []string, checkFrom int) *histResult {
	r := &histResult{}
	if err := freshInstance(); err != nil {
		r.ResetErr = err
		return r
	}
	m := newModel()
	r.AllFails = make([][]failure, len(hist)+1)
	if checkFrom <= 0 {
		r.AllFails[0] = checkAgainst(m.list)
	}
	for i, op := range hist {
		if i == len(hist)-1 {
			r.PrefixKey = stateKey(m)
		}
		if !m.enabled(op) {
			r.Steps = append(r.Steps, stepResult{Op: op, Err: "not enabled"})
			r.AllFails[i+1] = r.AllFails[i]
			continue
		}
		s := applyOp(m, op)
		r.Steps = append(r.Steps, s)
		if s.Panic != "" {
			r.Dead = true
			break
		}
		if i+1 >= checkFrom {
			r.AllFails[i+1] = checkAgainst(m.list)
		}
	}
	r.ListLen = len(m.list)
	r.OddUsed, r.OddListed = m.oddUsed, m.oddListed
	if !r.Dead {
		r.Key = stateKey(m)
		r.Fails = r.AllFails[len(hist)]
		if len(hist) > 0 {
			r.PrevFails = r.AllFails[len(hist)-1]
		}
	}
	return r
}

// finding is one violation introduced by the last op of a history.
type finding struct {
	Sig  string
	Part string
	Msg  string
}

// findingsOfStep derives the violations that step i (0-based op index) introduces:
// clauses that fail after the op and did not fail before it (before = clause mask of
// the state the op was applied to).
func findingsOfStep(hist []string, r *histResult, i int, before uint32) []finding {
	var out []finding
	s := r.Steps[i]
	pre := strings.Join(hist[:i], ",")
	// consequences of a listed ID-dimension group carry its kind (the add itself has it in
	// its op class)
	tag := ""
	if s.OddListed != "" && !isOddId(s.Op) && !(isSwitch(s.Op) && strings.Contains(s.Op, s.OddListed)) {
		tag = ":with-" + s.OddListed + "-listed"
	}
	if s.Panic != "" {
		out = append(out, finding{"C19:panic:" + s.Panic + tag, "history",
			fmt.Sprintf("after [%s] op %s panicked: %s", pre, s.Op, s.Err)})
		return out
	}
	if s.Forbidden != "" {
		out = append(out, finding{"C19:" + s.Forbidden, "history",
			fmt.Sprintf("after [%s] AddGroup accepted the %s group", pre, s.Op)})
	}
	seen := map[int]bool{}
	for _, f := range r.AllFails[i+1] {
		if before&(1<<uint(f.Clause)) != 0 || seen[f.Clause] {
			continue
		}
		seen[f.Clause] = true
		out = append(out, finding{"C19:" + clauseName[f.Clause] + "-after-" + opClass(s.Op, s.Accepted) + tag, "history",
			fmt.Sprintf("after [%s] then %s: %s", pre, s.Op, f.Msg)})
	}
	return out
}

func findingsDigest(fs []finding) string {
	var b strings.Builder
	for _, f := range fs {
		b.WriteString(f.Sig)
		b.WriteString("|")
		b.WriteString(f.Msg)
		b.WriteString("\n")
	}
	return b.String()
}
