package main

import (
	"fmt"
	"os"
	"runtime/pprof"
	"time"

	"verif/h/node"

	"com.tuntun.rangers/node/src/core"
	"com.tuntun.rangers/node/src/middleware/mysql"
)

func main() {
	d, _ := os.MkdirTemp("/dev/shm", "c19probe")
	defer os.RemoveAll(d)
	os.Chdir(d)
	t := time.Now()
	if err := node.Boot(node.ForksAllOn, true); err != nil {
		panic(err)
	}
	fmt.Println("boot", time.Since(t))
	f, _ := os.Create("/tmp/c19.prof")
	pprof.StartCPUProfile(f)
	t = time.Now()
	for i := 0; i < 10; i++ {
		core.VerifGroupReinit()
	}
	pprof.StopCPUProfile()
	f.Close()
	fmt.Println("10 reinit", time.Since(t))
	t = time.Now()
	for i := 0; i < 10; i++ {
		mysql.CountGroups()
	}
	fmt.Println("10 count", time.Since(t))
	g := core.GetGroupChain().GetGroupByHeight(0)
	t = time.Now()
	for i := 0; i < 10; i++ {
		mysql.InsertGroup(g)
	}
	fmt.Println("10 insert", time.Since(t))
	t = time.Now()
	for i := 0; i < 100; i++ {
		core.GetGroupChain().GetGroupByHeight(0)
	}
	fmt.Println("100 byheight", time.Since(t))
}
