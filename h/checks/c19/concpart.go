package main

// Concurrent part of C19 (beyond the property's stated quantifier, added because an
// independently seeded change moved the linkage checks of AddGroup out of the critical
// section): two AddGroup calls for sibling groups (same predecessor) run under the
// cooperative scheduler with a scheduling point before every statement of groupchain.go
// and a model of its mutex; for every interleaving within the preemption bound exactly
// one call may succeed and the chain must be the list of one of the two sequential orders.

import (
	"fmt"

	"verif/h/fw"
	"verif/h/sched"

	"com.tuntun.rangers/node/src/core"
	"com.tuntun.rangers/node/src/middleware/types"
)

type concCase struct {
	Conc    string `json:"conc"`
	Choices []int  `json:"choices"`
}

func concPart(c *fw.Ctx, only *concCase) {
	if c.Shard != 0 && only == nil {
		return
	}
	bound := 2
	if c.Thorough() {
		bound = 3
	}
	scenarios := []string{"siblings-at-1", "siblings-at-2"}
	for _, sc := range scenarios {
		if only != nil && only.Conc != sc {
			continue
		}
		finals := map[string]int{}
		run := func(ch sched.Chooser) (errs [2]error, fails [][]failure, res sched.Result, lists [][]*types.Group) {
			if err := resetToPristine(); err != nil {
				infra("%v", err)
			}
			m := newModel()
			if sc == "siblings-at-2" {
				if s := applyOp(m, opAdd0); !s.Accepted {
					infra("setup add failed: %s", s.Err)
				}
			}
			g0, g1 := m.build(opAdd0), m.build(opAdd1)
			bodies := []func(){
				func() { errs[0] = core.GetGroupChain().AddGroup(g0) },
				func() { errs[1] = core.GetGroupChain().AddGroup(g1) },
			}
			res = sched.Run(bodies, ch, 4000)
			for _, op := range []string{opAdd0, opAdd1} {
				mm := &refGroups{list: append([]*types.Group{}, m.list...)}
				mg := mm.build(op)
				mg.GroupHeight = uint64(len(mm.list))
				mm.list = append(mm.list, mg)
				lists = append(lists, mm.list)
				fails = append(fails, checkAgainst(mm.list))
			}
			return
		}
		st := fw.Explore(bound, func(ch *fw.Chooser) {
			errs, fails, res, _ := run(ch)
			c.Transition(int64(res.Steps))
			key := fmt.Sprintf("ok0=%v ok1=%v f0=%d f1=%d", errs[0] == nil, errs[1] == nil, len(fails[0]), len(fails[1]))
			finals[key]++
			cs := concCase{Conc: sc, Choices: ch.Choices()}
			if res.Deadlock {
				c.Violation("C19:conc:deadlock", "schedules", fmt.Sprintf("scenario %s: deadlock under schedule %v", sc, res.Schedule), cs)
				return
			}
			for i, p := range res.Panics {
				if p != nil {
					c.Violation("C19:conc:panic", "schedules", fmt.Sprintf("scenario %s: thread %d panicked: %v (schedule %v)", sc, i, p, res.Schedule), cs)
					return
				}
			}
			ok0, ok1 := errs[0] == nil, errs[1] == nil
			good := (ok0 && !ok1 && len(fails[0]) == 0) || (ok1 && !ok0 && len(fails[1]) == 0)
			if !good {
				msg := fmt.Sprintf("scenario %s, schedule %v (preemptions %d): AddGroup(alt0) err=%v, AddGroup(alt1) err=%v; the chain is neither [.., alt0] (%d mismatches) nor [.., alt1] (%d mismatches)",
					sc, res.Schedule, res.Preemptions, errs[0], errs[1], len(fails[0]), len(fails[1]))
				if len(fails[0]) > 0 {
					msg += "; e.g. " + fails[0][0].Msg
				}
				c.Violation("C19:conc:sibling-adds-not-serialised", "schedules", msg, cs)
			}
		}, func(ch *fw.Chooser) {}, func() bool { return c.Expired() })
		c.Eval(st.Executions)
		c.Trace(st.Executions)
		c.Count("conc_schedules_explored", st.Executions)
		c.Note("conc_"+sc, fmt.Sprintf("schedules=%d outcome_classes=%v max_points=%d bound=%d", st.Executions, finals, st.MaxPoints, bound))
		if st.Divergence != nil {
			c.Violation("C19:conc:harness-replay-divergence", "schedules", st.Divergence.Error(), concCase{Conc: sc})
		}
		if st.Truncated {
			c.Cap("time budget during schedule exploration")
		}
	}
	// leave the store as found
	if err := resetToPristine(); err != nil {
		infra("%v", err)
	}
}
