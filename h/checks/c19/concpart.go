package main

// Concurrent part of C19 (beyond the property's stated quantifier, added because an
// independently seeded change moved the linkage checks of AddGroup out of the critical
// section).  Real group-chain calls run as two threads under the cooperative scheduler with a
// scheduling point before every statement of groupchain.go / groupchain_sync.go and a model
// of the chain's RWMutex; every schedule within the preemption bound is explored.
//
//	siblings-at-k   AddGroup(alt0) || AddGroup(alt1), both valid successors of the same last
//	                group: exactly one succeeds, the chain is the list of one sequential order.
//	add-vs-switch   chain [.., a0]: AddGroup(successor of a0) || fork switch
//	                (removeFromCommonAncestor(parent of a0); AddGroup(a1)): whatever the order,
//	                every serialisation ends in [.., a1]; the switch's own add must succeed.

import (
	"fmt"

	"verif/h/fw"
	"verif/h/sched"

	"com.tuntun.rangers/node/src/core"
	"com.tuntun.rangers/node/src/middleware/types"
)

type concCase struct {
	Conc    string `json:"conc"`
	Choices []int  `json:"choices"`
}

type concRun struct {
	errs    [2]error
	res     sched.Result
	allowed [][]*types.Group // final lists of the serialisations
	okWant  [][2]bool        // which calls succeed in serialisation i
	fails   [][]failure
}

func withNext(list []*types.Group, g *types.Group) []*types.Group {
	mm := &refGroups{list: append([]*types.Group{}, list...)}
	g.GroupHeight = uint64(len(mm.list))
	return append(mm.list, g)
}

func concRunOnce(sc string, ch sched.Chooser) (r concRun) {
	if err := resetToPristine(); err != nil {
		infra("%v", err)
	}
	m := newModel()
	var bodies []func()
	switch sc {
	case "siblings-at-1", "siblings-at-2":
		if sc == "siblings-at-2" {
			if s := applyOp(m, opAdd0); !s.Accepted {
				infra("setup add failed: %s", s.Err)
			}
		}
		g0, g1 := m.build(opAdd0), m.build(opAdd1)
		bodies = []func(){
			func() { r.errs[0] = core.GetGroupChain().AddGroup(g0) },
			func() { r.errs[1] = core.GetGroupChain().AddGroup(g1) },
		}
		r.allowed = [][]*types.Group{withNext(m.list, m.build(opAdd0)), withNext(m.list, m.build(opAdd1))}
		r.okWant = [][2]bool{{true, false}, {false, true}}
	case "add-vs-switch":
		base := append([]*types.Group{}, m.list...)
		a1 := m.build(opAdd1)
		a1model := m.build(opAdd1)
		if s := applyOp(m, opAdd0); !s.Accepted {
			infra("setup add failed: %s", s.Err)
		}
		x := m.build(opAdd0)
		anc := base[len(base)-1]
		bodies = []func(){
			func() { r.errs[0] = core.GetGroupChain().AddGroup(x) },
			func() {
				core.VerifGroupRemoveFromAncestor(anc)
				r.errs[1] = core.GetGroupChain().AddGroup(a1)
			},
		}
		final := withNext(base, a1model)
		r.allowed = [][]*types.Group{final, final}
		r.okWant = [][2]bool{{true, true}, {false, true}}
	default:
		infra("unknown scenario %s", sc)
	}
	r.res = sched.Run(bodies, ch, 6000)
	for _, l := range r.allowed {
		r.fails = append(r.fails, checkAgainst(l))
	}
	return
}

func concPart(c *fw.Ctx, only *concCase) {
	bound := 2
	if c.Thorough() {
		bound = 3
	}
	for _, sc := range []string{"siblings-at-1", "siblings-at-2", "add-vs-switch"} {
		if only != nil && only.Conc != sc {
			continue
		}
		finals := map[string]int{}
		shard, nshards := c.Shard, c.NShards
		if only != nil {
			shard, nshards = 0, 1
		}
		var r concRun
		st := fw.ExploreShard(bound, func(ch *fw.Chooser) {
			r = concRunOnce(sc, ch)
		}, func(ch *fw.Chooser) {
			res := r.res
			c.Transition(int64(res.Steps))
			ok := [2]bool{r.errs[0] == nil, r.errs[1] == nil}
			key := fmt.Sprintf("ok=%v", ok)
			for _, f := range r.fails {
				key += fmt.Sprintf(" f=%d", len(f))
			}
			finals[key]++
			cs := concCase{Conc: sc, Choices: ch.Choices()}
			if res.Deadlock {
				c.Violation("C19:conc:deadlock", "schedules", fmt.Sprintf("scenario %s: deadlock under schedule %v", sc, res.Schedule), cs)
				return
			}
			if res.Horizon {
				c.Violation("C19:conc:no-progress", "schedules", fmt.Sprintf("scenario %s: horizon reached under schedule %v", sc, res.Schedule), cs)
				return
			}
			for i, p := range res.Panics {
				if p != nil {
					c.Violation("C19:conc:panic", "schedules", fmt.Sprintf("scenario %s: thread %d panicked: %v (schedule %v)", sc, i, p, res.Schedule), cs)
					return
				}
			}
			good := false
			for i := range r.allowed {
				if ok == r.okWant[i] && len(r.fails[i]) == 0 {
					good = true
				}
			}
			if !good {
				msg := fmt.Sprintf("scenario %s, schedule %v (preemptions %d): thread 0 err=%v, thread 1 err=%v; the result equals no serial order of the two calls (mismatches against the allowed final lists: %d, %d)",
					sc, res.Schedule, res.Preemptions, r.errs[0], r.errs[1], len(r.fails[0]), len(r.fails[1]))
				for _, f := range r.fails {
					if len(f) > 0 {
						msg += "; e.g. " + f[0].Msg
						break
					}
				}
				sig := "C19:conc:sibling-adds-not-serialised"
				if sc == "add-vs-switch" {
					sig = "C19:conc:add-vs-fork-switch-not-serialised"
				}
				c.Violation(sig, "schedules", msg, cs)
			}
		}, func() bool { return c.Expired() }, shard, nshards)
		c.Eval(st.Executions)
		c.Trace(st.Executions)
		c.Count("conc_schedules_explored", st.Executions)
		if c.Shard == 0 {
			c.Note("conc_"+sc, fmt.Sprintf("shard 0 of %d: schedules=%d outcome_classes=%v max_points=%d bound=%d", nshards, st.Executions, finals, st.MaxPoints, bound))
		}
		if st.Divergence != nil {
			c.Violation("C19:conc:harness-replay-divergence", "schedules", st.Divergence.Error(), concCase{Conc: sc})
		}
		if st.Truncated {
			c.Cap("time budget during schedule exploration")
		}
	}
	// leave the store as found
	if err := resetToPristine(); err != nil {
		infra("%v", err)
	}
}
