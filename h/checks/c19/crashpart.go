package main

// Crash part of C19 (E3 ii): for selected histories the node process is killed (os.Exit in
// the store hook) immediately before every physical LevelDB write issued while the history
// runs; a new process boots over the same directory through the unmodified boot path and
// the group chain must be the list before or after the interrupted operation.

import (
	"encoding/json"
	"fmt"
	"os"
	"os/exec"
	"path/filepath"
	"strings"

	"verif/h/crash"
	"verif/h/fw"
	"verif/h/node"

	"com.tuntun.rangers/node/src/middleware/types"
)

func crashHistories(thorough bool) [][]string {
	hs := [][]string{
		{opAdd0},
		{opAdd0, opRm},
		{opAdd0, opAdd1, opRm, opAdd0},
		{opAdd0, opAdd1, opRm2},
		// field dimension: the incoming records carry a GroupHeight of their own
		{opAdd0GhNext, opAdd1GhNext, opRm, opAdd0GhPrev},
	}
	if thorough {
		hs = append(hs, []string{opAdd1, opAdd0, opAdd1, opRm2, opAdd0, opRm}, []string{opAdd0, opRm, opAdd1, opRm, opAdd0})
		// every valid history of additions and removals up to length 4 (non-initial states:
		// each crash point is reached after every shorter history)
		seen := map[string]bool{}
		for _, h := range hs {
			seen[strings.Join(h, ",")] = true
		}
		var rec func(h []string, added int)
		rec = func(h []string, added int) {
			if len(h) > 0 && !seen[strings.Join(h, ",")] {
				seen[strings.Join(h, ",")] = true
				hs = append(hs, append([]string{}, h...))
			}
			if len(h) == 4 {
				return
			}
			rec(append(h, opAdd0), added+1)
			rec(append(h, opAdd1), added+1)
			if added >= 1 {
				rec(append(h, opRm), added-1)
			}
			if added >= 2 {
				rec(append(h, opRm2), added-2)
			}
		}
		rec(nil, 0)
	}
	return hs
}

func setGenesisList() {
	genesisList = nil
	for i, gi := range (node.Stub{}).GenerateGenesisInfo() {
		g := cloneGroup(&gi.Group)
		g.GroupHeight = uint64(i)
		genesisList = append(genesisList, g)
	}
}

// pureStep advances the model without touching the chain (crash histories only use
// operations whose acceptance is not in question: valid additions and removals).
func pureStep(m *refGroups, op string) {
	if b, v := splitVariant(op); v != "" && (b == opAdd0 || b == opAdd1) {
		op = b // field variants build the same list element as the plain addition
	}
	switch op {
	case opAdd0, opAdd1:
		g := m.build(op)
		g.GroupHeight = uint64(len(m.list))
		m.list = append(m.list, g)
	case opRm:
		m.list = m.list[:len(m.list)-1]
	case opRm2:
		m.list = m.list[:len(m.list)-2]
	default:
		panic("crash histories use add0/add1/rm/rm2 only")
	}
}

type crashRunOut struct {
	Writes int      `json:"writes"`
	Marks  []int    `json:"marks"` // physical writes issued before each op
	Trace  []string `json:"trace,omitempty"`
	Steps  []stepResult
}

// Marks2 returns the number of physical writes of op step in the reference run.
func (r *crashRunOut) Marks2(step int) int {
	if step+1 < len(r.Marks) {
		return r.Marks[step+1] - r.Marks[step]
	}
	return r.Writes - r.Marks[step]
}

type crashObsOut struct {
	PreFails  []string `json:"pre_fails"`
	PostFails []string `json:"post_fails"`
	PreLen    int      `json:"pre_len"`
	PostLen   int      `json:"post_len"`
	Reported  string   `json:"reported,omitempty"` // fault mode: what the operation reported
	Panic     string   `json:"panic,omitempty"`
}

// faultHandled is the exit status of a child that received the injected write error and
// finished the operation.
const faultHandled = 78

func childMain(args []string) {
	switch args[0] {
	case "run": // run <hist,csv> <out>
		hist := strings.Split(args[1], ",")
		crash.InstallFromEnv()
		if err := node.Boot(node.ForksAllOn, true); err != nil {
			fmt.Fprintln(os.Stderr, "boot:", err)
			os.Exit(3)
		}
		setGenesisList()
		m := newModel()
		out := crashRunOut{}
		crash.Arm()
		for i, op := range hist {
			out.Marks = append(out.Marks, crash.Count())
			os.WriteFile("c19_progress", []byte(fmt.Sprint(i)), 0o644)
			before := append([]*types.Group{}, m.list...)
			s := applyOp(m, op)
			out.Steps = append(out.Steps, s)
			if crash.Failed() {
				// an injected write error was delivered inside this operation and the process lives
				// on: the chain must now be the list before the operation or the list after it
				// ("at all times"), whatever the operation reported to its caller
				crash.Disarm()
				mm := &refGroups{list: before}
				var mids [][]*types.Group
				if op == opRm2 {
					mids = append(mids, append([]*types.Group{}, before[:len(before)-1]...))
				}
				pureStep(mm, op)
				o := crashObsOut{PreLen: len(before), PostLen: len(mm.list), Reported: s.Err, Panic: s.Panic}
				for _, f := range checkAgainst(before) {
					o.PreFails = append(o.PreFails, fmt.Sprintf("%s: %s", clauseName[f.Clause], f.Msg))
				}
				for _, f := range checkAgainst(mm.list) {
					o.PostFails = append(o.PostFails, fmt.Sprintf("%s: %s", clauseName[f.Clause], f.Msg))
				}
				for _, mid := range mids {
					if len(checkAgainst(mid)) == 0 {
						o.PostFails = nil
					}
				}
				b, _ := json.Marshal(o)
				os.WriteFile("obs_live.json", b, 0o644)
				// the node lives on: continue with a fork switch (remove the tip, add the other
				// alternative) from whichever list the chain is in; whatever the failed operation
				// left behind (queued writes, counters) must not surface later
				if os.Getenv("VERIF_FAULT_CONT") != "" && (len(o.PreFails) == 0 || len(o.PostFails) == 0) {
					done := append([]string{}, hist[:i]...)
					cm := &refGroups{list: before}
					if len(o.PreFails) != 0 { // the operation took effect
						done = append(done, op)
						cm = mm
					}
					added := 0
					for _, d := range done {
						switch d {
						case opAdd0, opAdd1:
							added++
						case opRm:
							added--
						case opRm2:
							added -= 2
						}
					}
					var cont []string
					if added > 0 {
						cont = append(cont, opRm)
					}
					cont = append(cont, opAdd1, opAdd0)
					co := crashObsOut{}
					for _, cop := range cont {
						cs := applyOp(cm, cop)
						if !cs.Accepted {
							// a refused operation is not an inconsistency (the property is about the chain that is
							// stored, not about liveness after a fault): the model did not apply it either; only a
							// panic is a failure of its own
							if cs.Panic != "" {
								co.PostFails = append(co.PostFails, fmt.Sprintf("continuation op %s after the failed %s panicked: %s %s", cop, op, cs.Err, cs.Panic))
								break
							}
							continue
						}
						done = append(done, cop)
					}
					for _, f := range checkAgainst(cm.list) {
						co.PostFails = append(co.PostFails, fmt.Sprintf("%s: %s", clauseName[f.Clause], f.Msg))
					}
					co.PostLen = len(cm.list)
					cb, _ := json.Marshal(co)
					os.WriteFile("obs_cont.json", cb, 0o644)
					os.WriteFile("cont_ops", []byte(strings.Join(done, ",")), 0o644)
				}
				os.Exit(faultHandled)
			}
			if !s.Accepted {
				fmt.Fprintf(os.Stderr, "crash history op %d (%s) not accepted: %s %s\n", i, op, s.Err, s.Panic)
				os.Exit(3)
			}
		}
		crash.Disarm()
		out.Writes = crash.Count()
		out.Trace = crash.Trace()
		b, _ := json.Marshal(out)
		os.WriteFile(args[2], b, 0o644)
		os.Exit(0)
	case "observe-ops": // observe-ops <ops,csv> <out>: restart and compare with the list these operations produce
		if err := node.Boot(node.ForksAllOn, true); err != nil {
			fmt.Fprintln(os.Stderr, "boot:", err)
			os.Exit(3)
		}
		setGenesisList()
		m := newModel()
		for _, op := range strings.Split(args[1], ",") {
			if op != "" {
				pureStep(m, op)
			}
		}
		o := crashObsOut{PostLen: len(m.list)}
		for _, f := range checkAgainst(m.list) {
			o.PostFails = append(o.PostFails, fmt.Sprintf("%s: %s", clauseName[f.Clause], f.Msg))
		}
		b, _ := json.Marshal(o)
		os.WriteFile(args[2], b, 0o644)
		os.Exit(0)
	case "observe": // observe <hist,csv> <step> <out>   (boot = restart over the existing directory)
		hist := strings.Split(args[1], ",")
		var step int
		fmt.Sscan(args[2], &step)
		if err := node.Boot(node.ForksAllOn, true); err != nil {
			fmt.Fprintln(os.Stderr, "boot:", err)
			os.Exit(3)
		}
		setGenesisList()
		m := newModel()
		for i := 0; i < step; i++ {
			pureStep(m, hist[i])
		}
		pre := append([]*types.Group{}, m.list...)
		// every list the operation passes through is a legitimate state: the fork switch
		// (rm2) is two complete removals, the list between them is consistent too
		var mids [][]*types.Group
		if hist[step] == opRm2 {
			mids = append(mids, append([]*types.Group{}, m.list[:len(m.list)-1]...))
		}
		pureStep(m, hist[step])
		post := m.list
		o := crashObsOut{PreLen: len(pre), PostLen: len(post)}
		for _, f := range checkAgainst(pre) {
			o.PreFails = append(o.PreFails, fmt.Sprintf("%s: %s", clauseName[f.Clause], f.Msg))
		}
		for _, f := range checkAgainst(post) {
			o.PostFails = append(o.PostFails, fmt.Sprintf("%s: %s", clauseName[f.Clause], f.Msg))
		}
		for _, mid := range mids {
			if len(checkAgainst(mid)) == 0 {
				o.PostFails = nil // consistent intermediate list
			}
		}
		b, _ := json.Marshal(o)
		os.WriteFile(args[3], b, 0o644)
		os.Exit(0)
	}
	os.Exit(3)
}

// faultPoint: physical write p of the history returns an error instead of writing and the
// process continues; the chain is observed in the same process right after the operation and
// again by a restarted process.
func faultPoint(c *fw.Ctx, hist []string, csv string, p int, ro *crashRunOut, seq int) {
	d := filepath.Join(c.Scratch, fmt.Sprintf("c19fault%d", seq))
	os.MkdirAll(d, 0o755)
	defer os.RemoveAll(d)
	cs := crashCase{Hist: hist, CrashAt: p, Fault: true}
	code, out := runCrashChild(d, []string{fmt.Sprintf("VERIF_FAIL_AT=%d", p)}, "run", csv, "out.json")
	c.Eval(1)
	step := 0
	if pb, err := os.ReadFile(filepath.Join(d, "c19_progress")); err == nil {
		fmt.Sscan(string(pb), &step)
	}
	within := p - ro.Marks[step]
	if hist[step] == opRm2 {
		if per := (ro.Marks2(step) + 1) / 2; per > 0 {
			within = (within-1)%per + 1
		}
	}
	where := fmt.Sprintf("%s:write%d", opClass(hist[step], true), within)
	if code != faultHandled {
		c.Violation("C19:fault:process-died:"+where, "write-error",
			fmt.Sprintf("history %v: physical write %d (%s of op %d %s) returns an I/O error: the node process does not survive (exit %d): %s", hist, p, where, step, hist[step], code, out), cs)
		return
	}
	judge := func(file, when string) {
		var ob crashObsOut
		b, _ := os.ReadFile(filepath.Join(d, file))
		json.Unmarshal(b, &ob)
		switch {
		case len(ob.PreFails) == 0:
			c.Outcome("write-error->" + when + ":list before the operation")
		case len(ob.PostFails) == 0:
			c.Outcome("write-error->" + when + ":list after the operation")
		default:
			c.Outcome("write-error->" + when + ":inconsistent")
			c.Violation("C19:fault:torn:"+when+":"+where, "write-error",
				fmt.Sprintf("history %v: physical write %d (%s of op %d %s) returns an I/O error and the process continues (operation reported %q); %s the group chain is neither the list before the operation (%v) nor the list after it (%v)",
					hist, p, where, step, hist[step], ob.Reported, map[string]string{"live": "in the running process", "restart": "after a restart"}[when], ob.PreFails, ob.PostFails), cs)
		}
	}
	judge("obs_live.json", "live")
	code, out = runCrashChild(d, nil, "observe", csv, fmt.Sprint(step), "obs.json")
	if code != 0 {
		c.Violation("C19:fault:restart-died:"+where, "write-error",
			fmt.Sprintf("history %v: physical write %d (%s of op %d %s) returned an I/O error; after that the node cannot restart: %s", hist, p, where, step, hist[step], out), cs)
		return
	}
	judge("obs.json", "restart")
	// second run of the same fault, now letting the node go on after the failed operation
	// (fork switch from the resulting list)
	os.RemoveAll(d)
	os.MkdirAll(d, 0o755)
	if code, _ := runCrashChild(d, []string{fmt.Sprintf("VERIF_FAIL_AT=%d", p), "VERIF_FAULT_CONT=1"}, "run", csv, "out.json"); code != faultHandled {
		return
	}
	if cb, err := os.ReadFile(filepath.Join(d, "obs_cont.json")); err == nil {
		var co crashObsOut
		json.Unmarshal(cb, &co)
		ops, _ := os.ReadFile(filepath.Join(d, "cont_ops"))
		if len(co.PostFails) > 0 {
			c.Violation("C19:fault:later-ops-inconsistent:live:"+where, "write-error",
				fmt.Sprintf("history %v: physical write %d (%s of op %d %s) returned an I/O error; the node went on with %s and the chain is then inconsistent in the running process: %v", hist, p, where, step, hist[step], ops, co.PostFails), cs)
		} else {
			code, out = runCrashChild(d, nil, "observe-ops", string(ops), "obs_cont_restart.json")
			var ro2 crashObsOut
			rb, _ := os.ReadFile(filepath.Join(d, "obs_cont_restart.json"))
			json.Unmarshal(rb, &ro2)
			if code != 0 {
				c.Violation("C19:fault:later-ops-restart-died:"+where, "write-error", fmt.Sprintf("history %v: I/O error at write %d (%s), continuation %s, then the node cannot restart: %s", hist, p, where, ops, out), cs)
			} else if len(ro2.PostFails) > 0 {
				c.Violation("C19:fault:later-ops-inconsistent:restart:"+where, "write-error",
					fmt.Sprintf("history %v: physical write %d (%s of op %d %s) returned an I/O error; the node went on with %s; after a restart the chain is not the list those operations produce: %v", hist, p, where, step, hist[step], ops, ro2.PostFails), cs)
			} else {
				c.Outcome("write-error->continuation consistent")
			}
		}
	}
	c.Count("write_error_points", 1)
	c.Nontrivial(fmt.Sprintf("fault|%s|%d", csv, p))
}

type crashCase struct {
	Hist    []string `json:"crash_history"`
	CrashAt int      `json:"crash_at"`
	Fault   bool     `json:"fault,omitempty"` // the write returns an error instead of the process dying
}

func runCrashChild(dir string, env []string, args ...string) (int, string) {
	exe, _ := os.Executable()
	cmd := exec.Command(exe, append([]string{"--c19crash"}, args...)...)
	cmd.Dir = dir
	cmd.Env = append(os.Environ(), env...)
	out, err := cmd.CombinedOutput()
	code := 0
	if err != nil {
		code = -1
		if ee, ok := err.(*exec.ExitError); ok {
			code = ee.ExitCode()
		}
	}
	s := string(out)
	if len(s) > 2000 {
		s = s[len(s)-2000:]
	}
	return code, s
}

// crashPart enumerates every crash point of every crash history (sharded over workers).
func crashPart(c *fw.Ctx, only *crashCase) {
	seq := 0
	var idx int64
	hs := crashHistories(c.Thorough())
	if only != nil {
		hs = [][]string{only.Hist}
	}
	for _, hist := range hs {
		csv := strings.Join(hist, ",")
		seq++
		ref := filepath.Join(c.Scratch, fmt.Sprintf("c19ref%d", seq))
		os.MkdirAll(ref, 0o755)
		code, out := runCrashChild(ref, nil, "run", csv, "out.json")
		if code != 0 {
			os.RemoveAll(ref)
			c.Infra(fmt.Sprintf("crash reference run of %v failed (%d): %s", hist, code, out))
			return
		}
		var ro crashRunOut
		b, _ := os.ReadFile(filepath.Join(ref, "out.json"))
		json.Unmarshal(b, &ro)
		os.RemoveAll(ref)
		c.Sample(map[string]interface{}{"crash_history": hist, "physical_writes": ro.Writes, "writes": ro.Trace})
		for p := 1; p <= ro.Writes; p++ {
			idx++
			if only != nil && p != only.CrashAt {
				continue
			}
			if only == nil && !c.Mine(idx) {
				continue
			}
			if c.Expired() {
				c.Cap("time budget: not every crash point explored")
				return
			}
			if only == nil || only.Fault {
				seq++
				faultPoint(c, hist, csv, p, &ro, seq)
				if only != nil {
					continue
				}
			}
			seq++
			d := filepath.Join(c.Scratch, fmt.Sprintf("c19crash%d", seq))
			os.MkdirAll(d, 0o755)
			cs := crashCase{Hist: hist, CrashAt: p}
			code, out := runCrashChild(d, []string{fmt.Sprintf("VERIF_CRASH_AT=%d", p)}, "run", csv, "out.json")
			c.Eval(1)
			if code != crash.ExitCode {
				os.RemoveAll(d)
				c.Infra(fmt.Sprintf("expected process death at write %d of %v, exit=%d: %s", p, hist, code, out))
				return
			}
			step := 0
			if pb, err := os.ReadFile(filepath.Join(d, "c19_progress")); err == nil {
				fmt.Sscan(string(pb), &step)
			}
			within := p - ro.Marks[step] // k-th physical write of the interrupted operation
			if hist[step] == opRm2 {
				// two consecutive removals: name the write inside the removal it belongs to
				per := (ro.Marks2(step) + 1) / 2
				if per > 0 {
					within = (within-1)%per + 1
				}
			}
			where := fmt.Sprintf("%s:write%d", opClass(hist[step], true), within)
			tr := "?"
			if p-1 < len(ro.Trace) {
				tr = ro.Trace[p-1]
			}
			code, out = runCrashChild(d, nil, "observe", csv, fmt.Sprint(step), "obs.json")
			if code != 0 {
				os.RemoveAll(d)
				c.Violation("C19:crash:restart-died:"+where, "crash",
					fmt.Sprintf("history %v: process death before physical write %d (%s, %s of op %d %s): the node cannot restart: %s", hist, p, tr, where, step, hist[step], out), cs)
				continue
			}
			var ob crashObsOut
			ob2, _ := os.ReadFile(filepath.Join(d, "obs.json"))
			json.Unmarshal(ob2, &ob)
			os.RemoveAll(d)
			c.Count("crash_points", 1)
			c.Nontrivial(fmt.Sprintf("crash|%s|%d", csv, p))
			switch {
			case len(ob.PreFails) == 0:
				c.Outcome("crash->list before the operation")
			case len(ob.PostFails) == 0:
				c.Outcome("crash->list after the operation")
			default:
				c.Outcome("crash->inconsistent")
				c.Violation("C19:crash:torn:"+where, "crash",
					fmt.Sprintf("history %v: process death before physical write %d (%s; %s of op %d %s), after restart the group chain is neither the list before the operation (%v) nor the list after it (%v)",
						hist, p, tr, where, step, hist[step], ob.PreFails, ob.PostFails), cs)
			}
		}
	}
}
