// C19: the group chain is a gap-free linked list whose height index matches it.
//
// History part (E2): breadth-first search over operation histories on the real group
// chain of a booted node.  Every transition is executed as "fresh instance + replay of
// the shortest history of the source state + one more op"; states are merged on a
// canonical dump of the implementation state (all keys of the group store, the sqlite
// side index, the in-memory count / last group) together with the model list.  After
// every transition the reference model (a slice) is compared with everything the public
// interface shows (history.go: checkAgainst).
//
// Fresh instance inside one worker process: the group chain is a process-global
// singleton over the worker's LevelDB.  Before every history the group store and the
// side index are rewritten to their post-boot content through their public interfaces
// and the two in-memory fields of the chain object are set to their post-boot values
// (hook VerifGroupSetMemory); the complete image (every key/value under the store's
// prefix read through an iterator, side index rows, count, last group) must then be
// byte-identical to the image captured right after boot, otherwise the worker stops
// with an infrastructure error (exit 2, not a verdict).  Once per worker the image is
// also reproduced by "wipe everything + unmodified first-boot initialisation".
// Removing the groups with the chain's own remove operation is NOT used for resetting:
// it is under test, and on the current tree it leaves stale height keys behind.  As an
// additional guard every replay of a stored prefix must reproduce the stored state key.
package main

import (
	"encoding/json"
	"fmt"
	"os"
	"runtime/debug"
	"strings"
	"sync"
	"time"

	"verif/h/fw"
	"verif/h/node"

	"com.tuntun.rangers/node/src/middleware/types"
)

const splitLevel = 3 // levels below are explored by every worker, the frontier at this level is partitioned

type kase struct {
	History []string `json:"history"`
}

type bfsNode struct {
	hist    []byte // op indexes, shortest history of the state
	key     string
	mask    uint32 // clauses failing in this state
	listLen int
	odd     bool // the one ID-dimension addition of the history was already accepted
}

func names(h []byte) []string {
	out := make([]string, len(h))
	for i, b := range h {
		out[i] = alphabet[b]
	}
	return out
}

func depthOf(c *fw.Ctx) int {
	if c.Thorough() {
		return 10
	}
	return 6
}

func boot() {
	if err := node.Boot(node.ForksAllOn, true); err != nil {
		fmt.Fprintln(os.Stderr, "boot:", err)
		os.Exit(3)
	}
	if err := capturePristine(); err != nil {
		fmt.Fprintln(os.Stderr, "boot:", err)
		os.Exit(3)
	}
}

func infra(format string, a ...interface{}) {
	fmt.Fprintf(os.Stderr, "C19 harness error: "+format+"\n", a...)
	os.Exit(3)
}

// oddLevels: ID-dimension additions are applied in states at BFS distance < oddLevels
// from the post-boot state (the follow-up ops use the remaining depth).
func oddLevels(c *fw.Ctx) int {
	if c.Thorough() {
		return 5
	}
	return 3
}

func enabledFor(n *bfsNode, op string, level, oddLv int) bool {
	if shallowOnly(op) && level >= oddLv {
		return false
	}
	m := refGroups{list: make([]*types.Group, n.listLen), oddUsed: n.odd}
	return m.enabled(op)
}

// current history, for the watchdog message
var (
	curMu   sync.Mutex
	curHist []string
)

func setCurrent(h []string) { curMu.Lock(); curHist = h; curMu.Unlock() }

// run executes the search in a goroutine; should an operation of the code under test not
// return (e.g. an endless predecessor walk over a cyclic chain) the worker reports a cap
// instead of hanging the whole check.  The grace period only starts after the time cap,
// when the search loop would stop by itself before the next transition.
func run(c *fw.Ctx) {
	done := make(chan struct{})
	go func() { defer close(done); search(c); concPart(c, nil); crashPart(c, nil) }()
	grace := time.Until(c.Deadline) + 45*time.Second
	select {
	case <-done:
	case <-time.After(grace):
		curMu.Lock()
		h := strings.Join(curHist, ",")
		curMu.Unlock()
		c.Cap("history [" + h + "] did not return within 45 s after the time cap (non-termination in the code under test?); rest of this worker's share not explored")
	}
}

func search(c *fw.Ctx) {
	// a booted node holds ~0.7 GB (LevelDB write buffers, caches) and every restart op
	// allocates a fresh 128 MiB memtable for the joined-group store: collect eagerly
	debug.SetMemoryLimit(400 << 20)
	boot()
	depth := depthOf(c)
	oddLv := oddLevels(c)
	designated := c.Mine(0) // exactly one worker accounts for the shared levels

	root := runHistory(nil, 0)
	if root.ResetErr != nil {
		infra("%v", root.ResetErr)
	}
	if len(root.Fails) == 0 && layoutErr != nil {
		infra("%v", layoutErr)
	}
	if designated {
		c.Trace(1)
		c.Eval(1)
		c.State(1)
		for _, f := range root.Fails {
			c.Violation("C19:"+clauseName[f.Clause]+"-after-boot", "history", "right after boot: "+f.Msg, kase{})
		}
	}
	visited := map[string]struct{}{root.Key: {}}
	level := []bfsNode{{key: root.Key, mask: failMask(root.Fails), listLen: root.ListLen}}
	poisoned := false

	for L := 0; L < depth && len(level) > 0 && !poisoned; L++ {
		account := L >= splitLevel || designated
		var next []bfsNode
	nodes:
		for _, n := range level {
			for oi, op := range alphabet {
				if !enabledFor(&n, op, L, oddLv) {
					continue
				}
				if c.Expired() {
					c.Cap(fmt.Sprintf("time cap at level %d of %d", L+1, depth))
					return
				}
				hb := append(append(make([]byte, 0, len(n.hist)+1), n.hist...), byte(oi))
				hist := names(hb)
				setCurrent(hist)
				r := runHistory(hist, len(hist))
				if r.ResetErr != nil {
					infra("%v", r.ResetErr)
				}
				if r.PrefixKey != n.key {
					infra("replay of %v did not reproduce the stored state", hist[:len(hist)-1])
				}
				last := r.Steps[len(r.Steps)-1]
				fs := findingsOfStep(hist, r, len(hist)-1, n.mask)
				if account {
					c.Eval(1)
					c.Trace(1)
					c.Transition(1)
					if len(n.hist) > 0 {
						c.Nontrivial(n.key + "|" + op)
					}
					out := op + ":rejected"
					if last.Accepted {
						out = op + ":accepted"
					}
					if last.Panic != "" {
						out = op + ":panic"
					}
					c.Outcome(out)
					c.Count(fmt.Sprintf("transitions_to_list_len_%d", r.ListLen), 1)
				}
				if len(fs) > 0 {
					// same input again: the observation must be identical
					r2 := runHistory(hist, len(hist))
					if r2.ResetErr != nil {
						if last.Panic == "" {
							infra("%v", r2.ResetErr)
						}
					} else if d1, d2 := findingsDigest(fs), findingsDigest(findingsOfStep(hist, r2, len(hist)-1, n.mask)); d1 != d2 {
						infra("history %v is not reproducible:\n%s---\n%s", hist, d1, d2)
					}
					for _, f := range fs {
						c.Violation(f.Sig, f.Part, f.Msg, kase{History: hist})
					}
				}
				if r.Dead {
					// a panic inside an op may leave process-global resources (the joined-group
					// LevelDB lock) behind; find out whether a fresh instance is still possible
					if err := freshInstance(); err != nil {
						c.Cap("a panic inside " + op + " made the worker's group chain unusable; rest of its share not explored")
						poisoned = true
						break nodes
					}
					continue
				}
				if last.Forbidden != "" {
					// no list can satisfy the statement any more (the chain now contains a fork
					// or a cycle); reported above, not expanded further
					continue
				}
				if r.OddListed != "" && len(r.Fails) > 0 {
					// an ID-dimension group is listed and a clause fails: reported when it was
					// introduced; what follows are consequences of that addition (typically a
					// restart that cannot load the last group), not expanded further
					if account {
						c.Count("id_dimension_states_not_expanded", 1)
					}
					continue
				}
				if _, ok := visited[r.Key]; ok {
					continue
				}
				visited[r.Key] = struct{}{}
				if account {
					c.State(1)
					c.Sample(map[string]interface{}{"history": hist, "list": r.ListLen, "failing_clauses": maskNames(failMask(r.Fails))})
				}
				next = append(next, bfsNode{hist: hb, key: r.Key, mask: failMask(r.Fails), listLen: r.ListLen, odd: r.OddUsed})
			}
		}
		if L+1 == splitLevel {
			mine := next[:0:0]
			for i, n := range next {
				if c.Mine(int64(i)) {
					mine = append(mine, n)
				}
			}
			next = mine
		}
		level = next
	}
	if designated {
		c.Note("depth", depth)
		c.Note("id_dimension_levels", oddLv)
		c.Note("alphabet", strings.Join(alphabet, " "))
		c.Note("fresh_instance", "in-process: group store + side index rewritten to the post-boot content, memory mirror reset, whole image byte-compared with the post-boot image before every history; validated once per worker against wipe + first-boot initialisation")
	}
}

func maskNames(m uint32) []string {
	var out []string
	for i := 0; i < nClauses; i++ {
		if m&(1<<uint(i)) != 0 {
			out = append(out, clauseName[i])
		}
	}
	return out
}

func replay(c *fw.Ctx, raw json.RawMessage) {
	var cn concCase
	if json.Unmarshal(raw, &cn) == nil && cn.Conc != "" {
		boot()
		concPart(c, &cn)
		return
	}
	var cc crashCase
	if json.Unmarshal(raw, &cc) == nil && len(cc.Hist) > 0 {
		crashPart(c, &cc)
		return
	}
	var k kase
	if err := json.Unmarshal(raw, &k); err != nil {
		fmt.Fprintln(os.Stderr, err)
		os.Exit(2)
	}
	for _, op := range k.History {
		if opIndex(op) < 0 {
			fmt.Fprintln(os.Stderr, "unknown op", op)
			os.Exit(2)
		}
	}
	boot()
	r := runHistory(k.History, 0)
	if r.ResetErr != nil {
		infra("%v", r.ResetErr)
	}
	for _, f := range r.AllFails[0] {
		c.Violation("C19:"+clauseName[f.Clause]+"-after-boot", "history", "right after boot: "+f.Msg, k)
	}
	for i := range r.Steps {
		for _, f := range findingsOfStep(k.History, r, i, failMask(r.AllFails[i])) {
			c.Violation(f.Sig, f.Part, f.Msg, k)
		}
		fmt.Printf("step %d %-9s accepted=%v err=%q failing=%v\n", i, r.Steps[i].Op, r.Steps[i].Accepted, r.Steps[i].Err, maskNames(failMask(r.AllFails[i+1])))
	}
}

func main() {
	if len(os.Args) > 2 && os.Args[1] == "--c19crash" {
		childMain(os.Args[2:])
		return
	}
	fw.Main(fw.Check{
		ID: "C19", Level: "model_checking",
		Rule: "BFS over histories of {add alt0, add alt1, add wrong-PreGroup, add missing-parent, add duplicate-id, remove-last, fork-switch-remove-2, restart} " +
			"plus the field dimension of valid additions {incoming GroupHeight = count, count-1, count+1, 2^40, 1; pre-filled WorkHeight/DismissHeight} whose model element is the plain addition, " +
			"plus the production fork switch (groupChainFork.triggerOnChain on the ancestor 1 or 2 below the head, branch of 1-2 groups from the add alphabet incl. refused / ID-dimension / pre-filled-field groups; non-plain branches in states at BFS distance < 3 / 5), " +
			"plus at most one accepted addition per history, applied in a state at BFS distance < 3 (quick) / 5 (thorough), from the ID dimension {Id = height key of height 0 / last / next / next+1, Id = last-pointer key, Id = count key, Id = genesis id, empty Id, 1-byte Id; otherwise valid} on the real group chain, " +
			"depth 6 (quick) / 10 (thorough); each transition = fresh instance + replay + one op, merged on the canonical dump of store+side index+memory; " +
			"a case is a (distinct implementation state, enabled op) pair; non-trivial = source state is not the post-boot state (at least one earlier op)",
		Assumptions: []string{
			"accept-all consensus stub: CheckGroup passes for every group",
			"restart = re-running initGroupChain over the same open LevelDB instance (VerifGroupReinit); crash points are a separate part",
			"fresh instance = group store prefix, groupIndex table and the chain object's two fields (count, last group) restored to the post-boot image inside the worker process; byte-identity of the whole image is verified before every history and every prefix replay must reproduce the stored state key",
			"model takes the accept/reject decision of valid, missing-parent and ID-dimension additions from the implementation (whatever is accepted becomes a list element and must satisfy every clause, also after restart); accepted wrong-PreGroup / duplicate-id additions are violations",
			"ID dimension: a state in which a clause fails while the ID-dimension group is listed is reported and not expanded further",
			"ID dimension: the store layout (last-pointer key, count key, 8-byte big-endian height keys) is stated in the check and verified against the real post-boot store; at most one accepted ID-dimension addition per history",
			"remove-last is applied only while a non-genesis group is listed (the fork switch never removes the genesis group)",
			"sqlite side index: only 'operations succeed' and its row set as part of the state key",
		},
		Run: run, Replay: replay,
		Workers: func(tier string) int { return 8 }, // ~1 GB resident per booted worker
		Budget: func(tier string) time.Duration {
			if tier == "thorough" {
				return 17 * time.Minute
			}
			return 60 * time.Second
		},
	})
}
