// C01: block execution is replica-deterministic.
// E1: for every input block, every execution that differs from the default one in <= B
// nondeterministic decisions (map-iteration start positions, clock offset, pre-touch
// order, warm process caches) must produce the same root / receipts / evicted list.
package main

import (
	"bytes"
	"encoding/json"
	"fmt"
	"math/big"
	"os"
	"os/exec"
	"path/filepath"
	"reflect"
	"runtime"
	"sort"
	"strings"
	"time"

	"verif/h/asm"
	"verif/h/fw"
	"verif/h/fw/mapiter"
	"verif/h/node"

	"com.tuntun.rangers/node/src/common"
	"com.tuntun.rangers/node/src/core"
	"com.tuntun.rangers/node/src/middleware"
	"com.tuntun.rangers/node/src/middleware/types"
	"com.tuntun.rangers/node/src/service"
	"com.tuntun.rangers/node/src/storage/account"
	"com.tuntun.rangers/node/src/utility"
	"com.tuntun.rangers/node/src/vm"
)

const (
	addrF  = "0x00000000000000000000000000000000000000f1"
	addrP  = "0x00000000000000000000000000000000000000f2" // poor account: covers the flat fee, not a gas reservation
	addrC1 = "0x00000000000000000000000000000000c0de0001"
	addrC2 = "0x00000000000000000000000000000000c0de0002"
	addrC3 = "0x00000000000000000000000000000000c0de0003" // uses opcodes introduced by proposal 022
	addrC6 = "0x00000000000000000000000000000000c0de0006" // calls the precompiled contracts and records gas
	addrC5 = "0x00000000000000000000000000000000c0de0005" // probe: observes other accounts without calling them
	addrC4 = "0x00000000000000000000000000000000c0de0004" // uses an opcode introduced by proposal 014
	minerX = "0x00000000000000000000000000000000000000000000000000000000000aa001"
)

// TxSpec is a JSON-able description of one transaction of the input alphabet.
type TxSpec struct {
	Kind    string      `json:"kind"`
	Src     string      `json:"src,omitempty"`
	Targets [][2]string `json:"targets,omitempty"` // transfer: ordered (key, amount) pairs
	Raw     string      `json:"raw,omitempty"`
}

type Input struct {
	Name string   `json:"name"`
	Txs  []TxSpec `json:"txs"`
	// Seam "" = block executor on a prepared parent state; "verifyblock" = the exported
	// BlockChain.VerifyBlock on the genesis parent with the transactions in the pool
	Seam string `json:"seam,omitempty"`
	// Sib: the parent state is the sibling state (same accounts, different contents) instead
	// of the base state
	Sib bool `json:"sib,omitempty"`
	// Pre: a named parent state built through the block executor from the base state, e.g.
	// "het:39" = the two genesis proposers pay out to different accounts and the first holds 39 more stake
	Pre string `json:"pre,omitempty"`
	// At: height of the executed block (default chainHeight+1); miners applied in a pre-state become
	// active 300 blocks after their application
	At uint64 `json:"at,omitempty"`
}

type Case struct {
	Input   Input  `json:"input"`
	Choices []int  `json:"choices"`
	Field   string `json:"field,omitempty"` // local-head part: the proposal moved to the block's height
}

var (
	baseRoot common.Hash
	sibRoot  common.Hash // sibling parent state: same addresses, different code / balances / storage
	preTouch [][]int     // ordered subsets (<=2) of read ids; index 0 = none
	preRoots = map[string]common.Hash{}
)

const (
	devProposer2    = "0xb26612d2742ab4edd016b354725d045d6627de9b1b2d7c40ae26d2c97af21abd"
	devProposerAcct = "0xa9e11ce87c646ca4b0c8eb66f28a86232734d74a" // account both genesis proposers pay out to
)

var hetOffsets = []uint64{1, 7, 39, 100, 777, 12345}

// buildHetRoots: registry pre-states with heterogeneous proposers, made by the production path (a block
// with a change-account and an add-stake transaction executed by the block executor on the base state)
func buildHetRoots() {
	for _, off := range hetOffsets {
		st := node.StateAt(baseRoot)
		thousand, _ := utility.StrToBigInt("1000000")
		st.SetBalance(common.HexToAddress(devProposerAcct), thousand)
		top := core.GetBlockChain().TopBlock()
		h := node.Header(top, chainHeight+1, 1, 5, time.Date(2024, 4, 1, 0, 0, 0, 0, time.UTC))
		b := &types.Block{Header: h}
		b.Transactions = append(b.Transactions,
			node.Tx(types.TransactionTypeMinerChangeAccount, devProposerAcct, "", minerJSON(devProposer2, common.MinerTypeProposer, 0, addrF), "", 0, 0, "het-0"),
			node.Tx(types.TransactionTypeMinerAdd, devProposerAcct, "", minerJSON(node.DevProposer, common.MinerTypeProposer, off, ""), "", 0, 0, "het-1"))
		h.Hash = h.GenHash()
		_, _, _, receipts := core.VerifExecuteBlock(st, b, "fullverify")
		if len(receipts) != 2 || receipts[0].Status != types.ReceiptStatusSuccessful || receipts[1].Status != types.ReceiptStatusSuccessful {
			msg := ""
			for _, r := range receipts {
				msg += fmt.Sprintf("[%d %s]", r.Status, r.Msg)
			}
			panic("heterogeneous registry pre-state not built: " + msg)
		}
		root, err := st.Commit(true)
		if err != nil {
			panic(err)
		}
		preRoots[fmt.Sprintf("het:%d", off)] = root
	}
	// three proposers whose payout accounts are the same 20-byte address (the two genesis proposers share one
	// account; a third is applied with that account's bytes left-padded by a zero byte, which the registry keeps
	// as a different account) and unequal stakes: per-account sums over three or more shares
	for _, off := range same3Offsets {
		st := node.StateAt(baseRoot)
		million, _ := utility.StrToBigInt("1000000")
		st.SetBalance(common.HexToAddress(devProposerAcct), million)
		top := core.GetBlockChain().TopBlock()
		h := node.Header(top, chainHeight+1, 1, 5, time.Date(2024, 4, 2, 0, 0, 0, 0, time.UTC))
		b := &types.Block{Header: h}
		padded := "0x00" + devProposerAcct[2:]
		b.Transactions = append(b.Transactions,
			node.Tx(types.TransactionTypeMinerAdd, devProposerAcct, "", minerJSON(node.DevProposer, common.MinerTypeProposer, off, ""), "", 0, 0, "same3-0"),
			node.Tx(types.TransactionTypeMinerApply, node.AcctB, "", minerJSON(minerP3, common.MinerTypeProposer, common.ProposerStake+3*off+1, padded), "", 0, 0, "same3-1"))
		// four more on the same address (one more zero byte each), stakes without a common pattern
		for k, extra := range []uint64{357, 1001, 2999, 5919} {
			acc := "0x" + strings.Repeat("00", k+2) + devProposerAcct[2:]
			id := fmt.Sprintf("0x00000000000000000000000000000000000000000000000000000000000aa0%02x", 0x10+k)
			b.Transactions = append(b.Transactions, node.Tx(types.TransactionTypeMinerApply, node.AcctB, "", minerJSON(id, common.MinerTypeProposer, common.ProposerStake+extra+off, acc), "", uint64(k+1), 0, fmt.Sprintf("same3-%d", k+2)))
		}
		h.Hash = h.GenHash()
		_, _, _, receipts := core.VerifExecuteBlock(st, b, "fullverify")
		okAll := len(receipts) == len(b.Transactions)
		for _, r := range receipts {
			okAll = okAll && r.Status == types.ReceiptStatusSuccessful
		}
		if !okAll {
			msg := ""
			for _, r := range receipts {
				msg += fmt.Sprintf("[%d %s]", r.Status, r.Msg)
			}
			preSkipped = append(preSkipped, fmt.Sprintf("same3:%d not built: %s", off, msg))
			continue
		}
		root, err := st.Commit(true)
		if err != nil {
			panic(err)
		}
		preRoots[fmt.Sprintf("same3:%d", off)] = root
	}
}

const minerP3 = "0x00000000000000000000000000000000000000000000000000000000000aa003"

var preSkipped []string

var same3Offsets = []uint64{1, 7, 39, 100, 777, 3001, 12345, 31337, 65537, 99991}

// blockAt overrides the height of the block under test while an input with At != 0 is executed
var blockAt uint64

func word(v int64) []byte { return common.BigToHash(big.NewInt(v)).Bytes() }

func storeLogCode() []byte {
	// slot0 := calldata[0]; LOG1(topic=calldata[0]) over memory[0:32]; return 32 bytes
	p := asm.New()
	p.Push(0).Op(vm.CALLDATALOAD).Op(vm.DUP1).Push(0).Op(vm.SSTORE)
	p.Op(vm.DUP1).Push(0).Op(vm.MSTORE)
	p.Push(32).Push(0).Op(vm.LOG1) // topic is the duplicated word left on the stack
	return p.Return(0, 32).Bytes()
}

func revertCode() []byte {
	p := asm.New()
	p.Push(7).Push(1).Op(vm.SSTORE)
	return p.Revert(0, 0).Bytes()
}

// forkOpsCode: PUSH0, TSTORE/TLOAD, MCOPY (proposal 022), result stored and logged.
func forkOpsCode() []byte {
	p := asm.New()
	p.Push(7).Op(vm.PUSH0).Op(vm.TSTORE)                   // transient[0] = 7
	p.Op(vm.PUSH0).Op(vm.TLOAD).Op(vm.PUSH0).Op(vm.MSTORE) // mem[0:32] = transient[0]
	p.Push(32).Op(vm.PUSH0).Push(32).Op(vm.MCOPY)          // mem[32:64] = mem[0:32]
	p.Push(32).Op(vm.MLOAD).Push(2).Op(vm.SSTORE)          // slot2 = mem[32:64]
	return p.Return(0, 64).Bytes()
}

// stakeOpsCode: GETSTAKE (custom opcode of proposal 014) of the caller, stored.
func stakeOpsCode() []byte {
	p := asm.New()
	p.Op(vm.CALLER).Op(vm.GETSTAKE).Push(3).Op(vm.SSTORE)
	return p.Return(0, 0).Bytes()
}

// probeCode observes OTHER accounts without calling them: EXTCODESIZE / EXTCODEHASH /
// first word of EXTCODECOPY of C1 and C2, BALANCE of A, own slot 0; the digest of all of it
// is stored (so it reaches the state root) and the raw values are logged.
func probeCode() []byte {
	p := asm.New()
	c1 := common.HexToAddress(addrC1).Bytes()
	c2 := common.HexToAddress(addrC2).Bytes()
	a := common.HexToAddress(node.AcctA).Bytes()
	p.Push(32).Push(0).Push(0).PushN(20, c2).Op(vm.EXTCODECOPY) // mem[0:32] = code(C2)[0:32]
	p.PushN(20, c1).Op(vm.EXTCODESIZE).Push(32).Op(vm.MSTORE)
	p.PushN(20, c1).Op(vm.EXTCODEHASH).Push(64).Op(vm.MSTORE)
	p.PushN(20, c2).Op(vm.EXTCODESIZE).Push(96).Op(vm.MSTORE)
	p.PushN(20, a).Op(vm.BALANCE).Push(128).Op(vm.MSTORE)
	p.Push(0).Op(vm.SLOAD).Push(160).Op(vm.MSTORE)
	p.Push(192).Push(0).Op(vm.SHA3).Push(0x10).Op(vm.SSTORE) // one store: the digest of everything observed
	p.Push(192).Push(0).Op(vm.LOG0)
	return p.Return(32, 32).Bytes()
}

// precompileCode calls the precompiled contracts with small fixed inputs (MODEXP with exponent
// 0, 1, a two-byte and a 32-byte exponent; SHA256; RIPEMD160; IDENTITY; ECRECOVER on garbage)
// and records, for every call, the success flag, the first returned word and the GAS consumed
// around it; the digest of all of it is stored and the raw values are logged.  Gas charged by
// a precompile is part of the receipt, so it must not depend on what the process did before.
func precompileCode() []byte {
	p := asm.New()
	word := func(b []byte, i int) []byte {
		w := make([]byte, 32)
		if i*32 < len(b) {
			copy(w, b[i*32:])
		}
		return w
	}
	modexp := func(base, exp, mod []byte) []byte {
		in := append(append(append([]byte{}, word32(len(base))...), word32(len(exp))...), word32(len(mod))...)
		return append(append(append(in, base...), exp...), mod...)
	}
	calls := []struct {
		addr byte
		in   []byte
	}{
		{5, modexp(bytes.Repeat([]byte{0xab}, 96), []byte{0}, bytes.Repeat([]byte{0xcd}, 96))},
		{5, modexp(bytes.Repeat([]byte{0xab}, 96), []byte{1}, bytes.Repeat([]byte{0xcd}, 96))},
		{5, modexp(bytes.Repeat([]byte{0xab}, 64), []byte{0x12, 0x34}, bytes.Repeat([]byte{0xcd}, 64))},
		{5, modexp(bytes.Repeat([]byte{0xab}, 96), nil, bytes.Repeat([]byte{0xcd}, 96))},
		{5, modexp([]byte{3}, []byte{0}, []byte{5})},
		{5, modexp([]byte{3}, []byte{0x12, 0x34}, []byte{5})},
		{5, modexp([]byte{3}, []byte{1}, []byte{5})},
		{5, modexp([]byte{3}, bytes.Repeat([]byte{0xff}, 32), []byte{1, 0, 1})},
		{5, nil},
		{5, modexp([]byte{3}, []byte{0x12, 0x34}, []byte{5})},
		{2, []byte("abc")},
		{3, []byte("abc")},
		{4, []byte("identity-input")},
		{1, bytes.Repeat([]byte{7}, 128)},
	}
	out := 0x400
	for i, c := range calls {
		for w := 0; w*32 < len(c.in); w++ {
			p.PushN(32, word(c.in, w)).Push(w * 32).Op(vm.MSTORE)
		}
		p.Push(0).Push(0x300).Op(vm.MSTORE) // clear the return word
		p.Op(vm.GAS)
		p.Push(32).Push(0x300).Push(len(c.in)).Push(0).Push(int(c.addr)).Push(200000).Op(vm.STATICCALL)
		p.Push(out + i*96).Op(vm.MSTORE) // success flag
		p.Op(vm.GAS).Op(vm.SWAP1).Op(vm.SUB).Push(out + i*96 + 32).Op(vm.MSTORE)
		p.Push(0x300).Op(vm.MLOAD).Push(out + i*96 + 64).Op(vm.MSTORE)
	}
	n := len(calls) * 96
	p.Push(n).Push(out).Op(vm.SHA3).Push(0x20).Op(vm.SSTORE)
	p.Push(n).Push(out).Op(vm.LOG0)
	return p.Return(out, 32).Bytes()
}

func word32(n int) []byte { return common.BigToHash(big.NewInt(int64(n))).Bytes() }

func setup() {
	if err := node.Boot(node.ForksAllOn, true); err != nil {
		panic(err)
	}
	common.SetBlockHeight(chainHeight)
	st := node.LatestState()
	ten, _ := utility.StrToBigInt("10")
	st.SetBalance(common.HexToAddress(node.AcctA), ten)
	poor, _ := utility.StrToBigInt("0.002")
	st.SetBalance(common.HexToAddress(addrP), poor)
	st.SetCode(common.HexToAddress(addrC1), storeLogCode())
	st.SetNonce(common.HexToAddress(addrC1), 1)
	st.SetCode(common.HexToAddress(addrC2), revertCode())
	st.SetNonce(common.HexToAddress(addrC2), 1)
	st.SetCode(common.HexToAddress(addrC3), forkOpsCode())
	st.SetNonce(common.HexToAddress(addrC3), 1)
	st.SetCode(common.HexToAddress(addrC4), stakeOpsCode())
	st.SetNonce(common.HexToAddress(addrC4), 1)
	st.SetCode(common.HexToAddress(addrC6), precompileCode())
	st.SetNonce(common.HexToAddress(addrC6), 1)
	st.SetCode(common.HexToAddress(addrC5), probeCode())
	st.SetNonce(common.HexToAddress(addrC5), 1)
	st.SetData(common.HexToAddress(addrC5), common.Hash{}.Bytes(), word(3))
	root, err := st.Commit(true)
	if err != nil {
		panic(err)
	}
	baseRoot = root
	// sibling state: what a competing branch could have made of the same addresses
	sb := node.StateAt(baseRoot)
	nine, _ := utility.StrToBigInt("9")
	sb.SetBalance(common.HexToAddress(node.AcctA), nine)
	sb.SetCode(common.HexToAddress(addrC1), append(storeLogCode(), 0, 0, 0)) // same behaviour, other size and hash
	sb.SetCode(common.HexToAddress(addrC2), storeLogCode())
	sb.SetData(common.HexToAddress(addrC1), common.Hash{}.Bytes(), word(4))
	sb.SetData(common.HexToAddress(addrC5), common.Hash{}.Bytes(), word(7))
	sroot, err := sb.Commit(true)
	if err != nil {
		panic(err)
	}
	sibRoot = sroot
	buildHetRoots()
	preTouch = [][]int{nil}
	const reads = 5
	for i := 0; i < reads; i++ {
		preTouch = append(preTouch, []int{i})
	}
	for i := 0; i < reads; i++ {
		for j := 0; j < reads; j++ {
			if i != j {
				preTouch = append(preTouch, []int{i, j})
			}
		}
	}
}

func doRead(st *account.AccountDB, id int) {
	switch id {
	case 0:
		st.GetBalance(common.HexToAddress(node.AcctA))
	case 1:
		st.GetNonce(common.HexToAddress(node.AcctA))
	case 2:
		st.GetBalance(common.HexToAddress(node.AcctB))
	case 3:
		st.GetData(common.HexToAddress(addrC1), common.Hash{}.Bytes())
	case 4:
		st.GetCode(common.HexToAddress(addrC1))
	}
}

func acct(s string) string {
	switch s {
	case "A":
		return node.AcctA
	case "AUP":
		return "0x" + strings.ToUpper(node.AcctA[2:])
	case "B":
		return node.AcctB
	case "F":
		return addrF
	case "P":
		return addrP
	}
	return s
}

func minerJSON(id string, typ byte, stake uint64, account string) string {
	m := types.Miner{Id: common.FromHex(id), Type: typ, Stake: stake, PublicKey: []byte{1, 2, 3, 4}, VrfPublicKey: []byte{5, 6, 7, 8}}
	if account != "" {
		m.Account = common.FromHex(account)
	}
	b, _ := json.Marshal(m)
	return string(b)
}

func buildTx(s TxSpec, i int, st *account.AccountDB) *types.Transaction {
	stamp := fmt.Sprintf("t%d", i)
	src := acct(s.Src)
	switch s.Kind {
	case "transfer":
		var sb strings.Builder
		sb.WriteString("{")
		for k, kv := range s.Targets {
			if k > 0 {
				sb.WriteString(",")
			}
			fmt.Fprintf(&sb, "%q:{\"balance\":%q}", acct(kv[0]), kv[1])
		}
		sb.WriteString("}")
		return node.TransferTx(src, sb.String(), 0, stamp)
	case "rawtransfer":
		return node.TransferTx(src, s.Raw, 0, stamp)
	case "create":
		return node.ContractTx(types.TransactionTypeContract, src, "", asm.Initcode(storeLogCode()), 3000000, "0", 0, stamp)
	case "call":
		return node.ContractTx(types.TransactionTypeContract, src, addrC1, word(5), 3000000, "0", 0, stamp)
	case "callvalue":
		return node.ContractTx(types.TransactionTypeContract, src, addrC1, word(6), 3000000, "1", 0, stamp)
	case "callrevert":
		return node.ContractTx(types.TransactionTypeContract, src, addrC2, nil, 3000000, "0", 0, stamp)
	case "callforkops":
		return node.ContractTx(types.TransactionTypeContract, src, addrC3, nil, 3000000, "0", 0, stamp)
	case "callstakeops":
		return node.ContractTx(types.TransactionTypeContract, src, addrC4, nil, 3000000, "0", 0, stamp)
	case "callprecompiles":
		return node.ContractTx(types.TransactionTypeContract, src, addrC6, nil, 30000000, "0", 0, stamp)
	case "callprobe":
		return node.ContractTx(types.TransactionTypeContract, src, addrC5, nil, 3000000, "0", 0, stamp)
	case "calloog":
		return node.ContractTx(types.TransactionTypeContract, src, addrC1, word(9), 640000, "0", 0, stamp)
	case "ethcall":
		n := st.GetNonce(common.HexToAddress(src))
		return node.ContractTx(types.TransactionTypeETHTX, src, addrC1, word(8), 3000000, "0", n, stamp)
	case "apply":
		return node.Tx(types.TransactionTypeMinerApply, src, "", minerJSON(minerX, common.MinerTypeValidator, common.ValidatorStake, src), "", 0, 0, stamp)
	case "applypoor":
		return node.Tx(types.TransactionTypeMinerApply, src, "", minerJSON("0x0b", common.MinerTypeProposer, common.ProposerStake, src), "", 0, 0, stamp)
	case "add":
		return node.Tx(types.TransactionTypeMinerAdd, src, "", minerJSON(minerX, common.MinerTypeValidator, 100, ""), "", 0, 0, stamp)
	case "refund":
		d, _ := json.Marshal(map[string]string{"Amount": "100", "MinerId": minerX})
		t := node.Tx(types.TransactionTypeMinerRefund, src, "", string(d), "", 0, 0, stamp)
		t.Sign = &common.Sign{}
		return t
	case "change":
		return node.Tx(types.TransactionTypeMinerChangeAccount, src, "", minerJSON(minerX, common.MinerTypeValidator, 0, addrF), "", 0, 0, stamp)
	}
	panic("unknown tx kind " + s.Kind)
}

type obsT struct {
	Root     string   `json:"root"`
	Receipts []string `json:"receipts"`
	RTree    string   `json:"rtree"`
	Evicted  []string `json:"evicted"`
	Txs      []string `json:"txs"`
}

var goroutineDelta int

// chainHeight is the height of the (virtual) head while the block is executed; it decides
// which proposals are active: 20 = every proposal of the dev table (P020 at 10, P023 at 12),
// 2 = the table before P020/P023.
var chainHeight uint64 = 20

// headLag: the block under execution has height chainHeight+1; the node-local head the
// fork predicates read is chainHeight-headLag+... : 0 = the parent is the head (normal
// extension), -1 expressed as headAhead = the node already holds a block at the executed
// block's height (a sibling is verified while the head is on the other branch).
var headAhead uint64
var debugSites bool

// execute runs the input once under the decisions of ch and returns the observation
// and, for every deviating decision, what it was.
func execute(in Input, ch *fw.Chooser) (string, []string) {
	var devs []string
	clock := ch.Choose(2, "clock")
	utility.VerifSetTimeOffset(time.Duration(clock) * time.Hour)
	if clock != 0 {
		devs = append(devs, "env:clock")
	}
	pt := ch.Choose(len(preTouch), "pretouch")
	if pt != 0 {
		devs = append(devs, "env:pretouch")
	}
	warm := ch.Choose(2, "warm")
	if warm != 0 {
		devs = append(devs, "env:warm")
	}
	if in.Seam == "verifyblock" {
		return executeVerifyBlock(in, ch, pt, warm, devs)
	}
	common.SetBlockHeight(chainHeight + headAhead)
	defer common.SetBlockHeight(chainHeight)
	if in.At != 0 {
		blockAt = in.At
		common.SetBlockHeight(in.At - 1 + headAhead)
		defer func() { blockAt = 0 }()
	}
	parent := baseRoot
	if in.Sib {
		parent = sibRoot
	}
	if in.Pre != "" {
		r, ok := preRoots[in.Pre]
		if !ok {
			panic("unknown pre-state " + in.Pre)
		}
		parent = r
	}
	st := node.StateAt(parent)
	if warm == 1 {
		// execute two unrelated blocks on other state objects first (process-local caches warm)
		for k := 0; k < 2; k++ {
			o := node.StateAt(baseRoot)
			wb := block([]TxSpec{{Kind: "call", Src: "B"}, {Kind: "transfer", Src: "B", Targets: [][2]string{{"F", "1"}}}}, o, 100+k)
			core.VerifExecuteBlock(o, wb, "fullverify")
		}
	}
	for _, r := range preTouch[pt] {
		doRead(st, r)
	}
	b := block(in.Txs, st, 0)
	g0 := runtime.NumGoroutine()
	mapiter.Install(func(count int, B uint8) (uintptr, bool) {
		site, own := iterSite()
		if !own {
			// iteration inside the Go standard library (sync.Map promotion, encoding/json and
			// reflect type caches, fmt's sorted map printing): order-insensitive by the library's
			// contract and dependent on process-global lazy caches; fixed start, not a choice point
			return 0, true
		}
		n := 8
		if B > 0 {
			n = (1 << B) * 8
			if n > 32 {
				n = 32
			}
		}
		v := ch.Choose(n, "map")
		if debugSites {
			fmt.Printf("map point count=%d B=%d site=%s\n", count, B, site)
		}
		if v != 0 {
			devs = append(devs, "map:"+site)
		}
		if B > 2 {
			nb := 1 << B
			return mapiter.Start((v/8)*nb/4, v&7, B), true
		}
		return mapiter.Start(v>>3, v&7, B), true
	})
	root, evicted, txs, receipts := core.VerifExecuteBlock(st, b, "fullverify")
	mapiter.Uninstall()
	if d := runtime.NumGoroutine() - g0; d > goroutineDelta {
		goroutineDelta = d
	}
	utility.VerifSetTimeOffset(0)
	o := obsT{Root: root.Hex(), RTree: core.VerifCalcReceiptsTree(receipts).Hex()}
	for _, r := range receipts {
		j, _ := json.Marshal(r)
		o.Receipts = append(o.Receipts, string(j)+"|msg="+r.Msg)
	}
	for _, e := range evicted {
		o.Evicted = append(o.Evicted, e.Hex())
	}
	for _, t := range txs {
		o.Txs = append(o.Txs, t.Hash.Hex())
	}
	j, _ := json.Marshal(o)
	return string(j), devs
}

// executeVerifyBlock drives the whole-block path a validator runs: the header names the
// transactions, the pool supplies them, BlockChain.VerifyBlock executes them on the parent
// state and fills in state root, receipts root, evicted list and hash.
func executeVerifyBlock(in Input, ch *fw.Chooser, pt, warm int, devs []string) (string, []string) {
	chain := core.GetBlockChain()
	pool := service.GetTransactionPool()
	common.SetBlockHeight(0)
	defer common.SetBlockHeight(chainHeight)
	gen := chain.TopBlock()
	gst := node.StateAt(gen.StateTree)
	if warm == 1 {
		o := node.StateAt(gen.StateTree)
		wb := block([]TxSpec{{Kind: "transfer", Src: "B", Targets: [][2]string{{"F", "1"}}}}, o, 100)
		wb.Header.Height = 1
		core.VerifExecuteBlock(o, wb, "fullverify")
	}
	for _, r := range preTouch[pt] {
		// the pre-touch happens on the shared latest-state object the node keeps
		doRead(middleware.AccountDBManagerInstance.GetLatestStateDB(), r)
	}
	h := node.Header(gen, 1, 1, 5, time.Date(2024, 5, 1, 0, 0, 7, 0, time.UTC))
	var ptxs []*types.Transaction
	for i, sp := range in.Txs {
		t := buildTx(sp, i+500, gst)
		pool.AddTransaction(t)
		ptxs = append(ptxs, t)
		h.Transactions = append(h.Transactions, common.Hashes{t.Hash, t.SubHash})
	}
	h.TxTree = core.VerifCalcTxTree(ptxs) // the proposer's commitment to the list (checked before P020)
	h.Hash = h.GenHash()
	mapiter.Install(func(count int, B uint8) (uintptr, bool) {
		site, own := iterSite()
		if !own {
			return 0, true
		}
		n := 8
		if B > 0 {
			n = (1 << B) * 8
			if n > 32 {
				n = 32
			}
		}
		v := ch.Choose(n, "map")
		if v != 0 {
			devs = append(devs, "map:"+site)
		}
		if B > 2 {
			nb := 1 << B
			return mapiter.Start((v/8)*nb/4, v&7, B), true
		}
		return mapiter.Start(v>>3, v&7, B), true
	})
	miss, code := chain.VerifyBlock(h)
	mapiter.Uninstall()
	utility.VerifSetTimeOffset(0)
	o := obsT{Root: h.StateTree.Hex(), RTree: h.ReceiptTree.Hex()}
	for _, e := range h.EvictedTxs {
		o.Evicted = append(o.Evicted, e.Hex())
	}
	for _, t := range h.Transactions {
		o.Txs = append(o.Txs, t[0].Hex())
	}
	o.Receipts = []string{fmt.Sprintf("code=%d missing=%d hash=%s txtree=%s", code, len(miss), h.Hash.Hex(), h.TxTree.Hex())}
	j, _ := json.Marshal(o)
	return string(j), devs
}

func block(specs []TxSpec, st *account.AccountDB, salt int) *types.Block {
	top := core.GetBlockChain().TopBlock()
	bh := chainHeight + 1
	if blockAt != 0 && salt == 0 {
		bh = blockAt
	}
	h := node.Header(top, bh, 1, 5, time.Date(2024, 5, 1, 0, 0, salt, 0, time.UTC))
	b := &types.Block{Header: h}
	for i, s := range specs {
		if keepIdx != nil && salt == 0 {
			keep := false
			for _, k := range keepIdx {
				keep = keep || k == i
			}
			if !keep {
				continue
			}
		}
		b.Transactions = append(b.Transactions, buildTx(s, i+salt*10, st))
	}
	h.Hash = h.GenHash()
	return b
}

// iterSite returns the function ranging over the map (first frame above the runtime /
// reflect) and whether it is outside the Go standard library.
func iterSite() (string, bool) {
	pc := make([]uintptr, 48)
	n := runtime.Callers(2, pc)
	fr := runtime.CallersFrames(pc[:n])
	for {
		f, more := fr.Next()
		fn := f.Function
		if fn != "" && !strings.HasPrefix(fn, "runtime.") && !strings.HasPrefix(fn, "reflect.") &&
			!strings.HasPrefix(fn, "internal/") && !strings.HasPrefix(fn, "verif/h/fw") && !strings.HasPrefix(fn, "main.execute") {
			slash := strings.Index(fn, "/")
			first := fn
			if slash >= 0 {
				first = fn[:slash]
			}
			std := !strings.Contains(first, ".") || strings.HasPrefix(fn, "golang.org/x/")
			if strings.HasPrefix(fn, "main.") || strings.HasPrefix(fn, "verif/") {
				std = true // harness code itself
			}
			fn = strings.Replace(fn, "com.tuntun.rangers/node/src/", "", 1)
			for strings.HasSuffix(fn, ".func1") {
				fn = strings.TrimSuffix(fn, ".func1")
			}
			return fn, !std
		}
		if !more {
			return "unknown", false
		}
	}
}

func permutations(n int) [][]int {
	var out [][]int
	var rec func(cur []int, used []bool)
	rec = func(cur []int, used []bool) {
		if len(cur) == n {
			out = append(out, append([]int{}, cur...))
			return
		}
		for i := 0; i < n; i++ {
			if !used[i] {
				used[i] = true
				rec(append(cur, i), used)
				used[i] = false
			}
		}
	}
	rec(nil, make([]bool, n))
	return out
}

func inputs(thorough bool) []Input {
	var ins []Input
	// registry pre-states: the block-wide bookkeeping (rewards over the proposer and validator sets) on a
	// heterogeneous registry, for the empty block and two short lists
	for _, off := range same3Offsets {
		pre := fmt.Sprintf("same3:%d", off)
		if _, ok := preRoots[pre]; ok {
			ins = append(ins, Input{Name: "same3", Pre: pre, At: 400})
			ins = append(ins, Input{Name: "same3", Pre: pre, At: 400, Txs: []TxSpec{{Kind: "transfer", Src: "A", Targets: [][2]string{{"F", "3"}, {"B", "3"}}}}})
		}
	}
	for _, off := range hetOffsets {
		pre := fmt.Sprintf("het:%d", off)
		ins = append(ins, Input{Name: "het", Pre: pre})
		ins = append(ins, Input{Name: "het", Pre: pre, Txs: []TxSpec{{Kind: "transfer", Src: "A", Targets: [][2]string{{"F", "3"}, {"B", "3"}}}}})
		if thorough {
			ins = append(ins, Input{Name: "het", Pre: pre, Txs: []TxSpec{{Kind: "apply", Src: "B"}, {Kind: "call", Src: "A"}}})
		}
	}
	keys := []string{"B", "A", "AUP", "F"}
	amts := []string{"0", "1", "6", "7", "11", "bad"}
	if !thorough {
		amts = []string{"1", "6", "7"}
	}
	// transfers with 1..3 targets: every key subset, every amount assignment, every JSON key order
	for mask := 1; mask < 1<<len(keys); mask++ {
		var ks []string
		for i, k := range keys {
			if mask&(1<<i) != 0 {
				ks = append(ks, k)
			}
		}
		if len(ks) > 3 {
			continue
		}
		var assign func(i int, cur []string)
		assign = func(i int, cur []string) {
			if i == len(ks) {
				for _, perm := range permutations(len(ks)) {
					var tg [][2]string
					for _, p := range perm {
						tg = append(tg, [2]string{ks[p], cur[p]})
					}
					ins = append(ins, Input{Name: "transfer", Txs: []TxSpec{{Kind: "transfer", Src: "A", Targets: tg}}})
				}
				return
			}
			for _, a := range amts {
				assign(i+1, append(cur, a))
			}
		}
		assign(0, nil)
	}
	// lists of <= L transactions over the mixed alphabet
	alpha := []TxSpec{
		{Kind: "create", Src: "A"}, {Kind: "call", Src: "A"}, {Kind: "callvalue", Src: "B"}, {Kind: "callrevert", Src: "A"},
		{Kind: "calloog", Src: "B"}, {Kind: "ethcall", Src: "B"}, {Kind: "ethcall", Src: "P"}, {Kind: "call", Src: "P"}, {Kind: "callforkops", Src: "B"}, {Kind: "callstakeops", Src: "B"}, {Kind: "callprobe", Src: "B"}, {Kind: "callprecompiles", Src: "B"}, {Kind: "apply", Src: "B"}, {Kind: "applypoor", Src: "A"},
		{Kind: "add", Src: "B"}, {Kind: "refund", Src: "B"}, {Kind: "change", Src: "B"},
		{Kind: "transfer", Src: "B", Targets: [][2]string{{"A", "5"}}},
		{Kind: "transfer", Src: "A", Targets: [][2]string{{"B", "6"}, {"A", "7"}}},
		{Kind: "transfer", Src: "A", Targets: [][2]string{{"F", "3"}, {"B", "3"}, {"AUP", "3"}}},
		{Kind: "rawtransfer", Src: "A", Raw: "{bad json"},
	}
	L := 2
	if thorough {
		L = 3
	}
	var rec func(cur []TxSpec)
	rec = func(cur []TxSpec) {
		if len(cur) > 0 {
			ins = append(ins, Input{Name: "list", Txs: append([]TxSpec{}, cur...)})
		}
		if len(cur) == L {
			return
		}
		for _, a := range alpha {
			rec(append(cur, a))
		}
	}
	rec(nil)
	// whole-block seam: genesis parent (A holds 10^9), a reduced alphabet
	vb := [][]TxSpec{
		{{Kind: "transfer", Src: "A", Targets: [][2]string{{"B", "600000000"}, {"A", "700000000"}}}},
		{{Kind: "transfer", Src: "A", Targets: [][2]string{{"B", "600000000"}, {"AUP", "700000000"}, {"F", "1"}}}},
		{{Kind: "transfer", Src: "A", Targets: [][2]string{{"B", "1"}, {"F", "2"}}}, {Kind: "transfer", Src: "B", Targets: [][2]string{{"A", "5"}}}},
		{{Kind: "create", Src: "A"}, {Kind: "apply", Src: "B"}},
		{{Kind: "apply", Src: "B"}, {Kind: "add", Src: "B"}, {Kind: "refund", Src: "B"}},
		{{Kind: "apply", Src: "B"}, {Kind: "change", Src: "B"}},
		{{Kind: "ethcall", Src: "B"}, {Kind: "rawtransfer", Src: "A", Raw: "{bad json"}},
	}
	for _, txs := range vb {
		ins = append(ins, Input{Name: "verifyblock", Seam: "verifyblock", Txs: txs})
	}
	return ins
}

func checkInput(c *fw.Ctx, in Input, bound int) {
	// warm-up: lazily initialised process-global caches are filled before the compared runs
	execute(in, fw.NewReplayChooser(nil))
	for attempt := 0; ; attempt++ {
		if exploreInput(c, in, bound, attempt == 2) {
			return
		}
	}
}

func exploreInput(c *fw.Ctx, in Input, bound int, last bool) bool {
	var base string
	first := true
	nexec := 0
	mapPts := 0
	st := fw.Explore(bound, func(ch *fw.Chooser) {
		obs, devs := execute(in, ch)
		nexec++
		if first {
			base = obs
			first = false
			mapPts = ch.Points() - 3
			return
		}
		if obs != base {
			// re-run the same choice sequence: must fail identically
			same := true
			for k := 0; k < 3; k++ {
				o2, _ := execute(in, fw.NewReplayChooser(ch.Choices()))
				if o2 != obs {
					same = false
				}
			}
			b0, _ := execute(in, fw.NewReplayChooser(nil))
			if !same || b0 != base {
				c.Violation("C01:harness-nondeterminism", "replay", "same choice sequence gave different observations: nondeterminism not owned by the harness", Case{Input: in, Choices: ch.Choices()})
				return
			}
			sort.Strings(devs)
			sig := "C01:diverge:" + strings.Join(uniq(devs), "+")
			c.Violation(sig, "E1", fmt.Sprintf("input %s: execution with decisions %v differs from the default execution\n default: %s\n deviant: %s", mustJSON(in), devs, base, obs), Case{Input: in, Choices: ch.Choices()})
		}
	}, func(ch *fw.Chooser) {}, func() bool { return c.Expired() })
	c.Eval(st.Executions)
	if st.Divergence != nil && !last {
		c.Count("replay_divergence_retries", 1)
		return false
	}
	if st.Divergence != nil {
		c.Violation("C01:harness-replay-divergence", "replay", st.Divergence.Error()+" input "+mustJSON(in), Case{Input: in})
	}
	if st.Truncated {
		c.Cap("time budget: some inputs explored below the deviation bound")
	}
	if mapPts > 0 && st.Executions > 1 {
		c.NontrivialN(1)
	}
	evictedNoTrace(c, in, base)
	c.Count("map_iteration_points_default_runs", int64(mapPts))
	c.Outcome(outcomeClass(base))
	return true
}

// evictedNoTrace: the header carries the evicted list and the block body only the executed
// transactions, so a node that receives the block executes the list WITHOUT the evicted
// transactions; it must reach the same root and receipts as the node that executed the full
// list.  Hence an evicted transaction must leave no trace in the state.
func evictedNoTrace(c *fw.Ctx, in Input, base string) {
	if in.Seam != "" {
		return
	}
	var o obsT
	json.Unmarshal([]byte(base), &o)
	if len(o.Evicted) == 0 {
		return
	}
	ev := map[string]bool{}
	for _, e := range o.Evicted {
		ev[e] = true
	}
	// rebuild the specs of the surviving transactions (hashes are recomputed from the same content)
	st := node.StateAt(baseRoot)
	full := block(in.Txs, st, 0)
	var kept []TxSpec
	for i, t := range full.Transactions {
		if !ev[t.Hash.Hex()] {
			kept = append(kept, in.Txs[i])
		}
	}
	if len(kept) == len(in.Txs) {
		return
	}
	keepIdx = nil
	for i, t := range full.Transactions {
		if !ev[t.Hash.Hex()] {
			keepIdx = append(keepIdx, i)
		}
	}
	sub, _ := execute(in, fw.NewReplayChooser(nil))
	keepIdx = nil
	c.Eval(1)
	var os obsT
	json.Unmarshal([]byte(sub), &os)
	c.Count("evicted_no_trace_comparisons", 1)
	if os.Root != o.Root || strings.Join(os.Receipts, "|") != strings.Join(o.Receipts, "|") {
		c.Violation("C01:evicted-tx-leaves-trace", "evicted", fmt.Sprintf("input %s: executing the list without its evicted transactions %v gives a different result than executing the full list (a node receiving the block cannot reproduce the proposer's root)\n full list   : %s\n without them: %s",
			mustJSON(in), o.Evicted, base, sub), Case{Input: in})
	}
}

// keepIdx, when set, restricts block() to these positions of the input list (same
// transaction content and hashes, the others left out).
var keepIdx []int

func uniq(s []string) []string {
	var o []string
	for i, x := range s {
		if i == 0 || x != s[i-1] {
			o = append(o, x)
		}
	}
	return o
}

func outcomeClass(obs string) string {
	var o obsT
	json.Unmarshal([]byte(obs), &o)
	cls := fmt.Sprintf("txs=%d evicted=%d", len(o.Txs), len(o.Evicted))
	for _, r := range o.Receipts {
		if strings.Contains(r, `"status":0`) {
			cls += " fail"
		} else {
			cls += " ok"
		}
	}
	return cls
}

func mustJSON(v interface{}) string { b, _ := json.Marshal(v); return string(b) }

func run(c *fw.Ctx) {
	c.ConcPart() // schedule companion (checks/c01/conc): overlapping executions on their own account databases
	if c.Thorough() && c.Shard%2 == 1 {
		chainHeight = 2 // half of the workers explore the pre-P020/P023 table (inputs are sharded over the other half again)
	}
	setup()
	bound := 1
	if c.Thorough() {
		bound = 2
	}
	ins := inputs(c.Thorough())
	for _, sk := range preSkipped {
		c.Note("pre_state_skipped", sk)
	}
	c.Count("registry_pre_states", int64(len(preRoots)))
	c.Note("inputs_total", len(ins))
	c.Note("deviation_bound", bound)
	var firstMine *Input
	var firstObs string
	for i, in := range ins {
		if c.Thorough() {
			// workers 2k and 2k+1 take the same inputs under the two fork tables
			if (int64(i)+c.Seed)%int64((c.NShards+1)/2) != int64(c.Shard/2) {
				continue
			}
		} else if !c.Mine(int64(i)) {
			continue
		}
		if c.Expired() {
			c.Cap("time budget: not all inputs explored")
			break
		}
		if firstMine == nil {
			cp := in
			firstMine = &cp
			firstObs, _ = execute(in, fw.NewReplayChooser(nil)) // first block executed by this process
		}
		b := bound
		if in.Name == "list" && len(in.Txs) >= 3 {
			b = 1
		}
		checkInput(c, in, b)
		if i%97 == 0 {
			c.Sample(in)
		}
	}
	if firstMine != nil {
		again, _ := execute(*firstMine, fw.NewReplayChooser(nil))
		c.Eval(1)
		if again != firstObs {
			c.Violation("C01:diverge:env:fresh-process-vs-long-lived", "E1", "first execution in the process differs from a later one: "+mustJSON(*firstMine), Case{Input: *firstMine})
		}
	}
	c.Note("max_goroutines_created_inside_block_execution", goroutineDelta)
	// every worker compares a different slice of the inputs against a restarted node process
	var sample []Input
	for i, in := range ins {
		if in.Seam == "" && i%16 == c.Shard%16 && len(sample) < 24 {
			sample = append(sample, in)
		}
	}
	for _, txs := range [][]TxSpec{
		{{Kind: "callprobe", Src: "B"}},
		{{Kind: "callprobe", Src: "A"}, {Kind: "call", Src: "B"}},
		{{Kind: "call", Src: "A"}, {Kind: "callprobe", Src: "B"}},
		{{Kind: "create", Src: "A"}, {Kind: "callprobe", Src: "B"}},
		{{Kind: "callprecompiles", Src: "B"}},
		{{Kind: "callprecompiles", Src: "A"}, {Kind: "callprecompiles", Src: "B"}},
	} {
		sample = append(sample, Input{Name: "list", Txs: txs})
	}
	restartedProcessPart(c, sample)
	// local-head part over the single transactions and pairs of the mixed alphabet
	var lh []Input
	for _, in := range ins {
		if in.Seam == "" && in.Name == "list" && len(in.Txs) <= 2 {
			lh = append(lh, in)
		}
	}
	localHeadPart(c, lh)
	// proposer (casting, harness clock) vs verifier on every list of the mixed alphabet
	castPart(c, ins)
}

func replay(c *fw.Ctx, raw json.RawMessage) {
	var cs Case
	if err := json.Unmarshal(raw, &cs); err != nil {
		panic(err)
	}
	setup()
	var cc castCase
	if json.Unmarshal(raw, &cc) == nil && cc.Cast {
		castOne(c, cc.Input, cc.Step)
		return
	}
	if cs.Field != "" {
		fv := reflect.ValueOf(&common.LocalChainConfig).Elem().FieldByName(cs.Field)
		fv.SetUint(50)
		chainHeight = 49
		a, _ := execute(cs.Input, fw.NewReplayChooser(nil))
		headAhead = 1
		b, _ := execute(cs.Input, fw.NewReplayChooser(nil))
		headAhead = 0
		fmt.Printf("head=parent : %s\nhead=sibling: %s\n", a, b)
		if a != b {
			c.Violation("C01:diverge:env:local-head-height:"+cs.Field, "replay", "executions differ", cs)
		}
		return
	}
	debugSites = true
	base, _ := execute(cs.Input, fw.NewReplayChooser(nil))
	dev, devs := execute(cs.Input, fw.NewReplayChooser(cs.Choices))
	fmt.Printf("default : %s\ndeviant : %s\ndecisions: %v\n", base, dev, devs)
	if base != dev {
		sort.Strings(devs)
		c.Violation("C01:diverge:"+strings.Join(uniq(devs), "+"), "replay", "executions differ", cs)
	}
}

// ---- process-history dimension: a node that created its database in this process vs. a
// node restarted over an existing database must execute the same block identically ----

func childMain(args []string) {
	switch args[0] {
	case "boot": // create the database (genesis) and leave
		if err := node.Boot(node.ForksAllOn, true); err != nil {
			panic(err)
		}
		os.Exit(0)
	case "exec": // exec <inputs.json> <out.json>: boot over the existing database, execute, dump observations
		var ins []Input
		b, err := os.ReadFile(args[1])
		if err != nil {
			panic(err)
		}
		if err := json.Unmarshal(b, &ins); err != nil {
			panic(err)
		}
		if v := os.Getenv("C01_CHAIN_HEIGHT"); v != "" {
			fmt.Sscan(v, &chainHeight)
		}
		setup()
		var out []string
		for _, in := range ins {
			o, _ := execute(in, fw.NewReplayChooser(nil))
			out = append(out, o)
		}
		ob, _ := json.Marshal(out)
		os.WriteFile(args[2], ob, 0o644)
		os.Exit(0)
	}
	os.Exit(3)
}

// localHeadPart: the same block (same parent state, same header) executed by a node whose
// head is the block's parent and by a node whose head already is at the block's height (it
// verifies a sibling) must give the same outcome.  Fork predicates that read the node-local
// head height instead of the header break this exactly at an activation height, so every
// proposal of the fork table is moved, one at a time, to the height of the executed block.
func localHeadPart(c *fw.Ctx, ins []Input) {
	const hb = 50
	saveH := chainHeight
	defer func() { chainHeight = saveH; headAhead = 0; common.SetBlockHeight(saveH) }()
	cfg := reflect.ValueOf(&common.LocalChainConfig).Elem()
	var fields []string
	for i := 0; i < cfg.NumField(); i++ {
		n := cfg.Type().Field(i).Name
		if strings.HasPrefix(n, "Proposal") && strings.HasSuffix(n, "Block") {
			fields = append(fields, n)
		}
	}
	sort.Strings(fields)
	for fi, f := range fields {
		if !c.Mine(int64(fi)) {
			continue
		}
		fv := cfg.FieldByName(f)
		old := fv.Uint()
		fv.SetUint(hb)
		chainHeight = hb - 1
		diverged := 0
		for _, in := range ins {
			headAhead = 0
			a, _ := execute(in, fw.NewReplayChooser(nil))
			headAhead = 1
			b, _ := execute(in, fw.NewReplayChooser(nil))
			headAhead = 0
			c.Eval(2)
			if a != b {
				// same input, same head: must reproduce
				a2, _ := execute(in, fw.NewReplayChooser(nil))
				if a2 != a {
					c.Violation("C01:harness-nondeterminism", "local-head", "same execution differs on repetition: "+mustJSON(in), Case{Input: in})
					continue
				}
				diverged++
				c.Violation("C01:diverge:env:local-head-height:"+f, "local-head",
					fmt.Sprintf("with %s = %d, block %d (%s) gives different results on a node whose head is its parent (%d) and on a node whose head is at height %d\n head=parent : %s\n head=sibling: %s",
						f, hb, hb, mustJSON(in), hb-1, hb, a, b), Case{Input: in, Field: f})
			}
		}
		fv.SetUint(old)
		c.Count("local_head_comparisons", int64(len(ins)))
		c.Outcome(fmt.Sprintf("local-head %s diverging_inputs=%d", f, diverged))
	}
}

func restartedProcessPart(c *fw.Ctx, ins []Input) {
	if len(ins) == 0 {
		return
	}
	exe, _ := os.Executable()
	dir := filepath.Join(c.Scratch, "restarted-node")
	os.MkdirAll(dir, 0o755)
	defer os.RemoveAll(dir)
	runChild := func(args ...string) (string, error) {
		cmd := exec.Command(exe, append([]string{"--c01child"}, args...)...)
		cmd.Dir = dir
		cmd.Env = append(os.Environ(), fmt.Sprintf("C01_CHAIN_HEIGHT=%d", chainHeight)) // same fork table as this worker
		out, err := cmd.CombinedOutput()
		s := string(out)
		if len(s) > 1500 {
			s = s[len(s)-1500:]
		}
		return s, err
	}
	if out, err := runChild("boot"); err != nil {
		c.Infra("restarted-process part: first boot failed: " + out)
		return
	}
	// Two process histories are compared: this process created its database and executes every
	// sample block on the base parent state first and on the sibling parent state (same
	// addresses, other code / balances / storage) afterwards; the child is restarted over an
	// existing database and executes them on the sibling state first.  A process-local cache
	// that is keyed by less than the content it caches (an address instead of a code hash, ...)
	// or that survives from one state to another makes the two disagree on at least one side.
	var baseIns, sibIns []Input
	for _, in := range ins {
		baseIns = append(baseIns, in)
		sb := in
		sb.Sib = true
		sibIns = append(sibIns, sb)
	}
	childOrder := append(append([]Input{}, sibIns...), baseIns...)
	parentOrder := append(append([]Input{}, baseIns...), sibIns...)
	ib, _ := json.Marshal(childOrder)
	os.WriteFile(filepath.Join(dir, "inputs.json"), ib, 0o644)
	if out, err := runChild("exec", "inputs.json", "out.json"); err != nil {
		c.Violation("C01:restarted-process-died:"+fw.PanicSite([]byte("panic(\n"+out)), "process-history", "a node restarted over an existing database died executing the sample blocks: "+out, Case{Input: ins[0]})
		return
	}
	var theirsL []string
	ob, _ := os.ReadFile(filepath.Join(dir, "out.json"))
	json.Unmarshal(ob, &theirsL)
	theirs := map[string]string{}
	for i, in := range childOrder {
		if i < len(theirsL) {
			theirs[mustJSON(in)] = theirsL[i]
		}
	}
	distinct := map[string]bool{}
	for _, in := range parentOrder {
		mine, _ := execute(in, fw.NewReplayChooser(nil))
		c.Eval(2)
		distinct[mine] = true
		if t, ok := theirs[mustJSON(in)]; ok && mine != t {
			c.Violation("C01:diverge:env:created-database-vs-restarted-process", "process-history",
				fmt.Sprintf("input %s: two processes with different histories (creator of the database, base state executed first / restarted over the existing database, sibling state executed first) execute the block differently\n creator  : %s\n restarted: %s", mustJSON(in), mine, t), Case{Input: in})
		}
	}
	c.Count("process_history_distinct_observations", int64(len(distinct)))
	c.Count("restarted_process_comparisons", int64(len(parentOrder)))
}

func main() {
	if len(os.Args) > 2 && os.Args[1] == "--c01child" {
		childMain(os.Args[2:])
		return
	}
	fw.Main(fw.Check{
		ID: "C01", Level: "exploration",
		Rule: "for every input block of the alphabet (asset transfers with every 1-3 entry target map over {other,self,SELF-uppercase,fresh} x amounts x JSON key orders; " +
			"ordered lists of <=2 (quick) / <=3 (thorough) transactions over 20 representative transfer/contract/ETH-wrapped/miner transactions incl. a probe contract reading other accounts' code size/hash/bytes and balance), " +
			"stateless DFS over all executions with <= B deviations from the default decision at every choice point " +
			"(start position of every multi-entry Go map iteration on the executing goroutine, clock offset, 26 pre-touch read orders, warm caches); " +
			"plus two process histories (creator of the database executing on the base parent state first / process restarted over the database executing on a sibling parent state first) and node-local head positions; oracle: identical (state root, receipts JSON + msg, receipts root, evicted list, tx list). non-trivial = input whose default execution passes >=1 map-iteration point and had >=2 executions compared; inputs are distinct by construction",
		Assumptions: []string{
			"block execution is single-threaded (goroutines created inside the compared region are counted and reported)",
			"maps with more than 4 buckets: only 32 start positions tried; bucket placement depends on per-map hash seeds which are not enumerated",
			"seam: core block executor on a committed parent state (situation fullverify), dev fork table with every proposal active",
		},
		Run: run, Replay: replay,
		Budget: func(t string) time.Duration {
			if t == "thorough" {
				return 22 * time.Minute
			}
			return 100 * time.Second
		},
	})
}
