package main

// Casting part of C01: what a proposer produces must be reproducible by every verifier.  The
// proposer executes the packed list in situation "casting", where a time budget
// (MaxCastBlockTime, read from the node's clock) may cut the list short; it returns the
// transactions it actually executed.  A verifier executes exactly that returned list on the same
// parent state with the same header and must obtain the same state root and receipts — whatever
// the clock did on the proposer's machine.  The clock is a harness choice (hook H1b + overlay
// `clock`): every GetTime call advances it by a fixed step from a small menu, so the budget
// runs out before the 1st, 2nd, 3rd … transaction or never.

import (
	"encoding/json"
	"fmt"
	"sort"
	"time"

	"verif/h/fw"
	"verif/h/node"

	"com.tuntun.rangers/node/src/common"
	"com.tuntun.rangers/node/src/core"
	"com.tuntun.rangers/node/src/middleware/types"
	"com.tuntun.rangers/node/src/utility"
)

type castCase struct {
	Input Input `json:"input"`
	Cast  bool  `json:"cast"`
	Step  int   `json:"step_ms"`
}

func obsOf(root string, receipts []*types.Receipt) string {
	o := obsT{Root: root, RTree: core.VerifCalcReceiptsTree(receipts).Hex()}
	for _, r := range receipts {
		j, _ := json.Marshal(r)
		o.Receipts = append(o.Receipts, string(j)+"|msg="+r.Msg)
	}
	j, _ := json.Marshal(o)
	return string(j)
}

func castOne(c *fw.Ctx, in Input, stepMs int) {
	c.Eval(1)
	cs := castCase{Input: in, Cast: true, Step: stepMs}
	base := time.Date(2026, 1, 1, 0, 0, 0, 0, time.UTC)
	calls := 0
	utility.VerifSetClock(func() time.Time {
		calls++
		return base.Add(time.Duration(calls*stepMs) * time.Millisecond)
	})
	defer utility.VerifSetClock(nil)
	parent := baseRoot
	if in.Sib {
		parent = sibRoot
	}
	if in.Pre != "" {
		parent = preRoots[in.Pre]
	}
	if in.At != 0 {
		blockAt = in.At
		common.SetBlockHeight(in.At - 1)
		defer func() { blockAt = 0; common.SetBlockHeight(chainHeight) }()
	}
	st := node.StateAt(parent)
	b := block(in.Txs, st, 0)
	sort.Sort(types.Transactions(b.Transactions)) // the pool hands the proposer a sorted list
	var root1 string
	var txs []*types.Transaction
	var rc1 []*types.Receipt
	p, v, where := fw.Try(func() {
		r, _, t, rc := core.VerifExecuteBlock(st, b, "casting")
		root1, txs, rc1 = r.Hex(), t, rc
	})
	if p {
		c.Violation("C01:cast:panic:"+where, "casting", fmt.Sprintf("proposer execution panicked: %v (input %s, clock step %d ms)", v, mustJSON(in), stepMs), cs)
		return
	}
	// the verifier: same parent state, same header, exactly the returned list, its own (frozen) clock
	utility.VerifSetClock(func() time.Time { return base })
	st2 := node.StateAt(parent)
	hdr := *b.Header
	b2 := &types.Block{Header: &hdr, Transactions: append([]*types.Transaction{}, txs...)}
	var root2 string
	var rc2 []*types.Receipt
	p, v, where = fw.Try(func() {
		r, _, _, rc := core.VerifExecuteBlock(st2, b2, "fullverify")
		root2, rc2 = r.Hex(), rc
	})
	if p {
		c.Violation("C01:cast:panic:"+where, "casting", fmt.Sprintf("verifier execution panicked: %v (input %s)", v, mustJSON(in)), cs)
		return
	}
	c.Outcome(fmt.Sprintf("cast:executed-%d-of-%d", len(txs), len(b.Transactions)))
	if a, bb := obsOf(root1, rc1), obsOf(root2, rc2); a != bb {
		c.Violation("C01:diverge:cast-vs-verify", "casting",
			fmt.Sprintf("input %s, proposer clock advancing %d ms per reading: the proposer executed %d of %d transactions and returned them; a verifier executing exactly that list on the same parent state gets a different result\n proposer: %s\n verifier: %s",
				mustJSON(in), stepMs, len(txs), len(b.Transactions), a, bb), cs)
	}
}

func castPart(c *fw.Ctx, ins []Input) {
	steps := []int{0, 800, 1600, 3100}
	var idx, n int64
	for _, in := range ins {
		if in.Seam != "" || in.Name != "list" {
			continue
		}
		for _, s := range steps {
			idx++
			if !c.Mine(idx) {
				continue
			}
			if c.Expired() {
				c.Cap("time budget: casting part not finished")
				return
			}
			castOne(c, in, s)
			n++
		}
	}
	c.Count("cast_vs_verify_cases", n)
}
