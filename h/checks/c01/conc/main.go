// Companion of C01: two block executions that overlap in one process (the proposer's casting goroutine
// next to the verification of another block, RPC reads next to execution) each own their account
// database; the balance bookkeeping every transaction goes through (fee, transfer, stake, refund,
// reward: slot derivation and 18-decimal re-scaling in accountdb_eth.go / accountdb_tuntun.go) must give
// each of them exactly the state root and balances it gets alone.
package main

import (
	"fmt"
	"math/big"
	"os"

	"verif/h/conc"

	"com.tuntun.rangers/node/src/common"
	"com.tuntun.rangers/node/src/middleware/db"
	"com.tuntun.rangers/node/src/storage/account"
)

func addr(a, b byte) common.Address { return common.BytesToAddress([]byte{0xc0, 0x01, a, b}) }

// ledger: fresh in-memory state; fund two accounts, move value back and forth (including a refused
// overdraft), bind a token with its own decimal count and move that too; root and every balance read.
func ledger(tag byte, fund int64, moves []int64, dec uint64) func() string {
	return func() string {
		mem, err := db.NewMemDatabase()
		if err != nil {
			return "memdb: " + err.Error()
		}
		st, err := account.NewAccountDB(common.Hash{}, account.NewDatabase(mem))
		if err != nil {
			return "state: " + err.Error()
		}
		x, y := addr(tag, 1), addr(tag, 2)
		st.SetBalance(x, big.NewInt(fund))
		st.SetBalance(y, big.NewInt(7))
		out := ""
		for _, m := range moves {
			v := big.NewInt(m)
			if st.GetBalance(x).Cmp(v) >= 0 {
				st.SubBalance(x, v)
				st.AddBalance(y, v)
			} else {
				out += fmt.Sprintf("refused(%d) ", m)
			}
			x, y = y, x
		}
		name := fmt.Sprintf("TK%d", tag)
		unit := new(big.Int).Exp(big.NewInt(10), big.NewInt(int64(18-dec)), nil)
		st.AddERC20Binding(name, addr(tag, 9), 3, dec)
		st.SetFT(x, name, new(big.Int).Mul(big.NewInt(fund), unit))
		_, ok := st.SubFT(x, name, new(big.Int).Mul(big.NewInt(3), unit))
		st.AddFT(y, name, new(big.Int).Mul(big.NewInt(3), unit))
		root := st.IntermediateRoot(true)
		return fmt.Sprintf("%sroot=%x x=%s y=%s ftx=%s fty=%s sub=%v nonce=%d", out, root, st.GetBalance(x), st.GetBalance(y),
			st.GetFT(x, name), st.GetFT(y, name), ok, st.GetNonce(x))
	}
}

func main() {
	stdout := os.Stdout
	os.Stdout = os.Stderr
	common.Init(0, "1.ini", "dev")
	account.Init()
	common.SetBlockHeight(20)
	os.Stdout = stdout
	scenarios := []conc.Scenario{
		// different accounts and amounts on the two states
		{Name: "ledger||ledger-other-accounts", Mk: func() []func() string {
			return []func() string{ledger(1, 1000, []int64{10, 3, 2000, 5}, 18), ledger(2, 500, []int64{499, 1, 1}, 6)}
		}},
		// the same accounts and amounts on both states
		{Name: "ledger||ledger-same", Mk: func() []func() string {
			return []func() string{ledger(3, 100, []int64{10, 3}, 9), ledger(3, 100, []int64{10, 3}, 9)}
		}},
	}
	if len(os.Args) > 1 && os.Args[1] == "dump" {
		for _, sc := range scenarios {
			for i, b := range sc.Mk() {
				fmt.Printf("%s [%d] %s\n", sc.Name, i, b())
			}
		}
		return
	}
	conc.Main(scenarios)
}
