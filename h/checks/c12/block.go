package main

// Part (c): blocks of transactions of every type whose executor runs the EVM (native contract
// call / creation, json-rpc (wrapped Ethereum) call / creation, operator-node) plus non-EVM
// fillers, executed by the real block executor as a verifying node does ("fullverify").

import (
	"encoding/json"
	"fmt"
	"math/big"
	"strings"
	"time"

	"verif/h/asm"
	"verif/h/fw"
	"verif/h/node"

	"com.tuntun.rangers/node/src/common"
	"com.tuntun.rangers/node/src/core"
	crypto "com.tuntun.rangers/node/src/eth_crypto"
	"com.tuntun.rangers/node/src/middleware/types"
	"com.tuntun.rangers/node/src/service"
	"com.tuntun.rangers/node/src/utility"
	"com.tuntun.rangers/node/src/vm"
)

const (
	bCall       = iota // native contract call of the probe
	bCreate            // native contract creation, probe as init code
	bEthCall           // json-rpc transaction (type 188) calling the probe
	bEthCreate         // json-rpc transaction creating a contract, probe as init code
	bOpNode            // operator-node transaction (type 7): its executor calls the main-node contract
	bFailCall          // native contract call of the probe that reverts after its logs
	bTransfer          // filler: plain transfer
	bMinerApply        // filler: miner transaction
	nBlockKinds
)

var blockKindName = []string{"CALL", "CREATE", "ETH-CALL", "ETH-CREATE", "OPERATOR-NODE", "FAILING-CALL", "TRANSFER", "MINER-APPLY"}

func blockKindEVM(k int) bool { return k <= bFailCall }

var newAcctWord = fixedAddr(0xE5, 0)

// one sender per block position (each owns a proposer miner); numerically descending so that the
// verifying-side sort keeps the intended order
func blockSender(pos int) common.Address { return fixedAddr(0x9F, 8-pos) }

func emitSandwich(p *asm.Prog, memOff int) {
	p.Op(vm.GAS)
	p.Push(0).Push(0).Push(0).Push(0).Push(0).Push(0).PushN(20, warmAddr.Bytes()).Push(1).Push(0).Op(vm.AUTHCALL, vm.POP)
	p.Op(vm.GAS, vm.SWAP1, vm.SUB).Push(memOff).Op(vm.MSTORE)
}

// probeCode: log0 = what the transaction finds in transient slot 0 (then writes it), log1/log2 =
// cost of the first / second access-list-sensitive access of a fixed address, log3 = a word the
// operator-node executor takes as the new account.  First calldata byte 0xff: revert at the end.
func probeCode(initcode bool) []byte {
	p := asm.New()
	p.Push(0).Op(vm.TLOAD).Push(0).Op(vm.MSTORE)
	p.Push(1).Push(0).Op(vm.TSTORE)
	p.PushN(20, newAcctWord.Bytes()).Push(0x60).Op(vm.MSTORE)
	emitSandwich(p, 0x20)
	emitSandwich(p, 0x40)
	for _, off := range []int{0, 0x20, 0x40, 0x60} {
		p.Push(32).Push(off).Op(vm.LOG0)
	}
	if initcode {
		return p.Return(0, 0).Bytes()
	}
	p.Push(0).Op(vm.CALLDATALOAD).Push(248).Op(vm.SHR).Push(0xff).Op(vm.EQ).PushLabel("fail").Op(vm.JUMPI)
	p.Op(vm.STOP).Label("fail").Revert(0, 0)
	return p.Bytes()
}

var blockBase common.Hash

func blockSetup() {
	if blockBase != (common.Hash{}) {
		return
	}
	st := node.LatestState()
	st.SetCode(common.MainNodeContract(), probeCode(false))
	st.SetNonce(common.MainNodeContract(), 1)
	rich, _ := utility.StrToBigInt("100000")
	for pos := 0; pos < 3; pos++ {
		src := blockSender(pos)
		st.SetBalance(src, rich)
		service.MinerManagerImpl.InsertMiner(&types.Miner{Id: []byte{0xC1, 0x20, byte(pos)}, Type: common.MinerTypeProposer,
			Stake: common.ProposerStake * 3, Account: src.Bytes(), PublicKey: []byte{1, 2, 3, 4}, VrfPublicKey: []byte{5, 6, 7, 8},
			Status: common.MinerStatusNormal}, st)
	}
	root, err := st.Commit(true)
	if err != nil {
		panic(err)
	}
	blockBase = root
}

func blockTx(kind, pos int) *types.Transaction {
	src := blockSender(pos).GetHexString()
	stamp := fmt.Sprintf("c12-%d", pos)
	mainNode := common.MainNodeContract().GetHexString()
	switch kind {
	case bCall:
		return node.ContractTx(types.TransactionTypeContract, src, mainNode, common.FromHex("0x412a5a6d"), 20000000, "0", 0, stamp)
	case bCreate:
		return node.ContractTx(types.TransactionTypeContract, src, "", probeCode(true), 20000000, "0", 0, stamp)
	case bEthCall:
		return node.ContractTx(types.TransactionTypeETHTX, src, mainNode, common.FromHex("0x412a5a6d"), 20000000, "0", 0, stamp)
	case bEthCreate:
		return node.ContractTx(types.TransactionTypeETHTX, src, "", probeCode(true), 20000000, "0", 0, stamp)
	case bOpNode:
		return node.Tx(types.TransactionTypeOperatorNode, src, "", "", "", 0, 0, stamp)
	case bFailCall:
		return node.ContractTx(types.TransactionTypeContract, src, mainNode, []byte{0xff}, 20000000, "0", 0, stamp)
	case bTransfer:
		return node.TransferTx(src, fmt.Sprintf("{%q:{\"balance\":\"1\"}}", fixedAddr(0xE6, pos).GetHexString()), 0, stamp)
	default:
		m := types.Miner{Id: []byte{0xC1, 0x21, byte(pos)}, Type: common.MinerTypeValidator, Stake: common.ValidatorStake,
			PublicKey: []byte{1, 2, 3, 4}, VrfPublicKey: []byte{5, 6, 7, 8}, Account: blockSender(pos).Bytes()}
		b, _ := json.Marshal(m)
		return node.Tx(types.TransactionTypeMinerApply, src, "", string(b), "", 0, 0, stamp)
	}
}

type blkLog struct {
	Addr    string `json:"addr"`
	Data    string `json:"data"`
	TxHash  string `json:"tx_hash"`
	TxIndex uint   `json:"tx_index"`
}

type blkObs struct {
	Hash      string   `json:"hash"`
	Status    uint     `json:"status"`
	Msg       string   `json:"msg"`
	Receipt   []blkLog `json:"receipt_logs"`
	StateLogs []blkLog `json:"state_logs"`
}

func toBlkLogs(ls []*types.Log) []blkLog {
	var out []blkLog
	for _, l := range ls {
		out = append(out, blkLog{l.Address.GetHexString(), common.Bytes2Hex(l.Data), l.TxHash.String(), l.TxIndex})
	}
	return out
}

func execBlock(kinds []int) ([]blkObs, error) {
	blockSetup()
	st := node.StateAt(blockBase)
	top := core.GetBlockChain().TopBlock()
	h := node.Header(top, execHeight+1, 1, 5, time.Date(2024, 5, 1, 0, 0, 0, 0, time.UTC))
	b := &types.Block{Header: h}
	var txs []*types.Transaction
	for pos, k := range kinds {
		tx := blockTx(k, pos)
		txs = append(txs, tx)
		b.Transactions = append(b.Transactions, tx)
	}
	h.Hash = h.GenHash()
	_, _, done, receipts := core.VerifExecuteBlock(st, b, "fullverify")
	if len(done) != len(kinds) || len(receipts) != len(kinds) {
		return nil, fmt.Errorf("executor handled %d transactions / %d receipts of %d", len(done), len(receipts), len(kinds))
	}
	var obs []blkObs
	for i, tx := range txs {
		if done[i].Hash != tx.Hash || receipts[i].TxHash != tx.Hash {
			return nil, fmt.Errorf("transaction %d executed out of order", i)
		}
		r := receipts[i]
		obs = append(obs, blkObs{tx.Hash.String(), r.Status, r.Msg, toBlkLogs(r.Logs), toBlkLogs(st.GetLogs(tx.Hash))})
	}
	return obs, nil
}

type blockCase struct {
	Part  string `json:"part"`
	Kinds []int  `json:"kinds"`
	Text  string `json:"text"`
}

func blockText(kinds []int) string {
	var s []string
	for _, k := range kinds {
		s = append(s, blockKindName[k])
	}
	return strings.Join(s, " ; ")
}

var blockRefs []blkObs // every kind alone in a block (position 0)

func blockRef(kind int) blkObs {
	if blockRefs == nil {
		for k := 0; k < nBlockKinds; k++ {
			o, err := execBlock([]int{k})
			if err != nil {
				panic(err)
			}
			blockRefs = append(blockRefs, o[0])
		}
	}
	return blockRefs[kind]
}

type finding struct{ sig, msg string }

func judgeBlock(kinds []int, obs []blkObs) []finding {
	var out []finding
	zero := strings.Repeat("00", 32)
	for i, k := range kinds {
		o, ref := obs[i], blockRef(k)
		name := blockKindName[k]
		where := fmt.Sprintf("tx %d (%s) of block [%s]", i, name, blockText(kinds))
		if !blockKindEVM(k) {
			if len(o.Receipt) != 0 || len(o.StateLogs) != 0 {
				out = append(out, finding{"C12:block:logs-on-non-evm-tx:" + name, fmt.Sprintf("%s: receipt carries %d logs, state files %d logs under it; it emits none", where, len(o.Receipt), len(o.StateLogs))})
			}
			continue
		}
		if o.Status != ref.Status {
			out = append(out, finding{"C12:block:tx-status:" + name, fmt.Sprintf("%s: status %d (%s), alone in a block %d", where, o.Status, o.Msg, ref.Status)})
			continue
		}
		want := 4
		if k == bFailCall || o.Status != types.ReceiptStatusSuccessful {
			want = 0
		}
		for li, list := range [][]blkLog{o.Receipt, o.StateLogs} {
			what := []string{"receipt-logs", "state-logs"}[li]
			if len(list) != want {
				d := "missing"
				if len(list) > want {
					d = "extra"
				}
				out = append(out, finding{"C12:block:" + what + ":" + d + ":" + name, fmt.Sprintf("%s: %s has %d logs, the transaction emitted (and kept) %d", where, what, len(list), want)})
			}
			addr := common.MainNodeContract()
			if k == bCreate || k == bEthCreate {
				addr = crypto.CreateAddress(blockSender(i), 0)
			}
			for j, l := range list {
				if l.TxHash != o.Hash || l.TxIndex != uint(i) {
					out = append(out, finding{"C12:block:log-stamp:" + name, fmt.Sprintf("%s: %s[%d] is stamped tx %s index %d, want %s index %d", where, what, j, l.TxHash, l.TxIndex, o.Hash, i)})
					break
				}
				if j < want && l.Addr != addr.GetHexString() {
					out = append(out, finding{"C12:block:log-address:" + name, fmt.Sprintf("%s: %s[%d] address %s want %s", where, what, j, l.Addr, addr.GetHexString())})
					break
				}
			}
			// every run of the probe files four logs: found-transient, first access, second access, word
			for g := 0; g+4 <= len(list); g += 4 {
				if list[g].Data != zero {
					out = append(out, finding{"C12:block:transient-leak:" + name, fmt.Sprintf("%s: a transaction filed under it in %s started with transient slot 0 = %s, want empty", where, what, list[g].Data)})
				}
				if len(ref.Receipt) == 4 && (list[g+1].Data != ref.Receipt[1].Data || list[g+2].Data != ref.Receipt[2].Data) {
					out = append(out, finding{"C12:block:access-list-leak:" + name, fmt.Sprintf("%s: (first, second) access cost in %s (%s, %s), alone in a block (%s, %s): the first access was not cold",
						where, what, list[g+1].Data, list[g+2].Data, ref.Receipt[1].Data, ref.Receipt[2].Data)})
				}
			}
		}
	}
	return out
}

func checkBlock(c *fw.Ctx, kinds []int) {
	c.Eval(1)
	kase := blockCase{"block", kinds, blockText(kinds)}
	var obs []blkObs
	var err error
	if p, v, where := fw.Try(func() { obs, err = execBlock(kinds) }); p {
		c.Violation("C12:panic:"+where, "blocks", fmt.Sprintf("panic %v in block [%s]", v, kase.Text), kase)
		return
	}
	if err != nil {
		c.Violation("C12:block:executor-skipped-tx", "blocks", err.Error()+" in ["+kase.Text+"]", kase)
		return
	}
	fs := judgeBlock(kinds, obs)
	st := ""
	for _, o := range obs {
		st += fmt.Sprint(o.Status)
	}
	c.Outcome(fmt.Sprintf("block len=%d status=%s violating=%v", len(kinds), st, len(fs) > 0))
	if len(fs) == 0 {
		return
	}
	obs2, err2 := execBlock(kinds)
	if err2 != nil || fmt.Sprint(judgeBlock(kinds, obs2)) != fmt.Sprint(fs) {
		c.Violation("C12:nondeterministic", "blocks", fmt.Sprintf("two runs of block [%s] differ", kase.Text), kase)
		return
	}
	seen := map[string]bool{}
	for _, f := range fs {
		if !seen[f.sig] {
			seen[f.sig] = true
			c.Violation(f.sig, "blocks", f.msg, kase)
		}
	}
}

func runBlocks(c *fw.Ctx) {
	var idx int64
	for l := 1; l <= 3; l++ {
		total := 1
		for i := 0; i < l; i++ {
			total *= nBlockKinds
		}
		for t := 0; t < total; t++ {
			i := idx
			idx++
			if !c.Mine(i) {
				continue
			}
			if c.Expired() {
				c.Cap("blocks not finished (time)")
				return
			}
			kinds := make([]int, l)
			for j, tt := 0, t; j < l; j++ {
				kinds[j] = tt % nBlockKinds
				tt /= nBlockKinds
			}
			checkBlock(c, kinds)
			if l >= 2 {
				c.NontrivialN(1)
			}
			if i%211 == 0 {
				c.Sample(map[string]interface{}{"part": "blocks", "block": blockText(kinds)})
			}
		}
	}
	alone := map[string]string{}
	for k := 0; k < nBlockKinds; k++ {
		r := blockRef(k)
		alone[blockKindName[k]] = fmt.Sprintf("status=%d receipt-logs=%d", r.Status, len(r.Receipt))
	}
	c.Note("block_tx_kinds_alone", alone)
	if r := blockRef(bCall); len(r.Receipt) == 4 {
		d1, _ := new(big.Int).SetString(r.Receipt[1].Data, 16)
		d2, _ := new(big.Int).SetString(r.Receipt[2].Data, 16)
		c.Note("block_probe_first_minus_second_access_gas", new(big.Int).Sub(d1, d2).String())
	}
	c.Note("blocks_enumerated", idx)
}
