// C12: failed/static EVM frames leave no trace; per-transaction scratch state does not leak.
//
// (a) frame trees (E4): every tree of a stated finite family of nested CALL / CALLCODE /
//
//	DELEGATECALL / STATICCALL / CREATE / CREATE2 frames x outcome x effect is assembled into
//	contracts, run by the real EVM and compared with a recursive reference model.
//
// (b) transaction sequences (E2): every sequence of <= 3 (thorough 4) transactions over a small
//
//	alphabet is executed on one state object by the real block executor; every transaction
//	must behave exactly as the reference says for a transaction starting with empty
//	transient storage / access list, and its receipt must carry exactly its own logs.
package main

import (
	"encoding/json"
	"fmt"
	"time"

	"verif/h/fw"
	"verif/h/node"

	"com.tuntun.rangers/node/src/common"
)

func main() {
	fw.Main(fw.Check{
		ID: "C12", Level: "exploration",
		Rule: "part a: one case = one frame tree (kind x outcome x effect per frame); trees are enumerated by mixed-radix decoding of a running index over the families " +
			"F1 (depth<=2, fan-out<=2, full product; quick: no root effect when there are two children), F2 (depth-3 chains, full product; quick: effect in the deepest frame only), " +
			"F3 (all 4-frame depth-3 shapes, every kind x outcome, one effect type per tree placed at all frames or at the leaves; quick: one shape, reduced alphabet), " +
			"F4 (thorough: 5-frame depth-3 shapes and the full binary depth-3 tree over reduced alphabets); distinct by construction; non-trivial = at least one executed effect " +
			"lies inside a failed or static frame. part b: one case = one sequence of transactions; non-trivial = length >= 2. part c: one case = one block of 1..3 transactions over 8 kinds (native call / creation, json-rpc call / creation, operator-node, failing call, transfer, miner apply) executed by the block executor as a verifier (fullverify); non-trivial = length >= 2",
		Assumptions: []string{
			"harness assembler, address derivation (crypto.CreateAddress/2) and the node boot fixture are trusted",
			"forks: all proposals active (P026 at height 1), execution height 2; gas chosen so that no frame runs out of gas unintentionally (1<<62 at the root)",
			"existence of a code-less account that received a surviving plain value transfer is implementation-defined and not compared",
			"block executor run with situation \"testing\" (no reward/refund side paths)",
		},
		Run: run, Replay: replay,
		Budget: func(tier string) time.Duration {
			if tier == "thorough" {
				return 17 * time.Minute
			}
			return 100 * time.Second
		},
	})
}

func boot() {
	if err := node.Boot(node.ForksAllOn, true); err != nil {
		panic(err)
	}
	common.SetBlockHeight(execHeight)
}

type spec struct{ K, O, E int }

func nonRootSpecs(kinds, outcomes, effects []int) []spec {
	var out []spec
	for _, k := range kinds {
		for _, o := range outcomes {
			if (o == oDepOOG || o == oDepBig) && k != kCreate && k != kCreate2 {
				continue
			}
			for _, e := range effects {
				out = append(out, spec{k, o, e})
			}
		}
	}
	return out
}

func seq(n int) []int {
	var s []int
	for i := 0; i < n; i++ {
		s = append(s, i)
	}
	return s
}

func mk(s spec, ch ...*Node) *Node { return &Node{K: s.K, O: s.O, E: s.E, C: ch} }

// shape describes a tree topology as parent indices in preorder (parent of node 0 is -1).
type shape []int

func (sh shape) build(specs []spec) *Node {
	nodes := make([]*Node, len(sh))
	for i := range sh {
		nodes[i] = mk(specs[i])
		if sh[i] >= 0 {
			nodes[sh[i]].C = append(nodes[sh[i]].C, nodes[i])
		}
	}
	return nodes[0]
}

func (sh shape) leaf(i int) bool {
	for _, p := range sh {
		if p == i {
			return false
		}
	}
	return true
}

var (
	shapes4 = []shape{{-1, 0, 1, 1}, {-1, 0, 1, 0}, {-1, 0, 0, 2}}
	shapes5 = []shape{{-1, 0, 1, 0, 3}, {-1, 0, 1, 1, 0}, {-1, 0, 0, 2, 2}}
	shape7  = shape{-1, 0, 1, 1, 0, 4, 4}
)

type enumerator struct {
	pm   int
	c    *fw.Ctx
	idx  int64
	mine int64
	cut  bool
}

func (e *enumerator) tree(build func() *Node) bool {
	i := e.idx
	e.idx++
	if !e.c.Mine(i) {
		return true
	}
	e.mine++
	if e.mine&31 == 0 && e.c.Expired() {
		e.cut = true
		return false
	}
	root := build()
	checkTree(e.c, root, e.pm)
	if nontrivial(root) {
		e.c.NontrivialN(1)
	}
	if i%200003 == 0 {
		e.c.Sample(map[string]interface{}{"part": "frame-trees", "index": i, "tree": root.String()})
	}
	return true
}

// nontrivial: some executed effect lies inside a failed or static frame (model bookkeeping
// left on the nodes by the last run).
func nontrivial(root *Node) bool {
	var found bool
	var walk func(n *Node, dead bool)
	walk = func(n *Node, dead bool) {
		dead = dead || n.fail != ""
		if n.ran && n.E != eNone && dead {
			found = true
		}
		for _, c := range n.C {
			walk(c, dead)
		}
	}
	walk(root, false)
	return found
}

// products enumerates the shape over per-frame kind x outcome choices (ko for non-root frames,
// rootOut for the root) and one effect type placed at all frames / at the leaves only.
func (e *enumerator) products(name string, sh shape, ko []spec, rootOut []int, effects []int) {
	n := len(sh)
	total := int64(len(rootOut))
	for i := 1; i < n; i++ {
		total *= int64(len(ko))
	}
	for _, eff := range effects {
		modes := 2
		if eff == eNone {
			modes = 1
		}
		for mode := 0; mode < modes; mode++ {
			for t := int64(0); t < total; t++ {
				tt, ef, md := t, eff, mode
				ok := e.tree(func() *Node {
					specs := make([]spec, n)
					specs[0] = spec{kCall, rootOut[tt%int64(len(rootOut))], eNone}
					tt /= int64(len(rootOut))
					for i := 1; i < n; i++ {
						specs[i] = ko[tt%int64(len(ko))]
						tt /= int64(len(ko))
					}
					for i := range specs {
						if md == 0 || sh.leaf(i) {
							specs[i].E = ef
						}
					}
					return sh.build(specs)
				})
				if !ok {
					e.c.Cap("frame-trees: family " + name + " not finished (time)")
					return
				}
			}
		}
	}
	e.c.Count("family_"+name+"_complete", 1)
}

func run(c *fw.Ctx) {
	boot()
	runTxSeqs(c)
	runBlocks(c)

	allK, allO, allE := seq(nKinds), seq(nOutcomes), seq(nEffects)
	full := nonRootSpecs(allK, allO, allE)
	ko := nonRootSpecs(allK, allO, []int{eNone})
	var roots []spec
	for _, o := range []int{oReturn, oRevert, oInvalid, oOOG} {
		for _, e := range allE {
			roots = append(roots, spec{kCall, o, e})
		}
	}
	plainRoots := []spec{{kCall, oReturn, eNone}, {kCall, oRevert, eNone}, {kCall, oInvalid, eNone}, {kCall, oOOG, eNone}}
	en := &enumerator{c: c}
	nf := int64(len(full))

	// F1: depth <= 2, fan-out <= 2, full product (quick: with two children the root itself has no effect)
	f1 := func() {
		per := 1 + nf + nf*nf
		rts := roots
		for pass := 0; pass < 2; pass++ {
			if !c.Thorough() {
				if pass == 0 {
					per = 1 + nf
				} else {
					per, rts = nf*nf, plainRoots
				}
			} else if pass == 1 {
				break
			}
			for t := int64(0); t < int64(len(rts))*per; t++ {
				tt, pp, quick2 := t, per, !c.Thorough() && pass == 1
				if !en.tree(func() *Node {
					r := rts[tt/pp]
					x := tt % pp
					if quick2 {
						x += 1 + nf
					}
					switch {
					case x == 0:
						return mk(r)
					case x <= nf:
						return mk(r, mk(full[x-1]))
					default:
						x -= 1 + nf
						return mk(r, mk(full[x/nf]), mk(full[x%nf]))
					}
				}) {
					c.Cap("frame-trees: family F1 not finished (time)")
					return
				}
			}
		}
		c.Count("family_F1_complete", 1)
	}
	// F2: depth-3 chains; quick: effect only in the deepest frame, thorough: full product
	f2 := func() {
		mid, rts := ko, plainRoots
		if c.Thorough() {
			mid, rts = full, roots
		}
		total := int64(len(rts)) * int64(len(mid)) * nf
		for t := int64(0); t < total; t++ {
			tt := t
			if !en.tree(func() *Node {
				z := full[tt%nf]
				tt /= nf
				y := mid[tt%int64(len(mid))]
				tt /= int64(len(mid))
				return mk(rts[tt], mk(y, mk(z)))
			}) {
				c.Cap("frame-trees: family F2 not finished (time)")
				return
			}
		}
		c.Count("family_F2_complete", 1)
	}
	// FA: AUTH + AUTHCALL (P014 opcodes with real arguments: harness-signed EIP-3074 message) as the
	// effect of the root, of a depth-2 frame of every kind x outcome, and of a depth-3 frame
	fa := func() {
		leaf := nonRootSpecs([]int{kCall, kDelegate, kStatic, kCreate}, []int{oReturn, oRevert}, []int{eNone})
		if c.Thorough() {
			leaf = ko
		}
		nko, nl, nv := int64(len(ko)), int64(len(leaf)), int64(nAuthVariants)
		auth := func(s spec, a int64) *Node { return &Node{K: s.K, O: s.O, E: eAuth, A: int(a)} }
		total := 4*nv + 4*nko*nv + 2*nko*nl*nv
		for t := int64(0); t < total; t++ {
			tt := t
			if !en.tree(func() *Node {
				a := tt % nv
				tt /= nv
				switch {
				case tt < 4:
					return auth(plainRoots[tt], a)
				case tt < 4+4*nko:
					tt -= 4
					return mk(plainRoots[tt%4], auth(ko[tt/4], a))
				default:
					tt -= 4 + 4*nko
					l := leaf[tt%nl]
					tt /= nl
					return mk(plainRoots[tt%2], mk(ko[tt/2], auth(l, a)))
				}
			}) {
				c.Cap("frame-trees: family FA not finished (time)")
				return
			}
		}
		c.Count("family_FA_complete", 1)
	}
	fa()
	// FP: pre-state dimension.  Root (every outcome x effect) alone and with one child (full
	// product), run after committed set-up + uncommitted earlier effects of the same block;
	// thorough adds the depth-3 chains with the effect in the deepest frame
	fp := func() {
		defer func() { en.pm = preNone }()
		for pm := preCommitted; pm < nPre; pm++ {
			en.pm = pm
			per := 1 + nf
			total := int64(len(roots)) * per
			if c.Thorough() {
				total += 4 * int64(len(ko)) * nf
			}
			for t := int64(0); t < total; t++ {
				tt := t
				if !en.tree(func() *Node {
					if tt < int64(len(roots))*per {
						r, x := roots[tt/per], tt%per
						if x == 0 {
							return mk(r)
						}
						return mk(r, mk(full[x-1]))
					}
					tt -= int64(len(roots)) * per
					z := full[tt%nf]
					tt /= nf
					return mk(plainRoots[tt%4], mk(ko[tt/4], mk(z)))
				}) {
					c.Cap("frame-trees: family FP not finished (time)")
					return
				}
			}
		}
		c.Count("family_FP_complete", 1)
	}
	fp()
	// FC: callee class PRECOMPILE.  Every precompile of the table under test x (accepted input /
	// rejected input / gas 0) x value (0 / >0) x target (absent / existing), called by the root
	// (every outcome) and by a depth-2 frame of every kind x outcome; and, on a committed
	// pre-state (Commit + re-open oracle), by the root and by a depth-2 frame of a reduced alphabet
	fc := func() {
		defer func() { en.pm = preNone }()
		pv := precVariants()
		c.Note("precompile_variants", len(pv))
		red := nonRootSpecs([]int{kCall, kDelegate, kStatic, kCreate}, []int{oReturn, oRevert}, []int{eNone})
		prec := func(s spec, a int) *Node { return &Node{K: s.K, O: s.O, E: ePrecompile, A: a} }
		for pass, mid := range [][]spec{ko, red} {
			en.pm = []int{preNone, preCommitted}[pass]
			nm, nv := int64(len(mid)), int64(len(pv))
			for t := int64(0); t < 4*(1+nm)*nv; t++ {
				tt := t
				if !en.tree(func() *Node {
					a := pv[tt%nv]
					tt /= nv
					r := plainRoots[tt%4]
					tt /= 4
					if tt == 0 {
						return prec(r, a)
					}
					return mk(r, prec(mid[tt-1], a))
				}) {
					c.Cap("frame-trees: family FC not finished (time)")
					return
				}
			}
		}
		c.Count("family_FC_complete", 1)
	}
	fc()
	rootOut := []int{oReturn, oRevert, oInvalid, oOOG}
	if c.Thorough() {
		f1()
		f2()
		for i, sh := range shapes4 {
			en.products(fmt.Sprintf("F3.%d", i), sh, ko, rootOut, allE)
		}
		red := nonRootSpecs([]int{kCall, kCallCode, kDelegate, kStatic, kCreate}, []int{oReturn, oRevert, oInvalid, oDepOOG}, []int{eNone})
		for i, sh := range shapes5 {
			en.products(fmt.Sprintf("F4.%d", i), sh, red, []int{oReturn, oRevert}, []int{eSstore, eLog, eValue, eTstore})
		}
		red7 := nonRootSpecs([]int{kCall, kDelegate, kStatic, kCreate}, []int{oReturn, oRevert}, []int{eNone})
		en.products("F4.full-binary", shape7, red7, []int{oReturn, oRevert}, []int{eSstore, eLog})
	} else {
		f1()
		f2()
		// a selection at depth 3 with fan-out 2: reduced alphabet, effect at the leaves
		red := nonRootSpecs([]int{kCall, kDelegate, kStatic, kCreate}, []int{oReturn, oRevert, oInvalid}, []int{eNone})
		en.products("F3.0-reduced", shapes4[0], red, []int{oReturn, oRevert}, []int{eSstore, eLog, eValue, eTstore})
	}
	c.Note("frame_tree_cases_enumerated", en.idx)
}

func replay(c *fw.Ctx, raw json.RawMessage) {
	boot()
	var probe struct {
		Part string `json:"part"`
	}
	if err := json.Unmarshal(raw, &probe); err != nil {
		panic(err)
	}
	switch probe.Part {
	case "tree":
		var tc treeCase
		if err := json.Unmarshal(raw, &tc); err != nil {
			panic(err)
		}
		checkTree(c, tc.Tree, tc.Pre)
	case "txs":
		var tc txCase
		if err := json.Unmarshal(raw, &tc); err != nil {
			panic(err)
		}
		checkSeq(c, tc.Seq, tc.TxType, isolatedRefs(tc.TxType))
	case "block":
		var bc blockCase
		if err := json.Unmarshal(raw, &bc); err != nil {
			panic(err)
		}
		checkBlock(c, bc.Kinds)
	default:
		panic("unknown case part " + probe.Part)
	}
}
