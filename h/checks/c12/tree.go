package main

// Part (a): frame trees.  A tree of EVM frames is compiled into contracts (one per frame),
// executed by the real EVM on a fresh state object and compared with a tiny recursive
// reference model of frame isolation.

import (
	"crypto/ecdsa"
	"crypto/sha256"
	"fmt"
	"math/big"
	"sort"
	"strings"

	"verif/h/asm"
	"verif/h/fw"
	"verif/h/node"

	"com.tuntun.rangers/node/src/common"
	crypto "com.tuntun.rangers/node/src/eth_crypto"
	"com.tuntun.rangers/node/src/middleware/types"
	"com.tuntun.rangers/node/src/storage/account"
	"com.tuntun.rangers/node/src/vm"
)

// frame kinds
const (
	kCall  = iota
	kCallV // CALL carrying value
	kCallCode
	kDelegate
	kStatic
	kCreate
	kCreate2
	nKinds
)

// frame outcomes
const (
	oReturn = iota
	oRevert
	oInvalid
	oOOG
	oDepOOG // create only: code deposit runs out of gas
	oDepBig // create only: returned code larger than the maximum code size
	nOutcomes
)

// per-frame effects
const (
	eNone = iota
	eSstore
	eLog
	eValue
	eNonce
	eSelfdestruct
	eTstore
	nEffects
	// eAuth (outside the main product, used by the FA families): AUTH then AUTHCALL; Node.A picks
	// signature (valid / none / wrong) x value (0 / >0) x authorizedNonce (current / wrong) x
	// callee (succeeds / reverts / does not exist)
	eAuth         = nEffects
	nAuthVariants = 36
	// ePrecompile (FC families): a plain CALL to a precompiled contract; Node.A picks the
	// precompile x (succeeding input, ample gas / rejected input, ample gas / gas 0) x value
	// (0 / >0) x target account (absent / existing with balance and nonce)
	ePrecompile = nEffects + 1
)

var kindName = []string{"CALL", "CALLV", "CALLCODE", "DELEGATECALL", "STATICCALL", "CREATE", "CREATE2"}
var kindClass = []string{"call", "call", "callcode", "delegatecall", "staticcall", "create", "create"}
var outcomeName = []string{"return", "revert", "invalid", "oog", "deposit-oog", "deposit-toobig"}
var effectName = []string{"none", "sstore", "log", "value", "nonce", "selfdestruct", "tstore", "auth", "precompile"}

// the precompile table under test, probed once: a zero-filled input the precompile accepts and
// one it rejects (where it has such inputs)
type precInfo struct {
	addr          common.Address
	p             vm.PrecompiledContract
	lenOK, lenBad int
}

var precTable []precInfo

func initPrecompiles() {
	if precTable != nil {
		return
	}
	var addrs []common.Address
	for a := range vm.PrecompiledContracts {
		addrs = append(addrs, a)
	}
	sort.Slice(addrs, func(i, j int) bool { return string(addrs[i].Bytes()) < string(addrs[j].Bytes()) })
	for _, a := range addrs {
		pi := precInfo{addr: a, p: vm.PrecompiledContracts[a], lenOK: -1, lenBad: -1}
		for _, l := range []int{0, 1, 32, 64, 96, 128, 160, 192, 213, 256, 288, 384, 512} {
			var err error
			if panicked, _, _ := fw.Try(func() { _, err = pi.p.Run(make([]byte, l)) }); panicked {
				continue
			}
			if err == nil && pi.lenOK < 0 {
				pi.lenOK = l
			}
			if err != nil && pi.lenBad < 0 {
				pi.lenBad = l
			}
		}
		precTable = append(precTable, pi)
	}
}

type precVar struct{ pi, mode, value, exists int } // mode: 0 ok input, 1 rejected input, 2 gas 0

func precVariant(a int) precVar { return precVar{a / 12, (a / 4) % 3, (a / 2) % 2, a % 2} }

func (v precVar) String() string {
	return fmt.Sprintf("%s,%s,value=%d,target=%s", precTable[v.pi].addr.GetHexString()[38:],
		[]string{"accepted-input", "rejected-input", "gas0"}[v.mode], v.value, []string{"absent", "existing"}[v.exists])
}

// precVariants lists the variants that exist for the table under test.
func precVariants() []int {
	initPrecompiles()
	var out []int
	for a := 0; a < len(precTable)*12; a++ {
		v := precVariant(a)
		pi := precTable[v.pi]
		if (v.mode == 1 && pi.lenBad < 0) || (v.mode != 1 && pi.lenOK < 0) {
			continue
		}
		out = append(out, a)
	}
	return out
}

func (v precVar) inputLen() int {
	if v.mode == 1 {
		return precTable[v.pi].lenBad
	}
	return precTable[v.pi].lenOK
}

type authVar struct{ sig, value, wrongNonce, callee int }

func authVariant(a int) authVar { return authVar{a % 3, (a / 3) % 2, (a / 6) % 2, (a / 12) % 3} }

func (v authVar) String() string {
	return fmt.Sprintf("sig=%s,value=%d,nonce=%s,callee=%s", []string{"valid", "none", "wrong"}[v.sig], v.value,
		[]string{"current", "wrong"}[v.wrongNonce], []string{"succeeds", "reverts", "nonexistent"}[v.callee])
}

// Node is one frame.  The root is always entered by evm.Call (kind CALL, no value).
type Node struct {
	K int     `json:"k"`
	O int     `json:"o"`
	E int     `json:"e"`
	A int     `json:"a,omitempty"`
	C []*Node `json:"c,omitempty"`

	idx    int
	depth  int
	parent *Node
	addr   common.Address // call kinds: the contract holding this frame's code
	blob   []byte         // create kinds: init code
	caddr  common.Address // create kinds: address derived by the model
	ctx    common.Address // address the frame ran as (set by the model)
	// model bookkeeping
	ran          bool
	fail         string // "" | outcome | static
	calleeFailed bool   // ePrecompile: the model says the called precompile failed
}

func (n *Node) isCreate() bool { return n.K == kCreate || n.K == kCreate2 }

func (n *Node) String() string {
	eff := effectName[n.E]
	if n.E == eAuth {
		eff = "auth(" + authVariant(n.A).String() + ")"
	}
	if n.E == ePrecompile {
		initPrecompiles()
		eff = "precompile(" + precVariant(n.A).String() + ")"
	}
	s := fmt.Sprintf("%s/%s/%s", kindName[n.K], eff, outcomeName[n.O])
	if len(n.C) > 0 {
		var cs []string
		for _, c := range n.C {
			cs = append(cs, c.String())
		}
		s += "[" + strings.Join(cs, " , ") + "]"
	}
	return s
}

func (n *Node) clone() *Node {
	m := &Node{K: n.K, O: n.O, E: n.E, A: n.A}
	for _, c := range n.C {
		m.C = append(m.C, c.clone())
	}
	return m
}

func fixedAddr(tag byte, i int) common.Address {
	var b [20]byte
	b[0], b[1], b[2] = 0xC1, 0x2F, tag
	b[19] = byte(i + 1)
	return common.BytesToAddress(b[:])
}

var (
	originAddr = common.HexToAddress("0x2f4f09b722a6e5b77be17c9a99c785fa7035a09f") // part (b)
	treeOrigin = fixedAddr(0x90, 0)                                                // part (a): harness-funded
	calleeOK   = fixedAddr(0xE8, 0)
	calleeRev  = fixedAddr(0xE9, 0)
	calleeNone = fixedAddr(0xEA, 0)
	sinkAddr   = fixedAddr(0xA0, 0)
	benAddr    = fixedAddr(0xB0, 0)
	helperAddr = fixedAddr(0xC0, 0)
	burnerAddr = fixedAddr(0xD0, 0)
	treeTxHash = common.BytesToHash([]byte("c12-tree-tx"))
)

const (
	rootGas       = uint64(1) << 62
	callKindFunds = int64(1) << 40
	initSlot0     = uint64(0xAA)
	depositLen    = 24576 // deposit costs 24576*200*30 = 147M gas, more than burnBelow
	burnBelow     = 100000000
	execHeight    = uint64(2)
)

func mark(idx int) uint64             { return 0x100 + uint64(idx) }
func ownSlot(idx int) uint64          { return 0x10 + uint64(idx) }
func valueOf(idx int) int64           { return 1 << uint(idx) }
func callVValue(idx int) int64        { return 1 << uint(8+idx) }
func endowment(idx int) int64         { return 1 << uint(30-idx) }
func authValue(idx int) int64         { return 1 << uint(16+idx) }
func sigStore(idx int) common.Address { return fixedAddr(0x51, idx) }

// harness-owned authorising keys, one per frame index
var authKeys = map[int]*ecdsa.PrivateKey{}

func authKey(idx int) *ecdsa.PrivateKey {
	if k := authKeys[idx]; k != nil {
		return k
	}
	h := sha256.Sum256([]byte(fmt.Sprintf("c12-auth-key-%d", idx)))
	k, err := crypto.ToECDSA(h[:])
	if err != nil {
		panic(err)
	}
	authKeys[idx] = k
	return k
}

func authority(idx int) common.Address { return crypto.PubkeyToAddress(authKey(idx).PublicKey) }

var sigCache = map[string][]byte{}

// authInput: (v, r, s, commit) as opAuth reads it; the signature is over
// keccak(0x03 || chainId || invoker || commit); wrong = signed for another commit.
func authInput(idx int, invoker common.Address, wrong bool) []byte {
	key := fmt.Sprintf("%d|%x|%v", idx, invoker.Bytes(), wrong)
	if b := sigCache[key]; b != nil {
		return b
	}
	var commit, signed [32]byte
	copy(commit[:], crypto.Keccak256([]byte("c12 commit")))
	signed = commit
	if wrong {
		signed[0] ^= 1
	}
	msg := make([]byte, 97)
	msg[0] = 0x03
	cid := common.GetChainId(execHeight).Bytes()
	copy(msg[33-len(cid):33], cid)
	copy(msg[65-20:65], invoker.Bytes())
	copy(msg[65:], signed[:])
	sig, err := crypto.Sign(crypto.Keccak256(msg), authKey(idx))
	if err != nil {
		panic(err)
	}
	in := make([]byte, 128)
	in[31] = sig[64] + 27
	copy(in[32:64], sig[0:32])
	copy(in[64:96], sig[32:64])
	copy(in[96:128], commit[:])
	sigCache[key] = in
	return in
}

func calleeOf(v authVar) common.Address {
	return []common.Address{calleeOK, calleeRev, calleeNone}[v.callee]
}
func runtimeOf(idx int) []byte { return []byte{0x00, 0xC0 + byte(idx)} }
func logTopics(idx int) []uint64 {
	var t []uint64
	for i := 0; i < idx%3; i++ {
		t = append(t, mark(idx)+uint64(i+1)<<16)
	}
	return t
}

var nonceInit = []byte{0x60, 0x00, 0x60, 0x00, 0x53, 0x60, 0x01, 0x60, 0x00, 0xF3} // returns runtime {0x00}

// number assigns preorder indices, depths, parents and contract addresses.
func number(root *Node) []*Node {
	var all []*Node
	var walk func(n, p *Node, d int)
	walk = func(n, p *Node, d int) {
		n.idx, n.depth, n.parent = len(all), d, p
		n.addr = fixedAddr(0xF0, n.idx)
		n.ran, n.fail, n.blob, n.calleeFailed = false, "", nil, false
		all = append(all, n)
		for _, c := range n.C {
			walk(c, n, d+1)
		}
	}
	walk(root, nil, 1)
	root.K = kCall
	return all
}

// ---------------------------------------------------------------- code generation

var allGas = []byte{0xff, 0xff, 0xff, 0xff, 0xff, 0xff, 0xff, 0xff}

type builder struct{ deploy map[common.Address][]byte }

func u16(v int) []byte { return []byte{byte(v >> 8), byte(v)} }

func (b *builder) gen(n *Node) []byte {
	p := asm.New()
	m := mark(n.idx)
	switch n.E {
	case eSstore:
		p.Push(m).Push(ownSlot(n.idx)).Op(vm.SSTORE).Push(m).Push(0).Op(vm.SSTORE)
	case eTstore:
		p.Push(m).Push(ownSlot(n.idx)).Op(vm.TSTORE).Push(m).Push(0).Op(vm.TSTORE)
	case eLog:
		p.Push(m).Push(0).Op(vm.MSTORE)
		tp := logTopics(n.idx)
		for i := len(tp) - 1; i >= 0; i-- {
			p.Push(tp[i])
		}
		p.Push(32).Push(0).Op(vm.LOG0 + vm.OpCode(len(tp)))
	case eValue:
		p.Push(0).Push(0).Push(0).Push(0).Push(valueOf(n.idx)).PushN(20, sinkAddr.Bytes()).Push(0).Op(vm.CALL, vm.POP)
	case eNonce:
		p.Push(nonceInit).Push(0).Op(vm.MSTORE)
		p.Push(len(nonceInit)).Push(32-len(nonceInit)).Push(0).Op(vm.CREATE, vm.POP)
	case eSelfdestruct:
		p.Push(0).Push(0).Push(0).Push(0).PushN(20, helperAddr.Bytes()).PushN(8, allGas).Op(vm.DELEGATECALL)
		p.PushLabel("sdok").Op(vm.JUMPI).Op(vm.INVALID).Label("sdok")
	case ePrecompile:
		v := precVariant(n.A)
		p.Push(0).Push(0).Push(v.inputLen()).PushN(2, u16(0x400)).Push(int64(v.value)*authValue(n.idx)).PushN(20, precTable[v.pi].addr.Bytes())
		if v.mode == 2 {
			p.Push(0)
		} else {
			p.PushN(8, allGas)
		}
		p.Op(vm.CALL, vm.POP)
	case eAuth:
		v := authVariant(n.A)
		if v.sig != 1 {
			p.Push(128).Push(0).PushN(2, u16(0x200)).PushN(20, sigStore(n.idx).Bytes()).Op(vm.EXTCODECOPY)
			p.Push(128).PushN(2, u16(0x200)).PushN(20, authority(n.idx).Bytes()).Op(vm.AUTH, vm.POP)
		}
		p.Push(ownSlot(n.idx)).PushN(2, u16(0x2c0)).Op(vm.MSTORE)
		// AUTHCALL(authorizedNonce, gas, addr, value, valueExt, argsOffset, argsLength, retOffset, retLength)
		p.Push(0).Push(0).Push(32).PushN(2, u16(0x2c0)).Push(0).Push(int64(v.value) * authValue(n.idx))
		p.PushN(20, calleeOf(v).Bytes()).Push(0).Push(v.wrongNonce).Op(vm.AUTHCALL, vm.POP)
	}
	type fix struct {
		at   int
		blob []byte
	}
	var fixes []fix
	for _, ch := range n.C {
		if ch.isCreate() {
			blob := b.gen(ch)
			ch.blob = blob
			p.PushN(2, u16(len(blob)))
			fixes = append(fixes, fix{p.Len() + 1, blob})
			p.PushN(2, u16(0)).PushN(2, u16(0x100)).Op(vm.CODECOPY)
			if ch.K == kCreate2 {
				p.Push(ch.idx)
			}
			p.PushN(2, u16(len(blob))).PushN(2, u16(0x100)).Push(endowment(ch.idx))
			if ch.K == kCreate2 {
				p.Op(vm.CREATE2)
			} else {
				p.Op(vm.CREATE)
			}
			p.Op(vm.POP)
			continue
		}
		b.deploy[ch.addr] = b.gen(ch)
		p.Push(0).Push(0).Push(0).Push(0)
		switch ch.K {
		case kCall:
			p.Push(0).PushN(20, ch.addr.Bytes()).PushN(8, allGas).Op(vm.CALL)
		case kCallV:
			p.Push(callVValue(ch.idx)).PushN(20, ch.addr.Bytes()).PushN(8, allGas).Op(vm.CALL)
		case kCallCode:
			p.Push(0).PushN(20, ch.addr.Bytes()).PushN(8, allGas).Op(vm.CALLCODE)
		case kDelegate:
			p.PushN(20, ch.addr.Bytes()).PushN(8, allGas).Op(vm.DELEGATECALL)
		case kStatic:
			p.PushN(20, ch.addr.Bytes()).PushN(8, allGas).Op(vm.STATICCALL)
		}
		p.Op(vm.POP)
	}
	switch n.O {
	case oReturn:
		if n.isCreate() {
			p.PushN(2, runtimeOf(n.idx)).Push(0).Op(vm.MSTORE).Return(30, 2)
		} else {
			p.Op(vm.STOP)
		}
	case oRevert:
		p.Revert(0, 0)
	case oInvalid:
		p.Op(vm.INVALID)
	case oOOG:
		// memory expansion beyond what the gas formula can express: ErrOutOfGas, nothing allocated
		p.PushN(6, []byte{1, 0, 0, 0, 0, 0}).Op(vm.MLOAD)
	case oDepBig:
		p.Return(0, vm.MaxCodeSize+1)
	case oDepOOG:
		// burn gas (each call to the INVALID contract costs 63/64 of what is left) until
		// less than the deposit cost remains, then return a maximum-size code
		p.Label("burn").Push(burnBelow).Op(vm.GAS, vm.LT).PushLabel("done").Op(vm.JUMPI)
		p.Push(0).Push(0).Push(0).Push(0).Push(0).PushN(20, burnerAddr.Bytes()).PushN(8, allGas).Op(vm.CALL, vm.POP)
		p.PushLabel("burn").Op(vm.JUMP).Label("done").Return(0, depositLen)
	}
	code := p.Bytes()
	for _, f := range fixes {
		off := len(code)
		code[f.at], code[f.at+1] = byte(off>>8), byte(off)
		code = append(code, f.blob...)
	}
	if len(code) > 0xffff {
		panic("frame code too long")
	}
	return code
}

// ---------------------------------------------------------------- reference model

type macct struct {
	exists   bool
	touched  bool // existence is implementation-defined once a surviving plain transfer reached it
	nonce    uint64
	code     string
	bal      int64
	suicided bool
	st       map[uint64]uint64
}

type mlog struct {
	Addr   string   `json:"addr"`
	Topics []uint64 `json:"topics"`
	Data   uint64   `json:"data"`
}

type mworld struct {
	a    map[common.Address]*macct
	tr   map[common.Address]map[uint64]uint64
	logs []mlog
}

func (w *mworld) copy() *mworld {
	c := &mworld{a: map[common.Address]*macct{}, tr: map[common.Address]map[uint64]uint64{}}
	for k, v := range w.a {
		x := *v
		x.st = map[uint64]uint64{}
		for s, sv := range v.st {
			x.st[s] = sv
		}
		c.a[k] = &x
	}
	for k, v := range w.tr {
		x := map[uint64]uint64{}
		for s, sv := range v {
			x[s] = sv
		}
		c.tr[k] = x
	}
	c.logs = append([]mlog{}, w.logs...)
	return c
}

func (w *mworld) acct(a common.Address) *macct {
	x := w.a[a]
	if x == nil {
		x = &macct{st: map[uint64]uint64{}}
		w.a[a] = x
	}
	return x
}

type model struct {
	w     *mworld
	owner map[common.Address]int // created address -> frame index responsible for it
}

func (m *model) transfer(from, to common.Address, v int64) {
	m.w.acct(from).bal -= v
	m.w.acct(to).bal += v
}

// exec runs frame n in context ctx; false = the frame failed (the caller restores its snapshot).
func (m *model) exec(n *Node, ctx common.Address, ro bool) bool {
	n.ran = true
	n.ctx = ctx
	if n.E != eNone {
		// a value-less CALL to a precompile is not a state-changing operation
		if ro && !(n.E == ePrecompile && precVariant(n.A).value == 0) {
			n.fail = "static"
			return false
		}
		m.effect(n, ctx)
	}
	for _, ch := range n.C {
		if !m.child(ch, ctx, ro) {
			n.fail = "static"
			return false
		}
	}
	if n.O != oReturn {
		n.fail = "outcome"
		return false
	}
	return true
}

func (m *model) effect(n *Node, ctx common.Address) {
	mk := mark(n.idx)
	switch n.E {
	case eSstore:
		m.w.acct(ctx).st[ownSlot(n.idx)] = mk
		m.w.acct(ctx).st[0] = mk
	case eTstore:
		if m.w.tr[ctx] == nil {
			m.w.tr[ctx] = map[uint64]uint64{}
		}
		m.w.tr[ctx][ownSlot(n.idx)] = mk
		m.w.tr[ctx][0] = mk
	case eLog:
		m.w.logs = append(m.w.logs, mlog{ctx.GetHexString(), logTopics(n.idx), mk})
	case eValue:
		if m.w.acct(ctx).bal >= valueOf(n.idx) {
			m.transfer(ctx, sinkAddr, valueOf(n.idx))
			m.w.acct(sinkAddr).touched = true
		}
	case eNonce:
		c := m.w.acct(ctx)
		a := crypto.CreateAddress(ctx, c.nonce)
		c.nonce++
		m.owner[a] = n.idx
		na := m.w.acct(a)
		na.exists, na.nonce, na.code = true, 1, "00"
	case ePrecompile:
		v := precVariant(n.A)
		pi := precTable[v.pi]
		val := int64(v.value) * authValue(n.idx)
		if m.w.acct(ctx).bal < val {
			return // the CALL fails before the callee is entered
		}
		in := make([]byte, v.inputLen())
		_, runErr := pi.p.Run(in)
		ok := runErr == nil
		if v.mode == 2 {
			supplied := uint64(0)
			if val != 0 {
				supplied = vm.CallStipend
			}
			ok = ok && supplied >= pi.p.RequiredGas(in)
		}
		if !ok {
			n.calleeFailed = true // the callee frame failed: nothing of it may remain
			return
		}
		m.transfer(ctx, pi.addr, val)
		m.w.acct(pi.addr).touched = true // a touched, possibly empty account: existence not judged
	case eAuth:
		// AUTHCALL outside a static context: the authorising account's nonce bump is an action of
		// the invoking frame (like the creator's bump of CREATE); the callee is a frame of its own
		v := authVariant(n.A)
		val := int64(v.value) * authValue(n.idx)
		if v.sig != 0 || v.wrongNonce != 0 || m.w.acct(treeOrigin).bal < val {
			return
		}
		au := m.w.acct(authority(n.idx))
		au.nonce++
		au.exists = true
		switch v.callee {
		case 0:
			m.transfer(treeOrigin, calleeOK, val)
			m.w.acct(calleeOK).st[ownSlot(n.idx)] = 0x55
		case 2:
			if val != 0 {
				m.transfer(treeOrigin, calleeNone, val)
				m.w.acct(calleeNone).touched = true
			}
		}
	case eSelfdestruct:
		c := m.w.acct(ctx)
		m.w.acct(benAddr).bal += c.bal
		m.w.acct(benAddr).touched = true
		c.bal = 0
		c.suicided = true
	}
}

// child performs the call/create of ch from a frame running in ctx; false = the calling
// frame itself faults (state-changing operation in a static context).
func (m *model) child(ch *Node, ctx common.Address, ro bool) bool {
	switch ch.K {
	case kCallV:
		if ro {
			return false
		}
		if m.w.acct(ctx).bal < callVValue(ch.idx) {
			return true // the call fails before the frame is entered
		}
	case kCreate, kCreate2:
		if ro {
			return false
		}
		if m.w.acct(ctx).bal < endowment(ch.idx) {
			return true
		}
	}
	switch ch.K {
	case kCall, kCallV:
		snap := m.w.copy()
		if ch.K == kCallV {
			m.transfer(ctx, ch.addr, callVValue(ch.idx))
		}
		if !m.exec(ch, ch.addr, ro) {
			m.w = snap
		}
	case kCallCode, kDelegate:
		snap := m.w.copy()
		if !m.exec(ch, ctx, ro) {
			m.w = snap
		}
	case kStatic:
		snap := m.w.copy()
		if !m.exec(ch, ch.addr, true) {
			m.w = snap
		}
	case kCreate, kCreate2:
		c := m.w.acct(ctx)
		var a common.Address
		if ch.K == kCreate {
			a = crypto.CreateAddress(ctx, c.nonce)
		} else {
			var salt [32]byte
			salt[31] = byte(ch.idx)
			a = crypto.CreateAddress2(ctx, salt, crypto.Keccak256(ch.blob))
		}
		c.nonce++ // the creator's nonce bump belongs to the creating frame
		ch.caddr = a
		m.owner[a] = ch.idx
		snap := m.w.copy()
		na := m.w.acct(a)
		na.exists, na.nonce = true, 1
		m.transfer(ctx, a, endowment(ch.idx))
		if m.exec(ch, a, false) {
			m.w.acct(a).code = common.Bytes2Hex(runtimeOf(ch.idx))
		} else {
			m.w = snap
		}
	}
	return true
}

// ---------------------------------------------------------------- observation

type obsAcct struct {
	Exist bool              `json:"exist"`
	Nonce uint64            `json:"nonce"`
	Code  string            `json:"code"`
	Bal   string            `json:"bal"`
	St    map[uint64]uint64 `json:"st"`
	Tr    map[uint64]uint64 `json:"tr"`
}

func h2u(h common.Hash) uint64 {
	b := new(big.Int).SetBytes(h.Bytes())
	if !b.IsUint64() {
		return ^uint64(0)
	}
	return b.Uint64()
}

func u2h(v uint64) common.Hash { return common.BigToHash(new(big.Int).SetUint64(v)) }

func observe(st *account.AccountDB, univ []common.Address, slots []uint64, light bool) map[common.Address]*obsAcct {
	out := map[common.Address]*obsAcct{}
	for _, a := range univ {
		o := &obsAcct{St: map[uint64]uint64{}, Tr: map[uint64]uint64{}}
		o.Exist = st.Exist(a) // first: other getters may materialise objects
		o.Nonce = st.GetNonce(a)
		code := st.GetCode(a)
		if len(code) > 64 {
			o.Code = fmt.Sprintf("len%d:%x", len(code), crypto.Keccak256(code)[:6])
		} else {
			o.Code = common.Bytes2Hex(code)
		}
		if !light {
			o.Bal = st.GetBalance(a).String()
		}
		for _, s := range slots {
			if v := h2u(st.GetState(a, u2h(s))); v != 0 {
				o.St[s] = v
			}
			if light {
				continue
			}
			if v := h2u(st.GetTransientState(a, u2h(s))); v != 0 {
				o.Tr[s] = v
			}
		}
		out[a] = o
	}
	return out
}

func obsLogs(ls []*types.Log) []mlog {
	var out []mlog
	for _, l := range ls {
		x := mlog{Addr: l.Address.GetHexString(), Data: h2u(common.BytesToHash(l.Data))}
		for _, t := range l.Topics {
			x.Topics = append(x.Topics, h2u(t))
		}
		out = append(out, x)
	}
	return out
}

func logKey(l mlog) string { return fmt.Sprintf("%s|%v|%x", l.Addr, l.Topics, l.Data) }

// ---------------------------------------------------------------- running one tree

type diff struct {
	part  string // state | transient | logs | returned-logs | root
	text  string
	frame int  // frame the datum belongs to, -1 unknown
	extra bool // the implementation shows something the model says must not be there
}

type treeResult struct {
	diffs   []diff
	errText string
	ok      bool
	nodes   []*Node
	summary string
}

func frameOfMark(v uint64, n int) int {
	if v >= 0x100 && v < 0x100+uint64(n) {
		return int(v - 0x100)
	}
	return -1
}

// pre-state modes: 0 = the frames run on the uncommitted set-up (Finalise before the call);
// >0 = the set-up is committed, a fresh state object is opened at that root, uncommitted earlier
// effects of "the same block" are applied through the exported AccountDB API (no Finalise in
// between), then the frames run.
const (
	preNone      = iota
	preCommitted // committed pre-state, no earlier effects
	preDrain     // balances of the sink, the beneficiary and the called contracts brought to exactly 0
	preSetSlots  // the slots the frames write already hold a pending (uncommitted) value
	preRemove    // slot 0 of every frame contract (committed non-empty) removed: pending empty value
	preCreate    // sink and beneficiary accounts created (nonce 1) earlier in the block
	preSuicide   // the called contracts selfdestructed earlier in the block (objects still alive)
	nPre
)

var preName = []string{"uncommitted-setup", "committed", "drained-to-zero", "slots-pending", "slot0-removed", "accounts-created", "callees-selfdestructed"}

var vaultAddr = fixedAddr(0x91, 0)

func runTree(root *Node, pm int) (res treeResult) {
	nodes := number(root)
	res.nodes = nodes
	b := &builder{deploy: map[common.Address][]byte{}}
	b.deploy[root.addr] = b.gen(root)

	st := node.LatestState()
	var callAddrs []common.Address
	for a := range b.deploy {
		callAddrs = append(callAddrs, a)
	}
	sort.Slice(callAddrs, func(i, j int) bool { return string(callAddrs[i].Bytes()) < string(callAddrs[j].Bytes()) })
	for _, a := range callAddrs {
		st.SetCode(a, b.deploy[a])
		st.SetBalance(a, big.NewInt(callKindFunds))
		st.SetState(a, u2h(0), u2h(initSlot0))
	}
	st.SetCode(helperAddr, asm.New().PushN(20, benAddr.Bytes()).Op(vm.SELFDESTRUCT).Bytes())
	st.SetCode(burnerAddr, []byte{byte(vm.INVALID)})
	st.SetBalance(treeOrigin, big.NewInt(1<<50))
	if pm != preNone {
		st.SetBalance(sinkAddr, big.NewInt(1<<44))
		st.SetBalance(benAddr, big.NewInt(1<<45))
	}
	hasAuth := false
	var precAddrs []common.Address
	for _, n := range nodes {
		hasAuth = hasAuth || n.E == eAuth
		if n.E == ePrecompile {
			initPrecompiles()
			v := precVariant(n.A)
			precAddrs = append(precAddrs, precTable[v.pi].addr)
			if v.exists == 1 {
				st.SetNonce(precTable[v.pi].addr, 1)
				st.SetBalance(precTable[v.pi].addr, big.NewInt(1<<35))
			}
		}
	}
	if hasAuth {
		st.SetCode(calleeOK, asm.New().Push(0x55).Push(0).Op(vm.CALLDATALOAD, vm.SSTORE, vm.STOP).Bytes())
		st.SetCode(calleeRev, asm.New().Push(0x66).Push(0).Op(vm.CALLDATALOAD, vm.SSTORE).Revert(0, 0).Bytes())
	}

	// model (its initial world is what the implementation shows after the set-up)
	slots := []uint64{0}
	for i := range nodes {
		slots = append(slots, ownSlot(i))
	}
	base := append(append([]common.Address{}, callAddrs...), sinkAddr, benAddr, helperAddr, burnerAddr, treeOrigin)
	base = append(base, precAddrs...)
	if hasAuth {
		base = append(base, calleeOK, calleeRev, calleeNone)
		for _, n := range nodes {
			if n.E == eAuth {
				base = append(base, authority(n.idx))
			}
		}
	}
	// committed pre-state + earlier effects of the same block; stB is the same history without
	// the frames under test (its queries also seed the model, so that nothing is read on st
	// between the earlier effects and the call)
	var stB *account.AccountDB
	if pm != preNone {
		if hasAuth {
			panic("AUTH effect is not combined with pre-state modes")
		}
		croot, cerr := st.Commit(true)
		if cerr != nil {
			panic(cerr)
		}
		st, stB = node.StateAt(croot), node.StateAt(croot)
		for _, x := range []*account.AccountDB{st, stB} {
			drain := func(a common.Address) {
				bal := x.GetBalance(a)
				x.SubBalance(a, bal)
				x.AddBalance(vaultAddr, bal)
			}
			switch pm {
			case preDrain:
				drain(sinkAddr)
				drain(benAddr)
				for _, a := range callAddrs {
					if a != root.addr {
						drain(a)
					}
				}
			case preSetSlots:
				for _, a := range callAddrs {
					for _, sl := range slots {
						x.SetState(a, u2h(sl), u2h(0x99))
					}
				}
			case preRemove:
				for _, a := range callAddrs {
					x.RemoveData(a, u2h(0).Bytes())
				}
			case preCreate:
				x.SetNonce(sinkAddr, 1)
				x.SetNonce(benAddr, 1)
			case preSuicide:
				for _, a := range callAddrs {
					if a != root.addr {
						x.Suicide(a)
					}
				}
			}
		}
	}
	seed := st
	if stB != nil {
		seed = stB
	}
	init := observe(seed, base, slots, false)
	m := &model{w: &mworld{a: map[common.Address]*macct{}, tr: map[common.Address]map[uint64]uint64{}}, owner: map[common.Address]int{}}
	for a, o := range init {
		x := m.w.acct(a)
		x.exists, x.nonce, x.code, x.suicided = o.Exist, o.Nonce, o.Code, seed.HasSuicided(a)
		bal, _ := new(big.Int).SetString(o.Bal, 10)
		x.bal = bal.Int64()
		for s, v := range o.St {
			x.st[s] = v
		}
	}
	for _, n := range nodes {
		if n.E == eAuth {
			m.owner[authority(n.idx)] = n.idx
		}
		if n.E == ePrecompile {
			m.owner[precTable[precVariant(n.A).pi].addr] = n.idx
		}
	}
	initWorld := m.w.copy()
	okModel := m.exec(root, root.addr, false)
	if !okModel {
		m.w = initWorld
	}
	univ := append([]common.Address{}, base...)
	var created []common.Address
	for a := range m.owner {
		created = append(created, a)
	}
	sort.Slice(created, func(i, j int) bool { return string(created[i].Bytes()) < string(created[j].Bytes()) })
	for _, a := range created {
		dup := false
		for _, b := range base {
			dup = dup || a == b
		}
		if !dup {
			univ = append(univ, a)
		}
	}

	// implementation.  The AUTH signatures bind the invoking address, which the model has just
	// derived (created contracts): they are handed to the frames through code-only accounts.
	for _, n := range nodes {
		if v := authVariant(n.A); n.E == eAuth && n.ran && v.sig != 1 {
			st.SetCode(sigStore(n.idx), authInput(n.idx, n.ctx, v.sig == 2))
		}
	}
	var r0, c0 common.Hash
	if stB == nil {
		r0 = st.IntermediateRoot(true)
	} else {
		r0 = stB.IntermediateRoot(true)
		var cerr error
		if c0, cerr = stB.Commit(true); cerr != nil {
			panic(cerr)
		}
	}
	st.Prepare(treeTxHash, common.Hash{}, 0)
	evm := node.NewEVM(st, treeOrigin, execHeight, rootGas)
	_, _, retLogs, err := evm.Call(vm.AccountRef(treeOrigin), root.addr, nil, rootGas, big.NewInt(0))
	res.ok = err == nil
	if err != nil {
		res.errText = err.Error()
	}
	pre := observe(st, univ, slots, false)
	gotLogs := obsLogs(st.GetLogs(treeTxHash))
	r1 := st.IntermediateRoot(true)
	post := observe(st, univ, slots, true) // balances and transient storage: compared before Finalise
	phases := []map[common.Address]*obsAcct{pre, post}
	var c1 common.Hash
	if stB != nil {
		var cerr error
		if c1, cerr = st.Commit(true); cerr != nil {
			panic(cerr)
		}
		phases = append(phases, observe(node.StateAt(c1), univ, slots, false))
	}

	add := func(part, text string, frame int, extra bool) {
		res.diffs = append(res.diffs, diff{part, text, frame, extra})
	}
	if res.ok != okModel {
		add("state", fmt.Sprintf("top-level call: err=%v, model success=%v", err, okModel), 0, false)
	}
	ownerOf := func(a common.Address) int {
		if f, ok := m.owner[a]; ok {
			return f
		}
		for _, n := range nodes {
			if !n.isCreate() && n.addr == a {
				return n.idx
			}
		}
		return -1
	}
	// accounts, before and after Finalise
	for phase, got := range phases {
		ph := []string{"pre-finalise", "post-finalise", "after Commit and re-open at the committed root"}[phase]
		for _, a := range univ {
			g := got[a]
			w := m.w.acct(a)
			wiped := phase >= 1 && w.suicided
			wExist, wNonce, wCode := w.exists, w.nonce, w.code
			if wiped {
				wExist, wNonce, wCode = false, 0, ""
			}
			name := a.GetHexString()[:12]
			if !w.touched && g.Exist != wExist {
				add("state", fmt.Sprintf("%s %s: exists=%v want %v", ph, name, g.Exist, wExist), ownerOf(a), g.Exist)
			}
			if g.Nonce != wNonce {
				add("state", fmt.Sprintf("%s %s: nonce=%d want %d", ph, name, g.Nonce, wNonce), ownerOf(a), g.Nonce > wNonce)
			}
			if g.Code != wCode {
				add("state", fmt.Sprintf("%s %s: code=%s want %s", ph, name, g.Code, wCode), ownerOf(a), g.Code != "")
			}
			wBal := fmt.Sprint(w.bal)
			if phase != 1 && g.Bal != wBal {
				// every transfer amount is a distinct power of two: the lowest differing bit
				// names a frame involved (value effect / CALL value / AUTHCALL value / create endowment)
				f := -1
				gb, _ := new(big.Int).SetString(g.Bal, 10)
				if d := new(big.Int).Sub(gb, big.NewInt(w.bal)); d.Sign() != 0 {
					switch b := int(d.Abs(d).TrailingZeroBits()); {
					case b < 8:
						f = b
					case b < 16:
						f = b - 8
					case b < 24:
						f = b - 16
					case b <= 30:
						f = 30 - b
					}
					if f >= len(nodes) {
						f = -1
					}
				}
				add("state", fmt.Sprintf("%s %s: balance=%s want %s", ph, name, g.Bal, wBal), f, true)
			}
			for _, s := range slots {
				gv, wv := g.St[s], w.st[s]
				if wiped {
					wv = 0
				}
				if gv != wv {
					f := -1
					if s >= 0x10 {
						f = int(s - 0x10)
					} else if f = frameOfMark(gv, len(nodes)); f < 0 {
						f = frameOfMark(wv, len(nodes))
					}
					add("state", fmt.Sprintf("%s %s: storage[%#x]=%#x want %#x", ph, name, s, gv, wv), f, gv != 0 && gv != initSlot0)
				}
				if phase == 0 {
					gt, wt := g.Tr[s], m.w.tr[a][s]
					if gt != wt {
						f := -1
						if s >= 0x10 {
							f = int(s - 0x10)
						} else if f = frameOfMark(gt, len(nodes)); f < 0 {
							f = frameOfMark(wt, len(nodes))
						}
						add("transient", fmt.Sprintf("%s: transient[%#x]=%#x want %#x", name, s, gt, wt), f, gt != 0)
					}
				}
			}
		}
	}
	cmpLogs := func(part string, got, want []mlog) {
		if fmt.Sprint(got) == fmt.Sprint(want) {
			return
		}
		wantSet, gotSet := map[string]int{}, map[string]int{}
		for _, l := range want {
			wantSet[logKey(l)]++
		}
		for _, l := range got {
			gotSet[logKey(l)]++
		}
		for _, l := range got {
			if gotSet[logKey(l)] > wantSet[logKey(l)] {
				add(part, fmt.Sprintf("%s: extra log %s; got %v want %v", part, logKey(l), got, want), frameOfMark(l.Data, len(nodes)), true)
				return
			}
		}
		for _, l := range want {
			if wantSet[logKey(l)] > gotSet[logKey(l)] {
				add(part, fmt.Sprintf("%s: missing log %s; got %v want %v", part, logKey(l), got, want), frameOfMark(l.Data, len(nodes)), false)
				return
			}
		}
		add(part, fmt.Sprintf("%s: order differs; got %v want %v", part, got, want), -1, false)
	}
	cmpLogs("logs", gotLogs, m.w.logs)
	if res.ok && okModel {
		// this list is what the contract executor embeds in the transaction's result text
		cmpLogs("returned-logs", obsLogs(retLogs), m.w.logs)
	}
	if !res.ok && r1 != r0 {
		add("root", fmt.Sprintf("failed top-level call (%v) changed the state root: %x without it, %x with it", err, r0[:6], r1[:6]), 0, true)
	}
	if !res.ok && c1 != c0 {
		add("root", fmt.Sprintf("failed top-level call (%v) changed the committed root: %x without it, %x with it", err, c0[:6], c1[:6]), 0, true)
	}
	surv := 0
	for _, n := range nodes {
		if n.ran && n.E != eNone && n.fail != "static" {
			alive := true
			for x := n; x != nil; x = x.parent {
				if x.fail != "" {
					alive = false
				}
			}
			if alive {
				surv++
			}
		}
	}
	ec := "ok"
	if err != nil {
		ec = err.Error()
		if strings.HasPrefix(ec, "invalid opcode") {
			ec = "invalid opcode"
		}
	}
	res.summary = fmt.Sprintf("top=%s surviving-effects=%d logs=%d", ec, surv, len(gotLogs))
	return res
}

// blame names the reason why the datum of frame f must not be visible: the innermost failed
// frame on the path from f to the root.
func blame(nodes []*Node, d diff) string {
	cls := func(g *Node) string {
		if g.fail == "static" {
			return "static"
		}
		return kindClass[g.K] + "-" + outcomeName[g.O]
	}
	if d.frame >= 0 && d.frame < len(nodes) {
		f := nodes[d.frame]
		for g := f; g != nil; g = g.parent {
			if g.fail != "" {
				return cls(g)
			}
		}
		if !d.extra {
			via := kindClass[f.K]
			for g := f; g != nil && g.parent != nil; g = g.parent {
				if g.K == kCallCode {
					via = "callcode"
				}
			}
			return "missing:" + via
		}
		if f.calleeFailed {
			return "precompile-callee-failed"
		}
		return "surviving-frame:" + kindClass[f.K]
	}
	set := map[string]bool{}
	for _, g := range nodes {
		if g.ran && g.fail != "" {
			set[cls(g)] = true
		}
	}
	if len(set) == 1 {
		for k := range set {
			return k
		}
	}
	if len(set) == 0 {
		return "no-failed-frame"
	}
	return "several-failed-frames"
}

type treeCase struct {
	Part string `json:"part"`
	Tree *Node  `json:"tree"`
	Text string `json:"text"`
	Pre  int    `json:"pre,omitempty"`
}

// checkTree runs one tree and records at most one violation per observable class.
func checkTree(c *fw.Ctx, root *Node, pm int) {
	c.Eval(1)
	var res treeResult
	if p, v, where := fw.Try(func() { res = runTree(root, pm) }); p {
		c.Violation("C12:panic:"+where, "frame-trees", fmt.Sprintf("panic %v in %s", v, root), treeCase{"tree", root.clone(), root.String() + " on " + preName[pm], pm})
		return
	}
	c.Outcome(res.summary)
	if len(res.diffs) == 0 {
		return
	}
	// one violation per observable class
	type rec struct {
		sig string
		d   diff
	}
	var recs []rec
	seen := map[string]bool{}
	fresh := false
	for pass := 0; pass < 2; pass++ {
		for _, d := range res.diffs {
			if seen[d.part] || (pass == 0 && d.frame < 0) {
				continue
			}
			seen[d.part] = true
			b := blame(res.nodes, d)
			sig := "C12:" + d.part + ":" + b
			if d.part == "returned-logs" && d.extra {
				// which kind of frame failed does not matter for the list handed back by Call
				for _, kc := range kindClass {
					b = strings.TrimPrefix(b, kc+"-")
				}
				sig = "C12:returned-logs:extra:" + b
			}
			if d.part == "returned-logs" {
				// the list handed back by evm.Call is an internal API value; the property speaks
				// about the receipt (receipt.Logs / receipt Msg, judged in part b): counted only
				c.Count("returned_log_list_mismatches", 1)
				c.Note("returned_log_list_mismatches_note", "log list returned by evm.Call differs from the surviving logs (reverted frames included / CALLCODE omitted); not judged: the statement constrains the receipt, which part (b) checks")
				continue
			}
			recs = append(recs, rec{sig, d})
			fresh = fresh || sigCount[sig] < 3
		}
	}
	for _, r := range recs {
		c.Count("violating_observations", 1)
		sigCount[r.sig]++
	}
	if !fresh {
		return // the framework keeps three examples per signature; these are all recorded
	}
	// same input, same observation (fresh state object)
	again := runTree(root.clone(), pm)
	if fmt.Sprint(diffTexts(again.diffs)) != fmt.Sprint(diffTexts(res.diffs)) {
		c.Violation("C12:nondeterministic", "frame-trees", fmt.Sprintf("two runs of %s differ: %v vs %v", root, diffTexts(res.diffs), diffTexts(again.diffs)), treeCase{"tree", root.clone(), root.String() + " on " + preName[pm], pm})
		return
	}
	for _, r := range recs {
		c.Violation(r.sig, "frame-trees", fmt.Sprintf("%s  in tree %s on pre-state %s", r.d.text, root, preName[pm]), treeCase{"tree", root.clone(), root.String() + " on " + preName[pm], pm})
	}
}

// sigCount: violations recorded per signature by this worker.
var sigCount = map[string]int{}

func diffTexts(ds []diff) []string {
	var out []string
	for _, d := range ds {
		out = append(out, d.part+": "+d.text)
	}
	return out
}
