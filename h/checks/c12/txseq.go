package main

// Part (b): sequences of transactions on one state object through the real block executor.

import (
	"encoding/json"
	"fmt"
	"math/big"
	"strings"
	"time"

	"verif/h/asm"
	"verif/h/fw"
	"verif/h/node"

	"com.tuntun.rangers/node/src/common"
	"com.tuntun.rangers/node/src/core"
	"com.tuntun.rangers/node/src/middleware/types"
	"com.tuntun.rangers/node/src/vm"
)

// transaction kinds (first calldata byte = selector of contract X)
const (
	tTstore                = iota // TSTORE(1, marker); stop
	tTload                        // return TLOAD(1)
	tWarm                         // two GAS-sandwiched AUTHCALL gas charges on the same address: returns (cost1, cost2)
	tLog                          // LOG1(marker); stop
	tFailRevert                   // TSTORE, SSTORE, LOG1 then REVERT: the transaction fails
	tLogAfterRevertedChild        // CALL self(tFailRevert) (reverts), then LOG1(marker); stop: succeeds
	tFailInvalid                  // TSTORE, SSTORE, LOG1 then INVALID
	nTxKinds
)

var txKindName = []string{"TSTORE", "TLOAD", "WARM", "LOG", "FAIL-REVERT", "LOG-AFTER-REVERTED-CHILD", "FAIL-INVALID"}

var (
	xAddr    = fixedAddr(0xE0, 0)
	warmAddr = fixedAddr(0xE1, 0)
)

func xCode() []byte {
	p := asm.New()
	p.Push(0).Op(vm.CALLDATALOAD).Push(248).Op(vm.SHR)
	for k := 0; k < nTxKinds; k++ {
		p.Op(vm.DUP1).Push(k).Op(vm.EQ).PushLabel(fmt.Sprintf("k%d", k)).Op(vm.JUMPI)
	}
	p.Op(vm.STOP)
	marker := func() { p.Push(1).Op(vm.CALLDATALOAD) }
	log1 := func() { marker(); p.Op(vm.DUP1).Push(0).Op(vm.MSTORE).Push(32).Push(0).Op(vm.LOG1) }
	dirty := func() {
		marker()
		p.Push(1).Op(vm.TSTORE)
		marker()
		p.Push(5).Op(vm.SSTORE)
		log1()
	}
	sandwich := func(memOff int) {
		p.Op(vm.GAS)
		// AUTHCALL(nonce, gas, addr, value, valueExt, argsOff, argsLen, retOff, retLen); no AUTH was
		// done, so nothing is called, but the (cold/warm) account access is charged before that
		p.Push(0).Push(0).Push(0).Push(0).Push(0).Push(0).PushN(20, warmAddr.Bytes()).Push(1).Push(0).Op(vm.AUTHCALL, vm.POP)
		p.Op(vm.GAS, vm.SWAP1, vm.SUB).Push(memOff).Op(vm.MSTORE)
	}
	p.Label("k0")
	marker()
	p.Push(1).Op(vm.TSTORE, vm.STOP)
	p.Label("k1").Push(1).Op(vm.TLOAD).Push(0).Op(vm.MSTORE).Return(0, 32)
	p.Label("k2").Push(0).Push(32).Op(vm.MSTORE) // expand memory outside the sandwiches
	sandwich(0)
	sandwich(32)
	p.Return(0, 64)
	p.Label("k3")
	log1()
	p.Op(vm.STOP)
	p.Label("k4")
	dirty()
	p.Revert(0, 0)
	p.Label("k5")
	p.Push(tFailRevert).Push(0).Op(vm.MSTORE8)
	marker()
	p.Push(0x1000).Op(vm.ADD).Push(1).Op(vm.MSTORE)
	p.Push(0).Push(0).Push(33).Push(0).Push(0).Op(vm.ADDRESS).PushN(8, allGas).Op(vm.CALL, vm.POP)
	log1()
	p.Op(vm.STOP)
	p.Label("k6")
	dirty()
	p.Op(vm.INVALID)
	return p.Bytes()
}

func markerOf(pos, kind int) uint64 { return 0xB000 + uint64(pos)*16 + uint64(kind) }

type txObs struct {
	Status   uint   `json:"status"`
	Msg      string `json:"msg"`
	Result   string `json:"result"`
	Logs     []mlog `json:"receipt_logs"`
	LogTxOK  bool   `json:"log_txhash_ok"`
	TextLogs []mlog `json:"text_logs"`
	HasText  bool   `json:"has_text"`
}

type txCase struct {
	Part   string `json:"part"`
	Seq    []int  `json:"seq"`
	TxType int32  `json:"tx_type"`
	Text   string `json:"text"`
}

func seqText(seq []int) string {
	var s []string
	for _, k := range seq {
		s = append(s, txKindName[k])
	}
	return strings.Join(s, " ; ")
}

// execSeq runs the sequence as one block on a fresh state object.
func execSeq(seq []int, txType int32) (obs []txObs, slot5 uint64, err error) {
	st := node.LatestState()
	st.SetCode(xAddr, xCode())
	st.IntermediateRoot(true)
	src := originAddr.GetHexString()
	nonce := st.GetNonce(originAddr)
	var txs []*types.Transaction
	for i, k := range seq {
		data := append([]byte{byte(k)}, u2h(markerOf(i, k)).Bytes()...)
		cd, _ := json.Marshal(types.ContractData{GasLimit: "20000000", TransferValue: "0", AbiData: "0x" + common.Bytes2Hex(data)})
		tx := &types.Transaction{Source: src, Target: xAddr.GetHexString(), Type: txType, Time: "2023-11-14 22:13:20", Data: string(cd), Nonce: nonce + uint64(i)}
		if txType == types.TransactionTypeContract {
			tx.RequestId = uint64(i + 1)
		}
		tx.Hash = tx.GenHash()
		txs = append(txs, tx)
	}
	block := &types.Block{Header: &types.BlockHeader{Height: execHeight, CurTime: time.Unix(1700000000, 0), Castor: []byte{1}},
		Transactions: append([]*types.Transaction{}, txs...)}
	_, _, done, receipts := core.VerifExecuteBlock(st, block, "testing")
	if len(done) != len(seq) || len(receipts) != len(seq) {
		return nil, 0, fmt.Errorf("executor handled %d transactions / %d receipts of %d", len(done), len(receipts), len(seq))
	}
	for i, tx := range txs {
		r := receipts[i]
		if r.TxHash != tx.Hash || done[i].Hash != tx.Hash {
			return nil, 0, fmt.Errorf("transaction %d executed out of order", i)
		}
		o := txObs{Status: r.Status, Msg: r.Msg, Logs: obsLogs(r.Logs), LogTxOK: true}
		for _, l := range r.Logs {
			if l.TxHash != tx.Hash {
				o.LogTxOK = false
			}
		}
		var text struct {
			Result string       `json:"result"`
			Logs   []*types.Log `json:"logs"`
		}
		if r.Status == types.ReceiptStatusSuccessful && json.Unmarshal([]byte(r.Msg), &text) == nil {
			o.HasText, o.Result, o.TextLogs = true, text.Result, obsLogs(text.Logs)
		}
		obs = append(obs, o)
	}
	return obs, h2u(st.GetState(xAddr, u2h(5))), nil
}

// isolatedRefs: every transaction kind executed alone (position 0) on a fresh state: what a
// transaction that starts with empty scratch state does.
func isolatedRefs(txType int32) []txObs {
	refs := make([]txObs, nTxKinds)
	for k := 0; k < nTxKinds; k++ {
		o, _, err := execSeq([]int{k}, txType)
		if err != nil {
			panic(err)
		}
		refs[k] = o[0]
	}
	return refs
}

func wantLogs(pos, kind int) []mlog {
	switch kind {
	case tLog, tLogAfterRevertedChild:
		m := markerOf(pos, kind)
		return []mlog{{xAddr.GetHexString(), []uint64{m}, m}}
	}
	return nil
}

func logDiff(got, want []mlog) string {
	if fmt.Sprint(got) == fmt.Sprint(want) {
		return ""
	}
	if len(got) > len(want) {
		return "extra"
	}
	if len(got) < len(want) {
		return "missing"
	}
	return "wrong"
}

func checkSeq(c *fw.Ctx, seq []int, txType int32, refs []txObs) {
	c.Eval(1)
	kase := txCase{"txs", seq, txType, seqText(seq)}
	var obs []txObs
	var slot5 uint64
	var err error
	if p, v, where := fw.Try(func() { obs, slot5, err = execSeq(seq, txType) }); p {
		c.Violation("C12:panic:"+where, "tx-sequences", fmt.Sprintf("panic %v in sequence %s", v, kase.Text), kase)
		return
	}
	if err != nil {
		c.Violation("C12:executor-skipped-tx", "tx-sequences", err.Error()+" in "+kase.Text, kase)
		return
	}
	type finding struct{ sig, msg string }
	collect := func(obs []txObs, slot5 uint64) []finding {
		var out []finding
		for i, k := range seq {
			o, ref := obs[i], refs[k]
			name := txKindName[k]
			where := fmt.Sprintf("tx %d (%s) of [%s] type %d", i, name, kase.Text, txType)
			wantOK := k != tFailRevert && k != tFailInvalid
			if (o.Status == types.ReceiptStatusSuccessful) != wantOK {
				out = append(out, finding{"C12:tx-status:" + name, fmt.Sprintf("%s: status %d msg %q", where, o.Status, o.Msg)})
				continue
			}
			switch {
			case k == tTload && o.Result != "0x"+strings.Repeat("00", 32):
				out = append(out, finding{"C12:transient-leaks-across-txs", fmt.Sprintf("%s: TLOAD at the start of the transaction returned %s, transient storage was not empty", where, o.Result)})
			case k == tWarm && o.Result != ref.Result:
				out = append(out, finding{"C12:access-list-leaks-across-txs", fmt.Sprintf("%s: (first,second) access cost %s, alone %s: the first access was not cold", where, o.Result, ref.Result)})
			case wantOK && o.Result != ref.Result:
				out = append(out, finding{"C12:tx-result-depends-on-earlier-txs:" + name, fmt.Sprintf("%s: result %s, alone %s", where, o.Result, ref.Result)})
			}
			want := wantLogs(i, k)
			if d := logDiff(o.Logs, want); d != "" {
				out = append(out, finding{"C12:receipt-logs:" + d + ":" + name, fmt.Sprintf("%s: receipt.Logs %v want %v", where, o.Logs, want)})
			} else if !o.LogTxOK {
				out = append(out, finding{"C12:receipt-logs:txhash:" + name, fmt.Sprintf("%s: a receipt log names another transaction", where)})
			}
			if o.HasText {
				if d := logDiff(o.TextLogs, want); d != "" {
					out = append(out, finding{"C12:result-logs:" + d + ":" + name, fmt.Sprintf("%s: log list in the receipt's result text %v want %v", where, o.TextLogs, want)})
				}
			}
		}
		if slot5 != 0 {
			out = append(out, finding{"C12:failed-tx-storage-survives", fmt.Sprintf("storage written by a failed transaction survives: slot5=%#x after [%s]", slot5, kase.Text)})
		}
		return out
	}
	fs := collect(obs, slot5)
	cls := "clean"
	if len(fs) > 0 {
		cls = "violating"
	}
	c.Outcome(fmt.Sprintf("txseq len=%d %s", len(seq), cls))
	if len(fs) == 0 {
		return
	}
	obs2, slot52, err2 := execSeq(seq, txType)
	if err2 != nil || fmt.Sprint(collect(obs2, slot52)) != fmt.Sprint(fs) {
		c.Violation("C12:nondeterministic", "tx-sequences", fmt.Sprintf("two runs of [%s] differ", kase.Text), kase)
		return
	}
	seen := map[string]bool{}
	for _, f := range fs {
		if !seen[f.sig] {
			seen[f.sig] = true
			c.Violation(f.sig, "tx-sequences", f.msg, kase)
		}
	}
}

func runTxSeqs(c *fw.Ctx) {
	maxLen := 3
	if c.Thorough() {
		maxLen = 4
	}
	var idx int64
	for _, txType := range []int32{types.TransactionTypeETHTX, types.TransactionTypeContract} {
		var refs []txObs
		for l := 1; l <= maxLen; l++ {
			total := 1
			for i := 0; i < l; i++ {
				total *= nTxKinds
			}
			for t := 0; t < total; t++ {
				i := idx
				idx++
				if !c.Mine(i) {
					continue
				}
				if c.Expired() {
					c.Cap("tx-sequences not finished (time)")
					return
				}
				if refs == nil {
					refs = isolatedRefs(txType)
					w := refs[tWarm].Result
					if len(w) == 2+128 {
						d1, _ := new(big.Int).SetString(w[2:66], 16)
						d2, _ := new(big.Int).SetString(w[66:], 16)
						c.Note("warm_tx_alone_first_minus_second_access_gas", new(big.Int).Sub(d1, d2).String())
						if d1.Cmp(d2) <= 0 {
							c.Cap("tx-sequences: cold/warm difference not observable, access-list oracle vacuous")
						}
					}
				}
				seq := make([]int, l)
				for j, tt := 0, t; j < l; j++ {
					seq[j] = tt % nTxKinds
					tt /= nTxKinds
				}
				checkSeq(c, seq, txType, refs)
				if l >= 2 {
					c.NontrivialN(1)
				}
				if i%397 == 0 {
					c.Sample(map[string]interface{}{"part": "tx-sequences", "tx_type": txType, "seq": seqText(seq)})
				}
			}
		}
	}
	c.Note("tx_sequences_enumerated", idx)
}
