// C18: decimal amount strings <-> 18-decimal integers convert without loss.
// Bounded exhaustive enumeration (E4) against exact big.Rat / big.Int arithmetic.
package main

import (
	"encoding/json"
	"fmt"
	"math/big"
	"strings"
	"time"

	"verif/h/fw"

	"com.tuntun.rangers/node/src/utility"
)

type kase struct {
	Kind string `json:"kind"` // int | str | fmt
	N    string `json:"n,omitempty"`
	S    string `json:"s,omitempty"`
	Dec  int64  `json:"dec,omitempty"`
}

var ten18 = new(big.Int).Exp(big.NewInt(10), big.NewInt(18), nil)

// exact value of a plain decimal string (sign, digits, optional fraction) scaled by 10^18.
func exact(s string) (*big.Int, bool) {
	r, ok := new(big.Rat).SetString(s)
	if !ok {
		return nil, false
	}
	r.Mul(r, new(big.Rat).SetInt(ten18))
	if !r.IsInt() {
		return nil, false
	}
	return new(big.Int).Set(r.Num()), true
}

func checkInt(c *fw.Ctx, n *big.Int) {
	c.Eval(1)
	var s string
	var back *big.Int
	var err error
	p, v, where := fw.Try(func() {
		s = utility.BigIntToStr(n)
		back, err = utility.StrToBigInt(s)
	})
	k := kase{Kind: "int", N: n.String()}
	if p {
		c.Violation("C18:int:panic:"+where, "int-roundtrip", fmt.Sprintf("panic %v for n=%s", v, n), k)
		return
	}
	if err != nil || back == nil || back.Cmp(n) != 0 {
		c.Violation("C18:int:roundtrip", "int-roundtrip", fmt.Sprintf("StrToBigInt(BigIntToStr(%s)=%q) = %v, %v", n, s, back, err), k)
		return
	}
	// the string must denote exactly n / 10^18
	if ex, ok := exact(s); !ok || ex.Cmp(n) != 0 {
		c.Violation("C18:int:format", "int-format", fmt.Sprintf("BigIntToStr(%s)=%q denotes %v", n, s, ex), k)
	}
	// 18-decimal re-scaling is the identity
	if n.Sign() >= 0 {
		var a, b *big.Int
		p, v, where = fw.Try(func() {
			a = utility.FormatDecimalForERC20(n, 18)
			b = utility.FormatDecimalForRocket(n, 18)
		})
		if p {
			c.Violation("C18:rescale:panic:"+where, "rescale", fmt.Sprintf("panic %v for n=%s", v, n), k)
		} else if a.Cmp(n) != 0 || b.Cmp(n) != 0 {
			c.Violation("C18:rescale:identity", "rescale", fmt.Sprintf("n=%s ERC20(18)=%s Rocket(18)=%s", n, a, b), k)
		}
	}
}

func checkStr(c *fw.Ctx, s string) {
	c.Eval(1)
	ex, ok := exact(s)
	if !ok {
		return
	}
	var got *big.Int
	var err error
	p, v, where := fw.Try(func() { got, err = utility.StrToBigInt(s) })
	k := kase{Kind: "str", S: s}
	if p {
		c.Violation("C18:str:panic:"+where, "str-parse", fmt.Sprintf("panic %v for %q", v, s), k)
		return
	}
	if err != nil || got == nil || got.Cmp(ex) != 0 {
		c.Violation("C18:str:exact", "str-parse", fmt.Sprintf("StrToBigInt(%q)=%v,%v want %s", s, got, err, ex), k)
	}
}

// checkDec: re-scaling between a token unit with dec decimals and the 18-decimal ledger unit is
// the composition of the two primitives (format with precision dec, parse with 18 decimals, and
// vice versa), so it must be exact: Rocket(n,dec) = n*10^(18-dec), ERC20(m,dec) = floor(m/10^(18-dec)),
// and ERC20(Rocket(n,dec),dec) = n.
func checkDec(c *fw.Ctx, n *big.Int, dec int64) {
	c.Eval(1)
	k := kase{Kind: "fmt", N: n.String(), Dec: dec}
	scale := pow(10, 18-dec)
	var up, down, back *big.Int
	p, v, where := fw.Try(func() {
		up = utility.FormatDecimalForRocket(n, dec)
		down = utility.FormatDecimalForERC20(n, dec)
		back = utility.FormatDecimalForERC20(up, dec)
	})
	if p {
		c.Violation("C18:dec:panic:"+where, "decimals", fmt.Sprintf("panic %v n=%s dec=%d", v, n, dec), k)
		return
	}
	if want := new(big.Int).Mul(n, scale); up.Cmp(want) != 0 {
		c.Violation("C18:dec:to-ledger-unit", "decimals", fmt.Sprintf("FormatDecimalForRocket(%s,%d)=%s want %s", n, dec, up, want), k)
	}
	if want := new(big.Int).Quo(n, scale); down.Cmp(want) != 0 {
		c.Violation("C18:dec:to-token-unit", "decimals", fmt.Sprintf("FormatDecimalForERC20(%s,%d)=%s want %s", n, dec, down, want), k)
	}
	if back.Cmp(n) != 0 {
		c.Violation("C18:dec:roundtrip", "decimals", fmt.Sprintf("ERC20(Rocket(%s,%d),%d)=%s", n, dec, dec, back), k)
	}
}

func pow(b, e int64) *big.Int { return new(big.Int).Exp(big.NewInt(b), big.NewInt(e), nil) }

func run(c *fw.Ctx) {
	c.ConcPart() // schedule companion (checks/c18/conc)
	var idx int64
	mine := func() bool { idx++; return c.Mine(idx) }
	nontriv := int64(0)

	// (0) a slice of the enumeration on the fresh process (first use), then the sibling conversions
	// are called (interfere) and everything below runs in that non-initial process state: the exact
	// oracle holds in both
	for i := int64(1); i < 300; i++ {
		checkInt(c, big.NewInt(i))
		checkInt(c, big.NewInt(-i))
		checkStr(c, fmt.Sprintf("0.%018d", i))
		checkDec(c, big.NewInt(i), i%19)
	}
	interfere()
	// sequences of conversions (non-initial states)
	seqPart(c, mine)
	// value carried by a wrapped Ethereum transaction down to the contract executor
	carriedPart(c, mine)
	// ... and all the way into the EVM (block executor: decode, fee pre-check, vm.Call)
	evmPart(c, mine)
	// amount strings parsed where the ledger consumes them (operator transfer through the block executor)
	transferPart(c, mine)
	// token balances re-scaled at the account database's boundary, every decimal count
	ftPart(c, mine)

	// (1) all small integers
	lim := int64(1000000)
	if c.Thorough() {
		lim = 20000000
	}
	for i := int64(0); i < lim; i++ {
		if !mine() {
			continue
		}
		n := big.NewInt(i)
		checkInt(c, n)
		nontriv++
		if i > 0 && i < 200000 {
			checkInt(c, new(big.Int).Neg(n))
			nontriv++
		}
	}
	c.Sample(kase{Kind: "int", N: "999999"})

	// (1b) every decimal count 0..18 x every amount below 2000 and around each power of ten up to 10^20
	for dec := int64(0); dec <= 18; dec++ {
		for i := int64(0); i < 2000; i++ {
			if mine() {
				checkDec(c, big.NewInt(i), dec)
				nontriv++
			}
		}
		for k := int64(0); k <= 20; k++ {
			for _, d := range []int64{-1, 0, 1, 5} {
				if n := new(big.Int).Add(pow(10, k), big.NewInt(d)); n.Sign() >= 0 && mine() {
					checkDec(c, n, dec)
					nontriv++
				}
			}
		}
	}

	// (2) 10^k+d, 2^k+d, and negatives
	ds := []int64{-2, -1, 0, 1, 2}
	add := func(base *big.Int) {
		for _, d := range ds {
			n := new(big.Int).Add(base, big.NewInt(d))
			if !mine() {
				continue
			}
			checkInt(c, n)
			checkInt(c, new(big.Int).Neg(n))
			nontriv += 2
			for dec := int64(0); dec <= 18; dec++ {
				if n.Sign() >= 0 {
					checkDec(c, n, dec)
				}
			}
		}
	}
	for k := int64(0); k <= 78; k++ {
		add(pow(10, k))
	}
	for k := int64(0); k <= 256; k++ {
		add(pow(2, k))
	}
	c.Sample(kase{Kind: "int", N: new(big.Int).Sub(pow(2, 256), big.NewInt(1)).String()})

	// (3) 78-digit numbers with <= 3 non-zero digits from {1,5,9} in boundary positions
	pos := []int{0, 1, 17, 18, 19, 35, 36, 37, 58, 59, 76, 77}
	digs := []byte{'1', '5', '9'}
	if c.Thorough() {
		pos = []int{0, 1, 2, 16, 17, 18, 19, 20, 34, 35, 36, 37, 38, 57, 58, 59, 60, 75, 76, 77}
	}
	var rec func(start int, left int, cur []byte)
	rec = func(start, left int, cur []byte) {
		if mine() {
			n, _ := new(big.Int).SetString(string(cur), 10)
			if n.Sign() > 0 {
				checkInt(c, n)
				nontriv++
			}
		}
		if left == 0 {
			return
		}
		for pi := start; pi < len(pos); pi++ {
			for _, d := range digs {
				cur[77-pos[pi]] = d
				rec(pi+1, left-1, cur)
				cur[77-pos[pi]] = '0'
			}
		}
	}
	rec(0, 3, []byte(strings.Repeat("0", 78)))

	// (4) strings: integer part set x every fractional string of <= L digits over {0,1,5,9}
	//     left-padded with zeros to every position 1..18
	ints := []string{"", "0", "1", "9", "10", "99", "100", "123456789", "999999999999999999", "1000000000000000000",
		"18446744073709551615", "18446744073709551616", "340282366920938463463374607431768211455",
		"57896044618658097711785492504343953926634992332820282019728792003956564819967",
		"115792089237316195423570985008687907853269984665640564039457584007913129639935",
		strings.Repeat("9", 78), strings.Repeat("9", 60), "1" + strings.Repeat("0", 77), "5" + strings.Repeat("0", 40), "7" + strings.Repeat("3", 30)}
	for _, s := range []string{"1", "9", "10", "99", "123456789", strings.Repeat("9", 78), "1" + strings.Repeat("0", 77)} {
		ints = append(ints, "-"+s)
	}
	ints = append(ints, "-0", "+1", "+0", "007", "-007")
	L := 4
	if c.Thorough() {
		L = 6
	}
	alpha := []byte{'0', '1', '5', '9'}
	var fracs []string
	var gen func(cur []byte)
	gen = func(cur []byte) {
		if len(cur) > 0 {
			fracs = append(fracs, string(cur))
		}
		if len(cur) == L {
			return
		}
		for _, a := range alpha {
			gen(append(cur, a))
		}
	}
	gen(nil)
	for _, ip := range ints {
		if mine() && ip != "" && ip != "-" {
			checkStr(c, ip)
			checkStr(c, ip+".")
		}
		for _, f := range fracs {
			for padTo := len(f); padTo <= 18; padTo++ {
				if !mine() {
					continue
				}
				fs := strings.Repeat("0", padTo-len(f)) + f
				if ip == "" {
					checkStr(c, "."+fs)
				} else {
					checkStr(c, ip+"."+fs)
				}
				nontriv++
				if c.Expired() {
					c.Cap("time budget in string enumeration")
					c.NontrivialN(nontriv)
					return
				}
			}
		}
	}
	c.Sample(kase{Kind: "str", S: strings.Repeat("9", 78) + ".000000000000009159"})
	c.NontrivialN(nontriv)
	c.Note("int_limit", lim)
	c.Note("fraction_digits", L)
	c.Note("outside_bound", "the remaining integers < 2^256 and strings outside the enumerated grammar; exactness there is an arithmetic argument about 512-bit away-from-zero rounding")
}

func replay(c *fw.Ctx, raw json.RawMessage) {
	var k kase
	if err := json.Unmarshal(raw, &k); err != nil {
		panic(err)
	}
	switch k.Kind {
	case "seq":
		var sc seqCase
		json.Unmarshal(raw, &sc)
		seqOne(c, sc.A, sc.B, sc.Dec)
	case "ft":
		var fc ftCase
		json.Unmarshal(raw, &fc)
		carriedSetup()
		ftOne(c, fc.Dec, fc.X, fc.Y, fc.Z)
	case "transfer":
		var tc transferCase
		json.Unmarshal(raw, &tc)
		carriedSetup()
		transferOne(c, tc.S)
	case "evm":
		var ec evmCase
		json.Unmarshal(raw, &ec)
		carriedSetup()
		n, _ := new(big.Int).SetString(ec.N, 10)
		evmOne(c, n, ec.Data, ec.Gas)
	case "carried":
		n, _ := new(big.Int).SetString(k.N, 10)
		carriedSetup()
		checkCarried(c, n)
	case "int":
		n, _ := new(big.Int).SetString(k.N, 10)
		checkInt(c, n)
	case "str":
		checkStr(c, k.S)
	case "fmt":
		n, _ := new(big.Int).SetString(k.N, 10)
		checkDec(c, n, k.Dec)
	}
}

func main() {
	fw.Main(fw.Check{
		ID: "C18", Level: "exploration",
		Rule: "bounded-exhaustive enumeration: every integer below the limit, 10^k+d / 2^k+d (k<=78/256, |d|<=2) and negatives, " +
			"all 78-digit numbers with <=3 non-zero digits {1,5,9} at boundary positions, and integer-part set x every fractional " +
			"digit string over {0,1,5,9} up to L digits left-padded to every position 1..18; oracle = exact big.Rat value; " +
			"all ordered pairs over 15 strings x 4 decimals as call sequences (results not aliased, arguments untouched, same value on later use). " +
			"Every enumerated case is distinct by construction; non-trivial = has a non-zero fractional part or >6 digits or is negative (small ints counted too, they exercise the padding branch).",
		Assumptions: []string{"math/big Rat/Int arithmetic is exact", "values outside the enumerated alphabets are not covered"},
		Run:         run, Replay: replay,
		Budget: func(t string) time.Duration {
			if t == "thorough" {
				return 20 * time.Minute
			}
			return 100 * time.Second
		},
	})
}
