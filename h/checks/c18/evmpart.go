package main

// EVM part of C18: "a value carried in a wrapped Ethereum transaction reaches the EVM unchanged",
// observed where the clause ends: inside the EVM.  The production sequence is driven whole -
// eth_tx.NewTransaction -> SignTx -> rlp -> ConvertTx -> a block holding the wrapper executed by the
// chain's block executor (BeforeExecute: decode + fee pre-check, Execute: vm.Call) - against a target
// contract whose code is `CALLVALUE PUSH1 0 SSTORE STOP`.  Oracle, no expected constants: the word the
// contract stored, the amount credited to the contract and the amount debited from the sender beyond
// the fee are all the integer that was signed.  Cases in which the transaction is not executed
// successfully (value above the sender's funds) are counted and not judged.

import (
	"fmt"
	"math/big"
	"time"

	"verif/h/fw"
	"verif/h/node"

	"com.tuntun.rangers/node/src/common"
	"com.tuntun.rangers/node/src/core"
	"com.tuntun.rangers/node/src/eth_crypto"
	"com.tuntun.rangers/node/src/eth_tx"
	"com.tuntun.rangers/node/src/middleware/types"
	"com.tuntun.rangers/node/src/storage/rlp"
)

var evmTarget = common.HexToAddress("0x00000000000000000000000000000000000c0de5")

type evmCase struct {
	Kind string `json:"kind"` // evm
	N    string `json:"n"`
	Data bool   `json:"data"` // call data present
	Gas  uint64 `json:"gas"`
}

// evmOne returns whether the transaction was executed successfully (and hence judged).
func evmOne(c *fw.Ctx, n *big.Int, withData bool, gas uint64) (judged bool) {
	c.Eval(1)
	k := evmCase{Kind: "evm", N: n.String(), Data: withData, Gas: gas}
	p, v, where := fw.Try(func() {
		db := node.LatestState()
		sender := eth_crypto.PubkeyToAddress(carriedKey.PublicKey)
		funds := new(big.Int).Lsh(big.NewInt(1), 255)
		db.SetBalance(sender, funds)
		db.SetCode(evmTarget, []byte{0x34, 0x60, 0x00, 0x55, 0x00})
		db.SetNonce(evmTarget, 1)
		nonce := db.GetNonce(sender)
		var data []byte
		if withData {
			data = []byte{1, 2, 3, 4}
		}
		gasPrice := big.NewInt(1000000000)
		raw := eth_tx.NewTransaction(nonce, evmTarget, new(big.Int).Set(n), gas, gasPrice, data)
		signer := eth_tx.NewEIP155Signer(big.NewInt(9500))
		signed, err := eth_tx.SignTx(raw, signer, carriedKey)
		if err != nil {
			panic(err)
		}
		enc, err := rlp.EncodeToBytes(signed)
		if err != nil {
			panic(err)
		}
		dec := new(eth_tx.Transaction)
		if err := rlp.DecodeBytes(enc, dec); err != nil {
			panic(err)
		}
		snd, err := eth_tx.Sender(signer, dec)
		if err != nil {
			panic(err)
		}
		if gas > 3000000 { // half of the cases: the RPC entry point's calls on the same object before it converts
			dec.Hash()
			dec.Cost()
		}
		w := eth_tx.ConvertTx(dec, snd, enc)
		top := core.GetBlockChain().TopBlock()
		hdr := &types.BlockHeader{Height: 20, PreHash: top.Hash, CurTime: top.CurTime.Add(20 * time.Second),
			Castor: common.FromHex(evmCastor), ProveValue: big.NewInt(0)}
		before := db.GetBalance(snd)
		_, _, _, receipts := core.VerifExecuteBlock(db, &types.Block{Header: hdr, Transactions: []*types.Transaction{w}}, "fullverify")
		if len(receipts) != 1 || receipts[0].Status != types.ReceiptStatusSuccessful {
			why := "no receipt"
			if len(receipts) == 1 {
				why = receipts[0].Msg
				if len(why) > 40 {
					why = why[:40]
				}
			}
			c.Count(fmt.Sprintf("evm_not_executed[data=%v gas=%d %s]", withData, gas, why), 1)
			return
		}
		judged = true
		seen := new(big.Int).SetBytes(db.GetData(evmTarget, common.Hash{}.Bytes()))
		credited := db.GetBalance(evmTarget)
		spent := new(big.Int).Sub(before, db.GetBalance(snd))
		maxFee := new(big.Int).Mul(gasPrice, new(big.Int).SetUint64(gas))
		if seen.Cmp(n) != 0 {
			c.Violation("C18:evm:callvalue-differs", "evm-value",
				fmt.Sprintf("a wrapped Ethereum transaction signed with value %s is seen by the called contract as CALLVALUE %s (gas %d, data %v)", n, seen, gas, withData), k)
			return
		}
		if credited.Cmp(n) != 0 {
			c.Violation("C18:evm:credited-differs", "evm-value",
				fmt.Sprintf("value %s signed, the called contract is credited %s", n, credited), k)
			return
		}
		// sender pays the value plus a fee of at most gasLimit*gasPrice
		if fee := new(big.Int).Sub(spent, n); fee.Sign() < 0 || fee.Cmp(maxFee) > 0 {
			c.Violation("C18:evm:debited-differs", "evm-value",
				fmt.Sprintf("value %s signed, the sender is debited %s (fee bound %s)", n, spent, maxFee), k)
		}
	})
	if p {
		c.Violation("C18:evm:panic:"+where, "evm-value", fmt.Sprintf("panic %v for value %s", v, n), k)
	}
	return
}

var evmCastor = "0x7f88b4f2d36a83640ce5d782a0a20cc2b233de3df2d8a358bf0e7b29e9586a12"

func evmPart(c *fw.Ctx, mine func() bool) {
	var cnt, judged int64
	one := func(n *big.Int) {
		if n.Sign() < 0 || n.BitLen() > 256 || !mine() {
			return
		}
		for _, d := range []bool{false, true} {
			for _, g := range []uint64{3000000, 30000000} {
				cnt++
				if evmOne(c, n, d, g) {
					judged++
				}
			}
		}
	}
	lim := int64(60)
	if c.Thorough() {
		lim = 3000
	}
	for i := int64(0); i < lim; i++ {
		one(big.NewInt(i))
	}
	kstep := int64(3)
	if c.Thorough() {
		kstep = 1
	}
	for k := int64(0); k <= 77; k += kstep {
		for _, d := range []int64{-1, 0, 1} {
			one(new(big.Int).Add(pow(10, k), big.NewInt(d)))
		}
	}
	for k := int64(0); k <= 256; k += 8 * kstep {
		for _, d := range []int64{-1, 0, 1} {
			one(new(big.Int).Add(pow(2, k), big.NewInt(d)))
		}
	}
	c.Count("evm_values", cnt)
	c.Count("evm_values_executed", judged)
	if cnt > 0 && judged*4 < cnt {
		c.Infra(fmt.Sprintf("EVM part vacuous: only %d of %d wrapped transactions executed", judged, cnt))
	}
}
