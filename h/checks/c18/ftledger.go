package main

// FT-ledger part of C18: the account database keeps token balances in the token contract's
// own unit and re-scales at its boundary (accountdb_tuntun.go: GetFT / SetFT / AddFT / SubFT
// with a token bound through AddERC20Binding).  For every decimal count 0..18 and ledger
// amounts that are whole multiples of the contract unit, a sequence set -> add -> sub ->
// refused sub must behave as exact integer arithmetic, seen through GetFT, through the value
// SubFT returns and through the raw contract slot.

import (
	"fmt"
	"math/big"

	"verif/h/fw"

	"com.tuntun.rangers/node/src/common"
	"com.tuntun.rangers/node/src/middleware/db"
	"com.tuntun.rangers/node/src/storage/account"
)

type ftCase struct {
	Kind string `json:"kind"` // ft
	Dec  int64  `json:"dec"`
	X    string `json:"x"`
	Y    string `json:"y"`
	Z    string `json:"z"`
}

func ftOne(c *fw.Ctx, dec int64, xs, ys, zs string) {
	c.Eval(1)
	cs := ftCase{Kind: "ft", Dec: dec, X: xs, Y: ys, Z: zs}
	unit := pow(10, 18-dec) // one contract unit in ledger units
	mul := func(s string) *big.Int {
		n, _ := new(big.Int).SetString(s, 10)
		return n.Mul(n, unit)
	}
	x, y, z := mul(xs), mul(ys), mul(zs)
	fail := func(what, msg string) {
		c.Violation("C18:ft:"+what, "ft-ledger", fmt.Sprintf("token with %d decimals, units x=%s y=%s z=%s: %s", dec, xs, ys, zs, msg), cs)
	}
	p, v, where := fw.Try(func() {
		mem, _ := db.NewMemDatabase()
		st, err := account.NewAccountDB(common.Hash{}, account.NewDatabase(mem))
		if err != nil {
			panic(err)
		}
		// one token name for every state of the process: a binding belongs to the state it was made in,
		// so the decimals of another state (or of a reverted binding) must never be used
		name := "TKN"
		contract := common.HexToAddress("0x00000000000000000000000000000000000c0de1")
		holder := common.HexToAddress("0x00000000000000000000000000000000000000a1")
		// non-initial state: the name is first bound with another decimal count and used, then that
		// is reverted and the name is bound again with the decimal count of this case
		other := uint64(18 - dec)
		if other == uint64(dec) {
			other = 6
		}
		snap := st.Snapshot()
		if st.AddERC20Binding(name, contract, 3, other) {
			st.SetFT(holder, name, new(big.Int).Set(x))
			st.GetFT(holder, name)
		}
		st.RevertToSnapshot(snap)
		if !st.AddERC20Binding(name, contract, 3, uint64(dec)) {
			fail("binding", "AddERC20Binding refused")
			return
		}
		raw := func() *big.Int {
			return new(big.Int).SetBytes(st.GetData(contract, st.GetERC20Key(holder, 3)))
		}
		units := func(n *big.Int) *big.Int { return new(big.Int).Div(n, unit) }
		st.SetFT(holder, name, new(big.Int).Set(x))
		if g := st.GetFT(holder, name); g.Cmp(x) != 0 {
			fail("set-get", fmt.Sprintf("SetFT(%s) then GetFT = %s", x, g))
		}
		if r := raw(); r.Cmp(units(x)) != 0 {
			fail("set-raw", fmt.Sprintf("SetFT(%s): contract slot holds %s, want %s", x, r, units(x)))
		}
		st.AddFT(holder, name, new(big.Int).Set(y))
		sum := new(big.Int).Add(x, y)
		if g := st.GetFT(holder, name); g.Cmp(sum) != 0 {
			fail("add", fmt.Sprintf("after AddFT(%s) GetFT = %s, want %s", y, g, sum))
		}
		if z.Cmp(sum) <= 0 {
			left, ok := st.SubFT(holder, name, new(big.Int).Set(z))
			want := new(big.Int).Sub(sum, z)
			if !ok || left == nil || left.Cmp(want) != 0 {
				fail("sub-result", fmt.Sprintf("SubFT(%s) from %s returned (%v,%v), want (%s,true)", z, sum, left, ok, want))
			}
			if g := st.GetFT(holder, name); g.Cmp(want) != 0 {
				fail("sub-get", fmt.Sprintf("after SubFT(%s) from %s GetFT = %s, want %s", z, sum, g, want))
			}
			if r := raw(); r.Cmp(units(want)) != 0 {
				fail("sub-raw", fmt.Sprintf("after SubFT(%s) from %s the contract slot holds %s, want %s", z, sum, r, units(want)))
			}
			sum = want
		}
		// more than the balance: refused, nothing moves
		over := new(big.Int).Add(sum, unit)
		if _, ok := st.SubFT(holder, name, over); ok {
			fail("overdraw", fmt.Sprintf("SubFT(%s) accepted with balance %s", over, sum))
		}
		if g := st.GetFT(holder, name); g.Cmp(sum) != 0 {
			fail("overdraw-moved", fmt.Sprintf("refused SubFT changed the balance: %s, want %s", g, sum))
		}
	})
	if p {
		c.Violation("C18:ft:panic:"+where, "ft-ledger", fmt.Sprintf("panic %v (decimals %d, x=%s y=%s z=%s)", v, dec, xs, ys, zs), cs)
	}
}

func ftPart(c *fw.Ctx, mine func() bool) {
	vals := []string{"0", "1", "2", "99", "100", "1000000007", "123456789012345678901234567890"}
	var n int64
	for dec := int64(0); dec <= 18; dec++ {
		for _, x := range vals {
			for _, y := range vals {
				for _, z := range vals {
					if !mine() {
						continue
					}
					ftOne(c, dec, x, y, z)
					n++
				}
			}
		}
	}
	c.Count("ft_ledger_cases", n)
}
