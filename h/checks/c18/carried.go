package main

// Carried-value part of C18: "a value carried in a wrapped Ethereum transaction reaches the EVM
// unchanged".  The real chain of functions is driven end to end: eth_tx.NewTransaction ->
// SignTx -> rlp -> eth_tx.ConvertTx (formats the value as a decimal string in the wrapper's
// data) -> the contract executor's decodeContractData (parses it back; hook H7) -> the
// integer handed to the EVM.  Oracle: equality with the integer that was signed.

import (
	"crypto/ecdsa"
	"crypto/elliptic"
	"fmt"
	"math/big"

	"verif/h/fw"
	"verif/h/node"

	"com.tuntun.rangers/node/src/common"
	"com.tuntun.rangers/node/src/common/secp256k1"
	"com.tuntun.rangers/node/src/eth_tx"
	"com.tuntun.rangers/node/src/executor"
	"com.tuntun.rangers/node/src/storage/rlp"
)

var (
	carriedKey    *ecdsa.PrivateKey
	carriedBooted bool
)

func carriedSetup() {
	d, _ := new(big.Int).SetString("4c0883a69102937d6231471b5dbb6204fe5129617082792ae468d01a3f362318", 16)
	c := secp256k1.S256()
	k := &ecdsa.PrivateKey{D: d}
	k.PublicKey.Curve = c
	k.PublicKey.X, k.PublicKey.Y = c.ScalarBaseMult(d.Bytes())
	_ = elliptic.P256
	carriedKey = k
	if carriedBooted {
		return
	}
	carriedBooted = true
	// loggers, chain configuration (the executor's decoding consults fork predicates), services and a
	// genesis chain in the worker's scratch directory (the EVM part executes blocks)
	if err := node.Boot(node.ForksAllOn, true); err != nil {
		panic(err)
	}
	common.SetBlockHeight(20)
}

// checkCarried runs the chain twice: converting the decoded transaction at once, and after the calls the
// RPC entry point makes on the same object before it converts (Hash, then the funds check's Cost).
func checkCarried(c *fw.Ctx, n *big.Int) {
	checkCarriedSeq(c, n, false)
	checkCarriedSeq(c, n, true)
}

func checkCarriedSeq(c *fw.Ctx, n *big.Int, rpcOrder bool) {
	c.Eval(1)
	k := kase{Kind: "carried", N: n.String()}
	var got *big.Int
	var msg string
	p, v, where := fw.Try(func() {
		to := common.HexToAddress("0x00000000000000000000000000000000000000c1")
		raw := eth_tx.NewTransaction(1, to, new(big.Int).Set(n), 100000, big.NewInt(1000000000), []byte{1, 2})
		signer := eth_tx.NewEIP155Signer(big.NewInt(9500))
		signed, err := eth_tx.SignTx(raw, signer, carriedKey)
		if err != nil {
			msg = "SignTx: " + err.Error()
			return
		}
		enc, err := rlp.EncodeToBytes(signed)
		if err != nil {
			msg = "rlp: " + err.Error()
			return
		}
		dec := new(eth_tx.Transaction)
		if err := rlp.DecodeBytes(enc, dec); err != nil {
			msg = "rlp decode: " + err.Error()
			return
		}
		snd, err := eth_tx.Sender(signer, dec)
		if err != nil {
			msg = "Sender: " + err.Error()
			return
		}
		if rpcOrder {
			dec.Hash()
			dec.Cost()
		}
		w := eth_tx.ConvertTx(dec, snd, enc)
		_, got, _, msg = executor.VerifDecodeContractData(w.Data)
		if rpcOrder {
			msg += " (after Hash and Cost on the same object, as the RPC entry point calls them)"
		}
	})
	if p {
		c.Violation("C18:carried:panic:"+where, "carried-value", fmt.Sprintf("panic %v for value %s", v, n), k)
		return
	}
	if got == nil || got.Cmp(n) != 0 {
		c.Violation("C18:carried:value-changed", "carried-value",
			fmt.Sprintf("a wrapped Ethereum transaction signed with value %s reaches the contract executor as %v (%s)", n, got, msg), k)
	}
}

func carriedPart(c *fw.Ctx, mine func() bool) {
	carriedSetup()
	var cnt int64
	one := func(n *big.Int) {
		if n.Sign() >= 0 && n.BitLen() <= 256 && mine() {
			checkCarried(c, n)
			cnt++
		}
	}
	lim := int64(3000)
	if c.Thorough() {
		lim = 200000
	}
	for i := int64(0); i < lim; i++ {
		one(big.NewInt(i))
	}
	for k := int64(0); k <= 77; k++ {
		for _, d := range []int64{-11, -2, -1, 0, 1, 2, 9, 11} {
			one(new(big.Int).Add(pow(10, k), big.NewInt(d)))
			one(new(big.Int).Add(new(big.Int).Mul(pow(10, k), big.NewInt(9)), big.NewInt(d)))
		}
	}
	for k := int64(0); k <= 256; k++ {
		for _, d := range []int64{-2, -1, 0, 1, 2} {
			one(new(big.Int).Add(pow(2, k), big.NewInt(d)))
		}
	}
	// every digit 1..9 in each of the last 20 decimal positions of a large value
	base, _ := new(big.Int).SetString("1234567890123456789012345678900000000000000000000", 10)
	for pos := int64(0); pos < 20; pos++ {
		for d := int64(1); d <= 9; d++ {
			one(new(big.Int).Add(base, new(big.Int).Mul(pow(10, pos), big.NewInt(d))))
			one(new(big.Int).Mul(pow(10, pos), big.NewInt(d)))
		}
	}
	c.Count("carried_values", cnt)
}
