package main

// Sequence part of C18 (non-initial states): conversions called one after another must not
// influence each other — a result may not alias shared state (mutating what one call returned
// must not change what an earlier or later call returns), a call may not modify its argument,
// and the same call after any other call returns the same value as on first use.

import (
	"fmt"
	"math/big"

	"verif/h/fw"

	"com.tuntun.rangers/node/src/utility"
)

type seqCase struct {
	Kind string `json:"kind"` // seq
	A    string `json:"a"`
	B    string `json:"b"`
	Dec  int64  `json:"dec"`
}

func seqPool() []string {
	return []string{"0", "1", "-1", "0.000000000000000001", "-0.0092", "1.5", "7", "999999999999999999",
		"1000000000000000000", "123456789.123456789123456789", "-999999999999999999.999999999999999999",
		"115792089237316195423570985008687907853269984665640564039457584007913129639935",
		"115792089237316195423570985008687907853269984665640564039457.584007913129639935", "", "bad"}
}

// interfere calls every other exported conversion of the file (their results belong to the
// caller, who changes them): whatever they leave behind must not influence the functions
// under test.
func interfere() {
	for _, f := range []float64{0, 1.5, 0.1, 123456789.987654321, -2.75} {
		if r := utility.Float64ToBigInt(f); r != nil {
			r.Lsh(r, 7)
		}
	}
	for _, u := range []uint64{0, 1, 1 << 63} {
		if r := utility.Uint64ToBigInt(u); r != nil {
			r.Lsh(r, 7)
		}
	}
	utility.BigIntBase10toN(big.NewInt(123456789), 16)
	utility.ByteToUInt64(utility.UInt64ToByte(77))
	utility.BigIntBytesToStr(big.NewInt(1500000000000000000).Bytes())
}

func seqOne(c *fw.Ctx, a, b string, dec int64) {
	c.Eval(1)
	cs := seqCase{Kind: "seq", A: a, B: b, Dec: dec}
	huge := new(big.Int).Lsh(big.NewInt(1), 300)
	p, v, where := fw.Try(func() {
		// string -> integer
		r1, e1 := utility.StrToBigInt(a)
		var s1 string
		if e1 == nil {
			s1 = r1.String()
		}
		r2, e2 := utility.StrToBigInt(b)
		if e2 == nil {
			r2.Add(r2, huge) // the caller owns what it was given
		}
		if e1 == nil && r1.String() != s1 {
			c.Violation("C18:seq:result-aliased:StrToBigInt", "sequence", fmt.Sprintf("StrToBigInt(%q) returned %s; after StrToBigInt(%q) and a change to THAT result the first result reads %s", a, s1, b, r1), cs)
		}
		interfere()
		r3, e3 := utility.StrToBigInt(a)
		if (e1 == nil) != (e3 == nil) || (e1 == nil && r3.String() != s1) {
			c.Violation("C18:seq:history-dependent:StrToBigInt", "sequence", fmt.Sprintf("StrToBigInt(%q) = %s (err %v) on first use but %v (err %v) after StrToBigInt(%q) whose result the caller changed", a, s1, e1, r3, e3, b), cs)
		}
		if e1 != nil || e2 != nil {
			return
		}
		// integer -> string and re-scaling; arguments must stay untouched
		n1, _ := new(big.Int).SetString(s1, 10)
		n2, _ := utility.StrToBigInt(b)
		keep1, keep2 := n1.String(), n2.String()
		f1 := utility.BigIntToStr(n1)
		w1 := utility.BigIntToStrWithoutDot(n1)
		up1 := utility.FormatDecimalForRocket(n1, dec)
		dn1 := utility.FormatDecimalForERC20(n1, dec)
		ups, dns := fmt.Sprint(up1), fmt.Sprint(dn1)
		_ = utility.BigIntToStr(n2)
		up2 := utility.FormatDecimalForRocket(n2, dec)
		dn2 := utility.FormatDecimalForERC20(n2, dec)
		if up2 != nil {
			up2.Add(up2, huge)
		}
		if dn2 != nil {
			dn2.Add(dn2, huge)
		}
		interfere()
		if n1.String() != keep1 || n2.String() != keep2 {
			c.Violation("C18:seq:argument-modified", "sequence", fmt.Sprintf("arguments %s / %s read %s / %s after BigIntToStr / FormatDecimalFor*(.., %d)", keep1, keep2, n1, n2, dec), cs)
		}
		if fmt.Sprint(up1) != ups || fmt.Sprint(dn1) != dns {
			c.Violation("C18:seq:result-aliased:FormatDecimal", "sequence", fmt.Sprintf("FormatDecimalForRocket/ERC20(%s,%d) returned %s / %s; after the same calls for %s and a change to THOSE results they read %v / %v", keep1, dec, ups, dns, keep2, up1, dn1), cs)
		}
		if g := utility.BigIntToStr(n1); g != f1 {
			c.Violation("C18:seq:history-dependent:BigIntToStr", "sequence", fmt.Sprintf("BigIntToStr(%s) = %q on first use, %q after other conversions", keep1, f1, g), cs)
		}
		if g := utility.BigIntToStrWithoutDot(n1); g != w1 {
			c.Violation("C18:seq:history-dependent:BigIntToStrWithoutDot", "sequence", fmt.Sprintf("BigIntToStrWithoutDot(%s) = %q on first use, %q later", keep1, w1, g), cs)
		}
		if g := fmt.Sprint(utility.FormatDecimalForRocket(n1, dec)); g != ups {
			c.Violation("C18:seq:history-dependent:FormatDecimalForRocket", "sequence", fmt.Sprintf("FormatDecimalForRocket(%s,%d) = %s on first use, %s later", keep1, dec, ups, g), cs)
		}
		if g := fmt.Sprint(utility.FormatDecimalForERC20(n1, dec)); g != dns {
			c.Violation("C18:seq:history-dependent:FormatDecimalForERC20", "sequence", fmt.Sprintf("FormatDecimalForERC20(%s,%d) = %s on first use, %s later", keep1, dec, dns, g), cs)
		}
	})
	if p {
		c.Violation("C18:seq:panic:"+where, "sequence", fmt.Sprintf("panic %v for a=%q b=%q dec=%d", v, a, b, dec), cs)
	}
}

func seqPart(c *fw.Ctx, mine func() bool) {
	pool := seqPool()
	var n int64
	for _, a := range pool {
		for _, b := range pool {
			for _, dec := range []int64{0, 6, 17, 18} {
				if !mine() {
					continue
				}
				seqOne(c, a, b, dec)
				n++
			}
		}
	}
	c.Count("sequence_cases", n)
}
