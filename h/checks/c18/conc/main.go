// Companion of C18: amount conversions are called from RPC, executor and tx-pool goroutines at
// once; every caller must get what it gets alone.
package main

import (
	"fmt"
	"math/big"
	"strings"

	"verif/h/conc"

	"com.tuntun.rangers/node/src/utility"
)

func conv(strs []string, ints []string, decs []int64) func() string {
	return func() string {
		var sb strings.Builder
		for _, s := range strs {
			v, err := utility.StrToBigInt(s)
			if err != nil {
				fmt.Fprintf(&sb, "parse(%s)=err;", s)
				continue
			}
			fmt.Fprintf(&sb, "parse(%s)=%s->%s;", s, v.String(), utility.BigIntToStr(v))
		}
		for _, s := range ints {
			n, _ := new(big.Int).SetString(s, 10)
			str := utility.BigIntToStr(n)
			back, err := utility.StrToBigInt(str)
			fmt.Fprintf(&sb, "fmt(%s)=%s back=%v err=%v nodot=%s;", s, str, back, err, utility.BigIntToStrWithoutDot(n))
			for _, d := range decs {
				fmt.Fprintf(&sb, "erc20(%s,%d)=%v rocket=%v;", s, d, utility.FormatDecimalForERC20(new(big.Int).Set(n), d), utility.FormatDecimalForRocket(new(big.Int).Set(n), d))
			}
		}
		return sb.String()
	}
}

func main() {
	max256 := new(big.Int).Sub(new(big.Int).Lsh(big.NewInt(1), 256), big.NewInt(1)).String()
	a := conv([]string{"1.5", "-0.0092", "bad"}, []string{"-1", max256}, []int64{6})
	b := conv([]string{"7", "115792089237316195423570985008687907853269984665640564039457.584007913129639935"},
		[]string{"-999999999999999999", "1000000000000000000"}, []int64{17})
	conc.Main([]conc.Scenario{
		{Name: "different-values", Mk: func() []func() string { return []func() string{a, b} }},
		{Name: "same-values", Mk: func() []func() string { return []func() string{a, a} }},
	})
}
