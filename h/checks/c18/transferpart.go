package main

// Transfer part of C18: decimal amount strings are parsed where the ledger consumes them.  An operator
// transfer whose amount is the string under test is executed by the chain's block executor
// (service.ChangeAssets -> transferBalance); the target is a fresh address, so its balance afterwards is
// the parsed amount.  Oracle: whenever the transfer is executed successfully, the amount credited and the
// amount debited (beyond the flat fee bound) are exactly the integer the string denotes (exact rational
// arithmetic); strings the ledger refuses are counted and not judged, except that every string of the
// plain grammar [0-9]+(.[0-9]{1,18})? with an affordable non-zero value must be accepted.

import (
	"fmt"
	"math/big"
	"strings"
	"time"

	"verif/h/fw"
	"verif/h/node"

	"com.tuntun.rangers/node/src/common"
	"com.tuntun.rangers/node/src/core"
	"com.tuntun.rangers/node/src/middleware/types"
)

type transferCase struct {
	Kind string `json:"kind"` // transfer
	S    string `json:"s"`
}

var transferSeq int

func transferOne(c *fw.Ctx, s string) (judged bool) {
	c.Eval(1)
	k := transferCase{Kind: "transfer", S: s}
	want, ok := exact(s)
	if !ok || want.Sign() < 0 {
		return false
	}
	p, v, where := fw.Try(func() {
		db := node.LatestState()
		sender := common.HexToAddress(node.AcctA)
		funds := new(big.Int).Lsh(big.NewInt(1), 200)
		db.SetBalance(sender, funds)
		transferSeq++
		target := common.BytesToAddress([]byte{0xc1, 0x80, byte(transferSeq >> 16), byte(transferSeq >> 8), byte(transferSeq)})
		tx := node.TransferTx(node.AcctA, fmt.Sprintf(`{"%s":{"balance":"%s"}}`, target.GetHexString(), s), db.GetNonce(sender), fmt.Sprint(transferSeq))
		top := core.GetBlockChain().TopBlock()
		hdr := &types.BlockHeader{Height: 20, PreHash: top.Hash, CurTime: top.CurTime.Add(20 * time.Second),
			Castor: common.FromHex(evmCastor), ProveValue: big.NewInt(0)}
		_, _, _, receipts := core.VerifExecuteBlock(db, &types.Block{Header: hdr, Transactions: []*types.Transaction{tx}}, "fullverify")
		executed := len(receipts) == 1 && receipts[0].Status == types.ReceiptStatusSuccessful
		if !executed {
			plain := !strings.ContainsAny(s, "+-eE_xXbBoO ") && want.Sign() > 0 && want.Cmp(new(big.Int).Rsh(funds, 1)) < 0
			if plain {
				msg := "no receipt"
				if len(receipts) == 1 {
					msg = receipts[0].Msg
				}
				c.Violation("C18:transfer:plain-amount-refused", "transfer", fmt.Sprintf("operator transfer of %q (= %s wei, affordable) is refused: %s", s, want, msg), k)
			}
			return
		}
		judged = true
		credited := db.GetBalance(target)
		spent := new(big.Int).Sub(funds, db.GetBalance(sender))
		fee := new(big.Int).Sub(spent, want)
		one := new(big.Int).Exp(big.NewInt(10), big.NewInt(18), nil) // flat fees are far below one token
		if credited.Cmp(want) != 0 {
			c.Violation("C18:transfer:credited-differs", "transfer", fmt.Sprintf("operator transfer of %q: the target is credited %s wei, the string denotes %s", s, credited, want), k)
			return
		}
		if fee.Sign() < 0 || fee.Cmp(one) > 0 {
			c.Violation("C18:transfer:debited-differs", "transfer", fmt.Sprintf("operator transfer of %q (= %s wei): the sender is debited %s", s, want, spent), k)
		}
	})
	if p {
		c.Violation("C18:transfer:panic:"+where, "transfer", fmt.Sprintf("panic %v for amount %q", v, s), k)
	}
	return
}

func transferPart(c *fw.Ctx, mine func() bool) {
	var cnt, judged int64
	one := func(s string) {
		if !mine() {
			return
		}
		cnt++
		if transferOne(c, s) {
			judged++
		}
	}
	ints := []string{"0", "1", "7", "8", "9", "10", "12", "17", "64", "77", "100", "127", "255", "377", "400", "777", "1000", "1234567", "18446744073709551615", "18446744073709551616", "100000000000000000000"}
	if c.Thorough() {
		for i := 0; i < 600; i++ {
			ints = append(ints, fmt.Sprint(i))
		}
	}
	pads := []string{"", "0", "00", "0000000000000000000"}
	fracs := []string{"", ".", ".0", ".5", ".05", ".000000000000000001", ".100000000000000000", ".123456789012345678"}
	for _, ip := range ints {
		for _, pad := range pads {
			for _, f := range fracs {
				one(pad + ip + f)
			}
		}
	}
	// other spellings the parser may or may not accept: whatever is accepted must denote what it says
	for _, s := range []string{"+1", "+010", "1e3", "1E3", "0x10", "0X10", "0b11", "0o17", "1_000", " 1", "1 ", "1.", ".5", "0.5e1", "010.5", "00.000000000000000010"} {
		one(s)
	}
	c.Count("transfer_amount_strings", cnt)
	c.Count("transfer_amount_strings_executed", judged)
	if cnt > 40 && judged*4 < cnt {
		c.Infra(fmt.Sprintf("transfer part vacuous: only %d of %d transfers executed", judged, cnt))
	}
}
